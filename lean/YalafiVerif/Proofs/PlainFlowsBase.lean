/-
  Proofs/PlainFlowsBase.lean — first half of the development of Proofs/PlainFlows.lean (see the header
  there): the declarations `flowDeclOk` (a macro whose second argument is detached into a flow, as
  `\footnote`, `\footnotetext`, `\caption` in the real tables) and `figEnvOk` (a float environment with
  one optional argument and nothing else, as `figure` and `table`), the expander level
  (`argBuffer_bracketE`, `collectArgs_flowO`, `expandMacro_flowO`, `beginEnvironment_fig0`,
  `beginEnvironment_figN`, `endEnvironment_fig`), the steps of the loop (`seq_call_step'`,
  `seq_callO_step`, `seq_fbeg_step`, `seq_fbegN_step`, `seq_fend_step`) and the loop on token buffers
  (`Piece`, `PiecesOk`, `outP`, `flowsOf`, `cost`, `seq_flows`).
-/
import YalafiVerif.Proofs.PlainExtract
import YalafiVerif.Proofs.PlainThmBase
namespace Yalafi
namespace PlainFlows

open M
open PlainMacro
open PlainFootnote (CopyTok BraceTok FlowSafe addFlow addFlows addFlows_nil addFlows_cons)
open PlainRef (chTok)
open PlainItem (begTok endTok skipSpace_sp skippedLangs_sp)
open PlainThm (NameToks SpToks HeadOk txtOf getEnvironmentName_copy)

/-! ### the declarations -/

/-- the declaration of a macro whose argument is detached, as far as the expander looks at it
    (`Macro(parms, '\\footnote', args='OA', repl='', extract='#2')`, the same for `\footnotetext` and
    `\caption`): argument codes `OA`, no handler, empty replacement, the extraction text is one
    reference to argument 2 -/
def flowDeclOk (m : MacroDef) : Bool := PlainFootnote.footMacroOk m

theorem callDeclOk_of_flow {m : MacroDef} (h : flowDeclOk m = true) : PlainExtract.callDeclOk m = true := by
  have F := PlainFootnote.macroFacts h
  obtain ⟨t, he, ht⟩ := F.extract
  simp [PlainExtract.callDeclOk, F.args, F.handler, F.repl, he, ht]

/-- `\name` is declared with `flowDeclOk` in `st`, and it is not `\def` -/
def FlowName (st : PState) (name : Str) : Prop :=
  ('\\' :: name) ≠ sDef ∧ ∃ m, lookupMacro st ('\\' :: name) = some m ∧ flowDeclOk m = true

def flowName (st : PState) (name : Str) : Bool :=
  ('\\' :: name) != sDef &&
  match lookupMacro st ('\\' :: name) with
  | some m => flowDeclOk m
  | none => false

theorem FlowName_of {st : PState} {name : Str} (h : flowName st name = true) : FlowName st name := by
  simp only [flowName, Bool.and_eq_true, bne_iff_ne, ne_eq] at h
  refine ⟨h.1, ?_⟩
  have h2 := h.2
  split at h2
  · exact ⟨_, ‹_›, h2⟩
  · cases h2

theorem FlowName.congr {st st' : PState} (hm : st'.macros = st.macros) {name : Str}
    (h : FlowName st name) : FlowName st' name := by
  obtain ⟨h0, m, h1, h2⟩ := h
  exact ⟨h0, m, by simpa [lookupMacro, hm] using h1, h2⟩

theorem FlowName.callTok {st : PState} {name : Str} (h : FlowName st name) (p : Nat) :
    PlainExtract.CallTok st (cwTok p name) := by
  obtain ⟨h0, m, h1, h2⟩ := h
  refine ⟨rfl, ?_, m, h1, callDeclOk_of_flow h2⟩
  simpa [txtIs, cwTok, sDef] using h0

/-- the declaration of a float environment the development relies on (as `figure` and `table` in the
    real tables): one optional argument, no replacement, no extraction, no handlers, no default
    values, no `add_pars`, no item labels, no equation environment, not removed -/
def figEnvOk (env : MacroDef) : Bool :=
  env.args == ['O'] && env.repl.isEmpty && env.extract.isEmpty && env.defaults.isEmpty &&
  env.handler == .none && env.endFunc == .none && env.items.isNone && !env.isEqu && !env.remove &&
  !env.addPars

structure FigEnvFacts (env : MacroDef) : Prop where
  args : env.args = ['O']
  repl : env.repl = []
  extract : env.extract = []
  defaults : env.defaults = []
  handler : env.handler = .none
  endFunc : env.endFunc = .none
  items : env.items = none
  isEqu : env.isEqu = false
  remove : env.remove = false
  addPars : env.addPars = false

theorem figEnvFacts {env : MacroDef} (h : figEnvOk env = true) : FigEnvFacts env := by
  simp only [figEnvOk, Bool.and_eq_true, beq_iff_eq, List.isEmpty_iff, Bool.not_eq_true',
    Option.isNone_iff_eq_none] at h
  obtain ⟨⟨⟨⟨⟨⟨⟨⟨⟨h1, h2⟩, h3⟩, h4⟩, h5⟩, h6⟩, h7⟩, h8⟩, h9⟩, h10⟩ := h
  exact ⟨h1, h2, h3, h4, h5, h6, h7, h8, h9, h10⟩

/-- `name` is declared as a float environment in `st` -/
def figEnvAt (st : PState) (name : Str) : Bool :=
  match lookupEnv st name with
  | some env => figEnvOk env
  | none => false

def FigEnvAt (st : PState) (name : Str) : Prop := ∃ env, lookupEnv st name = some env ∧ figEnvOk env = true

theorem FigEnvAt_of {st : PState} {name : Str} (h : figEnvAt st name = true) : FigEnvAt st name := by
  unfold figEnvAt at h
  split at h
  · exact ⟨_, ‹_›, h⟩
  · cases h

theorem FigEnvAt.congr {st st' : PState} (he : st'.envs = st.envs) {name : Str} (h : FigEnvAt st name) :
    FigEnvAt st' name := by
  obtain ⟨env, h1, h2⟩ := h
  exact ⟨env, by simpa [lookupEnv, he] using h1, h2⟩

/-! ### `[opt]`: the optional argument is collected, whatever it is -/

/-- a token of an optional argument: copied by the loop (in particular no brace, no comment), and it
    is not the closing bracket -/
def OptToks (T : PTables) (st : PState) (opt : List Tok) : Prop :=
  ∀ t ∈ opt, CopyTok T st t ∧ t.txt ≠ [']']

theorem OptToks.congr {T : PTables} {st st' : PState} (hl : st'.langStack = st.langStack)
    {opt : List Tok} (h : OptToks T st opt) : OptToks T st' opt :=
  fun t ht => ⟨(h t ht).1.congr hl, (h t ht).2⟩

theorem OptToks.nb {T : PTables} {st : PState} {opt : List Tok} (h : OptToks T st opt) :
    ∀ t ∈ opt, NoBrace t ∧ t.txt ≠ [']'] :=
  fun t ht => ⟨plainTok_noBrace (h t ht).1.plain, (h t ht).2⟩

/-- `arg_buffer` on `[opt]` (`opt` may be empty): some argument, the buffer behind `]`; no error -/
theorem argBuffer_bracketE (T : Tables) (p q : Nat) (opt : List Tok) (rest : Buf) (start : Nat)
    (st : PState) (h : ∀ t ∈ opt, NoBrace t ∧ t.txt ≠ [']']) :
    ∃ a, argBuffer T (chTok p '[' :: (opt ++ chTok q ']' :: rest)) start false st
      = .ok ((a, rest), st) := by
  have hc := PlainRef.collectArg_bracket q rest opt [] h
  refine ⟨if opt.isEmpty then [mkVoid p] else opt, ?_⟩
  have hp : argBufferPure T.mark (chTok p '[' :: (opt ++ chTok q ']' :: rest)) start false
      = { arg := if opt.isEmpty then [mkVoid p] else opt, buf := rest } := by
    unfold argBufferPure
    rw [skipSpace_cons_of_not _ _ (by rfl)]
    have h1 : ((chTok p '[').kind == Kind.par) = false := by rfl
    have h2 : txtIsNV (chTok p '[') "{" = false := by simp [txtIsNV, chTok]
    simp only [h1, h2, Bool.false_eq_true, if_false, Bool.false_and, hc,
      List.reverse_nil, List.nil_append]
    rfl
  unfold argBuffer
  rw [hp]
  rfl

/-- `collectArgs` on `[opt]{body}` for the signature `OA`: the optional argument is stored as the
    first argument, the body as the second -/
theorem collectArgs_flowO (T : PTables) (mac : MacroDef) (b1 b2 p q : Nat) (opt body : List Tok)
    (hopt : ∀ t ∈ opt, NoBrace t ∧ t.txt ≠ [']']) (hb : ∀ t ∈ body, NoBrace t) (hne : body ≠ [])
    (rest : Buf) (start : Nat) (st : PState) :
    ∃ a, collectArgs T mac ['O', 'A'] 0
        (chTok b1 '[' :: (opt ++ chTok b2 ']' :: lbr p :: (body ++ rbr q :: rest))) start {} st
      = .ok (({ args := [a, body], extr := [a, body], langs := [] }, rest), st) := by
  have hl : isSpaceTok (lbr p) = false := rfl
  have hbk : isSpaceTok (chTok b1 '[') = false := rfl
  have ha := argBuffer_brace T.toTables p q body rest p st hb hne
  obtain ⟨a, hn⟩ := argBuffer_bracketE T.toTables b1 b2 opt (lbr p :: (body ++ rbr q :: rest)) b1 st hopt
  refine ⟨a, ?_⟩
  rw [collectArgs]
  simp only [skippedLangs_cons_of_not _ _ hbk, skipSpace_cons_of_not _ _ hbk, List.append_nil,
    List.head?_cons, show ('O' == '*') = false by decide, beq_self_eq_true, if_true,
    show txtIsNV (chTok b1 '[') "[" = true by rfl]
  refine (M.bind_ok _ _ _ _ _ hn).trans ?_
  rw [collectArgs]
  simp only [skippedLangs_cons_of_not _ _ hl, skipSpace_cons_of_not _ _ hl, List.append_nil,
    List.head?_cons, show ('A' == '*') = false by decide, show ('A' == 'O') = false by decide,
    beq_self_eq_true, if_true, show txtIsNV (lbr p) "}" = false by rfl, Bool.false_eq_true, if_false]
  refine (M.bind_ok _ _ _ _ _ ha).trans ?_
  rw [collectArgs]
  rfl

theorem genRepl_extract2 (t : Tok) (ht : argRef t = some 2) (a b : List Tok) (h l : Tok) (start : Nat)
    (hh : b.head? = some h) (hl : b.getLast? = some l) :
    generateReplacements [a, b] [t] start = some (mkAction h.pos :: (b ++ [mkAction l.pos])) := by
  simp [generateReplacements, initCurPos, genReplLoop, ht, pyIndex, hh, hl]

/-- `expand_arguments` for `[opt]{body}`: the body is expanded and appended to `extracted`; NOTHING
    of the optional argument is used; the call yields one Action token -/
theorem expandArguments_flowO (T : PTables) (fuel : Nat) (mac : MacroDef) (b1 b2 p q : Nat)
    (opt body : List Tok) (rest : Buf) (start : Nat) (st : PState) (hm : PlainFootnote.MacroFacts mac)
    (hs : PlainExtract.StateFacts T st) (hopt : OptToks T st opt)
    (hb : ∀ t ∈ body, CopyTok T st t) (hne : body ≠ []) (hsafe : FlowSafe body)
    (hf : body.length + 4 ≤ fuel) :
    expandArguments T (fuel + 1)
        (chTok b1 '[' :: (opt ++ chTok b2 ']' :: lbr p :: (body ++ rbr q :: rest))) mac start st
      = .ok (([mkAction start], rest), addFlow st body) := by
  obtain ⟨t, he, ht⟩ := hm.extract
  obtain ⟨h, hh⟩ : ∃ h, body.head? = some h := by
    cases body with
    | nil => exact absurd rfl hne
    | cons a _ => exact ⟨a, rfl⟩
  obtain ⟨l, hl⟩ : ∃ l, body.getLast? = some l := by
    cases hx : body.getLast? with
    | none => rw [List.getLast?_eq_none_iff] at hx; exact absurd hx hne
    | some a => exact ⟨a, rfl⟩
  obtain ⟨a, hA⟩ := collectArgs_flowO T mac b1 b2 p q opt body hopt.nb
    (fun x hx => plainTok_noBrace (hb x hx).plain) hne rest start st
  rw [expandArguments.eq_2, hm.args]
  refine (M.bind_ok _ _ _ _ _ hA).trans ?_
  simp only [he, hm.handler, hm.repl, PlainFootnote.genRepl_nil]
  rw [if_pos (by simp)]
  refine (M.bind_ok _ _ _ _ _ (rfl : M.get st = _)).trans ?_
  simp only [genRepl_extract2 t ht a body h l start hh hl]
  refine (M.bind_ok _ _ _ _ _ (PlainExtract.seq_flow T st start _ h.pos l.pos body fuel hs hb hsafe hf)).trans ?_
  refine (M.bind_ok _ _ _ _ _ (rfl : M.modify _ _ = _)).trans ?_
  rw [if_neg (by simp)]
  rfl

/-- one call WITH optional argument in the loop: the macro token, its expansion, and the Action token
    that replaces it; the flow is appended to `extracted` -/
theorem seq_callO_step (T : PTables) (fuel : Nat) (pp b1 b2 p q : Nat) (name : Str)
    (opt body : List Tok) (rest : Buf) (envStop : Option Str) (out : List Tok) (st : PState)
    (hfn : FlowName st name) (hs : PlainExtract.StateFacts T st) (hopt : OptToks T st opt)
    (hb : ∀ t ∈ body, CopyTok T st t) (hne : body ≠ []) (hsafe : FlowSafe body)
    (hf : body.length + 4 ≤ fuel) :
    expandSequence T (fuel + 3)
        (cwTok pp name :: chTok b1 '[' :: (opt ++ chTok b2 ']' :: lbr p :: (body ++ rbr q :: rest)))
        envStop out st
      = expandSequence T (fuel + 1) rest envStop (out ++ [mkAction pp]) (addFlow st body) := by
  obtain ⟨hnd, mac, hmac, hmok⟩ := hfn
  have hsk : skipSpaceStopLangAct
      (chTok b1 '[' :: (opt ++ chTok b2 ']' :: lbr p :: (body ++ rbr q :: rest)))
      = chTok b1 '[' :: (opt ++ chTok b2 ']' :: lbr p :: (body ++ rbr q :: rest)) := by
    simp [skipSpaceStopLangAct, isSpaceTok, chTok]
  have hem : expandMacro T (fuel + 2)
      (chTok b1 '[' :: (opt ++ chTok b2 ']' :: lbr p :: (body ++ rbr q :: rest))) (cwTok pp name) false st
      = .ok (([mkAction pp], rest), addFlow st body) := by
    rw [expandMacro.eq_2]
    show M.bind' M.get _ st = _
    simp only [M.bind', M.get, show (cwTok pp name).txt = '\\' :: name from rfl, hmac, hsk]
    exact expandArguments_flowO T fuel mac b1 b2 p q opt body rest pp st (PlainFootnote.macroFacts hmok)
      hs hopt hb hne hsafe hf
  rw [PlainRef.cw_head T _ pp name _ envStop out st hnd]
  refine (M.bind_ok _ _ _ _ _ hem).trans ?_
  simp only [List.singleton_append]
  exact seq_action_step T (fuel + 1) pp _ envStop out _ (by
    have : noEmptyActive T (addFlow st body) = noEmptyActive T st := noEmptyActive_congr T st _ rfl
    rw [this]; exact hs.nea)

/-- one call without optional argument in the loop (`PlainExtract.seq_call_step`) -/
theorem seq_call_step' (T : PTables) (fuel : Nat) (pp p q : Nat) (name : Str)
    (body : List Tok) (rest : Buf) (envStop : Option Str) (out : List Tok) (st : PState)
    (hfn : FlowName st name) (hs : PlainExtract.StateFacts T st)
    (hb : ∀ t ∈ body, CopyTok T st t) (hne : body ≠ []) (hsafe : FlowSafe body)
    (hf : body.length + 4 ≤ fuel) :
    expandSequence T (fuel + 3) (cwTok pp name :: lbr p :: (body ++ rbr q :: rest)) envStop out st
      = expandSequence T (fuel + 1) rest envStop (out ++ [mkAction pp]) (addFlow st body) :=
  PlainExtract.seq_call_step T fuel (cwTok pp name) (lbr p) (rbr q) body rest envStop out st
    (hfn.callTok pp) hs ⟨Or.inl rfl, rfl⟩ ⟨Or.inl rfl, rfl⟩ hb hne hsafe hf

/-! ### float environments -/

/-- `collectArgs` for `O` on `[note]`, whatever the note is -/
theorem collectArgs_optE (T : PTables) (mac : MacroDef) (b1 b2 : Nat) (note : List Tok)
    (hnote : ∀ t ∈ note, NoBrace t ∧ t.txt ≠ [']']) (rest : Buf) (start : Nat) (st : PState) :
    ∃ a, collectArgs T mac ['O'] 0 (chTok b1 '[' :: (note ++ chTok b2 ']' :: rest)) start {} st
      = .ok (({ args := [a], extr := [a], langs := [] }, rest), st) := by
  have hb : isSpaceTok (chTok b1 '[') = false := rfl
  obtain ⟨a, hn⟩ := argBuffer_bracketE T.toTables b1 b2 note rest b1 st hnote
  refine ⟨a, ?_⟩
  rw [collectArgs]
  simp only [skippedLangs_cons_of_not _ _ hb, skipSpace_cons_of_not _ _ hb, List.append_nil,
    List.head?_cons, show ('O' == '*') = false by decide, beq_self_eq_true, if_true,
    show txtIsNV (chTok b1 '[') "[" = true by rfl]
  refine (M.bind_ok _ _ _ _ _ hn).trans ?_
  rw [collectArgs]
  rfl

theorem expandArguments_fig0 (T : PTables) (fuel : Nat) (env : MacroDef) (F : FigEnvFacts env)
    (sp rest : Buf) (start : Nat) (st : PState) (hsp : SpToks sp) (hh : HeadOk rest) :
    expandArguments T (fuel + 1) (sp ++ rest) env start st = .ok (([mkAction start], rest), st) := by
  rw [expandArguments.eq_2, F.args]
  refine (M.bind_ok _ _ _ _ _ (PlainThm.collectArgs_opt0 T env F.defaults sp rest start st hsp hh)).trans ?_
  simp only [F.extract, F.handler, F.repl, List.isEmpty_nil, Bool.not_true, Bool.false_eq_true, if_false,
    show (Handler.none != Handler.none) = false by decide, PlainFootnote.genRepl_nil]
  rfl

theorem expandArguments_figN (T : PTables) (fuel : Nat) (env : MacroDef) (F : FigEnvFacts env)
    (b1 b2 : Nat) (note : List Tok) (hnote : ∀ t ∈ note, NoBrace t ∧ t.txt ≠ [']'])
    (rest : Buf) (start : Nat) (st : PState) :
    expandArguments T (fuel + 1) (chTok b1 '[' :: (note ++ chTok b2 ']' :: rest)) env start st
      = .ok (([mkAction start], rest), st) := by
  obtain ⟨a, ha⟩ := collectArgs_optE T env b1 b2 note hnote rest start st
  rw [expandArguments.eq_2, F.args]
  refine (M.bind_ok _ _ _ _ _ ha).trans ?_
  simp only [F.extract, F.handler, F.repl, List.isEmpty_nil, Bool.not_true, Bool.false_eq_true, if_false,
    show (Handler.none != Handler.none) = false by decide, PlainFootnote.genRepl_nil]
  rfl

/-- **`\begin{name}` of a float environment, no placement**: two Action tokens; the white space behind
    `}` is skipped (the search for the optional argument eats it); the state is unchanged -/
theorem beginEnvironment_fig0 (T : PTables) (fuel : Nat) (p q : Nat) (nt : List Tok) (sp rest : Buf)
    (tok : Tok) (st : PState) (env : MacroDef) (h : NameToks T st nt) (hf : nt.length + 2 ≤ fuel)
    (hl : lookupEnv st (txtOf nt) = some env) (F : FigEnvFacts env) (hsp : SpToks sp)
    (hh : HeadOk rest) :
    beginEnvironment T (fuel + 2) (lbr p :: (nt ++ rbr q :: (sp ++ rest))) tok false st
      = .ok (([mkAction tok.pos, mkAction tok.pos], rest), st) := by
  obtain ⟨f, rfl⟩ : ∃ f, fuel = f + 1 := ⟨fuel - 1, by omega⟩
  rw [beginEnvironment.eq_2]
  refine (M.bind_ok _ _ _ _ _ (getEnvironmentName_copy T (f + 1) p q nt (sp ++ rest) tok st h hf)).trans ?_
  refine (M.bind_ok _ _ _ _ _ (rfl : M.get st = _)).trans ?_
  simp only [hl, F.items]
  refine (M.bind_ok _ _ _ _ _ (expandArguments_fig0 T (f + 1) env F sp rest tok.pos st hsp hh)).trans ?_
  simp only [F.isEqu, F.remove, Bool.false_eq_true, if_false]
  show Outcome.ok _ = _
  simp [F.addPars]

/-- **`\begin{name}[placement]` of a float environment**: two Action tokens; nothing of the placement
    appears; nothing behind `]` is skipped -/
theorem beginEnvironment_figN (T : PTables) (fuel : Nat) (p q b1 b2 : Nat) (nt note : List Tok)
    (rest : Buf) (tok : Tok) (st : PState) (env : MacroDef) (h : NameToks T st nt)
    (hf : nt.length + 2 ≤ fuel) (hl : lookupEnv st (txtOf nt) = some env) (F : FigEnvFacts env)
    (hnote : ∀ t ∈ note, NoBrace t ∧ t.txt ≠ [']']) :
    beginEnvironment T (fuel + 2)
        (lbr p :: (nt ++ rbr q :: chTok b1 '[' :: (note ++ chTok b2 ']' :: rest))) tok false st
      = .ok (([mkAction tok.pos, mkAction tok.pos], rest), st) := by
  obtain ⟨f, rfl⟩ : ∃ f, fuel = f + 1 := ⟨fuel - 1, by omega⟩
  rw [beginEnvironment.eq_2]
  refine (M.bind_ok _ _ _ _ _ (getEnvironmentName_copy T (f + 1) p q nt _ tok st h hf)).trans ?_
  refine (M.bind_ok _ _ _ _ _ (rfl : M.get st = _)).trans ?_
  simp only [hl, F.items]
  refine (M.bind_ok _ _ _ _ _ (expandArguments_figN T (f + 1) env F b1 b2 note hnote rest tok.pos st)).trans ?_
  simp only [F.isEqu, F.remove, Bool.false_eq_true, if_false]
  show Outcome.ok _ = _
  simp [F.addPars]

/-- **`\end{name}` of a float environment**: one Action token; the state is unchanged -/
theorem endEnvironment_fig (T : PTables) (fuel : Nat) (p q : Nat) (nt : List Tok) (rest : Buf)
    (tok : Tok) (st : PState) (env : MacroDef) (h : NameToks T st nt) (hf : nt.length + 2 ≤ fuel)
    (hl : lookupEnv st (txtOf nt) = some env) (F : FigEnvFacts env) :
    endEnvironment T (fuel + 2) (lbr p :: (nt ++ rbr q :: rest)) tok none st
      = .ok ((([mkAction tok.pos], false), rest), st) := by
  rw [endEnvironment.eq_2]
  refine (M.bind_ok _ _ _ _ _ (getEnvironmentName_copy T fuel p q nt rest tok st h hf)).trans ?_
  refine (M.bind_ok _ _ _ _ _ (rfl : M.get st = _)).trans ?_
  simp only [hl, F.items, F.endFunc, Option.isSome_none, Bool.false_and, Bool.false_eq_true, if_false,
    beq_self_eq_true, if_true]
  show Outcome.ok _ = _
  simp [F.addPars]

/-- **`\begin{name}` of a float environment in the loop, no placement** -/
theorem seq_fbeg_step (T : PTables) (fuel : Nat) (p q1 q2 : Nat) (nt : List Tok) (sp rest : Buf)
    (envStop : Option Str) (out : List Tok) (st : PState) (ha : noEmptyActive T st = true)
    (h : NameToks T st nt) (he : FigEnvAt st (txtOf nt)) (hsp : SpToks sp) (hh : HeadOk rest)
    (hf : nt.length + 4 ≤ fuel) :
    expandSequence T (fuel + 1) (begTok p :: lbr q1 :: (nt ++ rbr q2 :: (sp ++ rest))) envStop out st
      = expandSequence T (fuel - 2) rest envStop (out ++ [mkAction p, mkAction p]) st := by
  obtain ⟨env, hl, hok⟩ := he
  obtain ⟨f, rfl⟩ : ∃ f, fuel = f + 2 := ⟨fuel - 2, by omega⟩
  rw [expandSequence.eq_3]
  show M.bind' M.get _ st = _
  simp only [M.bind', M.get]
  have hk : (begTok p).kind = .xbegin := rfl
  simp only [hk, beq_self_eq_true, if_true]
  refine (M.bind_ok _ _ _ _ _ (beginEnvironment_fig0 T f q1 q2 nt sp rest (begTok p) st env h
    (by omega) hl (figEnvFacts hok) hsp hh)).trans ?_
  show expandSequence T (f + 1 + 1) (mkAction p :: mkAction p :: rest) envStop out st = _
  rw [seq_action_step T _ p _ envStop _ st ha, seq_action_step T _ p _ envStop _ st ha]
  simp

/-- **`\begin{name}[placement]` of a float environment in the loop** -/
theorem seq_fbegN_step (T : PTables) (fuel : Nat) (p q1 q2 b1 b2 : Nat) (nt note : List Tok)
    (rest : Buf) (envStop : Option Str) (out : List Tok) (st : PState)
    (ha : noEmptyActive T st = true) (h : NameToks T st nt) (he : FigEnvAt st (txtOf nt))
    (hnote : OptToks T st note) (hf : nt.length + 4 ≤ fuel) :
    expandSequence T (fuel + 1)
        (begTok p :: lbr q1 :: (nt ++ rbr q2 :: chTok b1 '[' :: (note ++ chTok b2 ']' :: rest)))
        envStop out st
      = expandSequence T (fuel - 2) rest envStop (out ++ [mkAction p, mkAction p]) st := by
  obtain ⟨env, hl, hok⟩ := he
  obtain ⟨f, rfl⟩ : ∃ f, fuel = f + 2 := ⟨fuel - 2, by omega⟩
  rw [expandSequence.eq_3]
  show M.bind' M.get _ st = _
  simp only [M.bind', M.get]
  have hk : (begTok p).kind = .xbegin := rfl
  simp only [hk, beq_self_eq_true, if_true]
  refine (M.bind_ok _ _ _ _ _ (beginEnvironment_figN T f q1 q2 b1 b2 nt note rest (begTok p) st env h
    (by omega) hl (figEnvFacts hok) hnote.nb)).trans ?_
  show expandSequence T (f + 1 + 1) (mkAction p :: mkAction p :: rest) envStop out st = _
  rw [seq_action_step T _ p _ envStop _ st ha, seq_action_step T _ p _ envStop _ st ha]
  simp

/-- **`\end{name}` of a float environment in the loop** -/
theorem seq_fend_step (T : PTables) (fuel : Nat) (p q1 q2 : Nat) (nt : List Tok) (rest : Buf)
    (out : List Tok) (st : PState) (ha : noEmptyActive T st = true) (h : NameToks T st nt)
    (he : FigEnvAt st (txtOf nt)) (hf : nt.length + 4 ≤ fuel) :
    expandSequence T (fuel + 1) (endTok p :: lbr q1 :: (nt ++ rbr q2 :: rest)) none out st
      = expandSequence T (fuel - 1) rest none (out ++ [mkAction p]) st := by
  obtain ⟨env, hl, hok⟩ := he
  obtain ⟨f, rfl⟩ : ∃ f, fuel = f + 2 := ⟨fuel - 2, by omega⟩
  rw [expandSequence.eq_3]
  show M.bind' M.get _ st = _
  simp only [M.bind', M.get]
  have hk : (endTok p).kind = .xend := rfl
  simp only [hk, beq_self_eq_true, if_true, reduceCtorEq, beq_iff_eq, if_false]
  refine (M.bind_ok _ _ _ _ _ (endEnvironment_fig T f q1 q2 nt rest (endTok p) st env h
    (by omega) hl (figEnvFacts hok))).trans ?_
  simp only [Bool.false_eq_true, if_false]
  show expandSequence T (f + 1 + 1) (mkAction p :: rest) none out st = _
  rw [seq_action_step T _ p _ none _ st ha]
  rfl

/-! ### the token buffers -/

/-- the pieces of a token buffer: a token that is copied; `\name { body }`; `\name [ opt ] { body }`;
    `\begin { name }` and white space; `\begin { name } [ note ]`; `\end { name }` -/
inductive Piece where
  | tok (t : Tok)
  | call (p q1 q2 : Nat) (name : Str) (body : List Tok)
  | callO (p b1 b2 q1 q2 : Nat) (name : Str) (opt body : List Tok)
  | beg (p q1 q2 : Nat) (nt sp : List Tok)
  | begN (p q1 q2 b1 b2 : Nat) (nt note : List Tok)
  | en (p q1 q2 : Nat) (nt : List Tok)

def Piece.toks : Piece → List Tok
  | .tok t => [t]
  | .call p q1 q2 name body => cwTok p name :: lbr q1 :: (body ++ [rbr q2])
  | .callO p b1 b2 q1 q2 name opt body =>
    cwTok p name :: chTok b1 '[' :: (opt ++ chTok b2 ']' :: lbr q1 :: (body ++ [rbr q2]))
  | .beg p q1 q2 nt sp => begTok p :: lbr q1 :: (nt ++ rbr q2 :: sp)
  | .begN p q1 q2 b1 b2 nt note =>
    begTok p :: lbr q1 :: (nt ++ rbr q2 :: chTok b1 '[' :: (note ++ [chTok b2 ']']))
  | .en p q1 q2 nt => endTok p :: lbr q1 :: (nt ++ [rbr q2])

/-- the token buffer -/
def flat : List Piece → List Tok
  | [] => []
  | p :: ps => p.toks ++ flat ps

def PiecesOk (T : PTables) (st : PState) : List Piece → Prop
  | [] => True
  | .tok t :: rest => PlainTok t ∧ PassTok T st t (flat rest) ∧ PiecesOk T st rest
  | .call _ _ _ name b :: rest =>
    FlowName st name ∧ b ≠ [] ∧ (∀ t ∈ b, CopyTok T st t) ∧ FlowSafe b ∧ PiecesOk T st rest
  | .callO _ _ _ _ _ name opt b :: rest =>
    FlowName st name ∧ OptToks T st opt ∧ b ≠ [] ∧ (∀ t ∈ b, CopyTok T st t) ∧ FlowSafe b ∧
      PiecesOk T st rest
  | .beg _ _ _ nt sp :: rest =>
    NameToks T st nt ∧ FigEnvAt st (txtOf nt) ∧ SpToks sp ∧ HeadOk (flat rest) ∧ PiecesOk T st rest
  | .begN _ _ _ _ _ nt note :: rest =>
    NameToks T st nt ∧ FigEnvAt st (txtOf nt) ∧ OptToks T st note ∧ PiecesOk T st rest
  | .en _ _ _ nt :: rest => NameToks T st nt ∧ FigEnvAt st (txtOf nt) ∧ PiecesOk T st rest

/-- what `expandSequence` emits into the main flow before the blank-line removal: a call leaves one
    Action token at the position of its backslash, `\begin{…}` two, `\end{…}` one -/
def outP : List Piece → List Tok
  | [] => []
  | .tok t :: rest => t :: outP rest
  | .call p _ _ _ _ :: rest => mkAction p :: outP rest
  | .callO p _ _ _ _ _ _ _ :: rest => mkAction p :: outP rest
  | .beg p _ _ _ _ :: rest => mkAction p :: mkAction p :: outP rest
  | .begN p _ _ _ _ _ _ :: rest => mkAction p :: mkAction p :: outP rest
  | .en p _ _ _ :: rest => mkAction p :: outP rest

/-- the detached flows, in order -/
def flowsOf : List Piece → List (List Tok)
  | [] => []
  | .call _ _ _ _ b :: rest => b :: flowsOf rest
  | .callO _ _ _ _ _ _ _ b :: rest => b :: flowsOf rest
  | _ :: rest => flowsOf rest

/-- fuel: one unit per copied token; for a call `|body tokens| + 4` (it costs two iterations of the
    loop, but its expansion needs `|body tokens| + 7` units when the loop reaches it: the loop lemma
    asks for three units more than `cost`); for `\begin` / `\end` the name and five -/
def cost : List Piece → Nat
  | [] => 0
  | .tok _ :: rest => 1 + cost rest
  | .call _ _ _ _ b :: rest => b.length + 4 + cost rest
  | .callO _ _ _ _ _ _ _ b :: rest => b.length + 4 + cost rest
  | .beg _ _ _ nt _ :: rest => nt.length + 5 + cost rest
  | .begN _ _ _ _ _ nt _ :: rest => nt.length + 5 + cost rest
  | .en _ _ _ nt :: rest => nt.length + 5 + cost rest

/-- the conditions depend on the state only through the language stack, the macros and the
    environments -/
theorem PiecesOk.congr {T : PTables} {st st' : PState} (hl : st'.langStack = st.langStack)
    (hm : st'.macros = st.macros) (he : st'.envs = st.envs) :
    ∀ {ps : List Piece}, PiecesOk T st ps → PiecesOk T st' ps
  | [], _ => trivial
  | .tok _ :: _, h => ⟨h.1, PassTok_congr hl h.2.1, PiecesOk.congr hl hm he h.2.2⟩
  | .call _ _ _ _ _ :: _, h =>
    ⟨h.1.congr hm, h.2.1, fun t ht => (h.2.2.1 t ht).congr hl, h.2.2.2.1,
      PiecesOk.congr hl hm he h.2.2.2.2⟩
  | .callO _ _ _ _ _ _ _ _ :: _, h =>
    ⟨h.1.congr hm, h.2.1.congr hl, h.2.2.1, fun t ht => (h.2.2.2.1 t ht).congr hl, h.2.2.2.2.1,
      PiecesOk.congr hl hm he h.2.2.2.2.2⟩
  | .beg _ _ _ _ _ :: _, h =>
    ⟨h.1.congr hl, h.2.1.congr he, h.2.2.1, h.2.2.2.1, PiecesOk.congr hl hm he h.2.2.2.2⟩
  | .begN _ _ _ _ _ _ _ :: _, h =>
    ⟨h.1.congr hl, h.2.1.congr he, h.2.2.1.congr hl, PiecesOk.congr hl hm he h.2.2.2⟩
  | .en _ _ _ _ :: _, h => ⟨h.1.congr hl, h.2.1.congr he, PiecesOk.congr hl hm he h.2.2⟩

/-- **the loop on a buffer of copied tokens, calls with detached argument and float environments.**
    The main output is the blank-line removal applied to `outP`; the bodies are appended to
    `extracted`, in order; nothing else in the state changes. -/
theorem seq_flows (T : PTables) :
    ∀ (ps : List Piece) (fuel : Nat) (out : List Tok) (st : PState),
      cost ps + 3 ≤ fuel → PiecesOk T st ps → PlainExtract.StateFacts T st →
      expandSequence T fuel (flat ps) none out st
        = match removeLines (out ++ outP ps) with
          | some r => .ok ((r, []), addFlows st (flowsOf ps))
          | none => .outOfFuel := by
  intro ps
  induction ps with
  | nil =>
    intro fuel out st hf _ _
    obtain ⟨f, rfl⟩ : ∃ f, fuel = f + 1 := ⟨fuel - 1, by omega⟩
    simp only [flat, outP, flowsOf, addFlows_nil, List.append_nil]
    rw [expandSequence.eq_2]
    cases removeLines out <;> rfl
  | cons pc ps ih =>
    intro fuel out st hf hok hs
    cases pc with
    | tok t =>
      simp only [cost] at hf
      obtain ⟨f, rfl⟩ : ∃ f, fuel = f + 1 := ⟨fuel - 1, by omega⟩
      simp only [flat, Piece.toks, List.singleton_append]
      rw [seq_plain_step T f t (flat ps) none out st hok.1 hok.2.1,
        ih f (out ++ [t]) st (by omega) hok.2.2 hs]
      simp only [outP, flowsOf, List.append_assoc, List.singleton_append]
    | call p q1 q2 name b =>
      obtain ⟨hfn, hne, hb, hsafe, hrest⟩ := hok
      simp only [cost] at hf
      obtain ⟨f, rfl⟩ : ∃ f, fuel = f + 3 := ⟨fuel - 3, by omega⟩
      have hflat : flat (Piece.call p q1 q2 name b :: ps)
          = cwTok p name :: lbr q1 :: (b ++ rbr q2 :: flat ps) := by
        simp [flat, Piece.toks]
      have hbl : 1 ≤ b.length := List.length_pos_iff.mpr hne
      rw [hflat, seq_call_step' T f p q1 q2 name b (flat ps) none out st hfn hs hb hne hsafe (by omega),
        ih (f + 1) (out ++ [mkAction p]) (addFlow st b) (by omega)
          (PiecesOk.congr (st := st) (st' := addFlow st b) rfl rfl rfl hrest)
          (hs.congr (st' := addFlow st b) rfl rfl)]
      simp only [outP, flowsOf, addFlows_cons, List.append_assoc, List.singleton_append]
    | callO p b1 b2 q1 q2 name opt b =>
      obtain ⟨hfn, hopt, hne, hb, hsafe, hrest⟩ := hok
      simp only [cost] at hf
      obtain ⟨f, rfl⟩ : ∃ f, fuel = f + 3 := ⟨fuel - 3, by omega⟩
      have hflat : flat (Piece.callO p b1 b2 q1 q2 name opt b :: ps)
          = cwTok p name :: chTok b1 '[' :: (opt ++ chTok b2 ']' :: lbr q1 :: (b ++ rbr q2 :: flat ps)) := by
        simp [flat, Piece.toks]
      have hbl : 1 ≤ b.length := List.length_pos_iff.mpr hne
      rw [hflat, seq_callO_step T f p b1 b2 q1 q2 name opt b (flat ps) none out st hfn hs hopt hb hne
          hsafe (by omega),
        ih (f + 1) (out ++ [mkAction p]) (addFlow st b) (by omega)
          (PiecesOk.congr (st := st) (st' := addFlow st b) rfl rfl rfl hrest)
          (hs.congr (st' := addFlow st b) rfl rfl)]
      simp only [outP, flowsOf, addFlows_cons, List.append_assoc, List.singleton_append]
    | beg p q1 q2 nt sp =>
      obtain ⟨hn, he, hsp, hh, hrest⟩ := hok
      simp only [cost] at hf
      obtain ⟨f, rfl⟩ : ∃ f, fuel = f + 1 := ⟨fuel - 1, by omega⟩
      have hflat : flat (Piece.beg p q1 q2 nt sp :: ps)
          = begTok p :: lbr q1 :: (nt ++ rbr q2 :: (sp ++ flat ps)) := by
        simp [flat, Piece.toks]
      rw [hflat, seq_fbeg_step T f p q1 q2 nt sp (flat ps) none out st hs.nea hn he hsp hh (by omega),
        ih (f - 2) _ st (by omega) hrest hs]
      simp only [outP, flowsOf, List.append_assoc, List.cons_append, List.nil_append]
    | begN p q1 q2 b1 b2 nt note =>
      obtain ⟨hn, he, hnote, hrest⟩ := hok
      simp only [cost] at hf
      obtain ⟨f, rfl⟩ : ∃ f, fuel = f + 1 := ⟨fuel - 1, by omega⟩
      have hflat : flat (Piece.begN p q1 q2 b1 b2 nt note :: ps)
          = begTok p :: lbr q1 :: (nt ++ rbr q2 :: chTok b1 '[' :: (note ++ chTok b2 ']' :: flat ps)) := by
        simp [flat, Piece.toks]
      rw [hflat, seq_fbegN_step T f p q1 q2 b1 b2 nt note (flat ps) none out st hs.nea hn he hnote
          (by omega),
        ih (f - 2) _ st (by omega) hrest hs]
      simp only [outP, flowsOf, List.append_assoc, List.cons_append, List.nil_append]
    | en p q1 q2 nt =>
      obtain ⟨hn, he, hrest⟩ := hok
      simp only [cost] at hf
      obtain ⟨f, rfl⟩ : ∃ f, fuel = f + 1 := ⟨fuel - 1, by omega⟩
      have hflat : flat (Piece.en p q1 q2 nt :: ps)
          = endTok p :: lbr q1 :: (nt ++ rbr q2 :: flat ps) := by
        simp [flat, Piece.toks]
      rw [hflat, seq_fend_step T f p q1 q2 nt (flat ps) out st hs.nea hn he (by omega),
        ih (f - 1) _ st (by omega) hrest hs]
      simp only [outP, flowsOf, List.append_assoc, List.cons_append, List.nil_append]

theorem PiecesOk.notComment {T : PTables} {st : PState} : ∀ {ps : List Piece},
    PiecesOk T st ps → ∀ t ∈ flat ps, t.kind ≠ .comment
  | [], _, _, h => by simp [flat] at h
  | .tok t :: rest, hok, x, hx => by
    simp only [flat, Piece.toks, List.singleton_append, List.mem_cons] at hx
    rcases hx with rfl | hx
    · exact hok.1.notComment
    · exact PiecesOk.notComment hok.2.2 x hx
  | .call p q1 q2 name b :: rest, hok, x, hx => by
    obtain ⟨_, _, hb, _, hrest⟩ := hok
    simp only [flat, Piece.toks, List.cons_append, List.append_assoc, List.mem_cons,
      List.mem_append, List.nil_append] at hx
    rcases hx with rfl | rfl | hx | rfl | hx
    · simp [cwTok]
    · simp [lbr]
    · exact (hb x hx).plain.notComment
    · simp [rbr]
    · exact PiecesOk.notComment hrest x hx
  | .callO p b1 b2 q1 q2 name opt b :: rest, hok, x, hx => by
    obtain ⟨_, hopt, _, hb, _, hrest⟩ := hok
    simp only [flat, Piece.toks, List.cons_append, List.append_assoc, List.mem_cons,
      List.mem_append, List.nil_append] at hx
    rcases hx with rfl | rfl | hx | rfl | rfl | hx | rfl | hx
    · simp [cwTok]
    · simp [chTok]
    · exact (hopt x hx).1.plain.notComment
    · simp [chTok]
    · simp [lbr]
    · exact (hb x hx).plain.notComment
    · simp [rbr]
    · exact PiecesOk.notComment hrest x hx
  | .beg p q1 q2 nt sp :: rest, hok, x, hx => by
    obtain ⟨hn, _, hsp, _, hrest⟩ := hok
    simp only [flat, Piece.toks, List.cons_append, List.append_assoc, List.mem_cons,
      List.mem_append] at hx
    rcases hx with rfl | rfl | hx | rfl | hx | hx
    · simp [begTok]
    · simp [lbr]
    · exact hn.notComment x hx
    · simp [rbr]
    · simp [hsp x hx]
    · exact PiecesOk.notComment hrest x hx
  | .begN p q1 q2 b1 b2 nt note :: rest, hok, x, hx => by
    obtain ⟨hn, _, hnote, hrest⟩ := hok
    simp only [flat, Piece.toks, List.cons_append, List.append_assoc, List.mem_cons,
      List.mem_append, List.nil_append] at hx
    rcases hx with rfl | rfl | hx | rfl | rfl | hx | rfl | hx
    · simp [begTok]
    · simp [lbr]
    · exact hn.notComment x hx
    · simp [rbr]
    · simp [chTok]
    · exact (hnote x hx).1.plain.notComment
    · simp [chTok]
    · exact PiecesOk.notComment hrest x hx
  | .en p q1 q2 nt :: rest, hok, x, hx => by
    obtain ⟨hn, _, hrest⟩ := hok
    simp only [flat, Piece.toks, List.cons_append, List.append_assoc, List.mem_cons,
      List.mem_append, List.nil_append] at hx
    rcases hx with rfl | rfl | hx | rfl | hx
    · simp [endTok]
    · simp [lbr]
    · exact hn.notComment x hx
    · simp [rbr]
    · exact PiecesOk.notComment hrest x hx

end PlainFlows
end Yalafi
