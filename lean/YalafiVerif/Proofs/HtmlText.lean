/-
  Proofs/HtmlText.lean — the theorems about the text of the HTML report that Properties/C16.lean states:
  `title_safe`, `href_safe` (a), `tags_from_templates` (b), `highlight_pieces`, `generateHighlight_ok` (d);
  (c) is `unprotect_protectHtml` of Proofs/HtmlTextEsc.lean.
-/
import YalafiVerif.Proofs.HtmlTextLits
namespace Yalafi
namespace HtmlText
open Html

/-! ### (a) the attributes of the tag of a match -/

theorem count_eq_zero_of_forall_ne {s : Str} {a : Char} (h : ∀ c ∈ s, c ≠ a) : s.count a = 0 :=
  List.count_eq_zero.2 (fun hm => h a hm rfl)

/-- the `title` attribute: what the pieces are, and which characters the value contains -/
theorem title_safe (V : Vars) (m : Json) (lin : Int) (unsure : Bool) (t : Tag)
    (h : beginMatch V m lin unsure = .ok t) :
    ∃ d style url, matchData m = .ok d ∧
      t.1 = spanOpen style (titlePieces d lin unsure) ++ linkOpen url ∧ t.2 = linkClose url ∧
      (∀ p ∈ titlePieces d lin unsure,
          (∃ s, p = .escTitle s) ∨ p = L "\n" ∨ p = L "Suggestion: " ∨ p = L "Context: ") ∧
      (∀ c ∈ renderPieces (titlePieces d lin unsure), c ≠ '"' ∧ c ≠ '<' ∧ c ≠ '>') ∧
      (renderPieces (titlePieces d lin unsure)).count '\n' = 3 := by
  obtain ⟨d, style, url, hd, _, _, rfl⟩ := beginMatch_ok V m lin unsure t h
  refine ⟨d, style, url, hd, rfl, rfl, ?_, ?_, ?_⟩
  · intro p hp
    simp only [titlePieces, List.mem_cons, List.not_mem_nil, or_false] at hp
    rcases hp with h | h | h | h | h | h | h | h | h | h <;> subst h <;> simp
  · intro c hc
    simp only [titlePieces, renderPieces, List.flatMap_cons, List.flatMap_nil, TPiece.render, L, List.append_nil,
      List.mem_append] at hc
    have hl1 : ∀ c ∈ "\n".toList, c ≠ '"' ∧ c ≠ '<' ∧ c ≠ '>' := by decide
    have hl2 : ∀ c ∈ "Suggestion: ".toList, c ≠ '"' ∧ c ≠ '<' ∧ c ≠ '>' := by decide
    have hl3 : ∀ c ∈ "Context: ".toList, c ≠ '"' ∧ c ≠ '<' ∧ c ≠ '>' := by decide
    have pt := fun s hc => (protectTitle_safe s c hc)
    rcases hc with hc | hc | hc | hc | hc | hc | hc | hc | hc | hc
    · exact ⟨(pt _ hc).1, (pt _ hc).2.1, (pt _ hc).2.2.1⟩
    · exact hl1 c hc
    · exact ⟨(pt _ hc).1, (pt _ hc).2.1, (pt _ hc).2.2.1⟩
    · exact ⟨(pt _ hc).1, (pt _ hc).2.1, (pt _ hc).2.2.1⟩
    · exact hl1 c hc
    · exact hl2 c hc
    · exact ⟨(pt _ hc).1, (pt _ hc).2.1, (pt _ hc).2.2.1⟩
    · exact hl1 c hc
    · exact hl3 c hc
    · exact ⟨(pt _ hc).1, (pt _ hc).2.1, (pt _ hc).2.2.1⟩
  · have z : ∀ s, (protectTitle s).count '\n' = 0 :=
      fun s => count_eq_zero_of_forall_ne (fun c hc => (protectTitle_safe s c hc).2.2.2)
    simp only [titlePieces, renderPieces, List.flatMap_cons, List.flatMap_nil, TPiece.render, L, List.append_nil,
      List.count_append, z]
    decide

/-- the `href` attribute of `--link` -/
theorem href_safe (u : Str) :
    linkOpen (some u) = [L "<a href=\"", .escAttr u, L "\" target=\"_blank\">"] ∧
    ∀ c ∈ htmlEscape u, c ≠ '"' ∧ c ≠ '<' ∧ c ≠ '>' ∧ c ≠ '\'' :=
  ⟨rfl, htmlEscape_safe u⟩

/-! ### (b) the tags of the report of one file -/

/-- the report of one file is the rendering of `reportPieces`; every literal in it is a template of the
    program, every data piece stands where it is harmless; its tags are computed from the literals and the
    numbers of line breaks alone (`skel`), and are the same for any other data of the same shape -/
theorem tags_from_templates (T : Tables) (V : Vars) (tex : Str) (charmap : List Int) (ms : List Json) (file : Str)
    (context : Nat) (r : FileReport) (hV : VarsOk V) (hf : file.all (· != '"') = true)
    (h : generateHtmlText T V tex charmap ms file context = .ok r) :
    ∃ rep tags, generateHtml T tex charmap (olPrefix ms) context = .ok rep ∧ matchTags V ms rep.hdata = .ok tags ∧
      r.body = renderPieces (reportPieces V file ms.length rep tags) ∧
      AllOk V file (reportPieces V file ms.length rep tags) ∧
      flow .text (reportPieces V file ms.length rep tags) = some .text ∧
      scan .text r.body = (.text, skel .text (reportPieces V file ms.length rep tags)) ∧
      (∀ qs, qs.map TPiece.shape = (reportPieces V file ms.length rep tags).map TPiece.shape →
        tagsOf (renderPieces qs) = tagsOf r.body) ∧
      tagsOf (renderPieces ((reportPieces V file ms.length rep tags).map TPiece.blank)) = tagsOf r.body := by
  obtain ⟨rep, _, hrep, hasm⟩ := generateHtmlText_ok T V tex charmap ms file context r h
  obtain ⟨tags, htags, hbody, _, _, _⟩ := assemble_pieces V hV ms file rep r hasm
  have hfl := flow_reportPieces V hV file hf ms.length rep tags (matchTags_tagOk V hV ms rep.hdata tags htags)
  refine ⟨rep, tags, hrep, htags, hbody, ?_, hfl, ?_, ?_, ?_⟩
  · exact allOk_reportPieces V file ms.length rep tags (matchTags_allOk V file ms rep.hdata tags htags)
  · rw [hbody]; exact scan_render _ _ _ hfl
  · intro qs hqs; rw [hbody]; exact tagsOf_shape _ _ _ hfl hqs
  · rw [hbody]; exact tagsOf_blank _ _ hfl

/-! ### (d) generate_highlight -/

theorem phStep_noNl (c : Char) (hc : c ≠ '\n') : ∀ d ∈ phStep c, d ≠ '\n' ∧ d ≠ '>' := by
  unfold phStep
  split; · decide
  split; · decide
  split; · decide
  split; · decide
  split; · decide
  split; · decide
  split; · rename_i h; simp only [beq_iff_eq] at h; exact absurd h hc
  rename_i h1 h2 h3 h4 h5 h6 h7; simp only [beq_iff_eq] at h4
  intro d hd; simp only [List.mem_singleton] at hd; subst hd; exact ⟨hc, h4⟩

theorem protectHtml_line (l : Str) (h : '\n' ∉ l) : ∀ c ∈ protectHtml l, c ≠ '<' ∧ c ≠ '>' ∧ c ≠ '\n' ∧ c ≠ '"' := by
  intro c hc
  refine ⟨protectHtml_noLt l h c hc, ?_, ?_, fun e => protectHtml_no_quote l (e ▸ hc)⟩
  all_goals
    rw [protectHtml_eq] at hc
    simp only [List.mem_flatMap] at hc
    obtain ⟨d, hd, hc⟩ := hc
    have := phStep_noNl d (fun e => h (e ▸ hd)) c hc
  · exact this.2
  · exact this.1

/-- `generate_highlight`: one tag pair per line piece of the text; the text between a tag pair contains no
    line break and no `<`/`>`; the line pieces are the text cut at its line breaks (only the last piece can
    lack the line break, and then it is not empty); without the tags the result is the protected text -/
theorem highlight_pieces (pre post s : Str) :
    highlightWith pre post s = (hlLines s).flatMap (fun l => pre ++ protectHtml l.1 ++ post ++ brGroup2 l.2) ∧
    (∀ l ∈ hlLines s, '\n' ∉ l.1 ∧ ∀ c ∈ protectHtml l.1, c ≠ '<' ∧ c ≠ '>' ∧ c ≠ '\n' ∧ c ≠ '"') ∧
    joinLines (hlLines s) = s ∧
    ((hlLines s).filter (·.2)).length = s.count '\n' ∧
    (∃ (ls : List Str) (last : Str),
        hlLines s = ls.map (fun l => (l, true)) ++ (if last.isEmpty then [] else [(last, false)])) ∧
    highlightWith [] [] s = protectHtml s := by
  refine ⟨highlightWith_eq pre post s, ?_, ?_, hlLinesAux_count [] s, hlLinesAux_shape [] s, highlightWith_strip s⟩
  · intro l hl
    have := hlLinesAux_no_nl [] s (by simp) l hl
    exact ⟨this, protectHtml_line l.1 this⟩
  · have := hlLinesAux_join [] s
    simpa [hlLines] using this

theorem generateHighlight_ok (V : Vars) (m : Json) (s : Str) (lin : Int) (unsure : Bool) (out : Str)
    (h : generateHighlight V m s lin unsure = .ok out) :
    ∃ t, beginMatch V m lin unsure = .ok t ∧ out = highlightWith (Tag.pre t) (Tag.post t) s := by
  unfold generateHighlight at h
  split at h
  · rename_i t ht; cases h; exact ⟨t, ht, rfl⟩
  · cases h
  · cases h

end HtmlText
end Yalafi
