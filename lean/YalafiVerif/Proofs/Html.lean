/-
  Proofs/Html.lean — theorems about the structure of the HTML report (Model/Html.lean).
-/
import YalafiVerif.Model.Html

deriving instance DecidableEq for Yalafi.SOut

namespace Yalafi
namespace Html

/-! ### line starts -/

theorem aux_gt (i : Nat) (s : Str) : ∀ p ∈ lineStartsAux i s, i < p := by
  induction s generalizing i with
  | nil => simp [lineStartsAux]
  | cons c cs ih =>
    intro p hp
    simp only [lineStartsAux] at hp
    split at hp
    · rcases List.mem_cons.mp hp with h | h
      · omega
      · have := ih (i + 1) p h; omega
    · have := ih (i + 1) p hp; omega

theorem aux_pairwise (i : Nat) (s : Str) : (lineStartsAux i s).Pairwise (· < ·) := by
  induction s generalizing i with
  | nil => simp [lineStartsAux]
  | cons c cs ih =>
    simp only [lineStartsAux]
    split
    · exact List.pairwise_cons.mpr ⟨fun p hp => aux_gt (i + 1) cs p hp, ih (i + 1)⟩
    · exact ih (i + 1)

theorem aux_length (i : Nat) (s : Str) : (lineStartsAux i s).length = s.count '\n' := by
  induction s generalizing i with
  | nil => simp [lineStartsAux]
  | cons c cs ih =>
    simp only [lineStartsAux, List.count_cons]
    split <;> simp_all

theorem aux_append (i : Nat) (a b : Str) :
    lineStartsAux i (a ++ b) = lineStartsAux i a ++ lineStartsAux (i + a.length) b := by
  induction a generalizing i with
  | nil => simp [lineStartsAux]
  | cons c cs ih =>
    simp only [List.cons_append, lineStartsAux, List.length_cons]
    have : i + (cs.length + 1) = i + 1 + cs.length := by omega
    split <;> simp [ih, this]

theorem starts_pairwise (s : Str) : (getLineStarts s).Pairwise (· < ·) := by
  unfold getLineStarts
  exact List.pairwise_cons.mpr ⟨fun p hp => by have := aux_gt 0 s p hp; omega, aux_pairwise 0 s⟩

theorem starts_length (s : Str) : (getLineStarts s).length = s.count '\n' + 1 := by
  simp [getLineStarts, aux_length]

theorem getD_eq_getElem (l : List Nat) (k : Nat) (h : k < l.length) : l.getD k 0 = l[k] := by
  simp [List.getD, List.getElem?_eq_getElem h]

/-- line starts grow with the line -/
theorem starts_mono (s : Str) (j k : Nat) (hjk : j ≤ k) (hk : k < (getLineStarts s).length) :
    (getLineStarts s).getD j 0 ≤ (getLineStarts s).getD k 0 := by
  rw [getD_eq_getElem _ _ hk, getD_eq_getElem _ _ (by omega)]
  rcases Nat.lt_or_eq_of_le hjk with h | h
  · exact Nat.le_of_lt (List.pairwise_iff_getElem.mp (starts_pairwise s) j k (by omega) hk h)
  · subst h; exact Nat.le_refl _

theorem starts_zero (s : Str) : (getLineStarts s).getD 0 0 = 0 := by simp [getLineStarts]

/-- the line start behind the line that holds offset `e` lies behind `e` -/
theorem aux_gt_take (i e : Nat) (s : Str) (p : Nat)
    (hp : (lineStartsAux i s)[(s.take e).count '\n']? = some p) : i + e < p := by
  induction s generalizing i e with
  | nil => simp [lineStartsAux] at hp
  | cons c cs ih =>
    cases e with
    | zero =>
      simp only [List.take_zero, List.count_nil] at hp
      have := aux_gt i (c :: cs) p (List.mem_of_getElem? hp)
      omega
    | succ e =>
      simp only [List.take_succ_cons, List.count_cons, lineStartsAux] at hp
      split at hp
      · rename_i hc
        simp only [beq_iff_eq] at hc
        simp only [List.getElem?_cons_succ] at hp
        have := ih (i + 1) e hp; omega
      · rename_i hc
        simp only [Nat.add_zero] at hp
        have := ih (i + 1) e hp; omega

theorem starts_gt (s : Str) (e : Nat) (h : (s.take e).count '\n' + 1 < (getLineStarts s).length) :
    e < (getLineStarts s).getD ((s.take e).count '\n' + 1) 0 := by
  rw [getD_eq_getElem _ _ h]
  have h2 : (getLineStarts s)[(s.take e).count '\n' + 1]? = some (getLineStarts s)[(s.take e).count '\n' + 1] :=
    List.getElem?_eq_getElem h
  simp only [getLineStarts, List.getElem?_cons_succ] at h2
  have := aux_gt_take 0 e s _ h2
  simp only [getLineStarts] at this ⊢
  omega

/-- the text in front of line `k` holds exactly `k` line breaks -/
theorem aux_count_take (i k : Nat) (s : Str) (p : Nat) (hp : (lineStartsAux i s)[k]? = some p) :
    (s.take (p - i)).count '\n' = k + 1 := by
  induction s generalizing i k with
  | nil => simp [lineStartsAux] at hp
  | cons c cs ih =>
    have hgt := aux_gt i (c :: cs) p (List.mem_of_getElem? hp)
    simp only [lineStartsAux] at hp
    split at hp
    · rename_i hc
      simp only [beq_iff_eq] at hc
      cases k with
      | zero =>
        simp only [List.getElem?_cons_zero, Option.some.injEq] at hp
        have : p - i = 1 := by omega
        simp [this, hc]
      | succ k =>
        simp only [List.getElem?_cons_succ] at hp
        have h1 := ih (i + 1) k hp
        have hgt2 := aux_gt (i + 1) cs p (List.mem_of_getElem? hp)
        have : p - i = (p - (i + 1)) + 1 := by omega
        rw [this, List.take_succ_cons, List.count_cons, h1]
        simp [hc]
    · rename_i hc
      have hc' : (c == '\n') = false := by simpa using hc
      have h1 := ih (i + 1) k hp
      have hgt2 := aux_gt (i + 1) cs p (List.mem_of_getElem? hp)
      have : p - i = (p - (i + 1)) + 1 := by omega
      rw [this, List.take_succ_cons, List.count_cons, h1]
      simp [hc']

theorem starts_count_take (s : Str) (k : Nat) (hk : k < (getLineStarts s).length) :
    (s.take ((getLineStarts s).getD k 0)).count '\n' = k := by
  cases k with
  | zero => simp [getLineStarts]
  | succ k =>
    rw [getD_eq_getElem _ _ hk]
    have h2 : (getLineStarts s)[k + 1]? = some (getLineStarts s)[k + 1] := List.getElem?_eq_getElem hk
    simp only [getLineStarts, List.getElem?_cons_succ] at h2
    have := aux_count_take 0 k s _ h2
    simpa [getLineStarts] using this

/-- a text that ends in a line break (what `proofreader.py` hands over) -/
def EndsNl (s : Str) : Prop := ∃ t, s = t ++ ['\n']

instance (s : Str) : Decidable (EndsNl s) :=
  decidable_of_iff (s.getLast? = some '\n') List.getLast?_eq_some_iff

theorem starts_last (s : Str) (h : EndsNl s) :
    (getLineStarts s).getD ((getLineStarts s).length - 1) 0 = s.length := by
  obtain ⟨t, rfl⟩ := h
  have hl : (getLineStarts (t ++ ['\n'])).length - 1 = (0 :: lineStartsAux 0 t).length := by
    simp [starts_length, aux_length]
  rw [hl]
  simp [getLineStarts, aux_append, lineStartsAux, List.getD]

theorem endsNl_starts_length (s : Str) (h : EndsNl s) : 2 ≤ (getLineStarts s).length := by
  obtain ⟨t, rfl⟩ := h
  simp [starts_length]

/-! ### slices -/

theorem slice_append (s : Str) (a b c : Nat) (hab : a ≤ b) (hbc : b ≤ c) :
    slice s a b ++ slice s b c = slice s a c := by
  unfold slice
  have h1 : s.take b = (s.take c).take b := by rw [List.take_take, Nat.min_eq_left hbc]
  rw [h1]
  generalize s.take c = t
  rw [List.drop_take]
  have h2 := List.take_append_drop (b - a) (t.drop a)
  rw [List.drop_drop] at h2
  have : a + (b - a) = b := by omega
  rw [this] at h2
  exact h2

theorem slice_of_length_le (s : Str) (a c : Nat) (h : s.length ≤ c) : slice s a c = s.drop a := by
  unfold slice; rw [List.take_of_length_le h]

theorem slice_append_drop (s : Str) (a b : Nat) (hab : a ≤ b) : slice s a b ++ s.drop b = s.drop a := by
  have h1 := slice_append s a b (max b s.length) hab (Nat.le_max_left _ _)
  rw [slice_of_length_le s b _ (Nat.le_max_right _ _), slice_of_length_le s a _ (Nat.le_max_right _ _)] at h1
  exact h1

/-- `slice a b ++ slice b c = slice a c` also when `c` lies in front of `b` but behind the text -/
theorem slice_append' (s : Str) (a b c : Nat) (hab : a ≤ b) (hbc : b ≤ c ∨ s.length ≤ c) :
    slice s a b ++ slice s b c = slice s a c := by
  rcases hbc with h | h
  · exact slice_append s a b c hab h
  · rw [slice_of_length_le s b c h, slice_of_length_le s a c h]; exact slice_append_drop s a b hab

theorem count_take_le (s : Str) (n : Nat) : (s.take n).count '\n' ≤ s.count '\n' :=
  List.Sublist.count_le '\n' (List.take_sublist n s)

theorem count_slice (s : Str) (a b : Nat) (hab : a ≤ b) :
    (slice s a b).count '\n' = (s.take b).count '\n' - (s.take a).count '\n' := by
  have h : s.take b = s.take a ++ slice s a b := by
    unfold slice
    have : s.take a = (s.take b).take a := by rw [List.take_take, Nat.min_eq_left hab]
    rw [this, List.take_append_drop]
  rw [h, List.count_append]; omega

/-- a region slice holds one line break per line -/
theorem count_region_slice (s : Str) (b e : Nat) (hb : b < (getLineStarts s).length)
    (he : e < (getLineStarts s).length) :
    (slice s ((getLineStarts s).getD b 0) ((getLineStarts s).getD e 0)).count '\n' = e - b := by
  by_cases hbe : b ≤ e
  · rw [count_slice _ _ _ (starts_mono s b e hbe he), starts_count_take s e he, starts_count_take s b (by omega)]
  · have hb : (getLineStarts s).getD e 0 ≤ (getLineStarts s).getD b 0 := starts_mono s e b (by omega) hb
    have : slice s ((getLineStarts s).getD b 0) ((getLineStarts s).getD e 0) = [] := by
      unfold slice; simp only [List.drop_eq_nil_iff, List.length_take]; omega
    rw [this]; simp; omega

/-! ### the per-match data -/

theorem macroNameLen_pos (s : Str) (n : Nat) (h : macroNameLen s = some n) : 1 ≤ n := by
  unfold macroNameLen at h
  split at h
  · simp only at h
    split at h
    · simp at h
    · simp only [Option.some.injEq] at h; omega
  · simp at h

theorem correctMark_pos (hb : Int) (tex : Str) : 1 ≤ correctMarkMacroname hb 1 tex := by
  unfold correctMarkMacroname
  split
  · split
    · rename_i n hn
      have := macroNameLen_pos _ _ hn
      omega
    · omega
  · omega

theorem hackEnd_gt (T : Tables) (tex : Str) (u : Bool) (hb he : Int) (c : Char) (h : hb < he) :
    hb < hackEnd T tex u hb he c := by
  unfold hackEnd
  split
  · have := correctMark_pos hb tex; omega
  · split
    · simp only
      split <;> omega
    · exact h

/-- what the first loop stores for a match -/
structure HFacts (tex : Str) (idx : Nat) (h : HData) : Prop where
  idx : h.idx = idx
  lt : h.beg < (h.fin : Int)
  beglin : h.beglin = (tex.take (pyEnd tex h.beg)).count '\n'
  endlin : h.endlin = (tex.take h.fin).count '\n' + 1
  lin : h.lin = h.beglin

theorem computeH_facts (T : Tables) (tex : Str) (cm : List Int) (idx : Nat) (o l : Int) (h : HData)
    (hok : computeH T tex cm idx o l = .ok h) : HFacts tex idx h := by
  unfold computeH at hok
  simp only at hok
  split at hok
  · cases hok
  · split at hok
    · rename_i cb ce _ _
      split at hok
      · cases hok
      · rename_i cOpt hc
        simp only [SOut.ok.injEq] at hok
        subst hok
        have h1 : iabs cb - 1 < (if (decide (cb < 0) || decide (ce < 0)) = true ∨ iabs ce ≤ iabs cb - 1 then iabs cb - 1 + 1 else iabs ce) := by
          split <;> omega
        refine ⟨rfl, ?_, rfl, rfl, rfl⟩
        simp only
        split
        · have := hackEnd_gt T tex (decide (cb < 0) || decide (ce < 0)) (iabs cb - 1) _ ‹Char› h1
          simp only [Bool.or_eq_true, decide_eq_true_eq] at this ⊢
          omega
        · simp only [Bool.or_eq_true, decide_eq_true_eq] at h1 ⊢
          omega
    · cases hok

theorem hdataFrom_facts (T : Tables) (tex : Str) (cm : List Int) (i : Nat) (ms : List (Int × Int)) (hs : List HData)
    (hok : hdataFrom T tex cm i ms = .ok hs) :
    hs.map (·.idx) = List.range' i ms.length ∧
    ∀ h ∈ hs, i ≤ h.idx ∧ ∃ m, ms[h.idx - i]? = some m ∧ computeH T tex cm h.idx m.1 m.2 = .ok h := by
  induction ms generalizing i hs with
  | nil => simp only [hdataFrom, SOut.ok.injEq] at hok; subst hok; simp
  | cons m ms ih =>
    simp only [hdataFrom] at hok
    split at hok
    · rename_i h hh
      split at hok
      · rename_i hs' hhs
        simp only [SOut.ok.injEq] at hok; subst hok
        have ⟨ih1, ih2⟩ := ih (i + 1) hs' hhs
        have hidx := (computeH_facts T tex cm i m.1 m.2 h hh).idx
        refine ⟨?_, ?_⟩
        · simp [List.range'_succ, ih1, hidx]
        · intro h' hm
          rcases List.mem_cons.mp hm with e | e
          · subst e
            refine ⟨by omega, m, ?_, ?_⟩
            · simp [hidx]
            · rw [hidx]; exact hh
          · have ⟨a, m', b, c⟩ := ih2 h' e
            refine ⟨by omega, m', ?_, c⟩
            have : h'.idx - i = (h'.idx - (i + 1)) + 1 := by omega
            rw [this]; simpa using b
      · cases hok
      · cases hok
    · cases hok
    · cases hok

theorem hdataFrom_HFacts (T : Tables) (tex : Str) (cm : List Int) (i : Nat) (ms : List (Int × Int)) (hs : List HData)
    (hok : hdataFrom T tex cm i ms = .ok hs) : ∀ h ∈ hs, HFacts tex h.idx h := by
  intro h hm
  have ⟨_, m, _, c⟩ := (hdataFrom_facts T tex cm i ms hs hok).2 h hm
  exact computeH_facts T tex cm h.idx m.1 m.2 h c

/-! ### one region -/

theorem piecesText_cons (p : Piece) (ps : List Piece) : piecesText (p :: ps) = p.text ++ piecesText ps := by
  simp [piecesText]

/-- the pieces of a region tile the slice from `last` to `stop`: nothing lost, nothing twice,
    whatever overlaps there are -/
theorem regionPieces_text (tex : Str) (stop : Nat) (hs : List HData) (last : Nat)
    (hlt : ∀ h ∈ hs, h.beg < (h.fin : Int))
    (hstop : ∀ h ∈ hs, h.fin ≤ stop ∨ tex.length ≤ stop) :
    piecesText (regionPieces tex stop last hs) = slice tex last stop := by
  induction hs generalizing last with
  | nil => simp [regionPieces, piecesText, Piece.text]
  | cons h hs ih =>
    have ih' := fun l => ih l (fun x hx => hlt x (List.mem_cons_of_mem _ hx)) (fun x hx => hstop x (List.mem_cons_of_mem _ hx))
    simp only [regionPieces]
    split
    · exact ih' last
    · rename_i hov
      have h1 := hlt h List.mem_cons_self
      have h2 := hstop h List.mem_cons_self
      rw [piecesText_cons, piecesText_cons, ih' h.fin]
      simp only [Piece.text]
      rw [← List.append_assoc, slice_append tex last h.beg.toNat h.fin (by omega) (by omega)]
      exact slice_append' tex last h.fin stop (by omega) h2


/-! ### grouping -/

theorem foldl_max_le_init (l : List HData) (m : Nat) : m ≤ l.foldl (fun m h => max m h.endlin) m := by
  induction l generalizing m with
  | nil => simp
  | cons h l ih => simp only [List.foldl_cons]; have := ih (max m h.endlin); omega

theorem foldl_max_mem (l : List HData) (m : Nat) (h : HData) (hm : h ∈ l) :
    h.endlin ≤ l.foldl (fun m h => max m h.endlin) m := by
  induction l generalizing m with
  | nil => simp at hm
  | cons x l ih =>
    simp only [List.foldl_cons]
    rcases List.mem_cons.mp hm with e | e
    · subst e; have := foldl_max_le_init l (max m h.endlin); omega
    · exact ih _ e

theorem foldl_max_bound (l : List HData) (m n : Nat) (hm : m ≤ n) (hl : ∀ h ∈ l, h.endlin ≤ n) :
    l.foldl (fun m h => max m h.endlin) m ≤ n := by
  induction l generalizing m with
  | nil => simpa
  | cons x l ih =>
    simp only [List.foldl_cons]
    have := hl x List.mem_cons_self
    exact ih _ (by omega) (fun h hh => hl h (List.mem_cons_of_mem _ hh))

theorem maxEndlin_mem (reg : List HData) (h : HData) (hm : h ∈ reg) : h.endlin ≤ maxEndlin reg :=
  foldl_max_mem reg 0 h hm

theorem maxEndlin_bound (reg : List HData) (n : Nat) (hl : ∀ h ∈ reg, h.endlin ≤ n) : maxEndlin reg ≤ n :=
  foldl_max_bound reg 0 n (Nat.zero_le _) hl

theorem maxEndlin_snoc (cur : List HData) (h : HData) : maxEndlin (cur ++ [h]) = max (maxEndlin cur) h.endlin := by
  simp [maxEndlin, List.foldl_append]

theorem groupAux_flatten (cur hs : List HData) : (groupAux cur hs).flatten = cur ++ hs := by
  induction hs generalizing cur with
  | nil => simp [groupAux]
  | cons h hs ih =>
    simp only [groupAux]
    split
    · simp [ih]
    · simp [ih]

theorem group_flatten (l : List HData) : (group l).flatten = l := by
  cases l with
  | nil => simp [group]
  | cons h hs => simp [group, groupAux_flatten]

theorem groupAux_ne_nil (cur hs : List HData) (hc : cur ≠ []) : ∀ g ∈ groupAux cur hs, g ≠ [] := by
  induction hs generalizing cur with
  | nil => simp [groupAux, hc]
  | cons h hs ih =>
    simp only [groupAux]
    split
    · intro g hg
      rcases List.mem_cons.mp hg with e | e
      · subst e; exact hc
      · exact ih [h] (by simp) g e
    · exact ih (cur ++ [h]) (by simp)

theorem group_ne_nil (l : List HData) : ∀ g ∈ group l, g ≠ [] := by
  cases l with
  | nil => simp [group]
  | cons h hs => exact groupAux_ne_nil [h] hs (by simp)

theorem mem_group (l : List HData) (g : List HData) (hg : g ∈ group l) (h : HData) (hh : h ∈ g) : h ∈ l := by
  rw [← group_flatten l]; exact List.mem_flatten.mpr ⟨g, hg, hh⟩

/-! ### what `generateHtml` returns -/

theorem generateHtml_ok (T : Tables) (tex : Str) (cm : List Int) (ms : List (Int × Int)) (ctx : Nat) (rep : Report)
    (hok : generateHtml T tex cm ms ctx = .ok rep) :
    hdataFrom T tex cm 0 ms = .ok rep.hdata ∧
    rep.regions = (group (rep.hdata.map (widen ctx ((getLineStarts tex).length - 1)))).map (mkRegion tex (getLineStarts tex)) ∧
    rep.first = if rep.regions.isEmpty then some (noProblems tex (getLineStarts tex) ctx) else none := by
  unfold generateHtml at hok
  split at hok
  · cases hok
  · cases hok
  · rename_i hs hh
    simp only [SOut.ok.injEq] at hok
    subst hok
    exact ⟨hh, rfl, rfl⟩

/-- a widened match ends in front of the line start `starts[endlin]`, or that is the end of the text -/
theorem widen_stop (tex : Str) (hnl : EndsNl tex) (ctx : Nat) (h : HData) (idx : Nat) (hf : HFacts tex idx h) :
    let h' := widen ctx ((getLineStarts tex).length - 1) h
    h'.endlin < (getLineStarts tex).length ∧
    (h'.fin ≤ (getLineStarts tex).getD h'.endlin 0 ∨ tex.length ≤ (getLineStarts tex).getD h'.endlin 0) := by
  have h2 := endsNl_starts_length tex hnl
  simp only [widen]
  refine ⟨by omega, ?_⟩
  by_cases hc : h.endlin + ctx ≤ (getLineStarts tex).length - 1
  · left
    rw [Nat.min_eq_left hc]
    have h3 : h.endlin < (getLineStarts tex).length := by omega
    have h4 := starts_gt tex h.fin (by rw [← hf.endlin]; exact h3)
    rw [← hf.endlin] at h4
    have := starts_mono tex h.endlin (h.endlin + ctx) (by omega) (by omega)
    omega
  · right
    rw [Nat.min_eq_right (by omega), starts_last tex hnl]
    exact Nat.le_refl _

theorem mkRegion_text (tex : Str) (hnl : EndsNl tex) (ctx : Nat) (hs : List HData)
    (hf : ∀ h ∈ hs, HFacts tex h.idx h) (reg : List HData)
    (hreg : reg ∈ group (hs.map (widen ctx ((getLineStarts tex).length - 1)))) :
    let r := mkRegion tex (getLineStarts tex) reg
    r.text = slice tex ((getLineStarts tex).getD r.beglin 0) ((getLineStarts tex).getD r.endlin 0) ∧
    r.endlin < (getLineStarts tex).length := by
  have hmem : ∀ h' ∈ reg, ∃ h ∈ hs, h' = widen ctx ((getLineStarts tex).length - 1) h := by
    intro h' hh
    have := mem_group _ reg hreg h' hh
    obtain ⟨h, hh1, hh2⟩ := List.mem_map.mp this
    exact ⟨h, hh1, hh2.symm⟩
  have h2 := endsNl_starts_length tex hnl
  have hend : maxEndlin reg < (getLineStarts tex).length := by
    have : maxEndlin reg ≤ (getLineStarts tex).length - 1 := by
      apply maxEndlin_bound
      intro h' hh
      obtain ⟨h, _, rfl⟩ := hmem h' hh
      simp only [widen]; omega
    omega
  refine ⟨?_, hend⟩
  simp only [mkRegion, Region.text]
  apply regionPieces_text
  · intro h' hh
    obtain ⟨h, hh1, rfl⟩ := hmem h' hh
    exact (hf h hh1).lt
  · intro h' hh
    obtain ⟨h, hh1, rfl⟩ := hmem h' hh
    have ⟨w1, w2⟩ := widen_stop tex hnl ctx h h.idx (hf h hh1)
    have hle := maxEndlin_mem reg _ hh
    have hm := starts_mono tex _ _ hle hend
    rcases w2 with w | w
    · left; omega
    · right; omega

/-- (a) the cells of a region are the source lines `beglin … endlin-1`, none lost, none twice -/
theorem region_text (T : Tables) (tex : Str) (cm : List Int) (ms : List (Int × Int)) (ctx : Nat) (rep : Report)
    (hnl : EndsNl tex) (hok : generateHtml T tex cm ms ctx = .ok rep) :
    ∀ r ∈ rep.regions,
      r.text = slice tex ((getLineStarts tex).getD r.beglin 0) ((getLineStarts tex).getD r.endlin 0) := by
  obtain ⟨h1, h2, _⟩ := generateHtml_ok T tex cm ms ctx rep hok
  intro r hr
  rw [h2] at hr
  obtain ⟨reg, hreg, rfl⟩ := List.mem_map.mp hr
  exact (mkRegion_text tex hnl ctx rep.hdata (hdataFrom_HFacts T tex cm 0 ms _ h1) reg hreg).1


/-! ### rows and line numbers -/

theorem splitRows_ne_nil {α} (l : List (α × Char)) : splitRows l ≠ [] := by
  cases l with
  | nil => simp [splitRows]
  | cons x rest =>
    simp only [splitRows]
    split
    · simp
    · split <;> simp

theorem splitRows_length {α} (l : List (α × Char)) : (splitRows l).length = (l.map (·.2)).count '\n' + 1 := by
  induction l with
  | nil => simp [splitRows]
  | cons x rest ih =>
    simp only [splitRows, List.map_cons, List.count_cons]
    split
    · rename_i hc
      simp [ih]
    · rename_i hc
      have hc' : (x.2 == '\n') = false := by simpa using hc
      split
      · rename_i r rs hr
        rw [hr] at ih
        simp only [List.length_cons] at ih ⊢
        simp [← ih]
      · rename_i hr
        exact absurd hr (splitRows_ne_nil rest)

theorem taggedChars_snd (ps : List Piece) : (taggedChars ps).map (·.2) = piecesText ps := by
  induction ps with
  | nil => simp [taggedChars, piecesText]
  | cons p ps ih =>
    simp only [taggedChars, piecesText, List.flatMap_cons, List.map_append] at ih ⊢
    rw [ih]
    simp [Function.comp_def]

theorem rows_length (r : Region) : r.rows.length = r.text.count '\n' + 1 := by
  simp [Region.rows, Region.text, splitRows_length, taggedChars_snd]

theorem regBeglin_lt (tex : Str) (ctx : Nat) (hs : List HData)
    (hf : ∀ h ∈ hs, HFacts tex h.idx h) (reg : List HData)
    (hreg : reg ∈ group (hs.map (widen ctx ((getLineStarts tex).length - 1)))) :
    regBeglin reg < (getLineStarts tex).length := by
  have hne := group_ne_nil _ reg hreg
  cases reg with
  | nil => exact absurd rfl hne
  | cons h' rest =>
    have := mem_group _ _ hreg h' List.mem_cons_self
    obtain ⟨h, hh1, hh2⟩ := List.mem_map.mp this
    subst hh2
    have h3 := (hf h hh1).beglin
    have h4 := count_take_le tex (pyEnd tex h.beg)
    simp only [regBeglin, List.head?_cons, Option.map_some, Option.getD_some, widen, starts_length]
    omega

/-- (b) the line numbers of a region are `beglin … endlin-1` and the separator `-1`; there is exactly
    one number per table row -/
theorem region_line_numbers (T : Tables) (tex : Str) (cm : List Int) (ms : List (Int × Int)) (ctx : Nat) (rep : Report)
    (hnl : EndsNl tex) (hok : generateHtml T tex cm ms ctx = .ok rep) :
    ∀ r ∈ rep.regions,
      r.lineNumbers = (List.range' r.beglin (r.endlin - r.beglin)).map Int.ofNat ++ [-1] ∧
      r.rows.length = r.lineNumbers.length := by
  obtain ⟨h1, h2, _⟩ := generateHtml_ok T tex cm ms ctx rep hok
  intro r hr
  rw [h2] at hr
  obtain ⟨reg, hreg, rfl⟩ := List.mem_map.mp hr
  have hf := hdataFrom_HFacts T tex cm 0 ms _ h1
  have ⟨ht, he⟩ := mkRegion_text tex hnl ctx rep.hdata hf reg hreg
  have hb := regBeglin_lt tex ctx rep.hdata hf reg hreg
  refine ⟨rfl, ?_⟩
  rw [rows_length, ht]
  have hb' : (mkRegion tex (getLineStarts tex) reg).beglin < (getLineStarts tex).length := hb
  rw [count_region_slice tex _ _ hb' he]
  simp [mkRegion]

/-! ### every match once -/

def Region.hiIdx (r : Region) : List Nat := r.pieces.filterMap Piece.tag
/-- the matches highlighted in place, in the order of the report -/
def Report.hiIdx (r : Report) : List Nat := r.regions.flatMap Region.hiIdx
/-- the matches in the list of overlapping messages -/
def Report.ovIdx (r : Report) : List Nat := r.overlaps.map (·.idx)

theorem region_count (tex : Str) (stop : Nat) (reg : List HData) (last : Nat) (i : Nat) :
    ((regionPieces tex stop last reg).filterMap Piece.tag).count i
      + ((regionOverlaps tex last reg).map (·.idx)).count i = (reg.map (·.idx)).count i := by
  induction reg generalizing last with
  | nil => simp [regionPieces, regionOverlaps, List.filterMap_cons, Piece.tag]
  | cons h hs ih =>
    simp only [regionPieces, regionOverlaps]
    split
    · simp only [List.map_cons, List.count_cons]
      have := ih last
      omega
    · simp only [List.filterMap_cons, Piece.tag, List.map_cons, List.count_cons]
      have := ih h.fin
      omega

theorem regions_count (tex : Str) (starts : List Nat) (gs : List (List HData)) (i : Nat) :
    ((gs.map (mkRegion tex starts)).flatMap Region.hiIdx).count i
      + (((gs.map (mkRegion tex starts)).flatMap (·.overlaps)).map (·.idx)).count i
      = (gs.flatten.map (·.idx)).count i := by
  induction gs with
  | nil => simp
  | cons g gs ih =>
    simp only [List.map_cons, List.flatMap_cons, List.count_append, List.map_append, List.flatten_cons] at ih ⊢
    have := region_count tex (starts.getD (maxEndlin g) 0) g (starts.getD (regBeglin g) 0) i
    simp only [Region.hiIdx, mkRegion]
    omega

theorem count_range' (i s n : Nat) : (List.range' s n).count i = if s ≤ i ∧ i < s + n then 1 else 0 := by
  induction n generalizing s with
  | zero => simp
  | succ n ih =>
    simp only [List.range'_succ, List.count_cons, ih]
    by_cases h : s = i
    · subst h; simp; omega
    · have : (s == i) = false := by simpa using h
      simp only [this]
      split <;> split <;> simp_all <;> omega

/-- (c) every match occurs exactly once: as a highlight in place or in the list of overlapping messages -/
theorem each_match_once (T : Tables) (tex : Str) (cm : List Int) (ms : List (Int × Int)) (ctx : Nat) (rep : Report)
    (hok : generateHtml T tex cm ms ctx = .ok rep) (i : Nat) :
    (rep.hiIdx ++ rep.ovIdx).count i = if i < ms.length then 1 else 0 := by
  obtain ⟨h1, h2, _⟩ := generateHtml_ok T tex cm ms ctx rep hok
  have h3 := (hdataFrom_facts T tex cm 0 ms _ h1).1
  simp only [Report.hiIdx, Report.ovIdx, Report.overlaps, List.count_append, h2]
  rw [regions_count, group_flatten]
  have : (rep.hdata.map (widen ctx ((getLineStarts tex).length - 1))).map (·.idx) = rep.hdata.map (·.idx) := by
    simp [widen, Function.comp_def]
  rw [this, h3, count_range']
  simp


theorem regionPieces_hi (tex : Str) (stop : Nat) (reg : List HData) (last : Nat) (i : Nat) (s : Str)
    (hm : Piece.hi i s ∈ regionPieces tex stop last reg) :
    ∃ h ∈ reg, h.idx = i ∧ 0 ≤ h.beg ∧ s = slice tex h.beg.toNat h.fin := by
  induction reg generalizing last with
  | nil => simp [regionPieces] at hm
  | cons h hs ih =>
    simp only [regionPieces] at hm
    split at hm
    · obtain ⟨h', a, b⟩ := ih last hm
      exact ⟨h', List.mem_cons_of_mem _ a, b⟩
    · rename_i hov
      simp only [List.mem_cons, reduceCtorEq, Piece.hi.injEq, false_or] at hm
      rcases hm with ⟨e1, e2⟩ | hm
      · exact ⟨h, List.mem_cons_self, e1.symm, by omega, e2⟩
      · obtain ⟨h', a, b⟩ := ih h.fin hm
        exact ⟨h', List.mem_cons_of_mem _ a, b⟩

theorem regionOverlaps_mem (tex : Str) (reg : List HData) (last : Nat) (o : Overlap)
    (hm : o ∈ regionOverlaps tex last reg) :
    ∃ h ∈ reg, h.idx = o.idx ∧ o.lin = h.lin + 1 ∧ o.text = sliceI tex h.beg h.fin := by
  induction reg generalizing last with
  | nil => simp [regionOverlaps] at hm
  | cons h hs ih =>
    simp only [regionOverlaps] at hm
    split at hm
    · rcases List.mem_cons.mp hm with e | hm
      · subst e; exact ⟨h, List.mem_cons_self, rfl, rfl, rfl⟩
      · obtain ⟨h', a, b⟩ := ih last hm
        exact ⟨h', List.mem_cons_of_mem _ a, b⟩
    · obtain ⟨h', a, b⟩ := ih h.fin hm
      exact ⟨h', List.mem_cons_of_mem _ a, b⟩

/-- (c) the text of a highlight in place is the source span `tex[h.beg:h.end]` of its match, where
    `h` is what the first loop computes for match number `i` -/
theorem hi_text (T : Tables) (tex : Str) (cm : List Int) (ms : List (Int × Int)) (ctx : Nat) (rep : Report)
    (hok : generateHtml T tex cm ms ctx = .ok rep) :
    ∀ r ∈ rep.regions, ∀ i s, Piece.hi i s ∈ r.pieces →
      ∃ m h, ms[i]? = some m ∧ computeH T tex cm i m.1 m.2 = .ok h ∧ 0 ≤ h.beg ∧
        s = slice tex h.beg.toNat h.fin := by
  obtain ⟨h1, h2, _⟩ := generateHtml_ok T tex cm ms ctx rep hok
  intro r hr i s hp
  rw [h2] at hr
  obtain ⟨reg, hreg, rfl⟩ := List.mem_map.mp hr
  obtain ⟨h', hh', e1, e2, e3⟩ := regionPieces_hi tex _ reg _ i s hp
  have := mem_group _ reg hreg h' hh'
  obtain ⟨h, hh1, hh2⟩ := List.mem_map.mp this
  subst hh2
  obtain ⟨_, m, hm1, hm2⟩ := (hdataFrom_facts T tex cm 0 ms _ h1).2 h hh1
  simp only [widen] at e1 e2 e3
  subst e1
  exact ⟨m, h, by simpa using hm1, hm2, e2, e3⟩

/-- the same for an entry of the list of overlapping messages, with its line number -/
theorem overlap_text (T : Tables) (tex : Str) (cm : List Int) (ms : List (Int × Int)) (ctx : Nat) (rep : Report)
    (hok : generateHtml T tex cm ms ctx = .ok rep) :
    ∀ o ∈ rep.overlaps,
      ∃ m h, ms[o.idx]? = some m ∧ computeH T tex cm o.idx m.1 m.2 = .ok h ∧
        o.lin = h.lin + 1 ∧ o.text = sliceI tex h.beg h.fin := by
  obtain ⟨h1, h2, _⟩ := generateHtml_ok T tex cm ms ctx rep hok
  intro o ho
  simp only [Report.overlaps, h2, List.mem_flatMap, List.mem_map] at ho
  obtain ⟨r, ⟨reg, hreg, rfl⟩, ho⟩ := ho
  obtain ⟨h', hh', e1, e2, e3⟩ := regionOverlaps_mem tex reg _ o ho
  have := mem_group _ reg hreg h' hh'
  obtain ⟨h, hh1, hh2⟩ := List.mem_map.mp this
  subst hh2
  obtain ⟨_, m, hm1, hm2⟩ := (hdataFrom_facts T tex cm 0 ms _ h1).2 h hh1
  simp only [widen] at e1 e2 e3
  rw [← e1]
  exact ⟨m, h, by simpa using hm1, hm2, e2, e3⟩

/-! ### order of the regions -/

/-- consecutive regions: the next one begins where the last one ends, or later -/
def Ordered : List (List HData) → Prop
  | [] => True
  | [_] => True
  | a :: b :: rest => maxEndlin a ≤ regBeglin b ∧ Ordered (b :: rest)

theorem regBeglin_snoc (cur : List HData) (h : HData) (hc : cur ≠ []) : regBeglin (cur ++ [h]) = regBeglin cur := by
  cases cur with
  | nil => exact absurd rfl hc
  | cons x xs => simp [regBeglin]

theorem groupAux_ordered (cur hs : List HData) (hc : cur ≠ []) :
    Ordered (groupAux cur hs) ∧ ∃ g rest, groupAux cur hs = g :: rest ∧ regBeglin g = regBeglin cur := by
  induction hs generalizing cur with
  | nil => simp [groupAux, Ordered]
  | cons h hs ih =>
    simp only [groupAux]
    split
    · rename_i hge
      obtain ⟨o, g, rest, e1, e2⟩ := ih [h] (by simp)
      refine ⟨?_, cur, _, rfl, rfl⟩
      rw [e1]
      simp only [Ordered]
      rw [← e1]
      refine ⟨?_, o⟩
      rw [e2]; simpa [regBeglin] using hge
    · obtain ⟨o, g, rest, e1, e2⟩ := ih (cur ++ [h]) (by simp)
      exact ⟨o, g, rest, e1, by rw [e2, regBeglin_snoc cur h hc]⟩

theorem group_ordered (l : List HData) : Ordered (group l) := by
  cases l with
  | nil => simp [group, Ordered]
  | cons h hs => exact (groupAux_ordered [h] hs (by simp)).1

theorem ordered_getElem (gs : List (List HData)) (ho : Ordered gs) (k : Nat) (hk : k + 1 < gs.length) :
    maxEndlin gs[k] ≤ regBeglin gs[k + 1] := by
  induction gs generalizing k with
  | nil => simp at hk
  | cons a gs ih =>
    cases gs with
    | nil => simp at hk
    | cons b rest =>
      simp only [Ordered] at ho
      cases k with
      | zero => simpa using ho.1
      | succ k =>
        have := ih ho.2 k (by simpa using hk)
        simpa using this

/-- (d) regions follow each other in the order of the file: a region ends (exclusive line `endlin`)
    before or where the next one begins; no hypothesis on the matches is needed -/
theorem regions_ordered (T : Tables) (tex : Str) (cm : List Int) (ms : List (Int × Int)) (ctx : Nat) (rep : Report)
    (hok : generateHtml T tex cm ms ctx = .ok rep) (k : Nat) (hk : k + 1 < rep.regions.length) :
    rep.regions[k].endlin ≤ rep.regions[k + 1].beglin := by
  obtain ⟨_, h2, _⟩ := generateHtml_ok T tex cm ms ctx rep hok
  have hk' : k + 1 < (group (rep.hdata.map (widen ctx ((getLineStarts tex).length - 1)))).length := by
    have := congrArg List.length h2
    simp only [List.length_map] at this
    omega
  have := ordered_getElem _ (group_ordered _) k hk'
  simp only [h2, List.getElem_map, mkRegion]
  exact this


/-! ### the whole file -/

theorem maxEndlin_const (cur : List HData) (n : Nat) (hc : cur ≠ []) (hall : ∀ h ∈ cur, h.endlin = n) :
    maxEndlin cur = n := by
  cases cur with
  | nil => exact absurd rfl hc
  | cons x xs =>
    have h1 := maxEndlin_mem (x :: xs) x List.mem_cons_self
    have h2 := maxEndlin_bound (x :: xs) n (fun h hh => Nat.le_of_eq (hall h hh))
    have := hall x List.mem_cons_self
    omega

theorem groupAux_single (cur hs : List HData) (n : Nat) (hn : 1 ≤ n) (hc : cur ≠ [])
    (hcur : ∀ h ∈ cur, h.endlin = n) (hall : ∀ h ∈ hs, h.beglin = 0 ∧ h.endlin = n) :
    groupAux cur hs = [cur ++ hs] := by
  induction hs generalizing cur with
  | nil => simp [groupAux]
  | cons h hs ih =>
    have hh := hall h List.mem_cons_self
    simp only [groupAux]
    rw [maxEndlin_const cur n hc hcur]
    have : ¬ (h.beglin ≥ n) := by omega
    simp only [this, ite_false]
    rw [ih (cur ++ [h]) (by simp)]
    · simp
    · intro x hx
      rcases List.mem_append.mp hx with e | e
      · exact hcur x e
      · simp only [List.mem_singleton] at e; subst e; exact hh.2
    · exact fun x hx => hall x (List.mem_cons_of_mem _ hx)

theorem slice_all (tex : Str) : slice tex 0 tex.length = tex := by simp [slice]

/-- (e) a context that reaches over the whole file (at least as many lines as the file has; this is
    what `shell.py` makes of a negative `--context`, see `whole_file_negative`): if there is a match
    at all, the report consists of ONE region, it runs from the first line to the last, its cells
    are the whole file and the line numbers are `0 … N-1` and the separator -/
theorem whole_file (T : Tables) (tex : Str) (cm : List Int) (ms : List (Int × Int)) (ctx : Nat) (rep : Report)
    (hnl : EndsNl tex) (hctx : tex.count '\n' ≤ ctx) (hms : ms ≠ [])
    (hok : generateHtml T tex cm ms ctx = .ok rep) :
    ∃ r, rep.regions = [r] ∧ r.beglin = 0 ∧ r.endlin = tex.count '\n' ∧ r.text = tex ∧
      r.lineNumbers = (List.range (tex.count '\n')).map Int.ofNat ++ [-1] ∧ rep.first = none := by
  obtain ⟨h1, h2, h3⟩ := generateHtml_ok T tex cm ms ctx rep hok
  have hf := hdataFrom_HFacts T tex cm 0 ms _ h1
  have hlen := congrArg List.length (hdataFrom_facts T tex cm 0 ms _ h1).1
  simp only [List.length_map, List.length_range'] at hlen
  have hN : (getLineStarts tex).length - 1 = tex.count '\n' := by simp [starts_length]
  have hn1 : 1 ≤ tex.count '\n' := by have := endsNl_starts_length tex hnl; omega
  -- every widened match spans the whole file
  have hall : ∀ h' ∈ rep.hdata.map (widen ctx ((getLineStarts tex).length - 1)),
      h'.beglin = 0 ∧ h'.endlin = tex.count '\n' := by
    intro h' hh
    obtain ⟨h, hh1, rfl⟩ := List.mem_map.mp hh
    have f := hf h hh1
    have := count_take_le tex (pyEnd tex h.beg)
    simp only [widen, hN]
    rw [f.beglin]
    omega
  cases hd : rep.hdata with
  | nil =>
    rw [hd] at hlen
    simp only [List.length_nil] at hlen
    exact absurd (List.length_eq_zero_iff.mp hlen.symm) hms
  | cons x xs =>
    rw [hd] at hall h2
    simp only [List.map_cons, group] at h2 hall
    rw [groupAux_single _ _ (tex.count '\n') hn1 (by simp)
      (fun h hh => by simp only [List.mem_singleton] at hh; subst hh; exact (hall _ List.mem_cons_self).2)
      (fun h hh => hall h (List.mem_cons_of_mem _ hh))] at h2
    simp only [List.map_cons, List.map_nil] at h2
    refine ⟨_, h2, ?_⟩
    have hb : (mkRegion tex (getLineStarts tex) ([widen ctx ((getLineStarts tex).length - 1) x] ++ xs.map (widen ctx ((getLineStarts tex).length - 1)))).beglin = 0 := by
      simp only [mkRegion, regBeglin, List.cons_append, List.head?_cons, Option.map_some, Option.getD_some]
      exact (hall _ List.mem_cons_self).1
    have he : (mkRegion tex (getLineStarts tex) ([widen ctx ((getLineStarts tex).length - 1) x] ++ xs.map (widen ctx ((getLineStarts tex).length - 1)))).endlin = tex.count '\n' := by
      simp only [mkRegion]
      exact maxEndlin_const _ _ (by simp) (fun h hh => (hall h (by simpa using hh)).2)
    have ht := region_text T tex cm ms ctx rep hnl hok _ (by rw [h2]; exact List.mem_singleton_self _)
    have hl := starts_last tex hnl
    rw [hN] at hl
    rw [hb, he, starts_zero, hl, slice_all] at ht
    refine ⟨hb, he, ht, ?_, ?_⟩
    · have := (region_line_numbers T tex cm ms ctx rep hnl hok _ (by rw [h2]; exact List.mem_singleton_self _)).1
      rw [this, hb, he]
      simp [List.range_eq_range']
    · rw [h3, h2]; simp

/-- `shell.py` turns a negative `--context` into 10^8 lines: the whole file for every file with at
    most 10^8 lines -/
theorem whole_file_negative (T : Tables) (tex : Str) (cm : List Int) (ms : List (Int × Int)) (c : Int) (rep : Report)
    (hc : c < 0) (hnl : EndsNl tex) (hsize : tex.count '\n' ≤ 100000000) (hms : ms ≠ [])
    (hok : generateHtml T tex cm ms (normContext c) = .ok rep) :
    ∃ r, rep.regions = [r] ∧ r.beglin = 0 ∧ r.endlin = tex.count '\n' ∧ r.text = tex ∧
      r.lineNumbers = (List.range (tex.count '\n')).map Int.ofNat ++ [-1] ∧ rep.first = none := by
  have : normContext c = 100000000 := by simp [normContext, hc]
  rw [this] at hok
  exact whole_file T tex cm ms _ rep hnl hsize hms hok


/-! ### the rows are the source lines -/

/-- a text cut at its line breaks (the pieces behind the last line break included) -/
def splitText : Str → List Str
  | [] => [[]]
  | c :: rest =>
    if c == '\n' then [] :: splitText rest
    else match splitText rest with
      | r :: rs => (c :: r) :: rs
      | [] => [[c]]

/-- the texts of the table rows of a region -/
def Region.rowTexts (r : Region) : List Str := r.rows.map (·.map (·.2))

/-- source line `k` (0-based) without its line break -/
def lineOf (tex : Str) (k : Nat) : Str :=
  slice tex ((getLineStarts tex).getD k 0) ((getLineStarts tex).getD (k + 1) 0 - 1)

theorem splitRows_texts {α} (l : List (α × Char)) :
    (splitRows l).map (·.map (·.2)) = splitText (l.map (·.2)) := by
  induction l with
  | nil => simp [splitRows, splitText]
  | cons x rest ih =>
    simp only [splitRows, List.map_cons, splitText]
    split
    · simp [ih]
    · rw [← ih]
      split
      · rename_i r rs hr
        simp [hr]
      · rename_i hr
        exact absurd hr (splitRows_ne_nil rest)

theorem splitText_ne_nil (s : Str) : splitText s ≠ [] := by
  cases s with
  | nil => simp [splitText]
  | cons c rest =>
    simp only [splitText]
    split
    · simp
    · split <;> simp

theorem splitText_line (a b : Str) (ha : '\n' ∉ a) : splitText (a ++ '\n' :: b) = a :: splitText b := by
  induction a with
  | nil => simp [splitText]
  | cons c cs ih =>
    have hc : (c == '\n') = false := by
      have : c ≠ '\n' := fun e => ha (by simp [e])
      simpa using this
    have := ih (fun h => ha (List.mem_cons_of_mem _ h))
    simp only [List.cons_append, splitText, hc, Bool.false_eq_true, ite_false, this]

/-- the character in front of a line start is a line break -/
theorem aux_prev (i k : Nat) (s : Str) (p : Nat) (hp : (lineStartsAux i s)[k]? = some p) :
    s[p - i - 1]? = some '\n' := by
  induction s generalizing i k with
  | nil => simp [lineStartsAux] at hp
  | cons c cs ih =>
    have hgt := aux_gt i (c :: cs) p (List.mem_of_getElem? hp)
    simp only [lineStartsAux] at hp
    split at hp
    · rename_i hc
      simp only [beq_iff_eq] at hc
      cases k with
      | zero =>
        simp only [List.getElem?_cons_zero, Option.some.injEq] at hp
        have : p - i - 1 = 0 := by omega
        simp [this, hc]
      | succ k =>
        simp only [List.getElem?_cons_succ] at hp
        have h1 := ih (i + 1) k hp
        have hgt2 := aux_gt (i + 1) cs p (List.mem_of_getElem? hp)
        have : p - i - 1 = (p - (i + 1) - 1) + 1 := by omega
        rw [this, List.getElem?_cons_succ]; exact h1
    · have h1 := ih (i + 1) k hp
      have hgt2 := aux_gt (i + 1) cs p (List.mem_of_getElem? hp)
      have : p - i - 1 = (p - (i + 1) - 1) + 1 := by omega
      rw [this, List.getElem?_cons_succ]; exact h1

theorem starts_prev (s : Str) (k : Nat) (hk : k + 1 < (getLineStarts s).length) :
    s[(getLineStarts s).getD (k + 1) 0 - 1]? = some '\n' := by
  rw [getD_eq_getElem _ _ hk]
  have h2 : (getLineStarts s)[k + 1]? = some (getLineStarts s)[k + 1] := List.getElem?_eq_getElem hk
  simp only [getLineStarts, List.getElem?_cons_succ] at h2
  have := aux_prev 0 k s _ h2
  simpa [getLineStarts] using this

theorem starts_lt (s : Str) (k : Nat) (hk : k + 1 < (getLineStarts s).length) :
    (getLineStarts s).getD k 0 < (getLineStarts s).getD (k + 1) 0 := by
  rw [getD_eq_getElem _ _ hk, getD_eq_getElem _ _ (by omega)]
  exact List.pairwise_iff_getElem.mp (starts_pairwise s) k (k + 1) (by omega) hk (by omega)

theorem slice_one (s : Str) (p : Nat) (c : Char) (h : s[p]? = some c) : slice s p (p + 1) = [c] := by
  unfold slice
  rw [List.drop_take]
  have : p + 1 - p = 1 := by omega
  rw [this]
  have h2 := List.getElem?_eq_some_iff.mp h
  obtain ⟨hlt, he⟩ := h2
  rw [List.drop_eq_getElem_cons hlt]
  simp [he]

/-- a line and its line break -/
theorem line_slice (s : Str) (k : Nat) (hk : k + 1 < (getLineStarts s).length) :
    slice s ((getLineStarts s).getD k 0) ((getLineStarts s).getD (k + 1) 0) = lineOf s k ++ ['\n'] ∧
    '\n' ∉ lineOf s k := by
  have hlt := starts_lt s k hk
  have hprev := starts_prev s k hk
  have h1 := slice_one s _ _ hprev
  have hq : (getLineStarts s).getD (k + 1) 0 - 1 + 1 = (getLineStarts s).getD (k + 1) 0 := by omega
  rw [hq] at h1
  constructor
  · rw [← h1, lineOf]
    exact (slice_append s _ _ _ (by omega) (by omega)).symm
  · have hc := count_slice s ((getLineStarts s).getD k 0) ((getLineStarts s).getD (k + 1) 0 - 1) (by omega)
    have hc2 := count_slice s ((getLineStarts s).getD (k + 1) 0 - 1) ((getLineStarts s).getD (k + 1) 0) (by omega)
    rw [h1, starts_count_take s (k + 1) hk] at hc2
    rw [starts_count_take s k (by omega)] at hc
    have hle := count_take_le s ((getLineStarts s).getD (k + 1) 0 - 1)
    simp only [List.count_singleton_self] at hc2
    have hmono : (s.take ((getLineStarts s).getD (k + 1) 0 - 1)).count '\n' ≤ k + 1 := by
      have := List.Sublist.count_le '\n' (List.take_sublist ((getLineStarts s).getD (k + 1) 0 - 1) (s.take ((getLineStarts s).getD (k + 1) 0)))
      rw [List.take_take, Nat.min_eq_left (by omega), starts_count_take s (k + 1) hk] at this
      exact this
    have : (lineOf s k).count '\n' = 0 := by rw [lineOf, hc]; omega
    exact List.count_eq_zero.mp this

theorem splitText_region (s : Str) (b n : Nat) (he : b + n < (getLineStarts s).length) :
    splitText (slice s ((getLineStarts s).getD b 0) ((getLineStarts s).getD (b + n) 0))
      = (List.range' b n).map (lineOf s) ++ [[]] := by
  induction n generalizing b with
  | zero =>
    have : slice s ((getLineStarts s).getD b 0) ((getLineStarts s).getD (b + 0) 0) = [] := by
      unfold slice; simp
    rw [this]; simp [splitText]
  | succ n ih =>
    have h1 := line_slice s b (by omega)
    have hm := starts_mono s (b + 1) (b + (n + 1)) (by omega) he
    have hl := starts_lt s b (by omega)
    rw [← slice_append s _ ((getLineStarts s).getD (b + 1) 0) _ (by omega) hm, h1.1]
    simp only [List.append_assoc, List.singleton_append]
    rw [splitText_line _ _ h1.2]
    have : b + (n + 1) = b + 1 + n := by omega
    rw [this, ih (b + 1) (by omega)]
    simp [List.range'_succ]

/-- (b') the table rows of a region are the source lines `beglin … endlin-1`, in this order, followed
    by one empty row (the separator, which carries the number `-1`): with `region_line_numbers`
    row `j` shows line `beglin + j` next to the number `beglin + j` -/
theorem region_rows (T : Tables) (tex : Str) (cm : List Int) (ms : List (Int × Int)) (ctx : Nat) (rep : Report)
    (hnl : EndsNl tex) (hok : generateHtml T tex cm ms ctx = .ok rep) :
    ∀ r ∈ rep.regions,
      r.rowTexts = (List.range' r.beglin (r.endlin - r.beglin)).map (lineOf tex) ++ [[]] := by
  obtain ⟨h1, h2, _⟩ := generateHtml_ok T tex cm ms ctx rep hok
  intro r hr
  have ht := region_text T tex cm ms ctx rep hnl hok r hr
  rw [h2] at hr
  obtain ⟨reg, hreg, rfl⟩ := List.mem_map.mp hr
  have hf := hdataFrom_HFacts T tex cm 0 ms _ h1
  have he := (mkRegion_text tex hnl ctx rep.hdata hf reg hreg).2
  simp only [Region.rowTexts, Region.rows, splitRows_texts, taggedChars_snd]
  simp only [Region.text] at ht
  rw [ht]
  by_cases hbe : (mkRegion tex (getLineStarts tex) reg).beglin ≤ (mkRegion tex (getLineStarts tex) reg).endlin
  · have := splitText_region tex (mkRegion tex (getLineStarts tex) reg).beglin
      ((mkRegion tex (getLineStarts tex) reg).endlin - (mkRegion tex (getLineStarts tex) reg).beglin) (by omega)
    have e : (mkRegion tex (getLineStarts tex) reg).beglin + ((mkRegion tex (getLineStarts tex) reg).endlin - (mkRegion tex (getLineStarts tex) reg).beglin) = (mkRegion tex (getLineStarts tex) reg).endlin := by omega
    rw [e] at this
    exact this
  · have hb : (mkRegion tex (getLineStarts tex) reg).beglin < (getLineStarts tex).length :=
      regBeglin_lt tex ctx rep.hdata hf reg hreg
    have hm := starts_mono tex _ _ (by omega : (mkRegion tex (getLineStarts tex) reg).endlin ≤ (mkRegion tex (getLineStarts tex) reg).beglin) hb
    have : slice tex ((getLineStarts tex).getD (mkRegion tex (getLineStarts tex) reg).beglin 0)
        ((getLineStarts tex).getD (mkRegion tex (getLineStarts tex) reg).endlin 0) = [] := by
      unfold slice; simp only [List.drop_eq_nil_iff, List.length_take]; omega
    rw [this]
    have : (mkRegion tex (getLineStarts tex) reg).endlin - (mkRegion tex (getLineStarts tex) reg).beglin = 0 := by omega
    rw [this]
    simp [splitText]


/-- no match at all: the first `context` lines of the file (all lines if it has fewer), numbered
    `0 … e-1`, one row per line -/
theorem no_problems (T : Tables) (tex : Str) (cm : List Int) (ctx : Nat) :
    ∃ txt, generateHtml T tex cm [] ctx
        = .ok (Report.mk [] [] (some (txt, (List.range (min ctx (tex.count '\n'))).map Int.ofNat))) ∧
      firstRows txt = (List.range (min ctx (tex.count '\n'))).map (lineOf tex) := by
  refine ⟨slice tex 0 ((getLineStarts tex).getD (min ctx (tex.count '\n')) 0), ?_, ?_⟩
  · simp [generateHtml, hdataFrom, group, noProblems, starts_length]
  · have h := splitText_region tex 0 (min ctx (tex.count '\n')) (by rw [starts_length]; omega)
    simp only [Nat.zero_add, starts_zero] at h
    have h2 := splitRows_texts ((slice tex 0 ((getLineStarts tex).getD (min ctx (tex.count '\n')) 0)).map (fun c => ((), c)))
    simp only [List.map_map, Function.comp_def, List.map_id'] at h2
    simp only [firstRows]
    rw [h2, h, List.dropLast_concat, List.range_eq_range']

/-! ### no line twice -/

theorem computeH_beg_nonneg (T : Tables) (tex : Str) (cm : List Int) (idx : Nat) (o l : Int) (h : HData)
    (hcm : ∀ c ∈ cm, c ≠ 0) (hok : computeH T tex cm idx o l = .ok h) : 0 ≤ h.beg := by
  unfold computeH at hok
  simp only at hok
  split at hok
  · cases hok
  · split at hok
    · rename_i cb ce hcb _
      have := hcm cb (List.mem_of_getElem? hcb)
      split at hok
      · cases hok
      · simp only [SOut.ok.injEq] at hok
        subst hok
        simp only [iabs]
        split <;> omega
    · cases hok

theorem widen_beglin_le (tex : Str) (ctx : Nat) (h : HData) (idx : Nat) (hf : HFacts tex idx h) (hb : 0 ≤ h.beg) :
    (widen ctx ((getLineStarts tex).length - 1) h).beglin ≤ (widen ctx ((getLineStarts tex).length - 1) h).endlin := by
  have h1 := hf.beglin
  have h2 := hf.endlin
  have h3 := hf.lt
  have hpe : pyEnd tex h.beg = h.beg.toNat := by simp [pyEnd]; omega
  rw [hpe] at h1
  have h4 : (tex.take h.beg.toNat).count '\n' ≤ (tex.take h.fin).count '\n' := by
    have := List.Sublist.count_le '\n' (List.take_sublist h.beg.toNat (tex.take h.fin))
    rw [List.take_take, Nat.min_eq_left (by omega)] at this
    exact this
  have h5 := count_take_le tex h.beg.toNat
  simp only [widen, starts_length]
  omega

theorem ordered_pairwise (gs : List (List HData)) (ho : Ordered gs) (hbe : ∀ g ∈ gs, regBeglin g ≤ maxEndlin g) :
    gs.Pairwise (fun a b => maxEndlin a ≤ regBeglin b) := by
  induction gs with
  | nil => simp
  | cons a gs ih =>
    cases gs with
    | nil => simp
    | cons b rest =>
      simp only [Ordered] at ho
      have ih' := ih ho.2 (fun g hg => hbe g (List.mem_cons_of_mem _ hg))
      refine List.pairwise_cons.mpr ⟨?_, ih'⟩
      intro x hx
      rcases List.mem_cons.mp hx with e | e
      · subst e; exact ho.1
      · have h1 := (List.pairwise_cons.mp ih').1 x e
        have h2 := hbe b (List.mem_cons_of_mem _ List.mem_cons_self)
        omega

/-- (d') with a position map without the entry 0 (positions are 1-based: the filter never produces one)
    every region begins in front of its end, hence ANY two regions are disjoint in lines: no
    source line is shown twice -/
theorem regions_disjoint (T : Tables) (tex : Str) (cm : List Int) (ms : List (Int × Int)) (ctx : Nat) (rep : Report)
    (hcm : ∀ c ∈ cm, c ≠ 0) (hok : generateHtml T tex cm ms ctx = .ok rep) :
    (∀ r ∈ rep.regions, r.beglin ≤ r.endlin) ∧
    rep.regions.Pairwise (fun r r' => r.endlin ≤ r'.beglin) := by
  obtain ⟨h1, h2, _⟩ := generateHtml_ok T tex cm ms ctx rep hok
  have hf := hdataFrom_HFacts T tex cm 0 ms _ h1
  have hbe : ∀ g ∈ group (rep.hdata.map (widen ctx ((getLineStarts tex).length - 1))), regBeglin g ≤ maxEndlin g := by
    intro g hg
    have hne := group_ne_nil _ g hg
    cases g with
    | nil => exact absurd rfl hne
    | cons h' rest =>
      have := mem_group _ _ hg h' List.mem_cons_self
      obtain ⟨h, hh1, hh2⟩ := List.mem_map.mp this
      subst hh2
      obtain ⟨_, m, _, hm2⟩ := (hdataFrom_facts T tex cm 0 ms _ h1).2 h hh1
      have hb := computeH_beg_nonneg T tex cm h.idx m.1 m.2 h hcm hm2
      have h3 := widen_beglin_le tex ctx h h.idx (hf h hh1) hb
      have h4 := maxEndlin_mem (widen ctx ((getLineStarts tex).length - 1) h :: rest) _ List.mem_cons_self
      simp only [regBeglin, List.head?_cons, Option.map_some, Option.getD_some]
      omega
  constructor
  · intro r hr
    rw [h2] at hr
    obtain ⟨reg, hreg, rfl⟩ := List.mem_map.mp hr
    exact hbe reg hreg
  · rw [h2, List.pairwise_map]
    exact ordered_pairwise _ (group_ordered _) hbe


/-! ### disjoint matches are all highlighted in place -/

/-- the line start of the line that holds offset `b` is not behind `b` -/
theorem aux_le_take (i b k : Nat) (s : Str) (p : Nat) (hp : (lineStartsAux i s)[k]? = some p)
    (hk : k + 1 ≤ (s.take b).count '\n') : p ≤ i + b := by
  induction s generalizing i b k with
  | nil => simp [lineStartsAux] at hp
  | cons c cs ih =>
    cases b with
    | zero => simp at hk
    | succ b =>
      simp only [List.take_succ_cons, List.count_cons] at hk
      simp only [lineStartsAux] at hp
      split at hp
      · rename_i hc
        simp only [hc, ite_true] at hk
        cases k with
        | zero => simp only [List.getElem?_cons_zero, Option.some.injEq] at hp; omega
        | succ k =>
          simp only [List.getElem?_cons_succ] at hp
          have := ih (i + 1) b k hp (by omega); omega
      · rename_i hc
        have hc' : (c == '\n') = false := by simpa using hc
        simp only [hc', Bool.false_eq_true, ite_false, Nat.add_zero] at hk
        have := ih (i + 1) b k hp hk; omega

theorem starts_le (s : Str) (b : Nat) : (getLineStarts s).getD ((s.take b).count '\n') 0 ≤ b := by
  have hlen : (s.take b).count '\n' < (getLineStarts s).length := by
    have := count_take_le s b; rw [starts_length]; omega
  generalize hk : (s.take b).count '\n' = k at hlen
  rw [getD_eq_getElem _ _ hlen]
  cases k with
  | zero => simp [getLineStarts]
  | succ k =>
    have h2 : (getLineStarts s)[k + 1]? = some ((getLineStarts s)[k + 1]'hlen) := List.getElem?_eq_getElem hlen
    simp only [getLineStarts, List.getElem?_cons_succ] at h2
    have := aux_le_take 0 b k s _ h2 (by omega)
    simp only [getLineStarts] at this ⊢
    omega

/-- matches in the order of the file that do not overlap: each ends before or where the next begins -/
def Disjoint : List HData → Prop
  | [] => True
  | [_] => True
  | a :: b :: rest => (a.fin : Int) ≤ b.beg ∧ Disjoint (b :: rest)

theorem disjoint_tail (a : HData) (l : List HData) (h : Disjoint (a :: l)) : Disjoint l := by
  cases l with
  | nil => simp [Disjoint]
  | cons b rest => exact h.2

theorem disjoint_append_right (a b : List HData) (h : Disjoint (a ++ b)) : Disjoint b := by
  induction a with
  | nil => simpa using h
  | cons x xs ih => exact ih (disjoint_tail x _ h)

theorem disjoint_append_left (a b : List HData) (h : Disjoint (a ++ b)) : Disjoint a := by
  induction a with
  | nil => simp [Disjoint]
  | cons x xs ih =>
    cases xs with
    | nil => simp [Disjoint]
    | cons y ys =>
      simp only [List.cons_append, Disjoint] at h ⊢
      exact ⟨h.1, ih h.2⟩

theorem groupAux_disjoint (cur hs : List HData) (h : Disjoint (cur ++ hs)) : ∀ g ∈ groupAux cur hs, Disjoint g := by
  induction hs generalizing cur with
  | nil => simpa [groupAux] using h
  | cons x hs ih =>
    simp only [groupAux]
    split
    · intro g hg
      rcases List.mem_cons.mp hg with e | e
      · subst e; exact disjoint_append_left _ _ h
      · exact ih [x] (disjoint_append_right cur _ h) g e
    · exact ih (cur ++ [x]) (by simpa using h)

theorem group_disjoint (l : List HData) (h : Disjoint l) : ∀ g ∈ group l, Disjoint g := by
  cases l with
  | nil => simp [group]
  | cons x xs => exact groupAux_disjoint [x] xs h

theorem regionOverlaps_nil (tex : Str) (reg : List HData) (last : Nat) (hd : Disjoint reg)
    (hfirst : ∀ h, reg.head? = some h → (last : Int) ≤ h.beg) : regionOverlaps tex last reg = [] := by
  induction reg generalizing last with
  | nil => simp [regionOverlaps]
  | cons h hs ih =>
    have := hfirst h rfl
    simp only [regionOverlaps]
    have hn : ¬ (h.beg < (last : Int)) := by omega
    simp only [hn, ite_false]
    apply ih h.fin (disjoint_tail h hs hd)
    intro x hx
    cases hs with
    | nil => simp at hx
    | cons y ys =>
      simp only [List.head?_cons, Option.some.injEq] at hx
      subst hx
      exact hd.1

theorem disjoint_widen (ctx n : Nat) (l : List HData) (h : Disjoint l) : Disjoint (l.map (widen ctx n)) := by
  induction l with
  | nil => simp [Disjoint]
  | cons a l ih =>
    cases l with
    | nil => simp [Disjoint]
    | cons b rest =>
      simp only [List.map_cons, Disjoint] at ih ⊢
      exact ⟨h.1, ih h.2⟩

theorem regionPieces_tags (tex : Str) (stop : Nat) (g : List HData) (last : Nat)
    (h0 : regionOverlaps tex last g = []) :
    (regionPieces tex stop last g).filterMap Piece.tag = g.map (·.idx) := by
  induction g generalizing last with
  | nil => simp [regionPieces, Piece.tag]
  | cons h hs ihg =>
    simp only [regionOverlaps] at h0
    simp only [regionPieces]
    split
    · rename_i hlt; simp [hlt] at h0
    · rename_i hlt
      simp only [hlt, ite_false] at h0
      simp only [List.filterMap_cons, Piece.tag, List.map_cons, ihg h.fin h0]

/-- (c') matches that follow each other in the file without overlapping (as the first loop maps
    them: `h.end ≤ h'.beg` for consecutive matches; map without entry 0) are ALL highlighted in
    place: the list of overlapping messages is empty -/
theorem no_overlaps (T : Tables) (tex : Str) (cm : List Int) (ms : List (Int × Int)) (ctx : Nat) (rep : Report)
    (hcm : ∀ c ∈ cm, c ≠ 0) (hok : generateHtml T tex cm ms ctx = .ok rep) (hd : Disjoint rep.hdata) :
    rep.overlaps = [] ∧ rep.hiIdx = List.range ms.length := by
  obtain ⟨h1, h2, _⟩ := generateHtml_ok T tex cm ms ctx rep hok
  have hf := hdataFrom_HFacts T tex cm 0 ms _ h1
  have hreg : ∀ g ∈ group (rep.hdata.map (widen ctx ((getLineStarts tex).length - 1))),
      (mkRegion tex (getLineStarts tex) g).overlaps = [] := by
    intro g hg
    simp only [mkRegion]
    apply regionOverlaps_nil tex g _ (group_disjoint _ (disjoint_widen _ _ _ hd) g hg)
    intro h' hh'
    cases g with
    | nil => simp at hh'
    | cons x rest =>
      simp only [List.head?_cons, Option.some.injEq] at hh'
      subst hh'
      have := mem_group _ _ hg x List.mem_cons_self
      obtain ⟨h, hh1, hh2⟩ := List.mem_map.mp this
      subst hh2
      obtain ⟨_, m, _, hm2⟩ := (hdataFrom_facts T tex cm 0 ms _ h1).2 h hh1
      have hb := computeH_beg_nonneg T tex cm h.idx m.1 m.2 h hcm hm2
      have f := hf h hh1
      have hpe : pyEnd tex h.beg = h.beg.toNat := by simp [pyEnd]; omega
      have h3 := starts_le tex h.beg.toNat
      have hlen : (tex.take h.beg.toNat).count '\n' < (getLineStarts tex).length := by
        have := count_take_le tex h.beg.toNat; rw [starts_length]; omega
      have h4 := starts_mono tex ((tex.take h.beg.toNat).count '\n' - ctx) ((tex.take h.beg.toNat).count '\n') (by omega) hlen
      simp only [regBeglin, List.head?_cons, Option.map_some, Option.getD_some, widen, f.beglin, hpe]
      omega
  have hov : rep.overlaps = [] := by
    simp only [Report.overlaps, h2, List.flatMap_eq_nil_iff, List.mem_map]
    rintro r ⟨g, hg, rfl⟩
    exact hreg g hg
  refine ⟨hov, ?_⟩
  -- every index occurs once in hiIdx ++ [] and hiIdx is in the order of the matches
  have hidx : ∀ gs : List (List HData), (∀ g ∈ gs, (mkRegion tex (getLineStarts tex) g).overlaps = []) →
      (gs.map (mkRegion tex (getLineStarts tex))).flatMap Region.hiIdx = gs.flatten.map (·.idx) := by
    intro gs hgs
    induction gs with
    | nil => simp
    | cons g gs ih =>
      simp only [List.map_cons, List.flatMap_cons, List.flatten_cons, List.map_append]
      rw [ih (fun g' hg' => hgs g' (List.mem_cons_of_mem _ hg'))]
      congr 1
      have h0 := hgs g List.mem_cons_self
      simp only [mkRegion] at h0
      simp only [Region.hiIdx, mkRegion]
      exact regionPieces_tags tex _ g _ h0
  simp only [Report.hiIdx, h2]
  rw [hidx _ hreg, group_flatten]
  have : (rep.hdata.map (widen ctx ((getLineStarts tex).length - 1))).map (·.idx) = rep.hdata.map (·.idx) := by
    simp [widen, Function.comp_def]
  rw [this, (hdataFrom_facts T tex cm 0 ms _ h1).1, List.range_eq_range']


end Html
end Yalafi
