/-
  Proofs/PlainThm.lean (with Proofs/PlainThmBase.lean) — C04 "every output character that is not a
  copy of body text — … theorem and proof titles … — maps to an offset inside the source span of the
  construct that produced it", end to end on the model, for documents that consist of inert text
  (as in Proofs/PlainUnknown.lean), DEFINITIONS `\newtheorem{name}{title}` and THEOREM-LIKE
  ENVIRONMENTS `\begin{name}` … `\end{name}` / `\begin{name}[note]` … `\end{name}` of names defined
  before (any order, any nesting; the body is whatever segments stand in between).

  What the model does (found with `#eval`, then proved)
    `\newtheorem{name}{title}`   declared with argument codes `AOAO` and the handler `h_newtheorem`:
        `collectArgs` stores `[name tokens, [], title tokens, []]`; looking for the last optional
        argument it SKIPS THE WHITE SPACE behind the closing brace (`skip_space`: space tokens — at
        most one line break —, not paragraph tokens) and does not give it back; the handler expands
        name and title with `get_text_expanded` and stores the environment
        `{name, args = 'O', handler = h_theorem(title)}` (`add_pars`, no `remove`, no end handler);
        the call leaves ONE Action token.
    `\begin{name}`   `begin_environment` reads the name (`arg_buffer` + `get_text_expanded`), finds
        the environment, emits the paragraph token `\n\n` of `add_pars`, pinned at `\begin`, and
        expands the arguments: no `[`, so the white space behind `}` is skipped as above and
        `h_theorem` returns pinned `title`, `.`, line break at the position of `\begin`;
        `expand_arguments` puts an Action token in front.
    `\begin{name}[note]`   `arg_buffer` collects the note up to the first `]`; `h_theorem` returns
        pinned `title`, blank, `(` at `\begin`, THE NOTE TOKENS (own positions), pinned `).` and a line
        break at the position of the LAST NOTE TOKEN.  Nothing behind `]` is skipped.
    `\end{name}`   the paragraph token `\n\n` pinned at `\end`.
    All these tokens are pushed back and copied by the loop.  At the end `remove_pure_action_lines`
    deletes every line that is blank and holds an Action token: the Action token of `\begin` stands
    on the line of the title, but a DEFINITION that stands alone on its line (or with other
    definitions) makes that line disappear — `delLines` of Proofs/PlainMacro.lean.

  Structure
    PlainThmBase.lean      expander level and the loop on token buffers
    `Seg`, `render`, `marks`   documents and the reference on the level of marks (characters with
                           positions / Action marks), threaded with the definitions `Env`
    `wsOk`, `headOk`, `titleOk`, `bracedTextOk`, `newthmOk`, `begOk`, `begNOk`, `endOk`, `segsOk`,
    `SegsOk`               the side conditions (computable); `OkSrc` the same on the source text
    `scanSteps_bracedText`, `scanSteps_ws`, `headOk_steps`, `ScanFacts`, `scanSteps_thm`, `scan_thm`
                           the scanner
    `parserWork_thm`, `parse_thm`, `tex2txt_thm_src`, `tex2txt_theorem`   the lifts and THE
                           END-TO-END STATEMENT: output = `delLines (marks [] 0 segs)`
    `thmOut`, `marks_chars`, `tex2txt_theorem_kept`   the explicit output when no line is deleted
    `spans`, `textChars`, `marks_span`, `out_span`    every generated character lies in the span of
                           its `\begin{…}` / `\end{…}`

  The end-to-end statement `tex2txt_theorem`.  `tex2txt` succeeds; text and (1-based) positions are
  `delLines (marks [] 0 segs)`, i.e. (`thmOut`, when no line is deleted)
    text                 every character with its own position
    `\newtheorem{…}{…}ws` nothing (one Action mark); the white space `ws` behind it is dropped
    `\begin{name}ws`     `\n\n` `Title` `.` `\n`, every character at the position of `\begin`; `ws` dropped
    `\begin{name}[note]` `\n\n` `Title` ` (` at the position of `\begin`, the note at its own positions,
                         `).` and `\n` at the start of the last token of the note
    `\end{name}`         `\n\n` at the position of `\end`
  and then every line deleted, with its line break, that is blank and holds a definition;
  `unknowns = []`, no diagnostic.

  Side conditions (all in `SegsOk T st1 segs`, decidable; `st1` = state after `Parser.__init__`)
    `stateOk T st1`   the empty string, blank, line break, `.` and `(` are no "active characters" (the
                      generated tokens would go to `expand_short_macro`); `\newtheorem` is declared with
                      `ntDeclOk` (arguments `AOAO`, handler `h_newtheorem`, no extraction, no
                      defaults); real tables: yes
    text segments     `textOk` of Proofs/PlainUnknown.lean
    `bracedTextOk`    names and titles: `{` `}` are scanned as braces, the text is not empty and
                      inert in front of `}` (`PlainFootnote.textOk`)
    `newthmOk`        `\newtheorem` is one macro token; name, title as above; `wsOk`
    `begOk`/`begNOk`  no special sequence matches at the backslash, `{name}` does not open
                      `{verbatim}`; the name has a definition in force (`titleOf E name`) whose title
                      is `titleOk`: no line break (the title token must be a one-line token for
                      the blank-line removal) and its first character is neither "active" nor one of
                      `% # \ $ { }`; the note: as in Proofs/PlainRef.lean (`[` directly behind `}`,
                      not empty, no `]`, inert); `wsOk`
    `endOk`           the name has a definition in force
    `wsOk ws R`       `ws` is the white space that `skip_space` eats: white space with at most one
                      line break, the WHOLE run (what follows does not start with white space, if
                      `ws` is not empty), and what follows (`headOk R`) starts neither with skippable
                      white space nor with `[` (it would be taken for a note / a further optional
                      argument).  A paragraph break behind the construct is fine: `ws = []` and the
                      following text starts with it.
    options           no --defs, --extr, --repl, --unkn; single-language mode
    fuel              `(render segs).length + 2 ≤ fuel`

  Model behaviour worth knowing (seen with `#eval`)
    * the white space (one line break included) behind `\newtheorem{…}{…}` and behind `\begin{name}`
      (without note) is swallowed; behind `\begin{name}[note]` and `\end{name}` it is kept;
    * `\begin{name}[]` yields `Title ().`; `\begin{name} [note]` (blank in front of `[`) is read as a note;
    * `\newtheorem*{name}{title}` is not understood by the default tables (the star is taken as the
      name argument): `TheoremBody`, `name` in the unknowns list;
    * a title with a line break is stored and printed as it is.
  NOT covered: the optional arguments of `\newtheorem` (`[counter]`, `[within]`), `\newtheorem*`;
  names / titles with macros; notes with macros, braces, `]`; empty notes; white space between
  `\begin{name}` and `[`; `proof` (package amsthm); environments of the tables (`\begin{itemize}`:
  Proofs/PlainItem.lean); multi-language mode.
-/
import YalafiVerif.Proofs.PlainThmBase
import YalafiVerif.Proofs.PlainRef
namespace Yalafi
namespace PlainThm

open M
open PlainMacro
open PlainFootnote (CopyTok seq_copy_prefix lastTokOff TextRun)
open PlainRef (chTok lastPos lastPos_of_getLast fixMarks bracketAt nextToken_bracket scanSteps_note
  marksOf_textrun mem_txt_of_getTxtPos simple_of_copy tokMarks_mkFix simple_vis)
open PlainItem (begTok endTok nBegin nEnd nextToken_begin nextToken_end nextToken_ws)

/-! ### the documents -/

/-- a segment of the source: a run of text; `\newtheorem{name}{title}` and the white space behind
    it; `\begin{name}` and the white space behind it; `\begin{name}[note]`; `\end{name}` -/
inductive Seg where
  | txt (s : Str)
  | newthm (name title ws : Str)
  | beg (name ws : Str)
  | begN (name note : Str)
  | en (name : Str)
deriving Repr, DecidableEq

def Seg.render : Seg → Str
  | .txt s => s
  | .newthm name title ws => '\\' :: (ntName ++ '{' :: (name ++ '}' :: '{' :: (title ++ '}' :: ws)))
  | .beg name ws => '\\' :: (nBegin ++ '{' :: (name ++ '}' :: ws))
  | .begN name note => '\\' :: (nBegin ++ '{' :: (name ++ '}' :: '[' :: (note ++ [']'])))
  | .en name => '\\' :: (nEnd ++ '{' :: (name ++ ['}']))

/-- the source text -/
def render : List Seg → Str
  | [] => []
  | s :: rest => s.render ++ render rest

/-- the number of source characters of a segment -/
def Seg.len : Seg → Nat
  | .txt s => s.length
  | .newthm name title ws => name.length + title.length + ws.length + 15
  | .beg name ws => name.length + ws.length + 8
  | .begN name note => name.length + note.length + 10
  | .en name => name.length + 6

/-- **the reference on the level of marks**: the document, which starts at position `p`, after the
    definitions `E` — a text character with its position; an Action mark for a definition (the
    white space behind it is skipped); for `\begin{name}` a paragraph break, an Action mark, the
    title in force, `.` and a line break, all at the position of `\begin` (the white space behind
    it is skipped); for `\begin{name}[note]` a paragraph break, an Action mark, the title, ` (` at
    the position of `\begin`, the note at its own positions, `).` and a line break at the start of
    the last token of the note; for `\end{name}` a paragraph break at the position of `\end` -/
def marks : Env → Nat → List Seg → List Mark
  | _, _, [] => []
  | E, p, .txt s :: rest => (posText p s).map some ++ marks E (p + s.length) rest
  | E, p, .newthm name title ws :: rest =>
    none :: marks ((name, title) :: E) (p + (name.length + title.length + ws.length + 15)) rest
  | E, p, .beg name ws :: rest =>
    fixMarks p [nl, nl] ++ none :: (fixMarks p (titleD E name ++ ['.', nl]) ++
      marks E (p + (name.length + ws.length + 8)) rest)
  | E, p, .begN name note :: rest =>
    fixMarks p [nl, nl] ++ none :: (fixMarks p (titleD E name ++ [' ', '(']) ++
      ((posText (p + name.length + 9) note).map some ++
        (fixMarks (p + name.length + 9 + lastTokOff note) [')', '.', nl] ++
          marks E (p + (name.length + note.length + 10)) rest)))
  | E, p, .en name :: rest => fixMarks p [nl, nl] ++ marks E (p + (name.length + 6)) rest

/-! ### the side conditions -/

/-- the source starts with a run of white space with at most one line break (one space token,
    which `skip_space` passes over) -/
def headSp (R : Str) : Bool :=
  R.head?.any isSpace && decide (countNl (R.takeWhile isSpace) < 2)

/-- behind skipped white space: no further skippable white space, no `[` -/
def headOk (R : Str) : Bool := !headSp R && R.head? != some '['

/-- the white space `ws` that `skip_space` eats in front of `R`: at most one line break (two make
    a paragraph token, which is not skipped), it is the whole run of white space, and `R` does not
    start with skippable white space or `[` -/
def wsOk (ws R : Str) : Bool :=
  ws.all isSpace && decide (countNl ws < 2) && (ws.isEmpty || R.head?.all (fun d => !isSpace d)) &&
  headOk R

/-- a title that can be used: not empty, no line break, the first character neither "active" nor a
    structural character -/
def titleOk (T : PTables) (st : PState) (title : Str) : Bool :=
  !hasNl title &&
  match title with
  | c :: _ => !(activeChars T st).contains [c] && (isSpace c || !structuralChar c)
  | [] => false

/-- the title of `name` in force can be used -/
def titleAt (T : PTables) (st : PState) (E : Env) (name : Str) : Bool :=
  match titleOf E name with
  | some t => titleOk T st t
  | none => false

/-- `{s}`, followed by `X`: both braces are scanned as braces, `s` is a non-empty inert text
    (`PlainFootnote.textOk`, in front of `}`) -/
def bracedTextOk (T : PTables) (st : PState) (s X : Str) : Bool :=
  braceAt T '{' (s ++ '}' :: X) && !s.isEmpty && PlainFootnote.textOk T st s ('}' :: X) &&
  braceAt T '}' X

/-- `\newtheorem{name}{title}ws`, followed by `R` -/
def newthmOk (T : PTables) (st : PState) (name title ws R : Str) : Bool :=
  PlainRef.nameOk T ntName ('{' :: (name ++ '}' :: '{' :: (title ++ '}' :: (ws ++ R)))) &&
  bracedTextOk T st name ('{' :: (title ++ '}' :: (ws ++ R))) &&
  bracedTextOk T st title (ws ++ R) && wsOk ws R

/-- `\begin{name}ws`, followed by `R`, after the definitions `E` -/
def begOk (T : PTables) (st : PState) (E : Env) (name ws R : Str) : Bool :=
  (matchSpecial T.toTables ('\\' :: (nBegin ++ '{' :: (name ++ '}' :: (ws ++ R))))).isNone &&
  !startsWith ('{' :: (name ++ '}' :: (ws ++ R))) sVerbatimArg &&
  bracedTextOk T st name (ws ++ R) && titleAt T st E name && wsOk ws R

/-- `\begin{name}[note]`, followed by `R`, after the definitions `E` -/
def begNOk (T : PTables) (st : PState) (E : Env) (name note R : Str) : Bool :=
  (matchSpecial T.toTables ('\\' :: (nBegin ++ '{' :: (name ++ '}' :: '[' :: (note ++ ']' :: R))))).isNone &&
  !startsWith ('{' :: (name ++ '}' :: '[' :: (note ++ ']' :: R))) sVerbatimArg &&
  bracedTextOk T st name ('[' :: (note ++ ']' :: R)) && titleAt T st E name &&
  bracketAt T '[' (note ++ ']' :: R) && !note.isEmpty && !note.contains ']' &&
  PlainFootnote.textOk T st note (']' :: R) && bracketAt T ']' R

/-- `\end{name}`, followed by `R`, after the definitions `E` -/
def endOk (T : PTables) (st : PState) (E : Env) (name R : Str) : Bool :=
  (matchSpecial T.toTables ('\\' :: (nEnd ++ '{' :: (name ++ '}' :: R)))).isNone &&
  bracedTextOk T st name R && (titleOf E name).isSome

/-- well-formed documents: every segment is fine in front of the rendering of the following ones
    (`textOk` of Proofs/PlainUnknown.lean for the text), after the definitions so far -/
def segsOk (T : PTables) (st : PState) : Env → List Seg → Bool
  | _, [] => true
  | E, .txt s :: rest => textOk T st s (render rest) && segsOk T st E rest
  | E, .newthm name title ws :: rest =>
    newthmOk T st name title ws (render rest) && segsOk T st ((name, title) :: E) rest
  | E, .beg name ws :: rest => begOk T st E name ws (render rest) && segsOk T st E rest
  | E, .begN name note :: rest => begNOk T st E name note (render rest) && segsOk T st E rest
  | E, .en name :: rest => endOk T st E name (render rest) && segsOk T st E rest

/-- all side conditions on the tables, the initialised parser state and the document -/
def SegsOk (T : PTables) (st : PState) (segs : List Seg) : Prop :=
  stateOk T st = true ∧ segsOk T st [] segs = true

instance (T : PTables) (st : PState) (segs : List Seg) : Decidable (SegsOk T st segs) := by
  unfold SegsOk; infer_instance

/-! ### the conditions as propositions -/

theorem titleOk_facts {T : PTables} {st : PState} {title : Str} (h : titleOk T st title = true) :
    TitleOk T st title := by
  unfold titleOk at h
  cases title with
  | nil => simp at h
  | cons c tl =>
    simp only [Bool.and_eq_true, Bool.not_eq_true', Bool.or_eq_true] at h
    obtain ⟨h1, h2, h3⟩ := h
    have hst : structuralChar c = false := by
      rcases h3 with h3 | h3
      · exact structuralChar_of_isSpace c h3
      · exact h3
    exact ⟨fun p => plainTok_of_head _ c tl rfl (Or.inl rfl) hst, not_active_cons T st c tl h2, h1⟩

theorem titleAt_facts {T : PTables} {st : PState} {E : Env} {name : Str}
    (h : titleAt T st E name = true) : TitleAt T st E name := by
  unfold titleAt at h
  split at h
  · exact ⟨_, ‹_›, titleOk_facts h⟩
  · cases h

structure BracedText (T : PTables) (st : PState) (s X : Str) : Prop where
  b1 : braceAt T '{' (s ++ '}' :: X) = true
  ne : s ≠ []
  txt : PlainFootnote.textOk T st s ('}' :: X) = true
  b2 : braceAt T '}' X = true

theorem bracedText {T : PTables} {st : PState} {s X : Str} (h : bracedTextOk T st s X = true) :
    BracedText T st s X := by
  simp only [bracedTextOk, Bool.and_eq_true, Bool.not_eq_true', List.isEmpty_eq_false_iff] at h
  exact ⟨h.1.1.1, h.1.1.2, h.1.2, h.2⟩

structure WsFacts (ws R : Str) : Prop where
  blank : ws.all isSpace = true
  nls : countNl ws < 2
  whole : ws = [] ∨ R.head?.all (fun d => !isSpace d) = true
  head : headOk R = true

theorem wsFacts {ws R : Str} (h : wsOk ws R = true) : WsFacts ws R := by
  simp only [wsOk, Bool.and_eq_true, decide_eq_true_eq, Bool.or_eq_true, List.isEmpty_iff] at h
  exact ⟨h.1.1.1, h.1.1.2, h.1.2, h.2⟩

/-- the source text, which starts at position `p`, after the definitions `E`, with its marks -/
inductive OkSrc (T : PTables) (st : PState) : Env → Nat → Str → List Mark → Prop
  | nil (E : Env) (p : Nat) : OkSrc T st E p [] []
  | chr (E : Env) (p : Nat) (c : Char) (cs : Str) (ms : List Mark) :
      okAt T st c cs = true → OkSrc T st E (p + 1) cs ms →
      OkSrc T st E p (c :: cs) (some (c, p) :: ms)
  | newthm (E : Env) (p : Nat) (name title ws R : Str) (ms : List Mark) :
      newthmOk T st name title ws R = true →
      OkSrc T st ((name, title) :: E) (p + (name.length + title.length + ws.length + 15)) R ms →
      OkSrc T st E p ('\\' :: (ntName ++ '{' :: (name ++ '}' :: '{' :: (title ++ '}' :: (ws ++ R)))))
        (none :: ms)
  | beg (E : Env) (p : Nat) (name ws R : Str) (ms : List Mark) :
      begOk T st E name ws R = true → OkSrc T st E (p + (name.length + ws.length + 8)) R ms →
      OkSrc T st E p ('\\' :: (nBegin ++ '{' :: (name ++ '}' :: (ws ++ R))))
        (fixMarks p [nl, nl] ++ none :: (fixMarks p (titleD E name ++ ['.', nl]) ++ ms))
  | begN (E : Env) (p : Nat) (name note R : Str) (ms : List Mark) :
      begNOk T st E name note R = true → OkSrc T st E (p + (name.length + note.length + 10)) R ms →
      OkSrc T st E p ('\\' :: (nBegin ++ '{' :: (name ++ '}' :: '[' :: (note ++ ']' :: R))))
        (fixMarks p [nl, nl] ++ none :: (fixMarks p (titleD E name ++ [' ', '(']) ++
          ((posText (p + name.length + 9) note).map some ++
            (fixMarks (p + name.length + 9 + lastTokOff note) [')', '.', nl] ++ ms))))
  | en (E : Env) (p : Nat) (name R : Str) (ms : List Mark) :
      endOk T st E name R = true → OkSrc T st E (p + (name.length + 6)) R ms →
      OkSrc T st E p ('\\' :: (nEnd ++ '{' :: (name ++ '}' :: R))) (fixMarks p [nl, nl] ++ ms)

theorem OkSrc_text (T : PTables) (st : PState) (E : Env) (R : Str) (ms : List Mark) :
    ∀ (s : Str) (p : Nat), OkSrc T st E (p + s.length) R ms → textOk T st s R = true →
      OkSrc T st E p (s ++ R) ((posText p s).map some ++ ms)
  | [], _, hR, _ => hR
  | c :: cs, p, hR, h => by
    simp only [textOk, Bool.and_eq_true] at h
    have hR' : OkSrc T st E (p + 1 + cs.length) R ms := by
      have e : p + 1 + cs.length = p + (c :: cs).length := by simp; omega
      rw [e]; exact hR
    exact OkSrc.chr E p c (cs ++ R) _ h.1 (OkSrc_text T st E R ms cs (p + 1) hR' h.2)

theorem OkSrc_of_segsOk (T : PTables) (st : PState) :
    ∀ (segs : List Seg) (E : Env) (p : Nat), segsOk T st E segs = true →
      OkSrc T st E p (render segs) (marks E p segs)
  | [], E, p, _ => .nil E p
  | .txt s :: rest, E, p, h => by
    simp only [segsOk, Bool.and_eq_true] at h
    exact OkSrc_text T st E _ _ s p (OkSrc_of_segsOk T st rest E _ h.2) h.1
  | .newthm name title ws :: rest, E, p, h => by
    simp only [segsOk, Bool.and_eq_true] at h
    have := OkSrc.newthm E p name title ws (render rest) _ h.1 (OkSrc_of_segsOk T st rest _ _ h.2)
    simpa [render, Seg.render, marks] using this
  | .beg name ws :: rest, E, p, h => by
    simp only [segsOk, Bool.and_eq_true] at h
    have := OkSrc.beg E p name ws (render rest) _ h.1 (OkSrc_of_segsOk T st rest _ _ h.2)
    simpa [render, Seg.render, marks] using this
  | .begN name note :: rest, E, p, h => by
    simp only [segsOk, Bool.and_eq_true] at h
    have := OkSrc.begN E p name note (render rest) _ h.1 (OkSrc_of_segsOk T st rest _ _ h.2)
    simpa [render, Seg.render, marks] using this
  | .en name :: rest, E, p, h => by
    simp only [segsOk, Bool.and_eq_true] at h
    have := OkSrc.en E p name (render rest) _ h.1 (OkSrc_of_segsOk T st rest _ _ h.2)
    simpa [render, Seg.render, marks] using this

/-- white space in front can be dropped -/
theorem OkSrc_drop_space (T : PTables) (st : PState) (E : Env) :
    ∀ (k : Nat) (p : Nat) (s : Str) (ms : List Mark), k ≤ s.length → OkSrc T st E p s ms →
      (∀ x ∈ s.take k, isSpace x = true) →
      ∃ ms', ms = (posText p (s.take k)).map some ++ ms' ∧ OkSrc T st E (p + k) (s.drop k) ms'
  | 0, _, _, ms, _, h, _ => ⟨ms, rfl, h⟩
  | k + 1, _, [], _, hk, _, _ => by simp at hk
  | k + 1, p, c :: cs, _, hk, h, hsp => by
    have hc : isSpace c = true := hsp c (by simp)
    cases h with
    | chr _ _ _ _ ms0 _ h2 =>
      obtain ⟨ms', e, h3⟩ := OkSrc_drop_space T st E k (p + 1) cs ms0 (by simpa using hk) h2
        (fun x hx => hsp x (by simp [hx]))
      refine ⟨ms', by simp [posText, e], ?_⟩
      have e : p + (k + 1) = p + 1 + k := by omega
      rw [e]; exact h3
    | newthm _ _ name title ws R _ _ _ => exact absurd hc (by decide)
    | beg _ _ name ws R _ _ _ => exact absurd hc (by decide)
    | begN _ _ name note R _ _ _ => exact absurd hc (by decide)
    | en _ _ name R _ _ _ => exact absurd hc (by decide)

theorem titleOk_congr {T : PTables} {st st' : PState} (hl : st'.langStack = st.langStack) (t : Str) :
    titleOk T st' t = titleOk T st t := by
  simp only [titleOk, activeChars_congr T st st' hl]

/-- the conditions depend on the state only through the language stack -/
theorem OkSrc.congr {T : PTables} {st st' : PState} (hl : st'.langStack = st.langStack)
    {E : Env} {p : Nat} {s : Str} {ms : List Mark} (h : OkSrc T st E p s ms) :
    OkSrc T st' E p s ms := by
  have ht : ∀ E n, titleAt T st' E n = titleAt T st E n := by
    intro E n
    simp only [titleAt, titleOk_congr hl]
  have hb : ∀ s X, bracedTextOk T st' s X = bracedTextOk T st s X := by
    intro s X
    simp only [bracedTextOk, PlainFootnote.textOk_congr T st st' hl]
  induction h with
  | nil E p => exact .nil E p
  | chr E p c cs ms hat _ ih =>
    refine .chr E p c cs ms ?_ ih
    rw [← hat]
    simp only [okAt, activeChars_congr T st st' hl, shortKeys_congr T st st' hl]
  | newthm E p name title ws R ms hd _ ih =>
    refine .newthm E p name title ws R ms ?_ ih
    rw [← hd]
    simp only [newthmOk, hb]
  | beg E p name ws R ms hd _ ih =>
    refine .beg E p name ws R ms ?_ ih
    rw [← hd]
    simp only [begOk, hb, ht]
  | begN E p name note R ms hd _ ih =>
    refine .begN E p name note R ms ?_ ih
    rw [← hd]
    simp only [begNOk, hb, ht, PlainFootnote.textOk_congr T st st' hl]
  | en E p name R ms hd _ ih =>
    refine .en E p name R ms ?_ ih
    rw [← hd]
    simp only [endOk, hb]

/-! ### the scanner -/

/-- the scanner on `{s}`, `s` an inert text -/
theorem scanSteps_bracedText (T : PTables) (st : PState) (src : Str) (pos fuel : Nat) (s X : Str)
    (hf : s.length + 2 ≤ fuel) (F : BracedText T st s X) :
    ∃ nsteps, TextRun T st (pos + 1) s nsteps ∧
      scanSteps T.toTables src fuel pos ('{' :: (s ++ '}' :: X))
        = ({ tok := lbr pos, len := 1 } :: (nsteps ++
             { tok := rbr (pos + 1 + s.length), len := 1 } ::
             (scanSteps T.toTables src (fuel - nsteps.length - 2) (pos + (s.length + 2)) X).1),
           (scanSteps T.toTables src (fuel - nsteps.length - 2) (pos + (s.length + 2)) X).2) := by
  obtain ⟨g, rfl⟩ : ∃ g, fuel = g + 1 := ⟨fuel - 1, by omega⟩
  have hn2 := nextToken_brace T src pos '{' _ (Or.inl rfl) F.b1
  obtain ⟨nsteps, B, hrun⟩ := PlainFootnote.scanSteps_textrun T st src ('}' :: X) (by simp; decide)
    s.length s (pos + 1) g (Nat.le_refl _) (by omega) F.txt
  have hBl := B.len
  obtain ⟨g', hg'⟩ : ∃ g', g - nsteps.length = g' + 1 := ⟨g - nsteps.length - 1, by omega⟩
  have hn3 := nextToken_brace T src (pos + 1 + s.length) '}' X (Or.inr rfl) F.b2
  refine ⟨nsteps, B, ?_⟩
  rw [scanSteps_step T.toTables src g pos _ _ _ hn2 (by simp)]
  simp only [List.drop_succ_cons, List.drop_zero]
  rw [hrun, hg', scanSteps_step T.toTables src g' _ _ _ _ hn3 (by simp)]
  simp only [List.drop_succ_cons, List.drop_zero]
  have e1 : g + 1 - nsteps.length - 2 = g' := by omega
  have e2 : pos + 1 + s.length + 1 = pos + (s.length + 2) := by omega
  rw [e1, e2]
  rfl

/-- the scanner step for the white space that will be skipped -/
def wsSteps (pos : Nat) (ws : Str) : List ScanStep :=
  if ws.isEmpty then [] else [{ tok := { kind := .space, pos := pos, txt := ws }, len := ws.length }]

theorem wsSteps_len (pos : Nat) (ws : Str) : (wsSteps pos ws).length ≤ ws.length := by
  unfold wsSteps
  cases ws <;> simp

theorem wsSteps_ok (pos : Nat) (ws : Str) : ∀ x ∈ wsSteps pos ws,
    x.diag = none ∧ x.extra = [] ∧ x.tok.kind = .space := by
  intro x hx
  unfold wsSteps at hx
  split at hx
  · simp at hx
  · simp only [List.mem_singleton] at hx
    subst hx
    exact ⟨rfl, rfl, rfl⟩

theorem scanSteps_ws (T : PTables) (src : Str) (pos fuel : Nat) (ws R : Str) (F : WsFacts ws R)
    (hf : ws.length ≤ fuel) :
    scanSteps T.toTables src fuel pos (ws ++ R)
      = (wsSteps pos ws ++
          (scanSteps T.toTables src (fuel - (wsSteps pos ws).length) (pos + ws.length) R).1,
         (scanSteps T.toTables src (fuel - (wsSteps pos ws).length) (pos + ws.length) R).2) := by
  cases ws with
  | nil => simp [wsSteps]
  | cons c w =>
    obtain ⟨g, rfl⟩ : ∃ g, fuel = g + 1 := ⟨fuel - 1, by simp at hf; omega⟩
    have hb := F.blank
    simp only [List.all_cons, Bool.and_eq_true] at hb
    have hR : R.head?.all (fun d => !isSpace d) = true := by
      rcases F.whole with h | h
      · cases h
      · exact h
    have hn := nextToken_ws T src pos c w R hb.1 hb.2 F.nls hR
    rw [show (c :: w) ++ R = c :: (w ++ R) from rfl,
      scanSteps_step T.toTables src g pos c _ _ hn (by simp)]
    have hd : (c :: (w ++ R)).drop (w.length + 1) = R := by simp
    simp only [hd, wsSteps, List.isEmpty_cons, Bool.false_eq_true, if_false, List.length_cons,
      List.length_nil, List.cons_append, List.nil_append]
    simp

/-- the head of the token buffer of a source that does not start with skippable white space or `[` -/
theorem headOk_steps (steps : List ScanStep) (R : Str) (hR : headOk R = true)
    (hfirst : ∀ s ss, steps = s :: ss → s.tok.txt = firstTokTxtM R)
    (hsp : ∀ s ss, steps = s :: ss → isSpaceTok s.tok = true → headSp R = true) :
    HeadOk (steps.map (·.tok)) := by
  simp only [headOk, Bool.and_eq_true, Bool.not_eq_true', bne_iff_ne, ne_eq] at hR
  cases steps with
  | nil => exact ⟨fun t h => by simp at h, fun t h => by simp at h⟩
  | cons s ss =>
    refine ⟨fun t' h => ?_, fun t' h => ?_⟩
    · simp only [List.map_cons, List.head?_cons, Option.some.injEq] at h
      subst h
      cases hx : isSpaceTok s.tok with
      | false => rfl
      | true => rw [hsp s ss rfl hx] at hR; exact absurd hR.1 (by simp)
    · simp only [List.map_cons, List.head?_cons, Option.some.injEq] at h
      subst h
      have ht := hfirst s ss rfl
      unfold txtIs
      rw [ht]
      cases R with
      | nil => rfl
      | cons d ds =>
        have hd : d ≠ '[' := by
          intro e; apply hR.2; simp [e]
        simp only [firstTokTxtM]
        by_cases h1 : isSpace d = true
        · simp [h1, hd]
        · by_cases h2 : d = '\\'
          · subst h2; simp [h1]
          · simp [h1, h2, hd]

/-- what the scanner loop yields on a well-formed source, and what the token buffer means -/
structure ScanFacts (T : PTables) (st : PState) (E : Env) (rest : Str) (ms : List Mark)
    (steps : List ScanStep) : Prop where
  ok : ∀ s ∈ steps, s.diag = none ∧ s.extra = []
  pieces : ∃ ps, steps.map (·.tok) = flat ps ∧ PiecesOk T st E ps ∧ marksOf (outP E ps) = ms ∧
    (∀ t ∈ outP E ps, Simple t) ∧ cost ps ≤ rest.length
  first : ∀ s ss, steps = s :: ss → s.tok.txt = firstTokTxtM rest
  firstSp : ∀ s ss, steps = s :: ss → isSpaceTok s.tok = true → headSp rest = true

theorem ScanFacts_nil (T : PTables) (st : PState) (E : Env) : ScanFacts T st E [] [] [] :=
  ⟨by simp, ⟨[], rfl, trivial, rfl, by simp [outP], by simp [cost]⟩, by simp, by simp⟩

theorem nameToks_of_run {T : PTables} {st : PState} {pos : Nat} {s : Str} {steps : List ScanStep}
    (B : TextRun T st pos s steps) (hne : s ≠ []) :
    NameToks T st (steps.map (·.tok)) ∧ txtOf (steps.map (·.tok)) = s := by
  refine ⟨⟨?_, ?_⟩, ?_⟩
  · intro e
    exact hne (B.nil_iff (by simpa using e))
  · intro t ht
    obtain ⟨x, hx, rfl⟩ := List.mem_map.mp ht
    exact (B.ok x hx).2.2
  · simp only [txtOf, B.txt]

theorem firstTok_cw (name X : Str) (h : (name ++ X).takeWhile macroChar = name) :
    firstTokTxtM ('\\' :: (name ++ X)) = '\\' :: name := by
  simp [firstTokTxtM, h, show isSpace '\\' = false by decide]

theorem simple_fix_vis (p : Nat) (s : Str) (hv : ∀ c ∈ s, isSpace c = false) :
    Simple (mkFix .text p s) := simple_vis _ rfl (by simpa [mkFix] using hv)

theorem simple_fix_blank (k : Kind) (hk : k = .space ∨ k = .par) (p : Nat) (s : Str)
    (hb : isBlank s = true) : Simple (mkFix k p s) := by
  refine ⟨fun ha => ?_, ?_, fun _ => hb⟩
  · rcases hk with rfl | rfl <;> simp [isAction, mkFix] at ha
  · rcases hk with rfl | rfl <;> rfl

theorem simple_title (p : Nat) (title : Str) (h : hasNl title = false) : Simple (mkFix .text p title) :=
  ⟨fun ha => by simp [isAction, mkFix] at ha, rfl, fun hn => by simp [mkFix, h] at hn⟩

theorem marksOf_thmToks (p : Nat) (title : Str) :
    marksOf (thmToks p title) = fixMarks p (title ++ ['.', nl]) := by
  simp only [thmToks, marksOf_cons, tokMarks_mkFix _ _ _ (by simp : Kind.text ≠ .action),
    tokMarks_mkFix _ _ _ (by simp : Kind.space ≠ .action)]
  simp [fixMarks, marksOf]

theorem marksOf_thmNToks (p : Nat) (title : Str) (note : List Tok) (pos : Nat) (s : Str) (lp : Nat)
    (hm : marksOf note = (posText pos s).map some) (hl : lastPos note = lp) :
    marksOf (thmNToks p title note)
      = fixMarks p (title ++ [' ', '(']) ++ ((posText pos s).map some ++ fixMarks lp [')', '.', nl]) := by
  simp only [thmNToks, marksOf_cons, marksOf_append, hm, hl,
    tokMarks_mkFix _ _ _ (by simp : Kind.text ≠ .action),
    tokMarks_mkFix _ _ _ (by simp : Kind.space ≠ .action)]
  simp [fixMarks, marksOf]

theorem tokMarks_parTok (p : Nat) : tokMarks (parTok p) = fixMarks p [nl, nl] :=
  tokMarks_mkFix _ _ _ (by simp)

theorem simple_parTok (p : Nat) : Simple (parTok p) :=
  simple_fix_blank _ (Or.inr rfl) p _ (by decide)

theorem simple_thmToks (p : Nat) (title : Str) (h : hasNl title = false) :
    ∀ t ∈ thmToks p title, Simple t := by
  intro t ht
  simp only [thmToks, List.mem_cons, List.not_mem_nil, or_false] at ht
  rcases ht with rfl | rfl | rfl
  · exact simple_title p title h
  · exact simple_fix_vis p _ (by decide)
  · exact simple_fix_blank _ (Or.inl rfl) p _ (by decide)

theorem simple_thmNToks {T : PTables} {st : PState} (p : Nat) (title : Str) (note : List Tok)
    (h : hasNl title = false) (hn : ∀ t ∈ note, CopyTok T st t) :
    ∀ t ∈ thmNToks p title note, Simple t := by
  intro t ht
  simp only [thmNToks, List.mem_cons, List.mem_append, List.not_mem_nil, or_false] at ht
  rcases ht with rfl | rfl | rfl | ht | rfl | rfl
  · exact simple_title p title h
  · exact simple_fix_blank _ (Or.inl rfl) p _ (by decide)
  · exact simple_fix_vis p _ (by decide)
  · exact simple_of_copy (hn t ht)
  · exact simple_fix_vis _ _ (by decide)
  · exact simple_fix_blank _ (Or.inl rfl) _ _ (by decide)

structure NewthmFacts (T : PTables) (st : PState) (name title ws R : Str) : Prop where
  cw : CwFacts T ({ macros := [] } : PState) ntName
    ('{' :: (name ++ '}' :: '{' :: (title ++ '}' :: (ws ++ R))))
  nm : BracedText T st name ('{' :: (title ++ '}' :: (ws ++ R)))
  tl : BracedText T st title (ws ++ R)
  ws : WsFacts ws R

theorem newthmFacts {T : PTables} {st : PState} {name title ws R : Str}
    (h : newthmOk T st name title ws R = true) : NewthmFacts T st name title ws R := by
  simp only [newthmOk, PlainRef.nameOk, Bool.and_eq_true] at h
  exact ⟨cwFacts h.1.1.1, bracedText h.1.1.2, bracedText h.1.2, wsFacts h.2⟩

structure BegFacts (T : PTables) (st : PState) (E : Env) (name ws R : Str) : Prop where
  special : matchSpecial T.toTables ('\\' :: (nBegin ++ '{' :: (name ++ '}' :: (ws ++ R)))) = none
  noverb : startsWith ('{' :: (name ++ '}' :: (ws ++ R))) sVerbatimArg = false
  nm : BracedText T st name (ws ++ R)
  title : TitleAt T st E name
  ws : WsFacts ws R

theorem begFacts {T : PTables} {st : PState} {E : Env} {name ws R : Str}
    (h : begOk T st E name ws R = true) : BegFacts T st E name ws R := by
  simp only [begOk, Bool.and_eq_true, Bool.not_eq_true', Option.isNone_iff_eq_none] at h
  exact ⟨h.1.1.1.1, h.1.1.1.2, bracedText h.1.1.2, titleAt_facts h.1.2, wsFacts h.2⟩

structure BegNFacts (T : PTables) (st : PState) (E : Env) (name note R : Str) : Prop where
  special : matchSpecial T.toTables
    ('\\' :: (nBegin ++ '{' :: (name ++ '}' :: '[' :: (note ++ ']' :: R)))) = none
  noverb : startsWith ('{' :: (name ++ '}' :: '[' :: (note ++ ']' :: R))) sVerbatimArg = false
  nm : BracedText T st name ('[' :: (note ++ ']' :: R))
  title : TitleAt T st E name
  lb : bracketAt T '[' (note ++ ']' :: R) = true
  ne : note ≠ []
  nrb : ']' ∉ note
  txt : PlainFootnote.textOk T st note (']' :: R) = true
  rb : bracketAt T ']' R = true

theorem begNFacts {T : PTables} {st : PState} {E : Env} {name note R : Str}
    (h : begNOk T st E name note R = true) : BegNFacts T st E name note R := by
  simp only [begNOk, Bool.and_eq_true, Bool.not_eq_true', Option.isNone_iff_eq_none,
    List.isEmpty_eq_false_iff, List.contains_eq_mem, decide_eq_false_iff_not] at h
  obtain ⟨⟨⟨⟨⟨⟨⟨⟨h1, h2⟩, h3⟩, h4⟩, h5⟩, h6⟩, h7⟩, h8⟩, h9⟩ := h
  exact ⟨h1, h2, bracedText h3, titleAt_facts h4, h5, h6, h7, h8, h9⟩

structure EndFacts (T : PTables) (st : PState) (E : Env) (name R : Str) : Prop where
  special : matchSpecial T.toTables ('\\' :: (nEnd ++ '{' :: (name ++ '}' :: R))) = none
  nm : BracedText T st name R
  title : (titleOf E name).isSome = true

theorem endFacts {T : PTables} {st : PState} {E : Env} {name R : Str}
    (h : endOk T st E name R = true) : EndFacts T st E name R := by
  simp only [endOk, Bool.and_eq_true, Option.isNone_iff_eq_none] at h
  exact ⟨h.1.1, bracedText h.1.2, h.2⟩

theorem TitleAt.titleD {T : PTables} {st : PState} {E : Env} {name : Str} (h : TitleAt T st E name) :
    hasNl (titleD E name) = false := by
  obtain ⟨t, h1, h2⟩ := h
  simp only [PlainThm.titleD, h1, Option.getD_some]
  exact h2.nonl

theorem cwTok_notSpace (p : Nat) (name : Str) : isSpaceTok (cwTok p name) = false := rfl

/-- the scanner loop on a well-formed source -/
theorem scanSteps_thm (T : PTables) (st : PState) (src : Str) :
    ∀ (n fuel pos : Nat) (rest : Str) (E : Env) (ms : List Mark),
    rest.length ≤ n → rest.length ≤ fuel → OkSrc T st E pos rest ms →
    (scanSteps T.toTables src fuel pos rest).2 = true ∧
    ScanFacts T st E rest ms (scanSteps T.toTables src fuel pos rest).1 := by
  intro n
  induction n with
  | zero =>
    intro fuel pos rest E ms hn _ hok
    cases rest with
    | nil => cases hok; exact ⟨by simp [scanSteps], by simpa [scanSteps] using ScanFacts_nil T st E⟩
    | cons c cs => simp at hn
  | succ n ih =>
    intro fuel pos rest E ms hn hf hok
    cases rest with
    | nil => cases hok; exact ⟨by simp [scanSteps], by simpa [scanSteps] using ScanFacts_nil T st E⟩
    | cons c cs =>
      obtain ⟨fuel, rfl⟩ : ∃ f, fuel = f + 1 := ⟨fuel - 1, by simp at hf; omega⟩
      have hok0 := hok
      cases hok with
      | chr _ _ _ _ ms' hat hsub0 =>
        have hsnd := okAt_snd hat
        obtain ⟨hp, hone⟩ := nextToken_text T src pos c cs hsnd
        generalize hs : nextToken T.toTables src pos (c :: cs) = s at hp hone
        have h1 := hp.len_pos
        have h2 := hp.len_le
        have hsub : ∃ ms1, some (c, pos) :: ms' = (posText pos ((c :: cs).take s.len)).map some ++ ms1 ∧
            OkSrc T st E (pos + s.len) ((c :: cs).drop s.len) ms1 := by
          by_cases hsp : isSpace c = true
          · refine OkSrc_drop_space T st E s.len pos (c :: cs) _ h2 hok0 ?_
            intro x hx
            rw [← hp.txt, hp.first] at hx
            simp only [firstTokTxt, hsp, if_true] at hx
            exact mem_takeWhile_imp _ _ _ hx
          · have := (hone (by simpa using hsp)).1
            rw [this]
            exact ⟨ms', rfl, hsub0⟩
        obtain ⟨ms1, hms1, hsub⟩ := hsub
        rw [scanSteps_step T.toTables src fuel pos c cs s hs (by omega)]
        have hl : ((c :: cs).drop s.len).length ≤ fuel := by
          simp only [List.length_drop]; simp only [List.length_cons] at hf h2 ⊢; omega
        have hl' : ((c :: cs).drop s.len).length ≤ n := by
          simp only [List.length_drop]; simp only [List.length_cons] at hn h2 ⊢; omega
        obtain ⟨i1, I⟩ := ih fuel (pos + s.len) ((c :: cs).drop s.len) E ms1 hl' hl hsub
        obtain ⟨ps', hflat, hpok, hmarks, hsimple, hcost⟩ := I.pieces
        have hne : s.tok.txt ≠ [] := by
          rw [hp.txt]
          intro h0
          have := congrArg List.length h0
          simp only [List.length_take, List.length_nil] at this
          omega
        have hshape : Shape s.tok := by
          refine ⟨hne, ?_⟩
          intro hnl
          by_cases hsp : isSpace c = true
          · rw [hp.first]
            simp only [firstTokTxt, hsp, if_true, isBlank, List.all_eq_true]
            exact fun x hx => mem_takeWhile_imp _ _ _ hx
          · have hsp' : isSpace c = false := by simpa using hsp
            have := (hone hsp').1
            rw [hp.txt, this] at hnl
            simp only [List.take_succ_cons, List.take_zero] at hnl
            rw [hasNl_single c hsp'] at hnl; cases hnl
        refine ⟨i1, ?_, ?_, ?_, ?_⟩
        · intro x hx
          rcases List.mem_cons.mp hx with rfl | hx
          · exact ⟨hp.diag, hp.extra⟩
          · exact I.ok x hx
        · refine ⟨.tok s.tok :: ps', by simp [flat, Piece.toks, hflat], ⟨hp.tok, ?_, hpok⟩, ?_, ?_, ?_⟩
          · -- the short-macro branch
            rw [← hflat]
            have hact := hat
            simp only [okAt, Bool.and_eq_true, Bool.or_eq_true, Bool.not_eq_true'] at hact
            rcases hact.1 with hna | ⟨hns, hk⟩
            · left
              have : s.tok.txt = c :: (cs.take (s.len - 1)) := by
                rw [hp.txt]
                obtain ⟨k, hk⟩ : ∃ k, s.len = k + 1 := ⟨s.len - 1, by omega⟩
                rw [hk]; simp
              rw [this]
              exact not_active_cons T st c _ hna
            · right
              have hlen := (hone hns).1
              have htxt : s.tok.txt = [c] := by rw [hp.txt, hlen]; rfl
              have i4 := I.first
              rw [hlen] at i4 ⊢
              simp only [List.drop_succ_cons, List.drop_zero] at i4 ⊢
              cases hr : (scanSteps T.toTables src fuel (pos + 1) cs).1 with
              | nil => rfl
              | cons s2 ss =>
                simp only [List.map_cons]
                apply expandShortMacro_none
                rw [htxt, i4 s2 ss hr]
                rcases hk with hk | hk
                · cases cs with
                  | nil => cases fuel <;> simp [scanSteps] at hr
                  | cons => simp at hk
                · simpa using hk
          · simp only [outP]
            rw [marksOf_cons, tokMarks_nonaction _ hp.tok.notAction, tokChars_nofix _ hp.fix, hmarks,
              hp.txt, hp.pos, hms1]
          · intro x hx
            simp only [outP, List.mem_cons] at hx
            rcases hx with rfl | hx
            · exact simple_of_plain hp.tok hshape
            · exact hsimple x hx
          · simp only [cost, List.length_cons, List.length_drop] at hcost h2 ⊢
            omega
        · intro s' ss' he
          simp only [List.cons.injEq] at he
          rw [← he.1, hp.first]
          refine (firstTokTxtM_of_text c cs ?_).symm
          rcases hsnd with h | h
          · exact Or.inl h
          · exact Or.inr h.1
        · intro s' ss' he hsp'
          simp only [List.cons.injEq] at he
          rw [← he.1] at hsp'
          by_cases hc : isSpace c = true
          · have hk : s.tok.kind
                = if countNl ((c :: cs).takeWhile isSpace) < 2 then Kind.space else Kind.par := by
              rw [← hs]; simp [nextToken, hc, scanSpace]
            simp only [headSp, List.head?_cons, Option.any_some, hc, Bool.true_and, decide_eq_true_eq]
            by_cases hlt : countNl ((c :: cs).takeWhile isSpace) < 2
            · exact hlt
            · rw [if_neg hlt] at hk; simp [isSpaceTok, hk] at hsp'
          · have := (hone (by simpa using hc)).2
            simp [isSpaceTok, this] at hsp'
      | newthm _ _ name title ws R ms' hd hsub =>
        have V := newthmFacts hd
        have hnl : ntName.length = 10 := rfl
        simp only [List.length_cons, List.length_append, hnl] at hf hn
        have hn1 := nextToken_cw T _ src pos ntName _ V.cw
        rw [hnl] at hn1
        obtain ⟨nst, N, hrun1⟩ := scanSteps_bracedText T st src (pos + 11) fuel name _ (by omega) V.nm
        have hNl := N.len
        obtain ⟨tst, B, hrun2⟩ := scanSteps_bracedText T st src (pos + 11 + (name.length + 2))
          (fuel - nst.length - 2) title _ (by omega) V.tl
        have hBl := B.len
        have hwl := wsSteps_len (pos + 11 + (name.length + 2) + (title.length + 2)) ws
        have hrun3 := scanSteps_ws T src (pos + 11 + (name.length + 2) + (title.length + 2))
          (fuel - nst.length - 2 - tst.length - 2) ws R V.ws (by omega)
        have hpos : pos + 11 + (name.length + 2) + (title.length + 2) + ws.length
            = pos + (name.length + title.length + ws.length + 15) := by omega
        rw [hpos] at hrun3
        obtain ⟨i1, I⟩ := ih (fuel - nst.length - 2 - tst.length - 2
            - (wsSteps (pos + 11 + (name.length + 2) + (title.length + 2)) ws).length)
          (pos + (name.length + title.length + ws.length + 15)) R ((name, title) :: E) ms' (by omega)
          (by omega) hsub
        obtain ⟨ps', hflat, hpok, hmarks, hsimple, hcost⟩ := I.pieces
        have hd1 : ('\\' :: (ntName ++ '{' :: (name ++ '}' :: '{' :: (title ++ '}' :: (ws ++ R))))).drop 11
            = '{' :: (name ++ '}' :: '{' :: (title ++ '}' :: (ws ++ R))) := by
          rw [show (11 : Nat) = ntName.length + 1 from rfl]; simp
        rw [scanSteps_step T.toTables src fuel pos _ _ _ hn1 (by simp), hd1]
        simp only []
        rw [hrun1, hrun2, hrun3]
        obtain ⟨hN, eN⟩ := nameToks_of_run N V.nm.ne
        obtain ⟨hB, eB⟩ := nameToks_of_run B V.tl.ne
        have hsp : SpToks ((wsSteps (pos + 11 + (name.length + 2) + (title.length + 2)) ws).map (·.tok)) := by
          intro t ht
          obtain ⟨x, hx, rfl⟩ := List.mem_map.mp ht
          exact (wsSteps_ok _ _ x hx).2.2
        have hhead : HeadOk (flat ps') := by
          rw [← hflat]; exact headOk_steps _ R V.ws.head I.first I.firstSp
        refine ⟨i1, ?_, ?_, ?_, ?_⟩
        · intro x hx
          simp only [List.mem_cons, List.mem_append] at hx
          rcases hx with rfl | rfl | hx | rfl | rfl | hx | rfl | hx | hx
          · exact ⟨rfl, rfl⟩
          · exact ⟨rfl, rfl⟩
          · exact ⟨(N.ok x hx).1, (N.ok x hx).2.1⟩
          · exact ⟨rfl, rfl⟩
          · exact ⟨rfl, rfl⟩
          · exact ⟨(B.ok x hx).1, (B.ok x hx).2.1⟩
          · exact ⟨rfl, rfl⟩
          · exact ⟨(wsSteps_ok _ _ x hx).1, (wsSteps_ok _ _ x hx).2.1⟩
          · exact I.ok x hx
        · refine ⟨.newthm pos (pos + 11) (pos + 11 + 1 + name.length) (pos + 11 + (name.length + 2))
              (pos + 11 + (name.length + 2) + 1 + title.length) (nst.map (·.tok)) (tst.map (·.tok))
              ((wsSteps (pos + 11 + (name.length + 2) + (title.length + 2)) ws).map (·.tok)) :: ps',
              ?_, ⟨hN, hB, hsp, hhead, by rw [eN, eB]; exact hpok⟩, ?_, ?_, ?_⟩
          · simp [flat, Piece.toks, hflat]
          · simp only [outP, eN, eB]
            rw [marksOf_cons, tokMarks_mkAction, hmarks]
            rfl
          · intro x hx
            simp only [outP, eN, eB, List.mem_cons] at hx
            rcases hx with rfl | hx
            · exact simple_mkAction pos
            · exact hsimple x hx
          · simp only [cost, List.length_cons, List.length_append, List.length_map, hnl]
            omega
        · intro s' ss' he
          simp only [List.cons.injEq] at he
          rw [← he.1]
          exact (firstTok_cw ntName _ V.cw.tw).symm
        · intro s' ss' he hsp'
          simp only [List.cons.injEq] at he
          rw [← he.1] at hsp'
          exact absurd hsp' (by simp [cwTok_notSpace])
      | beg _ _ name ws R ms' hd hsub =>
        have V := begFacts hd
        have hbl : nBegin.length = 5 := rfl
        simp only [List.length_cons, List.length_append, hbl] at hf hn
        have hn1 := nextToken_begin T src pos _ V.special V.noverb
        obtain ⟨nst, N, hrun1⟩ := scanSteps_bracedText T st src (pos + 6) fuel name _ (by omega) V.nm
        have hNl := N.len
        have hwl := wsSteps_len (pos + 6 + (name.length + 2)) ws
        have hrun3 := scanSteps_ws T src (pos + 6 + (name.length + 2))
          (fuel - nst.length - 2) ws R V.ws (by omega)
        have hpos : pos + 6 + (name.length + 2) + ws.length = pos + (name.length + ws.length + 8) := by
          omega
        rw [hpos] at hrun3
        obtain ⟨i1, I⟩ := ih (fuel - nst.length - 2 - (wsSteps (pos + 6 + (name.length + 2)) ws).length)
          (pos + (name.length + ws.length + 8)) R E ms' (by omega) (by omega) hsub
        obtain ⟨ps', hflat, hpok, hmarks, hsimple, hcost⟩ := I.pieces
        have hd1 : ('\\' :: (nBegin ++ '{' :: (name ++ '}' :: (ws ++ R)))).drop 6
            = '{' :: (name ++ '}' :: (ws ++ R)) := rfl
        rw [scanSteps_step T.toTables src fuel pos _ _ _ hn1 (by simp), hd1]
        simp only []
        rw [hrun1, hrun3]
        obtain ⟨hN, eN⟩ := nameToks_of_run N V.nm.ne
        have hsp : SpToks ((wsSteps (pos + 6 + (name.length + 2)) ws).map (·.tok)) := by
          intro t ht
          obtain ⟨x, hx, rfl⟩ := List.mem_map.mp ht
          exact (wsSteps_ok _ _ x hx).2.2
        have hhead : HeadOk (flat ps') := by
          rw [← hflat]; exact headOk_steps _ R V.ws.head I.first I.firstSp
        refine ⟨i1, ?_, ?_, ?_, ?_⟩
        · intro x hx
          simp only [List.mem_cons, List.mem_append] at hx
          rcases hx with rfl | rfl | hx | rfl | hx | hx
          · exact ⟨rfl, rfl⟩
          · exact ⟨rfl, rfl⟩
          · exact ⟨(N.ok x hx).1, (N.ok x hx).2.1⟩
          · exact ⟨rfl, rfl⟩
          · exact ⟨(wsSteps_ok _ _ x hx).1, (wsSteps_ok _ _ x hx).2.1⟩
          · exact I.ok x hx
        · refine ⟨.beg pos (pos + 6) (pos + 6 + 1 + name.length) (nst.map (·.tok))
              ((wsSteps (pos + 6 + (name.length + 2)) ws).map (·.tok)) :: ps',
              ?_, ⟨hN, by rw [eN]; exact V.title, hsp, hhead, hpok⟩, ?_, ?_, ?_⟩
          · simp [flat, Piece.toks, hflat]
          · simp only [outP, eN]
            rw [marksOf_cons, tokMarks_parTok, marksOf_cons, tokMarks_mkAction, marksOf_append,
              marksOf_thmToks, hmarks]
            simp
          · intro x hx
            simp only [outP, eN, List.mem_cons, List.mem_append] at hx
            rcases hx with rfl | rfl | hx | hx
            · exact simple_parTok pos
            · exact simple_mkAction pos
            · exact simple_thmToks pos _ V.title.titleD x hx
            · exact hsimple x hx
          · simp only [cost, List.length_cons, List.length_append, List.length_map]
            omega
        · intro s' ss' he
          simp only [List.cons.injEq] at he
          rw [← he.1]
          exact (firstTok_cw nBegin _ (takeWhile_append_stop _ _ _ (by decide) rfl)).symm
        · intro s' ss' he hsp'
          simp only [List.cons.injEq] at he
          rw [← he.1] at hsp'
          exact absurd hsp' (by simp [isSpaceTok, begTok])
      | begN _ _ name note R ms' hd hsub =>
        have V := begNFacts hd
        have hbl : nBegin.length = 5 := rfl
        simp only [List.length_cons, List.length_append, hbl] at hf hn
        have hn1 := nextToken_begin T src pos _ V.special V.noverb
        obtain ⟨nst, N, hrun1⟩ := scanSteps_bracedText T st src (pos + 6) fuel name _ (by omega) V.nm
        have hNl := N.len
        obtain ⟨ost, B, hrun2⟩ := scanSteps_note T st src (pos + 6 + (name.length + 2))
          (fuel - nst.length - 2) note R (by omega) V.lb V.txt V.rb
        have hBl := B.len
        have hpos : pos + 6 + (name.length + 2) + (note.length + 2)
            = pos + (name.length + note.length + 10) := by omega
        rw [hpos] at hrun2
        obtain ⟨i1, I⟩ := ih (fuel - nst.length - 2 - ost.length - 2)
          (pos + (name.length + note.length + 10)) R E ms' (by omega) (by omega) hsub
        obtain ⟨ps', hflat, hpok, hmarks, hsimple, hcost⟩ := I.pieces
        have hd1 : ('\\' :: (nBegin ++ '{' :: (name ++ '}' :: '[' :: (note ++ ']' :: R)))).drop 6
            = '{' :: (name ++ '}' :: '[' :: (note ++ ']' :: R)) := rfl
        rw [scanSteps_step T.toTables src fuel pos _ _ _ hn1 (by simp), hd1]
        simp only []
        rw [hrun1, hrun2]
        obtain ⟨hN, eN⟩ := nameToks_of_run N V.nm.ne
        have hnne : ost.map (·.tok) ≠ [] := by
          intro e
          exact V.ne (B.nil_iff (by simpa using e))
        have hnote : ∀ t ∈ ost.map (·.tok), CopyTok T st t ∧ t.txt ≠ [']'] := by
          intro t ht
          obtain ⟨x, hx, rfl⟩ := List.mem_map.mp ht
          refine ⟨(B.ok x hx).2.2, ?_⟩
          intro e
          have hmem := mem_txt_of_getTxtPos (c := ']') ht (by rw [e]; simp)
          rw [B.txt] at hmem
          exact V.nrb hmem
        have hlast : lastPos (ost.map (·.tok))
            = pos + 6 + (name.length + 2) + 1 + lastTokOff note := by
          cases hgl : (ost.map (·.tok)).getLast? with
          | none => exact absurd (List.getLast?_eq_none_iff.mp hgl) hnne
          | some l => rw [lastPos_of_getLast hgl, B.last l hgl]
        refine ⟨i1, ?_, ?_, ?_, ?_⟩
        · intro x hx
          simp only [List.mem_cons, List.mem_append] at hx
          rcases hx with rfl | rfl | hx | rfl | rfl | hx | rfl | hx
          · exact ⟨rfl, rfl⟩
          · exact ⟨rfl, rfl⟩
          · exact ⟨(N.ok x hx).1, (N.ok x hx).2.1⟩
          · exact ⟨rfl, rfl⟩
          · exact ⟨rfl, rfl⟩
          · exact ⟨(B.ok x hx).1, (B.ok x hx).2.1⟩
          · exact ⟨rfl, rfl⟩
          · exact I.ok x hx
        · refine ⟨.begN pos (pos + 6) (pos + 6 + 1 + name.length) (pos + 6 + (name.length + 2))
              (pos + 6 + (name.length + 2) + 1 + note.length) (nst.map (·.tok)) (ost.map (·.tok)) :: ps',
              ?_, ⟨hN, by rw [eN]; exact V.title, hnne, hnote, hpok⟩, ?_, ?_, ?_⟩
          · simp [flat, Piece.toks, hflat]
          · simp only [outP, eN]
            rw [marksOf_cons, tokMarks_parTok, marksOf_cons, tokMarks_mkAction, marksOf_append,
              marksOf_thmNToks pos _ _ _ note _ (marksOf_textrun B) hlast, hmarks]
            have e : pos + 6 + (name.length + 2) + 1 = pos + name.length + 9 := by omega
            simp [e]
          · intro x hx
            simp only [outP, eN, List.mem_cons, List.mem_append] at hx
            rcases hx with rfl | rfl | hx | hx
            · exact simple_parTok pos
            · exact simple_mkAction pos
            · exact simple_thmNToks pos _ _ V.title.titleD (fun t ht => (hnote t ht).1) x hx
            · exact hsimple x hx
          · simp only [cost, List.length_cons, List.length_append, List.length_map]
            omega
        · intro s' ss' he
          simp only [List.cons.injEq] at he
          rw [← he.1]
          exact (firstTok_cw nBegin _ (takeWhile_append_stop _ _ _ (by decide) rfl)).symm
        · intro s' ss' he hsp'
          simp only [List.cons.injEq] at he
          rw [← he.1] at hsp'
          exact absurd hsp' (by simp [isSpaceTok, begTok])
      | en _ _ name R ms' hd hsub =>
        have V := endFacts hd
        have hel : nEnd.length = 3 := rfl
        simp only [List.length_cons, List.length_append, hel] at hf hn
        have hn1 := nextToken_end T src pos _ V.special
        obtain ⟨nst, N, hrun1⟩ := scanSteps_bracedText T st src (pos + 4) fuel name _ (by omega) V.nm
        have hNl := N.len
        have hpos : pos + 4 + (name.length + 2) = pos + (name.length + 6) := by omega
        rw [hpos] at hrun1
        obtain ⟨i1, I⟩ := ih (fuel - nst.length - 2) (pos + (name.length + 6)) R E ms' (by omega)
          (by omega) hsub
        obtain ⟨ps', hflat, hpok, hmarks, hsimple, hcost⟩ := I.pieces
        have hd1 : ('\\' :: (nEnd ++ '{' :: (name ++ '}' :: R))).drop 4 = '{' :: (name ++ '}' :: R) := rfl
        rw [scanSteps_step T.toTables src fuel pos _ _ _ hn1 (by simp), hd1]
        simp only []
        rw [hrun1]
        obtain ⟨hN, eN⟩ := nameToks_of_run N V.nm.ne
        refine ⟨i1, ?_, ?_, ?_, ?_⟩
        · intro x hx
          simp only [List.mem_cons, List.mem_append] at hx
          rcases hx with rfl | rfl | hx | rfl | hx
          · exact ⟨rfl, rfl⟩
          · exact ⟨rfl, rfl⟩
          · exact ⟨(N.ok x hx).1, (N.ok x hx).2.1⟩
          · exact ⟨rfl, rfl⟩
          · exact I.ok x hx
        · refine ⟨.en pos (pos + 4) (pos + 4 + 1 + name.length) (nst.map (·.tok)) :: ps',
              ?_, ⟨hN, by rw [eN]; exact V.title, hpok⟩, ?_, ?_, ?_⟩
          · simp [flat, Piece.toks, hflat]
          · simp only [outP]
            rw [marksOf_cons, tokMarks_parTok, hmarks]
          · intro x hx
            simp only [outP, List.mem_cons] at hx
            rcases hx with rfl | hx
            · exact simple_parTok pos
            · exact hsimple x hx
          · simp only [cost, List.length_cons, List.length_append, List.length_map]
            omega
        · intro s' ss' he
          simp only [List.cons.injEq] at he
          rw [← he.1]
          exact (firstTok_cw nEnd _ (takeWhile_append_stop _ _ _ (by decide) rfl)).symm
        · intro s' ss' he hsp'
          simp only [List.cons.injEq] at he
          rw [← he.1] at hsp'
          exact absurd hsp' (by simp [isSpaceTok, endTok])

/-- `scan` on a well-formed source: no diagnostics; the token buffer consists of plain tokens,
    definitions and uses, and its output tokens spell the marks of the source -/
theorem scan_thm (T : PTables) (st : PState) (src : Str) (ms : List Mark)
    (h : OkSrc T st [] 0 src ms) :
    (scan T.toTables src).diags = [] ∧
    ∃ ps, (scan T.toTables src).toks = flat ps ∧ PiecesOk T st [] ps ∧ marksOf (outP [] ps) = ms ∧
      (∀ t ∈ outP [] ps, Simple t) ∧ cost ps ≤ src.length := by
  obtain ⟨_, F⟩ := scanSteps_thm T st src src.length src.length 0 src [] ms (Nat.le_refl _)
    (Nat.le_refl _) h
  have he := flatten_tok_extra (scanSteps T.toTables src src.length 0 src).1 (fun s hs => (F.ok s hs).2)
  have hd := flatten_diag_nil (scanSteps T.toTables src src.length 0 src).1 (fun s hs => (F.ok s hs).1)
  obtain ⟨ps, h1, h2, h3, h4, h5⟩ := F.pieces
  simp only [scan]
  rw [he, hd]
  exact ⟨rfl, ps, h1, h2, h3, h4, h5⟩

/-! ### `parserWork`, `parse`, `tex2txt` -/

theorem stOf_unknowns (st : PState) : ∀ E : Env, (stOf st E).unknowns = st.unknowns
  | [] => rfl
  | _ :: E => stOf_unknowns st E

theorem stOf_diags (st : PState) : ∀ E : Env, (stOf st E).diags = st.diags
  | [] => rfl
  | _ :: E => stOf_diags st E

theorem stOf_extracted (st : PState) : ∀ E : Env, (stOf st E).extracted = st.extracted
  | [] => rfl
  | _ :: E => stOf_extracted st E

theorem NtOk.congr {st st' : PState} (hm : st'.macros = st.macros) (h : NtOk st) : NtOk st' := by
  obtain ⟨m, h1, h2⟩ := h
  exact ⟨m, by simpa [lookupMacro, hm] using h1, h2⟩

/-- **`parserWork` on a well-formed source.**  The characters of the result tokens, with their
    positions, are the marks of the document with the pure Action lines deleted.  Of the state only
    the table of environments changes. -/
theorem parserWork_thm (T : PTables) (st : PState) (src : Str) (fuel : Nat) (ms : List Mark)
    (hf : src.length + 2 ≤ fuel) (S : StFacts T st) (hnt : NtOk st) (h : OkSrc T st [] 0 src ms) :
    ∃ r stF, parserWork T fuel src st = .ok (r, stF) ∧ charsOf r = delLines ms ∧
      stF.unknowns = st.unknowns ∧ stF.diags = st.diags ∧ stF.extracted = st.extracted := by
  obtain ⟨f, rfl⟩ : ∃ f, fuel = f + 1 := ⟨fuel - 1, by omega⟩
  obtain ⟨hd, ps, hflat, hpok, hmarks, hsimple, hcost⟩ := scan_thm T st src ms h
  let st' : PState := { st with latex := src, nest := st.nest + 1 }
  have hpok' : PiecesOk T st' [] ps := PiecesOk.congr (st := st) (st' := st') rfl hpok
  have hs := seq_thm T st' (StFacts.congr (st := st) (st' := st') rfl S)
    (NtOk.congr (st := st) (st' := st') rfl hnt) ps f [] [] (by omega) hpok'
  rw [List.nil_append] at hs
  obtain ⟨r, hr, hchars⟩ := removeLines_simple _ hsimple
  rw [hr] at hs
  simp only [] at hs
  rw [hmarks] at hchars
  let sF : PState := stOf st' (finalEnv [] ps)
  refine ⟨r, ({ sF with latex := st.latex, nest := sF.nest - 1 } : PState), ?_, hchars, ?_, ?_, ?_⟩
  · rw [parserWork.eq_2]
    refine (M.bind_ok _ _ _ _ _ (rfl : M.get st = _)).trans ?_
    refine (M.bind_ok _ _ _ _ _ (rfl : M.modify _ _ = _)).trans ?_
    refine (M.bind_ok _ _ _ _ _ (rfl : M.modify _ _ = _)).trans ?_
    refine (M.bind_ok _ _ _ _ _ (rfl : M.get _ = _)).trans ?_
    simp only [hd, List.append_nil]
    rw [skipPass_nocomment _ _ _ (fun t ht' => hpok.notComment t (by rw [← hflat]; exact ht'))]
    simp only []
    refine (M.bind_ok _ _ _ _ _ (rfl : (pure _ : M (List Tok)) _ = _)).trans ?_
    rw [hflat]
    refine (M.bind_ok _ _ _ _ _ hs).trans ?_
    refine (M.bind_ok _ _ _ _ _ (rfl : M.modify _ _ = _)).trans ?_
    rfl
  · exact stOf_unknowns st' _
  · exact stOf_diags st' _
  · exact stOf_extracted st' _

theorem parse_thm (T : PTables) (st : PState) (src : Str) (fuel : Nat) (ms : List Mark)
    (hf : src.length + 2 ≤ fuel) (S : StFacts T st) (hnt : NtOk st) (h : OkSrc T st [] 0 src ms) :
    ∃ r stF, parse T fuel src [] [] st = .ok (r, stF) ∧ charsOf r = delLines ms ∧
      stF.unknowns = [] ∧ stF.diags = st.diags := by
  have h' : OkSrc T { st with extracted := [], unknowns := [], foreign := false, nest := 0 } [] 0 src ms :=
    OkSrc.congr (st := st)
      (st' := { st with extracted := [], unknowns := [], foreign := false, nest := 0 }) rfl h
  obtain ⟨r, stF, hw, hc, hu, hdg, hex⟩ := parserWork_thm T
    { st with extracted := [], unknowns := [], foreign := false, nest := 0 } src fuel ms hf
    (StFacts.congr (st := st) rfl S) (NtOk.congr (st := st) rfl hnt) h'
  refine ⟨r, stF, ?_, hc, hu, hdg⟩
  unfold parse
  simp only [List.isEmpty_nil, Bool.not_true, Bool.false_eq_true, if_false, if_true]
  refine (M.bind_ok _ _ _ _ _ (rfl : M.modify _ _ = _)).trans ?_
  refine (M.bind_ok _ _ _ _ _ (rfl : (pure _ : M (List Tok)) _ = _)).trans ?_
  refine (M.bind_ok _ _ _ _ _ (rfl : M.modify _ _ = _)).trans ?_
  refine (M.bind_ok _ _ _ _ _ hw).trans ?_
  refine (M.bind_ok _ _ _ _ _ (rfl : M.get _ = _)).trans ?_
  show Outcome.ok _ = _
  simp only [] at hex
  simp [hex]

/-- the result of `tex2txt` on a well-formed source (no `--defs`, `--extr`, `--repl`, `--unkn`;
    single-language mode) -/
theorem tex2txt_thm_src (T : PTables) (o : Options) (fs : FS) (thresh : Nat) (src : Str) (fuel : Nat)
    (st1 : PState) (ms : List Mark)
    (hdefs : o.defs = []) (hextr : o.extr = []) (hrepl : o.hasRepl = false) (hunkn : o.unkn = false)
    (hinit : initParser T fuel o (initialState T o false fs) = .ok ((), st1))
    (S : StFacts T st1) (hnt : NtOk st1) (h : OkSrc T st1 [] 0 src ms)
    (hf : src.length + 2 ≤ fuel) :
    ∃ r, tex2txt T fuel src o false thresh fs = .ok r ∧
      r.txt = (delLines ms).map (·.1) ∧ r.pos = (delLines ms).map (·.2 + 1) ∧
      r.unknowns = [] ∧ r.diags = st1.diags ∧ r.parts = [] := by
  obtain ⟨r, stF, hp, hc, hu, hdg⟩ := parse_thm T st1 src fuel ms hf S hnt h
  have hrun : (initParser T fuel o >>= fun _ => parse T fuel src o.defs
        (if o.extr.isEmpty then [] else (splitOn ',' o.extr []).map (fun s => '\\' :: s)))
        (initialState T o false fs)
      = .ok (r, stF) := by
    refine (M.bind_ok _ _ _ _ _ hinit).trans ?_
    rw [hdefs, hextr]
    exact hp
  unfold tex2txt
  simp only []
  rw [hrun]
  simp only [hrepl, hunkn, Bool.not_false, if_true, Bool.false_eq_true, if_false,
    getTxtPos_charsOf, hc, List.map_map, hu, hdg]
  exact ⟨_, rfl, rfl, rfl, rfl, rfl, rfl⟩

/-- **C04 end to end, theorem-like environments.**  The document consists of inert text,
    definitions `\newtheorem{name}{title}` and environments `\begin{name}` / `\begin{name}[note]` …
    `\end{name}` of names defined before (`SegsOk`: all side conditions); `st1` is the state after
    `Parser.__init__`; no `--defs`, `--extr`, `--repl`, `--unkn`; single-language mode.  With one
    unit of fuel per source character and two more, `tex2txt` succeeds and the output text with its
    (1-based) positions is `delLines (marks [] 0 segs)`: see `marks`, and then every line deleted
    (with its line break) that consists of white space only and holds at least one definition
    (`remove_pure_action_lines`); there are no unknowns and no diagnostic is added. -/
theorem tex2txt_theorem (T : PTables) (o : Options) (fs : FS) (thresh : Nat) (segs : List Seg)
    (fuel : Nat) (st1 : PState)
    (hdefs : o.defs = []) (hextr : o.extr = []) (hrepl : o.hasRepl = false) (hunkn : o.unkn = false)
    (hinit : initParser T fuel o (initialState T o false fs) = .ok ((), st1))
    (hok : SegsOk T st1 segs) (hf : (render segs).length + 2 ≤ fuel) :
    ∃ r, tex2txt T fuel (render segs) o false thresh fs = .ok r ∧
      r.txt = (delLines (marks [] 0 segs)).map (·.1) ∧
      r.pos = (delLines (marks [] 0 segs)).map (·.2 + 1) ∧
      r.unknowns = [] ∧ r.diags = st1.diags ∧ r.parts = [] := by
  obtain ⟨hst, hsegs⟩ := hok
  obtain ⟨S, hnt⟩ := stFacts hst
  have hsrc := OkSrc_of_segsOk T st1 segs [] 0 hsegs
  exact tex2txt_thm_src T o fs thresh (render segs) fuel st1 _ hdefs hextr hrepl hunkn
    hinit S hnt hsrc hf

/-! ### readings of the reference -/

open PlainRef (fixChars filterMap_fixMarks mem_fixChars lastTokOff_le)
open PlainVanish (mem_posText delLines_mem)

/-- **the reference output when no line is deleted** (`thmOut`): the document, which starts at
    position `p`, after the definitions `E` — characters with their (0-based) source positions:
    * a text character is copied with its own position;
    * `\newtheorem{name}{title}` and the white space behind it (at most one line break) leave
      nothing; the definition comes into force;
    * `\begin{name}` and the white space behind it are replaced by a paragraph break (two line
      breaks), the title in force, `.` and a line break, every character at the position of `\begin`;
    * `\begin{name}[note]` is replaced by a paragraph break, the title and ` (` at the position of
      `\begin`, the note at its own positions, `).` and a line break at the start of the last token
      of the note;
    * `\end{name}` is replaced by a paragraph break at the position of `\end`. -/
def thmOut : Env → Nat → List Seg → List (Char × Nat)
  | _, _, [] => []
  | E, p, .txt s :: rest => posText p s ++ thmOut E (p + s.length) rest
  | E, p, .newthm name title ws :: rest =>
    thmOut ((name, title) :: E) (p + (name.length + title.length + ws.length + 15)) rest
  | E, p, .beg name ws :: rest =>
    fixChars p ([nl, nl] ++ titleD E name ++ ['.', nl]) ++
      thmOut E (p + (name.length + ws.length + 8)) rest
  | E, p, .begN name note :: rest =>
    fixChars p ([nl, nl] ++ titleD E name ++ [' ', '(']) ++ (posText (p + name.length + 9) note ++
      (fixChars (p + name.length + 9 + lastTokOff note) [')', '.', nl] ++
        thmOut E (p + (name.length + note.length + 10)) rest))
  | E, p, .en name :: rest => fixChars p [nl, nl] ++ thmOut E (p + (name.length + 6)) rest

theorem marks_chars : ∀ (segs : List Seg) (E : Env) (p : Nat),
    (marks E p segs).filterMap id = thmOut E p segs
  | [], _, _ => rfl
  | .txt s :: rest, E, p => by
    simp only [marks, thmOut, List.filterMap_append, filterMap_map_some, marks_chars rest]
  | .newthm name title ws :: rest, E, p => by
    simp only [marks, thmOut, List.filterMap_cons, id, marks_chars rest]
  | .beg name ws :: rest, E, p => by
    simp only [marks, thmOut, List.filterMap_cons, id, List.filterMap_append, filterMap_fixMarks,
      marks_chars rest]
    simp [fixChars]
  | .begN name note :: rest, E, p => by
    simp only [marks, thmOut, List.filterMap_cons, id, List.filterMap_append, filterMap_fixMarks,
      filterMap_map_some, marks_chars rest]
    simp [fixChars]
  | .en name :: rest, E, p => by
    simp only [marks, thmOut, List.filterMap_append, filterMap_fixMarks, marks_chars rest]

/-- … when no line consists of white space and definitions only (`linesKept`, decidable): the
    output is `thmOut` -/
theorem tex2txt_theorem_kept (T : PTables) (o : Options) (fs : FS) (thresh : Nat) (segs : List Seg)
    (fuel : Nat) (st1 : PState)
    (hdefs : o.defs = []) (hextr : o.extr = []) (hrepl : o.hasRepl = false) (hunkn : o.unkn = false)
    (hinit : initParser T fuel o (initialState T o false fs) = .ok ((), st1))
    (hok : SegsOk T st1 segs) (hf : (render segs).length + 2 ≤ fuel)
    (hk : linesKept true false (marks [] 0 segs) = true) :
    ∃ r, tex2txt T fuel (render segs) o false thresh fs = .ok r ∧
      r.txt = (thmOut [] 0 segs).map (·.1) ∧ r.pos = (thmOut [] 0 segs).map (·.2 + 1) ∧
      r.unknowns = [] ∧ r.diags = st1.diags ∧ r.parts = [] := by
  obtain ⟨r, h1, h2, h3, h4⟩ := tex2txt_theorem T o fs thresh segs fuel st1 hdefs hextr hrepl hunkn
    hinit hok hf
  rw [delLines_kept _ hk, marks_chars] at h2 h3
  exact ⟨r, h1, h2, h3, h4⟩

/-- the spans `(start, length)` of `\begin{name}`, `\begin{name}[note]` and `\end{name}` (without
    the white space behind them) -/
def spans : Nat → List Seg → List (Nat × Nat)
  | _, [] => []
  | p, .txt s :: rest => spans (p + s.length) rest
  | p, .newthm name title ws :: rest => spans (p + (name.length + title.length + ws.length + 15)) rest
  | p, .beg name ws :: rest => (p, name.length + 8) :: spans (p + (name.length + ws.length + 8)) rest
  | p, .begN name note :: rest =>
    (p, name.length + note.length + 10) :: spans (p + (name.length + note.length + 10)) rest
  | p, .en name :: rest => (p, name.length + 6) :: spans (p + (name.length + 6)) rest

/-- the characters of the text segments with their own positions -/
def textChars : Nat → List Seg → List (Char × Nat)
  | _, [] => []
  | p, .txt s :: rest => posText p s ++ textChars (p + s.length) rest
  | p, s :: rest => textChars (p + s.len) rest

theorem mem_fixMarks {cp : Char × Nat} {p : Nat} {s : Str} (h : some cp ∈ fixMarks p s) : cp.2 = p := by
  simp only [fixMarks, List.mem_map] at h
  obtain ⟨c, _, e⟩ := h
  cases e
  rfl

/-- **every character of the marks is a text character at its own position, or its position lies
    in the span of a `\begin{…}` / `\end{…}`** -/
theorem marks_span {cp : Char × Nat} : ∀ {segs : List Seg} {E : Env} {p : Nat},
    some cp ∈ marks E p segs →
      cp ∈ textChars p segs ∨ ∃ q ∈ spans p segs, q.1 ≤ cp.2 ∧ cp.2 < q.1 + q.2
  | [], _, _, h => by simp [marks] at h
  | .txt s :: rest, E, p, h => by
    simp only [marks, List.mem_append, List.mem_map] at h
    simp only [textChars, spans, List.mem_append]
    rcases h with ⟨x, hx, e⟩ | h
    · cases e; exact Or.inl (Or.inl hx)
    · rcases marks_span h with h | h
      · exact Or.inl (Or.inr h)
      · exact Or.inr h
  | .newthm name title ws :: rest, E, p, h => by
    simp only [marks, List.mem_cons, reduceCtorEq, false_or] at h
    simp only [textChars, spans, Seg.len]
    exact marks_span h
  | .beg name ws :: rest, E, p, h => by
    simp only [marks, List.mem_append, List.mem_cons, reduceCtorEq, false_or] at h
    simp only [textChars, spans, Seg.len, List.mem_cons]
    rcases h with h | h | h
    · have e := mem_fixMarks h
      exact Or.inr ⟨_, Or.inl rfl, by simp only []; omega, by simp only []; omega⟩
    · have e := mem_fixMarks h
      exact Or.inr ⟨_, Or.inl rfl, by simp only []; omega, by simp only []; omega⟩
    · rcases marks_span h with h | ⟨q, hq, h⟩
      · exact Or.inl h
      · exact Or.inr ⟨q, Or.inr hq, h⟩
  | .begN name note :: rest, E, p, h => by
    simp only [marks, List.mem_append, List.mem_cons, reduceCtorEq, false_or, List.mem_map] at h
    simp only [textChars, spans, Seg.len, List.mem_cons]
    have hlt := lastTokOff_le note
    rcases h with h | h | ⟨x, hx, e⟩ | h | h
    · have e := mem_fixMarks h
      exact Or.inr ⟨_, Or.inl rfl, by simp only []; omega, by simp only []; omega⟩
    · have e := mem_fixMarks h
      exact Or.inr ⟨_, Or.inl rfl, by simp only []; omega, by simp only []; omega⟩
    · cases e
      have := mem_posText hx
      exact Or.inr ⟨_, Or.inl rfl, by simp only []; omega, by simp only []; omega⟩
    · have e := mem_fixMarks h
      exact Or.inr ⟨_, Or.inl rfl, by simp only []; omega, by simp only []; omega⟩
    · rcases marks_span h with h | ⟨q, hq, h⟩
      · exact Or.inl h
      · exact Or.inr ⟨q, Or.inr hq, h⟩
  | .en name :: rest, E, p, h => by
    simp only [marks, List.mem_append] at h
    simp only [textChars, spans, Seg.len, List.mem_cons]
    rcases h with h | h
    · have e := mem_fixMarks h
      exact Or.inr ⟨_, Or.inl rfl, by simp only []; omega, by simp only []; omega⟩
    · rcases marks_span h with h | ⟨q, hq, h⟩
      · exact Or.inl h
      · exact Or.inr ⟨q, Or.inr hq, h⟩

/-- the same for the output: the blank-line removal only deletes -/
theorem out_span {cp : Char × Nat} {segs : List Seg} (h : cp ∈ delLines (marks [] 0 segs)) :
    cp ∈ textChars 0 segs ∨ ∃ q ∈ spans 0 segs, q.1 ≤ cp.2 ∧ cp.2 < q.1 + q.2 :=
  marks_span (delLines_mem h)

end PlainThm
end Yalafi
