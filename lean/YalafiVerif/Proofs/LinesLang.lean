/-
  Proofs/LinesLang.lean — the blank-line removal (`Parser.remove_pure_action_lines`), exactly, on
  token lists WITH language tokens.

  `PlainMacro.removeLines_simple` describes `removeLines` on the level of characters for token lists
  without language tokens.  In multi-language mode the expander leaves `LanguageToken`s in its
  output; the removal treats them like empty text, except that the language tokens of a deleted
  line are kept.  This file generalises the character-level reference accordingly (same proof:
  induction on the relational form `LinesRel` of the loop with an invariant on the work list).

    `Item`         a character with its position, or a language token
    `Mark`         an item, or the mark of an Action token
    `tokItems`, `itemsOf`, `tokMarks`, `marksOf`
    `delGo`, `delLines`   the reference: a line (with its line break) is deleted iff it is blank and
                   holds an Action mark; the language tokens of a deleted line are kept, in order
    `Simple`       Action and language tokens have no text; a token with a line break is blank
    `removeLines_items`   `itemsOf (removeLines ts) = delLines (marksOf ts)` for simple tokens
    `delLines_sublist`, `delLines_langs`, `delLines_visible`   what the reference keeps
-/
import YalafiVerif.Proofs.PlainMacro
namespace Yalafi
namespace LinesLang

open PlainMacro (tokChars tokChars_fst mem_tokChars firstPart afterPart tokChars_parts Blank NoNl
  blank_tokChars parts_nl trimLast_nl trimLast_noNl noNl_of_hasNl_false all_tokChars
  tokChars_of_nil Simple_trimLast)

/-- a character with its position, or a language token -/
abbrev Item := (Char × Nat) ⊕ Tok
/-- an item, or the mark of an Action token (`none`) -/
abbrev Mark := Option Item

/-- characters as items -/
def ch (l : List (Char × Nat)) : List Item := l.map Sum.inl

def isLg : Item → Bool
  | .inr _ => true
  | .inl _ => false

def tokItems (t : Tok) : List Item := if isLang t then [.inr t] else ch (tokChars t)
def tokMarks (t : Tok) : List Mark := if isAction t then [none] else (tokItems t).map some
def marksOf (ts : List Tok) : List Mark := ts.flatMap tokMarks
def itemsOf (ts : List Tok) : List Item := ts.flatMap tokItems

/-- the reference: `cur` = the items of the current line so far, `blank` = its characters are all
    white space, `act` = the line holds an Action mark.  At a line break (and at the end) a blank
    line with an Action mark is deleted, except for its language tokens. -/
def delGo : List Item → Bool → Bool → List Mark → List Item
  | cur, blank, act, [] => if blank && act then cur.filter isLg else cur
  | cur, blank, _, none :: xs => delGo cur blank true xs
  | cur, blank, act, some (.inr t) :: xs => delGo (cur ++ [.inr t]) blank act xs
  | cur, blank, act, some (.inl cp) :: xs =>
    if cp.1 == nl then (if blank && act then cur.filter isLg else cur ++ [.inl cp]) ++ delGo [] true false xs
    else delGo (cur ++ [.inl cp]) (blank && isSpace cp.1) act xs

/-- delete every line (with its line break) that is blank and holds an Action mark, keeping its
    language tokens; drop the marks -/
def delLines (ms : List Mark) : List Item := delGo [] true false ms

@[simp] theorem ch_nil : ch [] = [] := rfl
@[simp] theorem ch_append (a b : List (Char × Nat)) : ch (a ++ b) = ch a ++ ch b := by simp [ch]
@[simp] theorem ch_cons (a : Char × Nat) (b : List (Char × Nat)) : ch (a :: b) = .inl a :: ch b := rfl
@[simp] theorem filter_isLg_ch (l : List (Char × Nat)) : (ch l).filter isLg = [] := by
  induction l with
  | nil => rfl
  | cons a l ih => simp [isLg, ih]

/-- a line with a visible character is kept -/
theorem delGo_nb : ∀ (ms : List Mark) (cur : List Item) (act : Bool),
    delGo cur false act ms = cur ++ delGo [] false false ms
  | [], cur, act => by simp [delGo]
  | none :: xs, cur, act => by
    rw [delGo, delGo, delGo_nb xs cur true, delGo_nb xs [] true]; simp
  | some (.inr t) :: xs, cur, act => by
    rw [delGo, delGo, delGo_nb xs (cur ++ [(Sum.inr t : Item)]) act, delGo_nb xs ([] ++ [(Sum.inr t : Item)]) false]; simp
  | some (.inl cp) :: xs, cur, act => by
    rw [delGo, delGo]
    by_cases h : (cp.1 == nl) = true
    · simp [h]
    · simp only [h, Bool.false_eq_true, if_false, Bool.false_and]
      rw [delGo_nb xs (cur ++ [(Sum.inl cp : Item)]) act, delGo_nb xs ([] ++ [(Sum.inl cp : Item)]) false]
      simp

/-- characters without line break extend the current line -/
theorem delGo_chars : ∀ (cs : List (Char × Nat)) (cur : List Item) (b act : Bool) (X : List Mark),
    NoNl cs → delGo cur b act ((ch cs).map some ++ X)
      = delGo (cur ++ ch cs) (b && cs.all (fun cp => isSpace cp.1)) act X
  | [], cur, b, act, X, _ => by simp
  | cp :: cs, cur, b, act, X, h => by
    have h1 : (cp.1 == nl) = false := h cp (List.mem_cons_self ..)
    simp only [ch_cons, List.map_cons, List.cons_append, delGo, h1, Bool.false_eq_true, if_false]
    rw [delGo_chars cs _ _ act X (fun x hx => h x (List.mem_cons_of_mem _ hx))]
    simp [Bool.and_assoc]

theorem all_of_Blank {l : List (Char × Nat)} (h : Blank l) : l.all (fun cp => isSpace cp.1) = true := by
  rw [List.all_eq_true]; exact h

/-- a run of Action marks, language tokens and white space without line break -/
def BlankRun (ms : List Mark) : Prop :=
  ∀ m ∈ ms, m = none ∨ (∃ t, m = some (.inr t)) ∨
    ∃ cp, m = some (.inl cp) ∧ isSpace cp.1 = true ∧ (cp.1 == nl) = false

theorem delGo_blankrun : ∀ (ms : List Mark) (cur : List Item) (act : Bool) (X : List Mark),
    BlankRun ms →
    delGo cur true act (ms ++ X) = delGo (cur ++ ms.filterMap id) true (act || ms.any Option.isNone) X
  | [], cur, act, X, _ => by simp
  | none :: ms, cur, act, X, h => by
    simp only [List.cons_append, delGo]
    rw [delGo_blankrun ms cur true X (fun m hm => h m (List.mem_cons_of_mem _ hm))]
    simp
  | some (.inr t) :: ms, cur, act, X, h => by
    simp only [List.cons_append, delGo]
    rw [delGo_blankrun ms _ act X (fun m hm => h m (List.mem_cons_of_mem _ hm))]
    simp
  | some (.inl cp) :: ms, cur, act, X, h => by
    rcases h (some (.inl cp)) (List.mem_cons_self ..) with h0 | ⟨t, h0⟩ | ⟨cp', e, h1, h2⟩
    · cases h0
    · cases h0
    · cases e
      simp only [List.cons_append, delGo, h2, Bool.false_eq_true, if_false, h1, Bool.and_self]
      rw [delGo_blankrun ms _ act X (fun m hm => h m (List.mem_cons_of_mem _ hm))]
      simp

/-- blank characters in front of a line break, no Action mark on the line: everything is kept -/
theorem delGo_keep_nl : ∀ (w : List (Char × Nat)) (cur : List Item) (nlp : Char × Nat) (X : List Mark),
    Blank w → (nlp.1 == nl) = true →
    delGo cur true false ((ch w).map some ++ some (.inl nlp) :: X)
      = cur ++ ch w ++ [.inl nlp] ++ delGo [] true false X
  | [], cur, nlp, X, _, hn => by simp [delGo, hn]
  | cp :: w, cur, nlp, X, hw, hn => by
    have hb : isSpace cp.1 = true := hw cp (List.mem_cons_self ..)
    have hw' : Blank w := fun x hx => hw x (List.mem_cons_of_mem _ hx)
    simp only [ch_cons, List.map_cons, List.cons_append, delGo]
    by_cases h : (cp.1 == nl) = true
    · simp only [h, if_true, Bool.and_false, Bool.false_eq_true, if_false]
      rw [delGo_keep_nl w [] nlp X hw' hn]
      simp
    · simp only [h, Bool.false_eq_true, if_false, hb, Bool.and_self]
      rw [delGo_keep_nl w _ nlp X hw' hn]
      simp

/-- blank characters (possibly with line breaks) in front of a line break, behind visible text -/
theorem delGo_keep_nl' : ∀ (w : List (Char × Nat)) (cur : List Item) (act : Bool)
    (nlp : Char × Nat) (X : List Mark), Blank w → (nlp.1 == nl) = true →
    delGo cur false act ((ch w).map some ++ some (.inl nlp) :: X)
      = cur ++ ch w ++ [.inl nlp] ++ delGo [] true false X
  | [], cur, act, nlp, X, _, hn => by simp [delGo, hn]
  | cp :: w, cur, act, nlp, X, hw, hn => by
    have hw' : Blank w := fun x hx => hw x (List.mem_cons_of_mem _ hx)
    simp only [ch_cons, List.map_cons, List.cons_append, delGo]
    by_cases h : (cp.1 == nl) = true
    · simp only [h, if_true, Bool.false_and, Bool.false_eq_true, if_false]
      rw [delGo_keep_nl w [] nlp X hw' hn]
      simp
    · simp only [h, Bool.false_eq_true, if_false, Bool.false_and]
      rw [delGo_keep_nl' w _ act nlp X hw' hn]
      simp

/-! ### simple tokens -/

/-- a token is simple: an Action or language token has no text, and if its text contains a line
    break it is blank -/
def Simple (t : Tok) : Prop :=
  ((isAction t = true ∨ isLang t = true) → t.txt = []) ∧ (hasNl t.txt = true → isBlank t.txt = true)

theorem Simple.toMacro {t : Tok} (h : Simple t) (hl : isLang t = false) : PlainMacro.Simple t :=
  ⟨fun ha => h.1 (Or.inl ha), hl, h.2⟩

theorem tokItems_notLang (t : Tok) (h : isLang t = false) : tokItems t = ch (tokChars t) := by
  simp [tokItems, h]

theorem tokItems_lang (t : Tok) (h : isLang t = true) : tokItems t = [.inr t] := by
  simp [tokItems, h]

theorem tokItems_of_nil (t : Tok) (h : t.txt = []) (hl : isLang t = false) : tokItems t = [] := by
  simp [tokItems, hl, tokChars_of_nil t h]

theorem tokMarks_nil (t : Tok) (h : t.txt = []) (ha : isAction t = false) (hl : isLang t = false) :
    tokMarks t = [] := by
  simp [tokMarks, ha, tokItems_of_nil t h hl]

theorem tokMarks_chars (t : Tok) (ha : isAction t = false) (hl : isLang t = false) :
    tokMarks t = (ch (tokChars t)).map some := by
  simp [tokMarks, ha, tokItems_notLang t hl]

theorem tokMarks_lang (t : Tok) (ha : isAction t = false) (hl : isLang t = true) :
    tokMarks t = [some (.inr t)] := by
  simp [tokMarks, ha, tokItems_lang t hl]

theorem tokMarks_action (t : Tok) (ha : isAction t = true) : tokMarks t = [none] := by
  simp [tokMarks, ha]

theorem not_action_of_lang (t : Tok) (h : isLang t = true) : isAction t = false := by
  unfold isLang at h
  unfold isAction
  split at h
  · rename_i hk; simp [hk]
  · cases h

/-- a blank token with a line break (no language token), no Action mark on the current line -/
theorem delGo_ntok (t : Tok) (hn : hasNl t.txt = true) (hb : isBlank t.txt = true)
    (cur : List Item) (b : Bool) (X : List Mark) :
    delGo cur b false ((ch (tokChars t)).map some ++ X)
      = cur ++ ch (firstPart t) ++ delGo (ch (afterPart t)) true false X := by
  obtain ⟨⟨W, nlp, eW, hnl⟩, hB1, hB2, hN2⟩ := parts_nl t hn hb
  have hBW : Blank W := fun cp h => hB1 cp (by rw [eW]; simp [h])
  rw [tokChars_parts t, eW]
  simp only [ch_append, ch_cons, ch_nil, List.map_append, List.map_cons,
    List.append_assoc, List.cons_append, List.nil_append]
  have h2 : delGo [] true false ((ch (afterPart t)).map some ++ X) = delGo (ch (afterPart t)) true false X := by
    rw [delGo_chars _ _ _ _ _ hN2, all_of_Blank hB2]; simp
  cases b with
  | true => rw [delGo_keep_nl W cur nlp _ hBW hnl, h2]; simp
  | false => rw [delGo_keep_nl' W cur false nlp _ hBW hnl, h2]; simp

/-! ### the work list -/

/-- an item that is the evaluation of a simple token -/
def FItem (i : LItem) : Prop := i = evalTok i.tok ∧ Simple i.tok
/-- a sentinel that starts a line -/
def SItem (i : LItem) : Prop :=
  i.tok.txt = [] ∧ isAction i.tok = false ∧ isLang i.tok = false ∧ i.cs = true ∧ i.blank = true ∧ i.ce = false
/-- the sentinel at the end -/
def EItem (i : LItem) : Prop :=
  i.tok.txt = [] ∧ isAction i.tok = false ∧ isLang i.tok = false ∧ i.cs = false ∧ i.blank = true ∧ i.ce = true

/-- the tail of a work list: evaluated simple tokens; the last one is no language token (it may be
    the end sentinel) -/
def WLt : List LItem → Prop
  | [] => True
  | [i] => (FItem i ∧ isLang i.tok = false) ∨ EItem i
  | i :: j :: tl => FItem i ∧ WLt (j :: tl)

/-- a work list: its head may also be a line-start sentinel -/
def WL : List LItem → Prop
  | [] => True
  | t :: rest => (FItem t ∨ SItem t ∨ (EItem t ∧ rest = [])) ∧ WLt rest

theorem WLt_cons {i : LItem} {tl : List LItem} (h : WLt (i :: tl)) :
    (FItem i ∨ (EItem i ∧ tl = [])) ∧ (tl = [] → isLang i.tok = false) ∧ WLt tl := by
  cases tl with
  | nil =>
    rcases h with h | h
    · exact ⟨Or.inl h.1, fun _ => h.2, trivial⟩
    · exact ⟨Or.inr ⟨h, rfl⟩, fun _ => h.2.2.1, trivial⟩
  | cons j tl => exact ⟨Or.inl h.1, (fun e => nomatch e), h.2⟩

theorem WLt_append {a : List LItem} {lst : LItem} {rest' : List LItem} (h : WLt (a ++ lst :: rest')) :
    (∀ i ∈ a, FItem i) ∧ WLt (lst :: rest') := by
  induction a with
  | nil => exact ⟨by simp, h⟩
  | cons x xs ih =>
    have hx : WLt (x :: (xs ++ lst :: rest')) := h
    obtain ⟨h1, _, h2⟩ := WLt_cons hx
    obtain ⟨i1, i2⟩ := ih h2
    refine ⟨?_, i2⟩
    intro i hi
    rcases List.mem_cons.mp hi with rfl | hi
    · rcases h1 with h1 | ⟨_, h1⟩
      · exact h1
      · simp at h1
    · exact i1 i hi

theorem WL_of_WLt {l : List LItem} (h : WLt l) : WL l := by
  cases l with
  | nil => trivial
  | cons i tl =>
    obtain ⟨h1, _, h2⟩ := WLt_cons h
    refine ⟨?_, h2⟩
    rcases h1 with h1 | h1
    · exact Or.inl h1
    · exact Or.inr (Or.inr h1)

theorem WLt_cons_F {i : LItem} {tl : List LItem} (hi : FItem i) (hl : tl = [] → isLang i.tok = false)
    (h : WLt tl) : WLt (i :: tl) := by
  cases tl with
  | nil => exact Or.inl ⟨hi, hl rfl⟩
  | cons j tl => exact ⟨hi, h⟩

/-- the flags of an evaluated simple token that is no Action token -/
theorem evalTok_simple (t : Tok) (hs : Simple t) (ha : isAction t = false) :
    (evalTok t).cs = hasNl t.txt ∧ (evalTok t).ce = hasNl t.txt ∧
    (evalTok t).blank = (!hasNl t.txt && isBlank t.txt) := by
  cases hn : hasNl t.txt with
  | false => simp [evalTok, ha, hn]
  | true =>
    have hb := hs.2 hn
    simp [evalTok, ha, hn, PlainMacro.isBlank_afterLastNl' _ hb, isBlank_beforeFirstNl _ hb]

def imarks (items : List LItem) : List Mark := items.flatMap (fun i => tokMarks i.tok)

/-- what the loop makes of a work list, on the level of items -/
def specW : List LItem → List Item
  | [] => []
  | t :: rest =>
    if t.cs then ch (firstPart t.tok) ++ delGo (ch (afterPart t.tok)) true false (imarks rest)
    else delGo [] false false (imarks (t :: rest))

theorem specW_cons (t : LItem) (rest : List LItem) :
    specW (t :: rest) = if t.cs then ch (firstPart t.tok) ++ delGo (ch (afterPart t.tok)) true false (imarks rest)
      else delGo [] false false (imarks (t :: rest)) := rfl

theorem imarks_cons (i : LItem) (l : List LItem) : imarks (i :: l) = tokMarks i.tok ++ imarks l := by
  simp [imarks]

theorem imarks_append (a b : List LItem) : imarks (a ++ b) = imarks a ++ imarks b := by
  simp [imarks]

theorem FItem_flags {i : LItem} (h : FItem i) (ha : isAction i.tok = false) :
    i.cs = hasNl i.tok.txt ∧ i.ce = hasNl i.tok.txt ∧ i.blank = (!hasNl i.tok.txt && isBlank i.tok.txt) := by
  have := evalTok_simple i.tok h.2 ha
  rw [← h.1] at this
  exact this

theorem FItem_action {i : LItem} (h : FItem i) (ha : isAction i.tok = true) :
    i.cs = false ∧ i.ce = false ∧ i.blank = true ∧ i.tok.txt = [] := by
  have e := h.1
  have : evalTok i.tok = { tok := i.tok, blank := true, cs := false, ce := false } := by
    simp [evalTok, ha]
  rw [this] at e
  refine ⟨by rw [e], by rw [e], by rw [e], h.2.1 (Or.inl ha)⟩

/-- the flags of a language token -/
theorem FItem_lang {i : LItem} (h : FItem i) (hl : isLang i.tok = true) :
    i.cs = false ∧ i.ce = false ∧ i.blank = true ∧ i.tok.txt = [] := by
  have htxt := h.2.1 (Or.inr hl)
  obtain ⟨f1, f2, f3⟩ := FItem_flags h (not_action_of_lang _ hl)
  rw [htxt] at f1 f2 f3
  exact ⟨f1, f2, f3, htxt⟩

theorem hasNl_of_cs {i : LItem} (h : FItem i) (hcs : i.cs = true) :
    isAction i.tok = false ∧ isLang i.tok = false ∧ hasNl i.tok.txt = true := by
  have ha : isAction i.tok = false := by
    cases ha : isAction i.tok with
    | false => rfl
    | true => have := (FItem_action h ha).1; rw [hcs] at this; cases this
  have hl : isLang i.tok = false := by
    cases hl : isLang i.tok with
    | false => rfl
    | true => have := (FItem_lang h hl).1; rw [hcs] at this; cases this
  exact ⟨ha, hl, by rw [← (FItem_flags h ha).1]; exact hcs⟩

/-- in the middle of a kept line: the rest of the work list -/
theorem specW_goK : ∀ (rest : List LItem), WLt rest → delGo [] false false (imarks rest) = specW rest
  | [], _ => rfl
  | h :: tl, hw => by
    by_cases hcs : h.cs = true
    · obtain ⟨h1, _, _⟩ := WLt_cons hw
      have hF : FItem h := by
        rcases h1 with h1 | ⟨h1, _⟩
        · exact h1
        · have := h1.2.2.2.1; rw [hcs] at this; cases this
      obtain ⟨ha, hl, hn⟩ := hasNl_of_cs hF hcs
      have hb := hF.2.2 hn
      simp only [specW, hcs, if_true]
      rw [imarks_cons, tokMarks_chars _ ha hl, delGo_ntok h.tok hn hb [] false]
      simp
    · simp only [specW, hcs, Bool.false_eq_true, if_false]

theorem filterMap_map_some {α} (l : List α) : (l.map some).filterMap id = l := by
  induction l with
  | nil => rfl
  | cons a l ih => simp [ih]

theorem any_isNone_map_some {α} (l : List α) : (l.map some).any Option.isNone = false := by
  induction l with
  | nil => rfl
  | cons a l ih => simp [ih]

theorem itemsOf_cons (t : Tok) (ts : List Tok) : itemsOf (t :: ts) = tokItems t ++ itemsOf ts := by
  simp [itemsOf]

theorem itemsOf_append (a b : List Tok) : itemsOf (a ++ b) = itemsOf a ++ itemsOf b := by
  simp [itemsOf]

/-- the collected middle of a line: Action marks, language tokens and blank text without line
    break -/
theorem mid_run : ∀ (mid : List LItem), (∀ i ∈ mid, FItem i) → (∀ i ∈ mid, i.blank = true ∧ i.ce = false) →
    BlankRun (imarks mid) ∧ (imarks mid).filterMap id = itemsOf (mid.map (·.tok)) ∧
    (imarks mid).any Option.isNone = mid.any (fun i => isAction i.tok) ∧
    itemsOf ((mid.map (·.tok)).filter isLang) = (itemsOf (mid.map (·.tok))).filter isLg
  | [], _, _ => ⟨by intro m hm; simp [imarks] at hm, rfl, rfl, rfl⟩
  | i :: mid, hF, hm => by
    obtain ⟨r1, r2, r3, r4⟩ := mid_run mid (fun x hx => hF x (List.mem_cons_of_mem _ hx))
      (fun x hx => hm x (List.mem_cons_of_mem _ hx))
    have hFi := hF i (List.mem_cons_self ..)
    obtain ⟨hb, hce⟩ := hm i (List.mem_cons_self ..)
    rw [imarks_cons]
    cases ha : isAction i.tok with
    | true =>
      have htxt := (FItem_action hFi ha).2.2.2
      have hl : isLang i.tok = false := by
        cases hl : isLang i.tok with
        | false => rfl
        | true => rw [not_action_of_lang _ hl] at ha; cases ha
      rw [tokMarks_action _ ha]
      refine ⟨?_, ?_, ?_, ?_⟩
      · intro m hm'
        rcases List.mem_append.mp hm' with h | h
        · left; simpa using h
        · exact r1 m h
      · simp [r2, itemsOf, tokItems_of_nil _ htxt hl]
      · simp [ha]
      · simp only [List.map_cons, List.filter_cons, hl, Bool.false_eq_true, if_false, itemsOf_cons,
          tokItems_of_nil _ htxt hl, List.nil_append]
        exact r4
    | false =>
      cases hl : isLang i.tok with
      | true =>
        rw [tokMarks_lang _ ha hl]
        refine ⟨?_, ?_, ?_, ?_⟩
        · intro m hm'
          rcases List.mem_append.mp hm' with h | h
          · right; left; exact ⟨i.tok, by simpa using h⟩
          · exact r1 m h
        · simp [r2, itemsOf_cons, tokItems_lang _ hl]
        · simp [r3, ha]
        · simp only [List.map_cons, List.filter_cons, hl, if_true, itemsOf_cons, tokItems_lang _ hl,
            List.singleton_append, isLg]
          rw [r4]
      | false =>
        obtain ⟨_, f2, f3⟩ := FItem_flags hFi ha
        have hn : hasNl i.tok.txt = false := by rw [← f2]; exact hce
        have hbl : isBlank i.tok.txt = true := by simpa [hn, hb] using f3.symm
        rw [tokMarks_chars _ ha hl]
        refine ⟨?_, ?_, ?_, ?_⟩
        · intro m hm'
          rcases List.mem_append.mp hm' with h | h
          · right; right
            obtain ⟨it, hit, rfl⟩ := List.mem_map.mp h
            obtain ⟨cp, hcp, rfl⟩ := List.mem_map.mp hit
            exact ⟨cp, rfl, blank_tokChars _ hbl cp hcp, noNl_of_hasNl_false _ hn cp hcp⟩
          · exact r1 m h
        · rw [List.filterMap_append, filterMap_map_some, r2]; simp [itemsOf_cons, tokItems_notLang _ hl]
        · rw [List.any_append, any_isNone_map_some, r3]; simp [ha]
        · simp only [List.map_cons, List.filter_cons, hl, Bool.false_eq_true, if_false, itemsOf_cons,
            tokItems_notLang _ hl, List.filter_append, filter_isLg_ch, List.nil_append]
          exact r4

theorem Simple_trimLast' (t : Tok) (h : Simple t) : Simple (trimLast t) := by
  refine ⟨?_, ?_⟩
  · intro ha
    have := h.1 (by simpa using ha)
    simp [trimLast, this, hasNl_nil]
  · intro hn
    cases hnt : hasNl t.txt with
    | false => simp [trimLast, hnt, hasNl_nil] at hn
    | true =>
      have hb := h.2 hnt
      have e := split_first t.txt hnt
      have : isBlank (afterFirstNl t.txt) = true := by
        rw [← e, isBlank_append] at hb
        simp only [Bool.and_eq_true] at hb
        have := hb.2
        simp only [isBlank, List.all_cons, Bool.and_eq_true] at this ⊢
        exact this.2
      simpa [trimLast, hnt] using this

theorem FItem_evalTok (t : Tok) (h : Simple t) : FItem (evalTok t) := by
  unfold FItem
  rw [evalTok_tok]
  exact ⟨rfl, h⟩

theorem Simple_of_nil (t : Tok) (h : t.txt = []) : Simple t :=
  ⟨fun _ => h, by rw [h]; intro h'; simp [hasNl] at h'⟩

/-- the end of a blank line with an Action mark: the line is deleted, through the first line
    break of the last collected token; its language tokens are kept -/
theorem lst_remove (lst : LItem) (rest' : List LItem) (cur : List Item) (act : Bool)
    (hl : FItem lst ∨ (EItem lst ∧ rest' = [])) (hnl : isLang lst.tok = false)
    (hx : lst.ce = false → lst.blank = true → rest' = []) (hb : (lst.ce || lst.blank) = true)
    (hact : (act || isAction lst.tok) = true) :
    delGo cur true act (tokMarks lst.tok ++ imarks rest')
      = cur.filter isLg ++ delGo [] true false (tokMarks (trimLast lst.tok) ++ imarks rest') := by
  have hnl' : isLang (trimLast lst.tok) = false := by simpa using hnl
  rcases hl with hF | ⟨hE, rfl⟩
  · cases ha : isAction lst.tok with
    | true =>
      obtain ⟨_, f2, f3, f4⟩ := FItem_action hF ha
      have := hx f2 f3
      subst this
      have ha' : isAction (trimLast lst.tok) = true := by simpa using ha
      rw [tokMarks_action _ ha, tokMarks_action _ ha']
      simp [imarks, delGo]
    | false =>
      have hact' : act = true := by simpa [ha] using hact
      subst hact'
      have ha' : isAction (trimLast lst.tok) = false := by simpa using ha
      obtain ⟨_, f2, f3⟩ := FItem_flags hF ha
      rw [tokMarks_chars _ ha hnl, tokMarks_chars _ ha' hnl']
      cases hn : hasNl lst.tok.txt with
      | true =>
        have hbl := hF.2.2 hn
        obtain ⟨B, nlp, e, hnl2, hB, hN⟩ := trimLast_nl lst.tok hn hbl
        rw [e]
        simp only [ch_append, ch_cons, List.map_append, List.map_cons, List.append_assoc,
          List.cons_append]
        rw [delGo_chars B cur true true _ hN, all_of_Blank hB]
        simp [delGo, hnl2]
      | false =>
        have hce : lst.ce = false := by rw [f2]; exact hn
        have hblank : lst.blank = true := by simpa [hce] using hb
        have hbl : isBlank lst.tok.txt = true := by simpa [hn, hblank] using f3.symm
        have := hx hce hblank
        subst this
        rw [trimLast_noNl _ hn]
        simp only [imarks, List.flatMap_nil, List.append_nil, ch_nil, List.map_nil]
        have := delGo_chars (tokChars lst.tok) cur true true [] (noNl_of_hasNl_false _ hn)
        simp only [List.append_nil] at this
        rw [this, all_of_Blank (blank_tokChars _ hbl)]
        simp [delGo]
  · obtain ⟨h1, h2, h3, _, _, h6⟩ := hE
    have hact' : act = true := by simpa [h2] using hact
    subst hact'
    have e1 : tokMarks lst.tok = [] := tokMarks_nil _ h1 h2 h3
    have e2 : tokMarks (trimLast lst.tok) = [] :=
      tokMarks_nil _ (by simp [trimLast, h1, hasNl_nil]) (by simpa using h2) (by simpa using h3)
    rw [e1, e2]
    simp [imarks, delGo]

/-- the end of a line that is kept -/
theorem lst_keep (lst : LItem) (rest' : List LItem) (cur : List Item) (act : Bool)
    (hl : FItem lst ∨ (EItem lst ∧ rest' = [])) (hnl : isLang lst.tok = false)
    (hx : lst.ce = false → lst.blank = true → rest' = [])
    (hcond : ((lst.ce || lst.blank) && (act || isAction lst.tok)) = false) :
    delGo cur true act (tokMarks lst.tok ++ imarks rest')
      = cur ++ specW (evalTok lst.tok :: rest') := by
  rcases hl with hF | ⟨hE, rfl⟩
  · have hev : evalTok lst.tok = lst := hF.1.symm
    rw [hev]
    cases ha : isAction lst.tok with
    | true =>
      obtain ⟨_, f2, f3, f4⟩ := FItem_action hF ha
      simp [f2, f3, ha] at hcond
    | false =>
      obtain ⟨f1, f2, f3⟩ := FItem_flags hF ha
      rw [tokMarks_chars _ ha hnl]
      cases hn : hasNl lst.tok.txt with
      | true =>
        have hbl := hF.2.2 hn
        have hce : lst.ce = true := by rw [f2]; exact hn
        have hact : act = false := by simpa [hce, ha] using hcond
        subst hact
        have hcs : lst.cs = true := by rw [f1]; exact hn
        rw [delGo_ntok lst.tok hn hbl cur true]
        simp [specW, hcs]
      | false =>
        have hcs : lst.cs = false := by rw [f1]; exact hn
        have hce : lst.ce = false := by rw [f2]; exact hn
        have hN := noNl_of_hasNl_false _ hn
        simp only [specW, hcs, Bool.false_eq_true, if_false, imarks_cons, tokMarks_chars _ ha hnl]
        rw [delGo_chars _ cur true act _ hN, delGo_chars _ [] false false _ hN, all_tokChars]
        cases hbl : isBlank lst.tok.txt with
        | true =>
          have hblank : lst.blank = true := by rw [f3]; simp [hn, hbl]
          have := hx hce hblank
          subst this
          have hact : act = false := by simpa [hce, hblank, ha] using hcond
          subst hact
          simp [imarks, delGo]
        | false =>
          simp only [Bool.and_false, List.nil_append]
          rw [delGo_nb _ (cur ++ ch (tokChars lst.tok)) act, delGo_nb _ (ch (tokChars lst.tok)) false]
          simp
  · obtain ⟨h1, h2, h3, _, _, h6⟩ := hE
    have hact : act = false := by simpa [h6, h2] using hcond
    subst hact
    have e1 : tokMarks lst.tok = [] := tokMarks_nil _ h1 h2 h3
    have hcs : (evalTok lst.tok).cs = false := by
      simp [evalTok, h2, h1, hasNl_nil]
    rw [e1]
    simp [specW, hcs, imarks, evalTok_tok, e1, delGo]

theorem head_not_action {t : LItem} {rest : List LItem}
    (h : FItem t ∨ SItem t ∨ (EItem t ∧ rest = [])) (hcs : t.cs = true) :
    isAction t.tok = false ∧ isLang t.tok = false := by
  rcases h with h | h | ⟨h, _⟩
  · exact ⟨(hasNl_of_cs h hcs).1, (hasNl_of_cs h hcs).2.1⟩
  · exact ⟨h.2.1, h.2.2.1⟩
  · exact ⟨h.2.1, h.2.2.1⟩

/-- the last collected item is no language token -/
theorem lst_notLang {lst : LItem} {rest' : List LItem} (hw : WLt (lst :: rest'))
    (hx : lst.ce = false → lst.blank = true → rest' = []) : isLang lst.tok = false := by
  obtain ⟨h1, h2, _⟩ := WLt_cons hw
  cases hl : isLang lst.tok with
  | false => rfl
  | true =>
    rcases h1 with hF | ⟨hE, _⟩
    · obtain ⟨_, f2, f3, _⟩ := FItem_lang hF hl
      have := h2 (hx f2 f3)
      rw [hl] at this; cases this
    · have := hE.2.2.1; rw [hl] at this; cases this

/-- **the loop on the level of items**: the items (characters with positions, language tokens) of
    the result are `specW` of the work list -/
theorem LinesRel_items (items : List LItem) (r : List Tok) (hrel : LinesRel items r) (hw : WL items) :
    itemsOf r = specW items := by
  induction hrel with
  | nil => rfl
  | skip t rest r hcs _ ih =>
    obtain ⟨ht, hrest⟩ := hw
    rw [itemsOf_cons, ih (WL_of_WLt hrest), specW_cons]
    simp only [hcs, Bool.false_eq_true, if_false, imarks_cons]
    rcases ht with hF | hS | ⟨hE, rfl⟩
    · cases ha : isAction t.tok with
      | true =>
        have hl : isLang t.tok = false := by
          cases hl : isLang t.tok with
          | false => rfl
          | true => rw [not_action_of_lang _ hl] at ha; cases ha
        rw [tokMarks_action _ ha, tokItems_of_nil _ (FItem_action hF ha).2.2.2 hl]
        simp only [List.nil_append, List.singleton_append, delGo]
        rw [delGo_nb, specW_goK rest hrest]; simp
      | false =>
        cases hl : isLang t.tok with
        | true =>
          rw [tokMarks_lang _ ha hl, tokItems_lang _ hl]
          simp only [List.singleton_append, delGo, List.nil_append]
          rw [delGo_nb, specW_goK rest hrest]
          rfl
        | false =>
          have hn : hasNl t.tok.txt = false := by rw [← (FItem_flags hF ha).1]; exact hcs
          rw [tokMarks_chars _ ha hl, tokItems_notLang _ hl,
            delGo_chars _ [] false false _ (noNl_of_hasNl_false _ hn)]
          simp only [Bool.false_and, List.nil_append]
          rw [delGo_nb, specW_goK rest hrest]
    · have := hS.2.2.2.1; rw [hcs] at this; cases this
    · rw [tokMarks_nil _ hE.1 hE.2.1 hE.2.2.1, tokItems_of_nil _ hE.1 hE.2.2.1]
      simp [imarks, delGo, specW]
  | one t hcs =>
    obtain ⟨ht, _⟩ := hw
    obtain ⟨_, htl⟩ := head_not_action ht hcs
    rw [specW_cons]
    simp only [hcs, if_true, imarks, List.flatMap_nil, delGo, Bool.and_false, Bool.false_eq_true, if_false]
    rw [itemsOf_cons]
    simp only [itemsOf, List.flatMap_nil, List.append_nil]
    rw [tokItems_notLang _ htl, tokChars_parts t.tok, ch_append]
  | remove t mid lst rest' r hcs hm hx hb hany _ ih =>
    obtain ⟨ht, hrest⟩ := hw
    obtain ⟨hmidF, hl⟩ := WLt_append hrest
    obtain ⟨hl1, _, hrest'⟩ := WLt_cons hl
    obtain ⟨hta, htl⟩ := head_not_action ht hcs
    have hlnl := lst_notLang hl hx
    have hlsimple : Simple (trimLast lst.tok) := by
      rcases hl1 with h | ⟨h, _⟩
      · exact Simple_trimLast' _ h.2
      · exact Simple_of_nil _ (by simp [trimLast, h.1, hasNl_nil])
    have hwl : WL (sentItem (trimLast lst.tok) :: evalTok (trimLast lst.tok) :: rest') := by
      refine ⟨Or.inr (Or.inl ?_),
        WLt_cons_F (FItem_evalTok _ hlsimple) (fun _ => by simpa using hlnl) hrest'⟩
      simp [SItem, sentItem, evalTok, sentinel, isAction, isLang, hasNl, isBlank]
    obtain ⟨r1, r2, r3, r4⟩ := mid_run mid hmidF hm
    have hlangs : itemsOf (((t :: (mid ++ [lst])).map (·.tok)).filter isLang)
        = (itemsOf (mid.map (·.tok))).filter isLg := by
      simp only [List.map_cons, List.map_append, List.map_nil, List.filter_cons, htl,
        Bool.false_eq_true, if_false, List.filter_append, hlnl, List.filter_nil, List.append_nil]
      exact r4
    have hact : ((false || (imarks mid).any Option.isNone) || isAction lst.tok) = true := by
      rw [r3]
      simpa [List.any_append, hta] using hany
    rw [itemsOf_cons, itemsOf_append, hlangs, ih hwl]
    have hsent : (sentItem (trimLast lst.tok)).cs = true := rfl
    have hs1 : firstPart (sentItem (trimLast lst.tok)).tok = [] := by
      simp [firstPart, tokChars, trimFirst, sentinel, hasNl]
    have hs2 : afterPart (sentItem (trimLast lst.tok)).tok = [] := by
      simp [afterPart, tokChars, sentinel]
    have htf : tokItems (trimFirst t.tok) = ch (firstPart t.tok) := by
      rw [tokItems_notLang _ (by simpa using htl)]; rfl
    rw [specW_cons, specW_cons]
    simp only [hcs, hsent, if_true, hs1, hs2, ch_nil, List.nil_append, imarks_cons, imarks_append,
      evalTok_tok, htf]
    rw [delGo_blankrun _ _ _ _ r1, lst_remove lst rest' _ _ hl1 hlnl hx hb hact, r2]
    simp
  | keep t mid lst rest' r hcs hm hx hcond _ ih =>
    obtain ⟨ht, hrest⟩ := hw
    obtain ⟨hmidF, hl⟩ := WLt_append hrest
    obtain ⟨hl1, _, hrest'⟩ := WLt_cons hl
    obtain ⟨hta, htl⟩ := head_not_action ht hcs
    have hlnl := lst_notLang hl hx
    have hlsimple : Simple lst.tok := by
      rcases hl1 with h | ⟨h, _⟩
      · exact h.2
      · exact Simple_of_nil _ h.1
    have hwl : WL (evalTok lst.tok :: rest') :=
      WL_of_WLt (WLt_cons_F (FItem_evalTok _ hlsimple) (fun _ => by simpa using hlnl) hrest')
    obtain ⟨r1, r2, r3, _⟩ := mid_run mid hmidF hm
    have hcond' : ((lst.ce || lst.blank) &&
        ((false || (imarks mid).any Option.isNone) || isAction lst.tok)) = false := by
      rw [r3]
      simpa [List.any_append, hta] using hcond
    rw [itemsOf_cons, itemsOf_append, ih hwl, specW_cons (t := t)]
    simp only [hcs, if_true, imarks_cons, imarks_append]
    rw [delGo_blankrun _ _ _ _ r1, lst_keep lst rest' _ _ hl1 hlnl hx hcond', r2,
      tokItems_notLang _ htl]
    conv => lhs; rw [tokChars_parts t.tok]
    simp only [ch_append, List.append_assoc]

theorem WLt_init (p : Nat) : ∀ (l : List Tok), (∀ t ∈ l, Simple t) → WLt (l.map evalTok ++ [lastItem p])
  | [], _ => by
    refine Or.inr ?_
    simp [EItem, lastItem, evalTok, sentinel, isAction, isLang, hasNl, isBlank]
  | t :: l, h => by
    have : (t :: l).map evalTok ++ [lastItem p] = evalTok t :: (l.map evalTok ++ [lastItem p]) := rfl
    rw [this]
    exact WLt_cons_F (FItem_evalTok t (h t (List.mem_cons_self ..))) (fun e => by simp at e)
      (WLt_init p l (fun x hx => h x (List.mem_cons_of_mem _ hx)))

theorem imarks_map_evalTok (l : List Tok) : imarks (l.map evalTok) = marksOf l := by
  simp [imarks, marksOf, List.flatMap_map]

theorem marksOf_filter_keepIn : ∀ (ts : List Tok), marksOf (ts.filter keepIn) = marksOf ts
  | [] => rfl
  | t :: ts => by
    have ih := marksOf_filter_keepIn ts
    simp only [marksOf] at ih ⊢
    cases hk : keepIn t with
    | true => simp [hk, ih]
    | false =>
      have htxt := keepIn_txt t hk
      have hk' := hk
      simp only [keepIn, Bool.or_eq_false_iff] at hk'
      simp [hk, ih, tokMarks_nil t htxt hk'.1.2 hk'.2]

theorem itemsOf_filter_keepOut : ∀ (ts : List Tok), itemsOf (ts.filter keepOut) = itemsOf ts
  | [] => rfl
  | t :: ts => by
    have ih := itemsOf_filter_keepOut ts
    simp only [itemsOf] at ih ⊢
    cases hk : keepOut t with
    | true => simp [hk, ih]
    | false =>
      have htxt := keepOut_txt t hk
      have hk' := hk
      simp only [keepOut, Bool.or_eq_false_iff] at hk'
      simp [hk, ih, tokItems_of_nil t htxt hk'.2]

/-- **the blank-line removal on simple tokens, exactly.**  The items of the result (characters
    with their positions, language tokens) are those of the input with every line deleted that is
    blank and holds an Action token; the language tokens of a deleted line are kept. -/
theorem removeLines_items (ts : List Tok) (h : ∀ t ∈ ts, Simple t) :
    ∃ r, removeLines ts = some r ∧ itemsOf r = delLines (marksOf ts) := by
  obtain ⟨out, hr⟩ := Option.isSome_iff_exists.mp (removeLines_progress ts)
  refine ⟨out, hr, ?_⟩
  obtain ⟨r, hrel, rfl⟩ := removeLines_rel ts out hr
  obtain ⟨p, e⟩ := linesInit_eq ts
  rw [e] at hrel
  have hsimple : ∀ t ∈ ts.filter keepIn, Simple t := fun t ht => h t (List.mem_filter.mp ht).1
  have hwl : WL (firstItem :: ((ts.filter keepIn).map evalTok ++ [lastItem p])) := by
    refine ⟨Or.inr (Or.inl ?_), WLt_init p _ hsimple⟩
    simp [SItem, firstItem, evalTok, sentinel, isAction, isLang, hasNl, isBlank]
  rw [itemsOf_filter_keepOut, LinesRel_items _ r hrel hwl, specW_cons]
  have hcs : firstItem.cs = true := rfl
  have hs1 : firstPart firstItem.tok = [] := by
    simp [firstPart, tokChars, trimFirst, sentinel, hasNl]
  have hs2 : afterPart firstItem.tok = [] := by
    simp [afterPart, tokChars, sentinel]
  have hlast : imarks [lastItem p] = [] := by
    simp [imarks, tokMarks_nil (sentinel p) rfl rfl rfl]
  simp only [hcs, if_true, hs1, hs2, ch_nil, List.nil_append, imarks_append, imarks_map_evalTok, hlast,
    List.append_nil, marksOf_filter_keepIn, delLines]

/-! ### what the reference keeps

  Only white space is deleted: the result is a sublist of the items of the input, and it contains
  every language token and every visible character of the input (in order). -/

/-- the items that are never deleted: language tokens and visible characters -/
def vis : Item → Bool
  | .inl cp => !isSpace cp.1
  | .inr _ => true

/-- the characters of a line so far are white space -/
def BlankItems (l : List Item) : Prop := ∀ cp, Sum.inl cp ∈ l → isSpace cp.1 = true

theorem filter_vis_blank : ∀ (l : List Item), BlankItems l → (l.filter isLg).filter vis = l.filter vis
  | [], _ => rfl
  | .inl cp :: l, h => by
    have h1 : isSpace cp.1 = true := h cp (List.mem_cons_self ..)
    have ih := filter_vis_blank l (fun c hc => h c (List.mem_cons_of_mem _ hc))
    rw [List.filter_cons_of_neg (by simp [isLg]), List.filter_cons_of_neg (by simp [vis, h1]), ih]
  | .inr t :: l, h => by
    have ih := filter_vis_blank l (fun c hc => h c (List.mem_cons_of_mem _ hc))
    rw [List.filter_cons_of_pos (by rfl), List.filter_cons_of_pos (by rfl),
      List.filter_cons_of_pos (by rfl), ih]

theorem isSpace_of_nl (c : Char) (h : (c == nl) = true) : isSpace c = true := by
  rw [beq_iff_eq] at h; subst h; decide

theorem delGo_vis : ∀ (ms : List Mark) (cur : List Item) (b a : Bool), (b = true → BlankItems cur) →
    (delGo cur b a ms).filter vis = (cur ++ ms.filterMap id).filter vis
  | [], cur, b, a, hb => by
    simp only [delGo, List.filterMap_nil, List.append_nil]
    split
    · rename_i h
      simp only [Bool.and_eq_true] at h
      exact filter_vis_blank cur (hb h.1)
    · rfl
  | none :: xs, cur, b, a, hb => by
    simp only [delGo, List.filterMap_cons, id]
    exact delGo_vis xs cur b true hb
  | some (.inr t) :: xs, cur, b, a, hb => by
    simp only [delGo, List.filterMap_cons, id]
    rw [delGo_vis xs (cur ++ [(Sum.inr t : Item)]) b a (by
      intro hbt cp hcp
      rcases List.mem_append.mp hcp with h | h
      · exact hb hbt cp h
      · simp at h)]
    simp
  | some (.inl cp) :: xs, cur, b, a, hb => by
    simp only [delGo, List.filterMap_cons, id]
    by_cases hn : (cp.1 == nl) = true
    · have hsp := isSpace_of_nl _ hn
      simp only [hn, if_true, List.filter_append]
      rw [delGo_vis xs [] true false (fun _ cp h => by cases h)]
      split
      · rename_i h
        simp only [Bool.and_eq_true] at h
        rw [filter_vis_blank cur (hb h.1)]
        simp [vis, hsp]
      · simp [vis, hsp]
    · simp only [hn, Bool.false_eq_true, if_false]
      rw [delGo_vis xs (cur ++ [(Sum.inl cp : Item)]) (b && isSpace cp.1) a (by
        intro hbt c hc
        simp only [Bool.and_eq_true] at hbt
        rcases List.mem_append.mp hc with h | h
        · exact hb hbt.1 c h
        · simp only [List.mem_singleton, Sum.inl.injEq] at h
          rw [h]; exact hbt.2)]
      simp

theorem delGo_sublist : ∀ (ms : List Mark) (cur : List Item) (b a : Bool),
    List.Sublist (delGo cur b a ms) (cur ++ ms.filterMap id)
  | [], cur, b, a => by
    simp only [delGo, List.filterMap_nil, List.append_nil]
    split
    · exact List.filter_sublist
    · exact List.Sublist.refl _
  | none :: xs, cur, b, a => by
    simp only [delGo, List.filterMap_cons, id]
    exact delGo_sublist xs cur b true
  | some (.inr t) :: xs, cur, b, a => by
    simp only [delGo, List.filterMap_cons, id]
    have := delGo_sublist xs (cur ++ [(Sum.inr t : Item)]) b a
    simpa using this
  | some (.inl cp) :: xs, cur, b, a => by
    simp only [delGo, List.filterMap_cons, id]
    by_cases hn : (cp.1 == nl) = true
    · simp only [hn, if_true]
      have h2 := delGo_sublist xs [] true false
      simp only [List.nil_append] at h2
      split
      · exact List.Sublist.append List.filter_sublist (List.Sublist.cons _ h2)
      · have : cur ++ Sum.inl cp :: List.filterMap id xs = (cur ++ [Sum.inl cp]) ++ List.filterMap id xs := by
          simp
        rw [this]
        exact List.Sublist.append (List.Sublist.refl _) h2
    · simp only [hn, Bool.false_eq_true, if_false]
      have := delGo_sublist xs (cur ++ [(Sum.inl cp : Item)]) (b && isSpace cp.1) a
      simpa using this

/-- the reference only deletes: its result is a sublist of the items of the input -/
theorem delLines_sublist (ms : List Mark) : List.Sublist (delLines ms) (ms.filterMap id) := by
  have := delGo_sublist ms [] true false
  simpa [delLines] using this

/-- … and what it deletes is white space: language tokens and visible characters stay -/
theorem delLines_vis (ms : List Mark) : (delLines ms).filter vis = (ms.filterMap id).filter vis := by
  have := delGo_vis ms [] true false (fun _ cp h => by cases h)
  simpa [delLines] using this

theorem filter_isLg_of_vis (l : List Item) : (l.filter vis).filter isLg = l.filter isLg := by
  rw [List.filter_filter]
  apply List.filter_congr
  intro i _
  cases i <;> simp [isLg, vis]

/-- the language tokens are kept, in order -/
theorem delLines_langs (ms : List Mark) : (delLines ms).filter isLg = (ms.filterMap id).filter isLg := by
  rw [← filter_isLg_of_vis, delLines_vis, filter_isLg_of_vis]

/-- a visible character is kept -/
theorem delLines_visible (ms : List Mark) (cp : Char × Nat) (h : some (Sum.inl cp) ∈ ms)
    (hv : isSpace cp.1 = false) : Sum.inl cp ∈ delLines ms := by
  have h1 : Sum.inl cp ∈ (ms.filterMap id).filter vis := by
    rw [List.mem_filter]
    exact ⟨List.mem_filterMap.mpr ⟨_, h, rfl⟩, by simp [vis, hv]⟩
  rw [← delLines_vis] at h1
  exact (List.mem_filter.mp h1).1

end LinesLang
end Yalafi
