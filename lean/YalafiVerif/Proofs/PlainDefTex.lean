/-
  Proofs/PlainDefTex.lean — C09 "`\def` with undelimited parameters expands by substitution", end to end on
  the model, for documents that consist of inert text, definitions `\newcommand{\name}[n]{body}`,
  definitions `\def\name#1#2…#n{body}` and uses `\name{a1}…{am}` (mixed freely).

  This file is Proofs/PlainMacroArgs.lean with one more kind of segment.  `parse_def_macro` stores for
  `\def\name#1…#n{body}` exactly the record `h_newcommand` stores for `\newcommand{\name}[n]{body}`
  (`PlainMacroArgs.userMacro`; `parseDefMacro_params` in Proofs/PlainDefTexExp.lean), so the USE side —
  `expandMacro_use`, `seq_use_step`, `body_sem`, `groups_sem`, the reference `bodyMarks` / `startCur` /
  `groupMarks` — is that of PlainMacroArgs, unchanged.  New are the definition side (scanner on
  `\def\name#1…#n{`, `defArgs`, `defArgPosMap`, `defMapRepl`, the `\def` branch of `expandSequence`)
  and the bookkeeping for four kinds of segments.

  Documents
    `Seg`, `render`            text | `.defn name n body ↦ \newcommand{\name}[n]{body}` |
                               `.ddef name n body ↦ \def\name#1#2…#n{body}` | `.use name [a1,…,am] ↦ \name{a1}…{am}`
                               (`body : List PlainMacroArgs.BP`: `lit s` | `par k`)
    `segsOk`, `arityOk`, `SegsOk`   all side conditions (computable);
                               `segsOkSimple`, `tablesOk`, `segsOk_of_simple`: context-free sufficient conditions
  Reference output
    `segMarks`, `segUnknowns`  as in PlainMacroArgs (`bodyMarks`, `startCur`, `groupMarks`, `argSpans`);
                               a `\def` definition: one Action mark, comes into force behind it
  The end-to-end statement (`tex2txt_def`): as `PlainMacroArgs.tex2txt_newcommand_args`; a definition
  by `\def` and a definition by `\newcommand` with the same name, number of parameters and body are
  indistinguishable for later uses; either may redefine the other; the latest earlier definition counts.

  Side conditions (all in `SegsOk T st1 segs`, decidable; `st1` = state after `Parser.__init__`)
    `noEmptyActive`, `ncOk`, text, `\newcommand` definitions (`defOk`), uses (`useOk`), `arityOk`: as in
                               PlainMacroArgs
    `\def` definitions (`ddefOk`)   `\def` is scanned as a macro token (no special sequence matches, no
                               accent macro); `\name` as in `defOk` (`cwOk`; not in `newcommand_ignore` —
                               `parse_def_macro` does not look at that list, the condition is kept because
                               the invariant of the use side, `PlainMacroArgs.StOk`, is shared with
                               `\newcommand`); the parameter text is exactly `#1#2…#n` (`0 ≤ n`), every
                               digit `i ≤ n` has the decimal value `i` in the tables (so `n ≤ 9`) — the
                               scanner makes one `ArgumentToken` of `#i`; the braces of the body are
                               scanned as such; the body as in `defOk` (not empty, inert characters and
                               `#k`, `1 ≤ k ≤ n`).  NOT needed for `\def`: `[`, `]`, the digit `n` as text
                               tokens, the digit not active.
    fuel                       `(render segs).length + segInserted [] 0 segs + 6 ≤ fuel`

  NOT covered: white space inside `\def \name #1 #2 {…}` (the model skips it); delimited parameters
  (`\def\a#1.#2{…}`: the model stores positions and ignores the delimiters), parameters out of order
  (LaTeX error of the model), `\def` in bodies; and everything PlainMacroArgs does not cover
  (unbraced arguments and nested uses, also for `\def`: Proofs/PlainDefTexNest.lean).
-/
import YalafiVerif.Proofs.PlainDefTexExp
namespace Yalafi
namespace PlainDefTex

open M
open PlainMacro (lbr rbr NoBrace restamp ncName braceAt Shape bodyTxt Mark tokChars tokMarks marksOf charsOf
  delLines hasNl_single inertChar_facts takeWhile_append_stop1 nextToken_brace scanSteps_step nextToken_nc
  ncName_eq NcOk ncOk NcOk_of_ncOk NameOk nameOk_of_cwFacts)
open PlainMacroArgs

/-! ### the documents -/

/-- a segment of the source: a run of text, a definition `\newcommand{\name}[n]{body}`, a definition
    `\def\name#1…#n{body}`, a use `\name{a1}…{am}` -/
inductive Seg where
  | txt (s : Str)
  | defn (name : Str) (n : Nat) (body : List BP)
  | ddef (name : Str) (n : Nat) (body : List BP)
  | use (name : Str) (args : List Str)
deriving Repr, DecidableEq

/-- the parameter text `#i#(i+1)…#(i+m-1)` -/
def paramStr : Nat → Nat → Str
  | _, 0 => []
  | i, m + 1 => '#' :: digitChar i :: paramStr (i + 1) m

theorem paramStr_length : ∀ (m i : Nat), (paramStr i m).length = 2 * m
  | 0, _ => rfl
  | m + 1, i => by simp [paramStr, paramStr_length m]; omega

def Seg.render : Seg → Str
  | .txt s => s
  | .defn name n body =>
    '\\' :: (ncName ++ '{' :: '\\' :: (name ++ '}' :: '[' :: digitChar n :: ']' :: '{' :: (bodyStr body ++ ['}'])))
  | .ddef name n body =>
    '\\' :: (defName ++ '\\' :: (name ++ (paramStr 1 n ++ '{' :: (bodyStr body ++ ['}']))))
  | .use name args => '\\' :: (name ++ argsStr args)

/-- the source text -/
def render : List Seg → Str
  | [] => []
  | s :: rest => s.render ++ render rest

/-! ### the reference output -/

/-- the marks of a document that starts at position `p`, `env` being the definitions in force
    (`PlainMacroArgs.segMarks` with one more kind of definition):
    * a text character with its own position;
    * a definition of either kind: one Action mark; the definition comes into force;
    * a use at position `q` (the backslash) of a name whose definition in force has `n` parameters
      (`n = 0`, empty body for an undefined name): an Action mark, the expansion of the body
      (`bodyMarks`) on the first `n` arguments, and the remaining brace groups -/
def segMarks : Env → Nat → List Seg → List Mark
  | _, _, [] => []
  | env, p, .txt s :: rest => (posText p s).map some ++ segMarks env (p + s.length) rest
  | env, p, .defn name n body :: rest =>
    none :: segMarks ((name, n, body) :: env) (p + (name.length + (bodyStr body).length + 19)) rest
  | env, p, .ddef name n body :: rest =>
    none :: segMarks ((name, n, body) :: env) (p + (name.length + (bodyStr body).length + 2 * n + 7)) rest
  | env, p, .use name args :: rest =>
    none :: (bodyMarks (argSpans (p + name.length + 1) args)
              (startCur (argSpans (p + name.length + 1) args) p (defOf env name).2) (defOf env name).2
      ++ (groupMarks ((argSpans (p + name.length + 1) args).drop (defOf env name).1)
      ++ segMarks env (p + (name.length + 1 + argsLen args)) rest))

/-- the names (with backslash) used while undefined, in order, with repetitions -/
def segUnknowns : Env → List Seg → List Str
  | _, [] => []
  | env, .txt _ :: rest => segUnknowns env rest
  | env, .defn name n body :: rest => segUnknowns ((name, n, body) :: env) rest
  | env, .ddef name n body :: rest => segUnknowns ((name, n, body) :: env) rest
  | env, .use name _ :: rest =>
    (if (lookupDef env name).isNone then [('\\' :: name)] else []) ++ segUnknowns env rest

/-- the number of tokens inserted by the uses (upper bound) -/
def segInserted : Env → Nat → List Seg → Nat
  | _, _, [] => 0
  | env, p, .txt s :: rest => segInserted env (p + s.length) rest
  | env, p, .defn name n body :: rest =>
    segInserted ((name, n, body) :: env) (p + (name.length + (bodyStr body).length + 19)) rest
  | env, p, .ddef name n body :: rest =>
    segInserted ((name, n, body) :: env) (p + (name.length + (bodyStr body).length + 2 * n + 7)) rest
  | env, p, .use name args :: rest =>
    bodyInserted (argSpans (p + name.length + 1) args) (defOf env name).2
      + segInserted env (p + (name.length + 1 + argsLen args)) rest

/-- every use has at least as many arguments as the definition in force has parameters -/
def arityOk : Env → List Seg → Bool
  | _, [] => true
  | env, .txt _ :: rest => arityOk env rest
  | env, .defn name n body :: rest => arityOk ((name, n, body) :: env) rest
  | env, .ddef name n body :: rest => arityOk ((name, n, body) :: env) rest
  | env, .use name args :: rest => decide ((defOf env name).1 ≤ args.length) && arityOk env rest

/-! ### the side conditions -/

/-- the digits `i … i+m-1` have their decimal values in the tables -/
def paramsOk (T : PTables) : Nat → Nat → Bool
  | _, 0 => true
  | i, m + 1 => decimalValue T.toTables.decimalZeros (digitChar i) == some i && paramsOk T (i + 1) m

/-- `\def\name#1…#n{body}`, followed by `R`:
    * `\def` is one macro token;
    * `\name` is a control word as in Proofs/PlainUnknown.lean (`cwOk`), not protected against
      redefinition;
    * the digits `1 … n` have their values in the tables (`#i` is one `ArgumentToken`);
    * the braces of the body are scanned as `{` / `}`; the body is not empty and consists of inert
      characters and references `#k`, `1 ≤ k ≤ n` -/
def ddefOk (T : PTables) (st : PState) (name : Str) (n : Nat) (body : List BP) (R : Str) : Bool :=
  (matchSpecial T.toTables
    ('\\' :: (defName ++ '\\' :: (name ++ (paramStr 1 n ++ '{' :: (bodyStr body ++ '}' :: R)))))).isNone &&
  !T.toTables.isAccent ('\\' :: defName) &&
  cwOk T st name (paramStr 1 n ++ '{' :: (bodyStr body ++ '}' :: R)) &&
  !st.newcommandIgnore.contains ('\\' :: name) &&
  paramsOk T 1 n &&
  braceAt T '{' (bodyStr body ++ '}' :: R) &&
  !(bodyStr body).isEmpty && body.all (bpOk T st n) &&
  braceAt T '}' R

/-- well-formed documents: every segment is fine in front of the rendering of the following ones -/
def segsOk (T : PTables) (st : PState) : List Seg → Bool
  | [] => true
  | .txt s :: rest => textOk T st s (render rest) && segsOk T st rest
  | .defn name n body :: rest => defOk T st name n body (render rest) && segsOk T st rest
  | .ddef name n body :: rest => ddefOk T st name n body (render rest) && segsOk T st rest
  | .use name args :: rest => useOk T st name args (render rest) && segsOk T st rest

/-! ### the scanner on `\def` and the parameter text -/

theorem defName_eq : defName = ['d', 'e', 'f'] := by decide

/-- `\def` in front of a backslash is one macro token -/
theorem nextToken_def (T : PTables) (src : Str) (pos : Nat) (X : Str)
    (h1 : matchSpecial T.toTables ('\\' :: (defName ++ '\\' :: X)) = none)
    (h2 : T.toTables.isAccent ('\\' :: defName) = false) :
    nextToken T.toTables src pos ('\\' :: (defName ++ '\\' :: X))
      = { tok := cwTok pos defName, len := 4 } := by
  have hlen : macroLen ('\\' :: (defName ++ '\\' :: X)) = 4 := by
    simp [macroLen, defName_eq, macroChar]
  unfold nextToken
  simp only [show isSpace '\\' = false by decide, Bool.false_eq_true, if_false,
    show ('\\' == '%') = false by decide, show ('\\' == '#') = false by decide, h1,
    beq_self_eq_true, if_true, scanMacro, hlen]
  simp [defName_eq, sBegin, sEnd, sItem, sVerb, cwTok] at h2 ⊢
  simp [h2]

/-- the scanner loop on the parameter text: one `ArgumentToken` per `#i` -/
theorem scanSteps_params (T : Tables) (src : Str) (X : Str) :
    ∀ (m i pos fuel : Nat), m ≤ fuel →
      (∀ j, i ≤ j → j < i + m → decimalValue T.decimalZeros (digitChar j) = some j) →
      scanSteps T src fuel pos (paramStr i m ++ X)
        = ((paramToks pos i m).map (fun t => ({ tok := t, len := 2 } : ScanStep))
             ++ (scanSteps T src (fuel - m) (pos + 2 * m) X).1,
           (scanSteps T src (fuel - m) (pos + 2 * m) X).2)
  | 0, _, _, _, _, _ => by simp [paramStr, paramToks]
  | m + 1, i, pos, fuel, hf, hd => by
    obtain ⟨f, rfl⟩ : ∃ f, fuel = f + 1 := ⟨fuel - 1, by omega⟩
    have h := nextToken_arg T src pos (digitChar i) i (paramStr (i + 1) m ++ X) (hd i (Nat.le_refl _) (by omega))
    rw [show paramStr i (m + 1) ++ X = '#' :: digitChar i :: (paramStr (i + 1) m ++ X) from rfl,
      scanSteps_step T src f pos '#' _ _ h (by simp)]
    simp only [List.drop_succ_cons, List.drop_zero]
    rw [scanSteps_params T src X m (i + 1) (pos + 2) f (by omega) (fun j h1 h2 => hd j (by omega) (by omega))]
    simp only [paramToks, List.map_cons, List.cons_append]
    have e1 : f + 1 - (m + 1) = f - m := by omega
    have e2 : pos + 2 + 2 * m = pos + 2 * (m + 1) := by omega
    rw [e1, e2]

theorem paramsOk_facts (T : PTables) : ∀ (m i : Nat), paramsOk T i m = true →
    ∀ j, i ≤ j → j < i + m → decimalValue T.toTables.decimalZeros (digitChar j) = some j
  | 0, _, _, _, _, _ => by omega
  | m + 1, i, h, j, h1, h2 => by
    simp only [paramsOk, Bool.and_eq_true, beq_iff_eq] at h
    by_cases e : j = i
    · subst e; exact h.1
    · exact paramsOk_facts T m (i + 1) h.2 j (by omega) (by omega)

/-! ### items and well-formed sources -/
/-- the source as a list of text characters, definitions and uses, with their positions -/
inductive Item where
  | chr (c : Char) (p : Nat)
  | defn (p : Nat) (name : Str) (n : Nat) (body : List BP)
  | ddef (p : Nat) (name : Str) (n : Nat) (body : List BP)
  | use (p : Nat) (name : Str) (args : List Str)

def chrItems : Nat → Str → List Item
  | _, [] => []
  | p, c :: cs => .chr c p :: chrItems (p + 1) cs

def itemsOf : Nat → List Seg → List Item
  | _, [] => []
  | p, .txt s :: rest => chrItems p s ++ itemsOf (p + s.length) rest
  | p, .defn name n body :: rest =>
    .defn p name n body :: itemsOf (p + (name.length + (bodyStr body).length + 19)) rest
  | p, .ddef name n body :: rest =>
    .ddef p name n body :: itemsOf (p + (name.length + (bodyStr body).length + 2 * n + 7)) rest
  | p, .use name args :: rest => .use p name args :: itemsOf (p + (name.length + 1 + argsLen args)) rest

/-- the same on the source text (which starts at position `p`) -/
inductive OkSrc (T : PTables) (st : PState) : Nat → Str → List Item → Prop
  | nil (p : Nat) : OkSrc T st p [] []
  | chr (p : Nat) (c : Char) (cs : Str) (items : List Item) :
      okAt T st c cs = true → OkSrc T st (p + 1) cs items →
      OkSrc T st p (c :: cs) (.chr c p :: items)
  | defn (p : Nat) (name : Str) (n : Nat) (body : List BP) (R : Str) (items : List Item) :
      defOk T st name n body R = true →
      OkSrc T st (p + (name.length + (bodyStr body).length + 19)) R items →
      OkSrc T st p ('\\' :: (ncName ++ '{' :: '\\' :: (name ++ '}' :: '[' :: digitChar n :: ']' :: '{' ::
          (bodyStr body ++ '}' :: R))))
        (.defn p name n body :: items)
  | ddef (p : Nat) (name : Str) (n : Nat) (body : List BP) (R : Str) (items : List Item) :
      ddefOk T st name n body R = true →
      OkSrc T st (p + (name.length + (bodyStr body).length + 2 * n + 7)) R items →
      OkSrc T st p ('\\' :: (defName ++ '\\' :: (name ++ (paramStr 1 n ++ '{' :: (bodyStr body ++ '}' :: R)))))
        (.ddef p name n body :: items)
  | use (p : Nat) (name : Str) (args : List Str) (R : Str) (items : List Item) :
      useOk T st name args R = true → OkSrc T st (p + (name.length + 1 + argsLen args)) R items →
      OkSrc T st p ('\\' :: (name ++ (argsStr args ++ R))) (.use p name args :: items)

theorem OkSrc_text (T : PTables) (st : PState) (R : Str) (items : List Item) :
    ∀ (s : Str) (p : Nat), OkSrc T st (p + s.length) R items → textOk T st s R = true →
      OkSrc T st p (s ++ R) (chrItems p s ++ items)
  | [], _, hR, _ => hR
  | c :: cs, p, hR, h => by
    simp only [textOk, Bool.and_eq_true] at h
    have hR' : OkSrc T st (p + 1 + cs.length) R items := by
      have e : p + 1 + cs.length = p + (c :: cs).length := by simp; omega
      rw [e]; exact hR
    exact OkSrc.chr p c (cs ++ R) _ h.1 (OkSrc_text T st R items cs (p + 1) hR' h.2)

theorem OkSrc_of_segsOk (T : PTables) (st : PState) :
    ∀ (segs : List Seg) (p : Nat), segsOk T st segs = true →
      OkSrc T st p (render segs) (itemsOf p segs)
  | [], p, _ => .nil p
  | .txt s :: rest, p, h => by
    simp only [segsOk, Bool.and_eq_true] at h
    exact OkSrc_text T st _ _ s p (OkSrc_of_segsOk T st rest _ h.2) h.1
  | .defn name n body :: rest, p, h => by
    simp only [segsOk, Bool.and_eq_true] at h
    have := OkSrc.defn p name n body (render rest) _ h.1 (OkSrc_of_segsOk T st rest _ h.2)
    simpa [render, Seg.render, itemsOf] using this
  | .ddef name n body :: rest, p, h => by
    simp only [segsOk, Bool.and_eq_true] at h
    have := OkSrc.ddef p name n body (render rest) _ h.1 (OkSrc_of_segsOk T st rest _ h.2)
    simpa [render, Seg.render, itemsOf] using this
  | .use name args :: rest, p, h => by
    simp only [segsOk, Bool.and_eq_true] at h
    have := OkSrc.use p name args (render rest) _ h.1 (OkSrc_of_segsOk T st rest _ h.2)
    simpa [render, Seg.render, itemsOf] using this

/-- white space in front can be dropped -/
theorem OkSrc_drop_space (T : PTables) (st : PState) :
    ∀ (k : Nat) (p : Nat) (s : Str) (items : List Item), k ≤ s.length → OkSrc T st p s items →
      (∀ x ∈ s.take k, isSpace x = true) →
      ∃ items', items = chrItems p (s.take k) ++ items' ∧ OkSrc T st (p + k) (s.drop k) items'
  | 0, _, _, items, _, h, _ => ⟨items, rfl, h⟩
  | k + 1, _, [], _, hk, _, _ => by simp at hk
  | k + 1, p, c :: cs, _, hk, h, hsp => by
    have hc : isSpace c = true := hsp c (by simp)
    cases h with
    | chr _ _ _ items0 _ h2 =>
      obtain ⟨items', e, h3⟩ := OkSrc_drop_space T st k (p + 1) cs items0 (by simpa using hk) h2
        (fun x hx => hsp x (by simp [hx]))
      refine ⟨items', by simp [chrItems, e], ?_⟩
      have e : p + (k + 1) = p + 1 + k := by omega
      rw [e]; exact h3
    | defn _ name n body R _ _ _ => exact absurd hc (by decide)
    | ddef _ name n body R _ _ _ => exact absurd hc (by decide)
    | use _ name args R _ _ _ => exact absurd hc (by decide)

/-- the conditions depend on the state only through the language stack, the macro table and
    the list of protected names -/
theorem OkSrc.congr {T : PTables} {st st' : PState} (hl : st'.langStack = st.langStack)
    (hm : st'.macros = st.macros) (hi : st'.newcommandIgnore = st.newcommandIgnore)
    {p : Nat} {s : Str} {items : List Item} (h : OkSrc T st p s items) : OkSrc T st' p s items := by
  have hinert : inertChar T st' = inertChar T st := by
    funext c; simp only [inertChar, activeChars_congr T st st' hl]
  induction h with
  | nil p => exact .nil p
  | chr p c cs items hat _ ih =>
    refine .chr p c cs items ?_ ih
    rw [← hat]
    simp only [okAt, activeChars_congr T st st' hl, shortKeys_congr T st st' hl]
  | defn p name n body R items hd _ ih =>
    refine .defn p name n body R items ?_ ih
    rw [← hd]
    have hb : bpOk T st' n = bpOk T st n := by
      funext b; cases b <;> simp only [bpOk, hinert]
    simp only [defOk, cwOk, lookupMacro, hm, hi, hb, activeChars_congr T st st' hl]
  | ddef p name n body R items hd _ ih =>
    refine .ddef p name n body R items ?_ ih
    rw [← hd]
    have hb : bpOk T st' n = bpOk T st n := by
      funext b; cases b <;> simp only [bpOk, hinert]
    simp only [ddefOk, cwOk, lookupMacro, hm, hi, hb]
  | use p name args R items hu _ ih =>
    refine .use p name args R items ?_ ih
    rw [← hu]
    simp only [useOk, cwOk, lookupMacro, hm, hi, argsOk_congr T st st' hinert]

/-! ### pieces and items -/

/-- the token buffer (pieces) of a source (items) -/
inductive Link : List Piece → List Item → Prop
  | nil : Link [] []
  | tok (t : Tok) (ps : List Piece) (items : List Item) :
      t.fix = false → Shape t → Link ps items → Link (.tok t :: ps) (chrItems t.pos t.txt ++ items)
  | defn (p q1 q2 q3 q4 q5 q6 q7 q8 : Nat) (name : Str) (n : Nat) (body : List BP) (btoks : List Tok)
      (ps : List Piece) (items : List Item) :
      BodyLink btoks (normBody body) → Link ps items →
      Link (.defn p q1 q2 q3 q4 q5 q6 q7 q8 name n btoks :: ps) (.defn p name n body :: items)
  | ddef (p q2 q q7 q8 : Nat) (name : Str) (n : Nat) (body : List BP) (btoks : List Tok)
      (ps : List Piece) (items : List Item) :
      BodyLink btoks (normBody body) → Link ps items →
      Link (.ddef p q2 q q7 q8 name n btoks :: ps) (.ddef p name n body :: items)
  | use (p : Nat) (name : Str) (args : List Str) (gs : List Group) (ps : List Piece) (items : List Item) :
      name ≠ [] → GroupsLink (p + name.length + 1) gs args → Link ps items →
      Link (.use p name gs :: ps) (.use p name args :: items)

/-- what the scanner loop yields on a well-formed source -/
structure ScanFacts (T : PTables) (st : PState) (rest : Str) (items : List Item)
    (steps : List ScanStep) : Prop where
  ok : ∀ s ∈ steps, s.diag = none ∧ s.extra = []
  pieces : ∃ ps, steps.map (·.tok) = flat ps ∧ PiecesOk T st ps ∧ Link ps items
  first : ∀ s ss, steps = s :: ss → s.tok.txt = firstTokTxtM rest
  len : steps.length ≤ rest.length

theorem ScanFacts_nil (T : PTables) (st : PState) : ScanFacts T st [] [] [] :=
  ⟨by simp, ⟨[], rfl, trivial, .nil⟩, by simp, by simp⟩

structure DDefFacts (T : PTables) (st : PState) (name : Str) (n : Nat) (body : List BP) (R : Str) : Prop where
  dSpecial : matchSpecial T.toTables
    ('\\' :: (defName ++ '\\' :: (name ++ (paramStr 1 n ++ '{' :: (bodyStr body ++ '}' :: R))))) = none
  dAccent : T.toTables.isAccent ('\\' :: defName) = false
  cw : CwFacts T st name (paramStr 1 n ++ '{' :: (bodyStr body ++ '}' :: R))
  ign : st.newcommandIgnore.contains ('\\' :: name) = false
  params : ∀ j, 1 ≤ j → j < 1 + n → decimalValue T.toTables.decimalZeros (digitChar j) = some j
  b3 : braceAt T '{' (bodyStr body ++ '}' :: R) = true
  bne : bodyStr body ≠ []
  bok : body.all (bpOk T st n) = true
  b4 : braceAt T '}' R = true

theorem ddefFacts {T : PTables} {st : PState} {name : Str} {n : Nat} {body : List BP} {R : Str}
    (h : ddefOk T st name n body R = true) : DDefFacts T st name n body R := by
  simp only [ddefOk, Bool.and_eq_true, Bool.not_eq_true', Option.isNone_iff_eq_none] at h
  obtain ⟨⟨⟨⟨⟨⟨⟨⟨h1, h2⟩, h3⟩, h4⟩, h5⟩, h6⟩, h7⟩, h8⟩, h9⟩ := h
  exact ⟨h1, h2, cwFacts h3, h4, paramsOk_facts T n 1 h5, h6, by simpa using h7, h8, h9⟩

/-- the scanner loop on a well-formed source -/
theorem scanSteps_macro (T : PTables) (st : PState) (src : Str) :
    ∀ (n fuel pos : Nat) (rest : Str) (items : List Item),
    rest.length ≤ n → rest.length ≤ fuel → OkSrc T st pos rest items →
    (scanSteps T.toTables src fuel pos rest).2 = true ∧
    ScanFacts T st rest items (scanSteps T.toTables src fuel pos rest).1 := by
  intro n
  induction n with
  | zero =>
    intro fuel pos rest items hn _ hok
    cases rest with
    | nil => cases hok; exact ⟨by simp [scanSteps], by simpa [scanSteps] using ScanFacts_nil T st⟩
    | cons c cs => simp at hn
  | succ n ih =>
    intro fuel pos rest items hn hf hok
    cases rest with
    | nil => cases hok; exact ⟨by simp [scanSteps], by simpa [scanSteps] using ScanFacts_nil T st⟩
    | cons c cs =>
      obtain ⟨fuel, rfl⟩ : ∃ f, fuel = f + 1 := ⟨fuel - 1, by simp at hf; omega⟩
      have hok0 := hok
      cases hok with
      | chr _ _ _ items' hat hsub0 =>
        have hsnd := okAt_snd hat
        obtain ⟨hp, hone⟩ := nextToken_text T src pos c cs hsnd
        generalize hs : nextToken T.toTables src pos (c :: cs) = s at hp hone
        have h1 := hp.len_pos
        have h2 := hp.len_le
        have hsub : ∃ items1, Item.chr c pos :: items' = chrItems pos ((c :: cs).take s.len) ++ items1 ∧
            OkSrc T st (pos + s.len) ((c :: cs).drop s.len) items1 := by
          by_cases hsp : isSpace c = true
          · refine OkSrc_drop_space T st s.len pos (c :: cs) _ h2 hok0 ?_
            intro x hx
            rw [← hp.txt, hp.first] at hx
            simp only [firstTokTxt, hsp, if_true] at hx
            exact mem_takeWhile_imp _ _ _ hx
          · have := (hone (by simpa using hsp)).1
            rw [this]
            exact ⟨items', rfl, hsub0⟩
        obtain ⟨items1, hitems1, hsub⟩ := hsub
        rw [scanSteps_step T.toTables src fuel pos c cs s hs (by omega)]
        have hl : ((c :: cs).drop s.len).length ≤ fuel := by
          simp only [List.length_drop]; simp only [List.length_cons] at hf h2 ⊢; omega
        have hl' : ((c :: cs).drop s.len).length ≤ n := by
          simp only [List.length_drop]; simp only [List.length_cons] at hn h2 ⊢; omega
        obtain ⟨i1, I⟩ := ih fuel (pos + s.len) ((c :: cs).drop s.len) items1 hl' hl hsub
        obtain ⟨ps', hflat, hpok, hlink⟩ := I.pieces
        have hne : s.tok.txt ≠ [] := by
          rw [hp.txt]
          intro h0
          have := congrArg List.length h0
          simp only [List.length_take, List.length_nil] at this
          omega
        refine ⟨i1, ?_, ?_, ?_, ?_⟩
        · intro x hx
          rcases List.mem_cons.mp hx with rfl | hx
          · exact ⟨hp.diag, hp.extra⟩
          · exact I.ok x hx
        · refine ⟨.tok s.tok :: ps', by simp [flat, Piece.toks, hflat], ⟨hp.tok, ?_, hpok⟩, ?_⟩
          · -- the short-macro branch
            rw [← hflat]
            have hact := hat
            simp only [okAt, Bool.and_eq_true, Bool.or_eq_true, Bool.not_eq_true'] at hact
            rcases hact.1 with hna | ⟨hns, hk⟩
            · left
              have : s.tok.txt = c :: (cs.take (s.len - 1)) := by
                rw [hp.txt]
                obtain ⟨k, hk⟩ : ∃ k, s.len = k + 1 := ⟨s.len - 1, by omega⟩
                rw [hk]; simp
              rw [this]
              exact not_active_cons T st c _ hna
            · right
              have hlen := (hone hns).1
              have htxt : s.tok.txt = [c] := by rw [hp.txt, hlen]; rfl
              have i4 := I.first
              rw [hlen] at i4 ⊢
              simp only [List.drop_succ_cons, List.drop_zero] at i4 ⊢
              cases hr : (scanSteps T.toTables src fuel (pos + 1) cs).1 with
              | nil => rfl
              | cons s2 ss =>
                simp only [List.map_cons]
                apply expandShortMacro_none
                rw [htxt, i4 s2 ss hr]
                rcases hk with hk | hk
                · cases cs with
                  | nil => cases fuel <;> simp [scanSteps] at hr
                  | cons => simp at hk
                · simpa using hk
          · rw [hitems1, ← hp.txt, ← hp.pos]
            refine .tok s.tok ps' items1 hp.fix ⟨hne, ?_⟩ hlink
            intro hnl
            by_cases hsp : isSpace c = true
            · rw [hp.first]
              simp only [firstTokTxt, hsp, if_true, isBlank, List.all_eq_true]
              exact fun x hx => mem_takeWhile_imp _ _ _ hx
            · have hsp' : isSpace c = false := by simpa using hsp
              have := (hone hsp').1
              rw [hp.txt, this] at hnl
              simp only [List.take_succ_cons, List.take_zero] at hnl
              rw [hasNl_single c hsp'] at hnl; cases hnl
        · intro s' ss' he
          simp only [List.cons.injEq] at he
          rw [← he.1, hp.first]
          refine (firstTokTxtM_of_text c cs ?_).symm
          rcases hsnd with h | h
          · exact Or.inl h
          · exact Or.inr h.1
        · have := I.len
          simp only [List.length_cons, List.length_drop] at this h2 ⊢
          omega
      | defn _ name nn body R items' hd hsub =>
        have D := defFacts hd
        have hbl : (bodyStr body).length = ((normBody body).1 ++ tailStr (normBody body).2).length := by
          rw [← bodyStr_norm]
        simp only [List.length_cons, List.length_append, ncName_eq] at hf hn
        obtain ⟨g, hg⟩ : ∃ g, fuel = g + 7 := ⟨fuel - 7, by omega⟩
        -- the eight tokens in front of the body
        have hn1 := nextToken_nc T src pos _ D.ncSpecial D.ncAccent
        have hn2 := nextToken_brace T src (pos + 11) '{' _ (Or.inl rfl) D.b1
        have hn3 := nextToken_cw T st src (pos + 11 + 1) name _ D.cw
        have hn4 := nextToken_brace T src (pos + 11 + 1 + (name.length + 1)) '}' _ (Or.inr rfl) D.b2
        have hn5 := nextToken_txt T src (pos + 11 + 1 + (name.length + 1) + 1) '[' _ D.t1
        have hn6 := nextToken_txt T src (pos + 11 + 1 + (name.length + 1) + 1 + 1) (digitChar nn) _ D.t2
        have hn7 := nextToken_txt T src (pos + 11 + 1 + (name.length + 1) + 1 + 1 + 1) ']' _ D.t3
        have hn8 := nextToken_brace T src (pos + 11 + 1 + (name.length + 1) + 1 + 1 + 1 + 1) '{' _
          (Or.inl rfl) D.b3
        have hn9 := nextToken_brace T src
          (pos + 11 + 1 + (name.length + 1) + 1 + 1 + 1 + 1 + 1 + (bodyStr body).length) '}' R
          (Or.inr rfl) D.b4
        obtain ⟨hb1, hb2⟩ := normBody_ok T st nn body D.bok
        obtain ⟨bsteps, B, hrun⟩ := scanSteps_body T st src nn R (normBody body)
          (pos + 11 + 1 + (name.length + 1) + 1 + 1 + 1 + 1 + 1) g (by omega) hb1 hb2
        rw [← bodyStr_norm] at hrun
        have hBl := B.len
        obtain ⟨g', hg'⟩ : ∃ g', g - bsteps.length = g' + 1 := ⟨g - bsteps.length - 1, by omega⟩
        have hpos : pos + 11 + 1 + (name.length + 1) + 1 + 1 + 1 + 1 + 1 + (bodyStr body).length + 1
            = pos + (name.length + (bodyStr body).length + 19) := by omega
        obtain ⟨i1, I⟩ := ih g' (pos + (name.length + (bodyStr body).length + 19)) R items'
          (by omega) (by omega) hsub
        obtain ⟨ps', hflat, hpok, hlink⟩ := I.pieces
        have hd1 : ('\\' :: (ncName ++ '{' :: '\\' :: (name ++ '}' :: '[' :: digitChar nn :: ']' :: '{' ::
              (bodyStr body ++ '}' :: R)))).drop 11
            = '{' :: '\\' :: (name ++ '}' :: '[' :: digitChar nn :: ']' :: '{' :: (bodyStr body ++ '}' :: R)) := by
          rw [ncName_eq]; rfl
        have hd3 : ('\\' :: (name ++ '}' :: '[' :: digitChar nn :: ']' :: '{' :: (bodyStr body ++ '}' :: R))).drop
              (name.length + 1)
            = '}' :: '[' :: digitChar nn :: ']' :: '{' :: (bodyStr body ++ '}' :: R) := by simp
        have hsteps : scanSteps T.toTables src (fuel + 1) pos
              ('\\' :: (ncName ++ '{' :: '\\' :: (name ++ '}' :: '[' :: digitChar nn :: ']' :: '{' ::
                (bodyStr body ++ '}' :: R))))
            = ({ tok := cwTok pos ncName, len := 11 } ::
               { tok := { kind := .special, pos := pos + 11, txt := ['{'] }, len := 1 } ::
               { tok := cwTok (pos + 11 + 1) name, len := name.length + 1 } ::
               { tok := { kind := .special, pos := pos + 11 + 1 + (name.length + 1), txt := ['}'] }, len := 1 } ::
               { tok := txtTok (pos + 11 + 1 + (name.length + 1) + 1) '[', len := 1 } ::
               { tok := txtTok (pos + 11 + 1 + (name.length + 1) + 1 + 1) (digitChar nn), len := 1 } ::
               { tok := txtTok (pos + 11 + 1 + (name.length + 1) + 1 + 1 + 1) ']', len := 1 } ::
               { tok := { kind := .special, pos := pos + 11 + 1 + (name.length + 1) + 1 + 1 + 1 + 1,
                          txt := ['{'] }, len := 1 } ::
               (bsteps ++
                 { tok := { kind := .special,
                            pos := pos + 11 + 1 + (name.length + 1) + 1 + 1 + 1 + 1 + 1 + (bodyStr body).length,
                            txt := ['}'] }, len := 1 } ::
                 (scanSteps T.toTables src g' (pos + (name.length + (bodyStr body).length + 19)) R).1),
               (scanSteps T.toTables src g' (pos + (name.length + (bodyStr body).length + 19)) R).2) := by
          rw [hg, scanSteps_step T.toTables src (g + 7) pos _ _ _ hn1 (by simp), hd1]
          simp only []
          rw [scanSteps_step T.toTables src (g + 6) (pos + 11) _ _ _ hn2 (by simp)]
          simp only [List.drop_succ_cons, List.drop_zero]
          rw [scanSteps_step T.toTables src (g + 5) (pos + 11 + 1) _ _ _ hn3 (by simp), hd3]
          simp only []
          rw [scanSteps_step T.toTables src (g + 4) _ _ _ _ hn4 (by simp)]
          simp only [List.drop_succ_cons, List.drop_zero]
          rw [scanSteps_step T.toTables src (g + 3) _ _ _ _ hn5 (by simp)]
          simp only [List.drop_succ_cons, List.drop_zero]
          rw [scanSteps_step T.toTables src (g + 2) _ _ _ _ hn6 (by simp)]
          simp only [List.drop_succ_cons, List.drop_zero]
          rw [scanSteps_step T.toTables src (g + 1) _ _ _ _ hn7 (by simp)]
          simp only [List.drop_succ_cons, List.drop_zero]
          rw [scanSteps_step T.toTables src g _ _ _ _ hn8 (by simp)]
          simp only [List.drop_succ_cons, List.drop_zero]
          rw [hrun, hg', scanSteps_step T.toTables src g' _ _ _ _ hn9 (by simp)]
          simp only [List.drop_succ_cons, List.drop_zero, hpos]
        rw [hsteps]
        refine ⟨i1, ?_, ?_, ?_, ?_⟩
        · intro x hx
          simp only [List.mem_cons, List.mem_append] at hx
          rcases hx with rfl | rfl | rfl | rfl | rfl | rfl | rfl | rfl | hx | rfl | hx
          · exact ⟨rfl, rfl⟩
          · exact ⟨rfl, rfl⟩
          · exact ⟨rfl, rfl⟩
          · exact ⟨rfl, rfl⟩
          · exact ⟨rfl, rfl⟩
          · exact ⟨rfl, rfl⟩
          · exact ⟨rfl, rfl⟩
          · exact ⟨rfl, rfl⟩
          · exact B.ok x hx
          · exact ⟨rfl, rfl⟩
          · exact I.ok x hx
        · refine ⟨.defn pos (pos + 11) (pos + 11 + 1) (pos + 11 + 1 + (name.length + 1))
              (pos + 11 + 1 + (name.length + 1) + 1) (pos + 11 + 1 + (name.length + 1) + 1 + 1)
              (pos + 11 + 1 + (name.length + 1) + 1 + 1 + 1) (pos + 11 + 1 + (name.length + 1) + 1 + 1 + 1 + 1)
              (pos + 11 + 1 + (name.length + 1) + 1 + 1 + 1 + 1 + 1 + (bodyStr body).length) name nn
              (bsteps.map (·.tok)) :: ps',
            ?_, ⟨nameOk_of_cwFacts D.cw D.ign, D.digit, ⟨?_, ?_⟩, hpok⟩, ?_⟩
          · simp [flat, Piece.toks, hflat, lbr, rbr]
          · have := B.ne (by rw [← bodyStr_norm]; exact D.bne)
            simpa using this
          · intro t ht
            obtain ⟨x, hx, rfl⟩ := List.mem_map.mp ht
            exact B.toks x hx
          · exact .defn _ _ _ _ _ _ _ _ _ name nn body _ ps' items' B.link hlink
        · intro s' ss' he
          simp only [List.cons.injEq] at he
          rw [← he.1]
          have htw : (ncName ++ '{' :: '\\' :: (name ++ '}' :: '[' :: digitChar nn :: ']' :: '{' ::
                (bodyStr body ++ '}' :: R))).takeWhile macroChar
              = ncName := takeWhile_append_stop _ _ _ (by decide) rfl
          simp [firstTokTxtM, cwTok, show isSpace '\\' = false by decide, htw]
        · have := I.len
          simp only [List.length_cons, List.length_append, ncName_eq] at this ⊢
          omega
      | ddef _ name nn body R items' hd hsub =>
        have D := ddefFacts hd
        have hbl : (bodyStr body).length = ((normBody body).1 ++ tailStr (normBody body).2).length := by
          rw [← bodyStr_norm]
        simp only [List.length_cons, List.length_append, defName_eq, paramStr_length] at hf hn
        obtain ⟨g, hg⟩ : ∃ g, fuel = g + nn + 2 := ⟨fuel - nn - 2, by omega⟩
        have hn1 := nextToken_def T src pos _ D.dSpecial D.dAccent
        have hn2 := nextToken_cw T st src (pos + 4) name _ D.cw
        have hn3 := nextToken_brace T src (pos + 4 + (name.length + 1) + 2 * nn) '{' _ (Or.inl rfl) D.b3
        have hn4 := nextToken_brace T src
          (pos + 4 + (name.length + 1) + 2 * nn + 1 + (bodyStr body).length) '}' R (Or.inr rfl) D.b4
        obtain ⟨hb1, hb2⟩ := normBody_ok T st nn body D.bok
        obtain ⟨bsteps, B, hrun⟩ := scanSteps_body T st src nn R (normBody body)
          (pos + 4 + (name.length + 1) + 2 * nn + 1) g (by omega) hb1 hb2
        rw [← bodyStr_norm] at hrun
        have hBl := B.len
        obtain ⟨g', hg'⟩ : ∃ g', g - bsteps.length = g' + 1 := ⟨g - bsteps.length - 1, by omega⟩
        have hpos : pos + 4 + (name.length + 1) + 2 * nn + 1 + (bodyStr body).length + 1
            = pos + (name.length + (bodyStr body).length + 2 * nn + 7) := by omega
        obtain ⟨i1, I⟩ := ih g' (pos + (name.length + (bodyStr body).length + 2 * nn + 7)) R items'
          (by omega) (by omega) hsub
        obtain ⟨ps', hflat, hpok, hlink⟩ := I.pieces
        have hd1 : ('\\' :: (defName ++ '\\' :: (name ++ (paramStr 1 nn ++ '{' :: (bodyStr body ++ '}' :: R))))).drop 4
            = '\\' :: (name ++ (paramStr 1 nn ++ '{' :: (bodyStr body ++ '}' :: R))) := by
          rw [defName_eq]; rfl
        have hd2 : ('\\' :: (name ++ (paramStr 1 nn ++ '{' :: (bodyStr body ++ '}' :: R)))).drop (name.length + 1)
            = paramStr 1 nn ++ '{' :: (bodyStr body ++ '}' :: R) := by simp
        have hsteps : scanSteps T.toTables src (fuel + 1) pos
              ('\\' :: (defName ++ '\\' :: (name ++ (paramStr 1 nn ++ '{' :: (bodyStr body ++ '}' :: R)))))
            = ({ tok := cwTok pos defName, len := 4 } ::
               { tok := cwTok (pos + 4) name, len := name.length + 1 } ::
               ((paramToks (pos + 4 + (name.length + 1)) 1 nn).map (fun t => ({ tok := t, len := 2 } : ScanStep)) ++
               { tok := { kind := .special, pos := pos + 4 + (name.length + 1) + 2 * nn, txt := ['{'] }, len := 1 } ::
               (bsteps ++
                 { tok := { kind := .special,
                            pos := pos + 4 + (name.length + 1) + 2 * nn + 1 + (bodyStr body).length,
                            txt := ['}'] }, len := 1 } ::
                 (scanSteps T.toTables src g' (pos + (name.length + (bodyStr body).length + 2 * nn + 7)) R).1)),
               (scanSteps T.toTables src g' (pos + (name.length + (bodyStr body).length + 2 * nn + 7)) R).2) := by
          rw [hg, scanSteps_step T.toTables src (g + nn + 2) pos _ _ _ hn1 (by simp), hd1]
          simp only []
          rw [scanSteps_step T.toTables src (g + nn + 1) (pos + 4) _ _ _ hn2 (by simp), hd2]
          simp only []
          rw [scanSteps_params T.toTables src _ nn 1 _ (g + nn + 1) (by omega) D.params,
            show g + nn + 1 - nn = g + 1 by omega,
            scanSteps_step T.toTables src g _ _ _ _ hn3 (by simp)]
          simp only [List.drop_succ_cons, List.drop_zero]
          rw [hrun, hg', scanSteps_step T.toTables src g' _ _ _ _ hn4 (by simp)]
          simp only [List.drop_succ_cons, List.drop_zero, hpos]
        have hpm : ∀ q, ((paramToks q 1 nn).map (fun t => ({ tok := t, len := 2 } : ScanStep))).map (·.tok)
            = paramToks q 1 nn := by
          intro q; simp [List.map_map, Function.comp_def]
        rw [hsteps]
        refine ⟨i1, ?_, ?_, ?_, ?_⟩
        · intro x hx
          simp only [List.mem_cons, List.mem_append, List.mem_map] at hx
          rcases hx with rfl | rfl | ⟨t, _, rfl⟩ | rfl | hx | rfl | hx
          · exact ⟨rfl, rfl⟩
          · exact ⟨rfl, rfl⟩
          · exact ⟨rfl, rfl⟩
          · exact ⟨rfl, rfl⟩
          · exact B.ok x hx
          · exact ⟨rfl, rfl⟩
          · exact I.ok x hx
        · refine ⟨.ddef pos (pos + 4) (pos + 4 + (name.length + 1)) (pos + 4 + (name.length + 1) + 2 * nn)
              (pos + 4 + (name.length + 1) + 2 * nn + 1 + (bodyStr body).length) name nn
              (bsteps.map (·.tok)) :: ps',
            ?_, ⟨nameOk_of_cwFacts D.cw D.ign, ⟨?_, ?_⟩, hpok⟩, ?_⟩
          · simp [flat, Piece.toks, hflat, lbr, rbr, hpm]
          · have := B.ne (by rw [← bodyStr_norm]; exact D.bne)
            simpa using this
          · intro t ht
            obtain ⟨x, hx, rfl⟩ := List.mem_map.mp ht
            exact B.toks x hx
          · exact .ddef _ _ _ _ _ name nn body _ ps' items' B.link hlink
        · intro s' ss' he
          simp only [List.cons.injEq] at he
          rw [← he.1]
          have htw : (defName ++ '\\' :: (name ++ (paramStr 1 nn ++ '{' :: (bodyStr body ++ '}' :: R)))).takeWhile
              macroChar = defName := takeWhile_append_stop _ _ _ (by decide) rfl
          simp [firstTokTxtM, cwTok, show isSpace '\\' = false by decide, htw]
        · have := I.len
          simp only [List.length_cons, List.length_append, List.length_map, paramToks_length, defName_eq,
            paramStr_length] at this ⊢
          omega
      | use _ name args R items' hu hsub =>
        have U := useFacts hu
        have hn1 := nextToken_cw T st src pos name _ U.cw
        have hd1 : ('\\' :: (name ++ (argsStr args ++ R))).drop (name.length + 1) = argsStr args ++ R := by simp
        have hne := List.length_pos_iff.mpr U.cw.ne
        have hfirst : (cwTok pos name).txt = firstTokTxtM ('\\' :: (name ++ (argsStr args ++ R))) := by
          simp [firstTokTxtM, cwTok, U.cw.tw, show isSpace '\\' = false by decide]
        simp only [List.length_cons, List.length_append, argsStr_length] at hf hn
        obtain ⟨asteps, A, hrun⟩ := scanSteps_args T st src R args (pos + (name.length + 1)) fuel (by omega) U.args
        have hAl := A.len
        have hpos : pos + (name.length + 1) + argsLen args = pos + (name.length + 1 + argsLen args) := by omega
        obtain ⟨i1, I⟩ := ih (fuel - asteps.length) (pos + (name.length + 1 + argsLen args)) R items'
          (by omega) (by omega) hsub
        obtain ⟨ps', hflat, hpok, hlink⟩ := I.pieces
        obtain ⟨gs, hgs1, hgs2, hgs3⟩ := A.gs
        rw [scanSteps_step T.toTables src fuel pos _ _ _ hn1 (by simp), hd1]
        simp only []
        rw [hrun, hpos]
        refine ⟨i1, ?_, ?_, ?_, ?_⟩
        · intro x hx
          simp only [List.mem_cons, List.mem_append] at hx
          rcases hx with rfl | hx | hx
          · exact ⟨rfl, rfl⟩
          · exact A.ok x hx
          · exact I.ok x hx
        · have e : pos + (name.length + 1) = pos + name.length + 1 := by omega
          refine ⟨.use pos name gs :: ps', by simp [flat, Piece.toks, hflat, hgs1],
            ⟨nameOk_of_cwFacts U.cw U.ign, groupsLink_ne hgs3 U.ne, hgs2, hpok⟩, ?_⟩
          exact .use pos name args gs ps' items' U.cw.ne (by rw [← e]; exact hgs3) hlink
        · intro s' ss' he
          simp only [List.cons.injEq] at he
          rw [← he.1]; exact hfirst
        · have := I.len
          simp only [List.length_cons, List.length_append, argsStr_length] at this ⊢
          omega

/-! ### the reference on items -/

def refMarks : Env → List Item → List Mark
  | _, [] => []
  | env, .chr c p :: rest => some (c, p) :: refMarks env rest
  | env, .defn _ name n body :: rest => none :: refMarks ((name, n, body) :: env) rest
  | env, .ddef _ name n body :: rest => none :: refMarks ((name, n, body) :: env) rest
  | env, .use p name args :: rest =>
    none :: (bodyMarks (argSpans (p + name.length + 1) args)
              (startCur (argSpans (p + name.length + 1) args) p (defOf env name).2) (defOf env name).2
      ++ (groupMarks ((argSpans (p + name.length + 1) args).drop (defOf env name).1) ++ refMarks env rest))

def refUnknowns : Env → List Item → List Str
  | _, [] => []
  | env, .chr _ _ :: rest => refUnknowns env rest
  | env, .defn _ name n body :: rest => refUnknowns ((name, n, body) :: env) rest
  | env, .ddef _ name n body :: rest => refUnknowns ((name, n, body) :: env) rest
  | env, .use _ name _ :: rest =>
    (if (lookupDef env name).isNone then [('\\' :: name)] else []) ++ refUnknowns env rest

def refInserted : Env → List Item → Nat
  | _, [] => 0
  | env, .chr _ _ :: rest => refInserted env rest
  | env, .defn _ name n body :: rest => refInserted ((name, n, body) :: env) rest
  | env, .ddef _ name n body :: rest => refInserted ((name, n, body) :: env) rest
  | env, .use p name args :: rest =>
    bodyInserted (argSpans (p + name.length + 1) args) (defOf env name).2 + refInserted env rest

def refArity : Env → List Item → Bool
  | _, [] => true
  | env, .chr _ _ :: rest => refArity env rest
  | env, .defn _ name n body :: rest => refArity ((name, n, body) :: env) rest
  | env, .ddef _ name n body :: rest => refArity ((name, n, body) :: env) rest
  | env, .use _ name args :: rest => decide ((defOf env name).1 ≤ args.length) && refArity env rest

def itemsLen : List Item → Nat
  | [] => 0
  | .chr _ _ :: rest => 1 + itemsLen rest
  | .defn _ name _ body :: rest => name.length + (bodyStr body).length + 19 + itemsLen rest
  | .ddef _ name n body :: rest => name.length + (bodyStr body).length + 2 * n + 7 + itemsLen rest
  | .use _ name args :: rest => name.length + 1 + argsLen args + itemsLen rest
/-! ### what the pieces mean -/

theorem refMarks_chrItems (env : Env) (items : List Item) : ∀ (s : Str) (p : Nat),
    refMarks env (chrItems p s ++ items) = (posText p s).map some ++ refMarks env items
  | [], _ => rfl
  | c :: cs, p => by
    simp only [chrItems, List.cons_append, refMarks, posText, List.map_cons, refMarks_chrItems env items cs (p + 1)]

theorem refUnknowns_chrItems (env : Env) (items : List Item) : ∀ (s : Str) (p : Nat),
    refUnknowns env (chrItems p s ++ items) = refUnknowns env items
  | [], _ => rfl
  | c :: cs, p => by
    simp only [chrItems, List.cons_append, refUnknowns, refUnknowns_chrItems env items cs (p + 1)]

theorem refInserted_chrItems (env : Env) (items : List Item) : ∀ (s : Str) (p : Nat),
    refInserted env (chrItems p s ++ items) = refInserted env items
  | [], _ => rfl
  | c :: cs, p => by
    simp only [chrItems, List.cons_append, refInserted, refInserted_chrItems env items cs (p + 1)]

theorem refArity_chrItems (env : Env) (items : List Item) : ∀ (s : Str) (p : Nat),
    refArity env (chrItems p s ++ items) = refArity env items
  | [], _ => rfl
  | c :: cs, p => by
    simp only [chrItems, List.cons_append, refArity, refArity_chrItems env items cs (p + 1)]

theorem itemsLen_chrItems (items : List Item) : ∀ (s : Str) (p : Nat),
    itemsLen (chrItems p s ++ items) = s.length + itemsLen items
  | [], _ => by simp [chrItems]
  | c :: cs, p => by
    simp only [chrItems, List.cons_append, itemsLen, itemsLen_chrItems items cs (p + 1), List.length_cons]
    omega

/-- what the pieces of a source mean, for a state and an environment that agree -/
structure Sem (st : PState) (env : Env) (ps : List Piece) (items : List Item) : Prop where
  marks : marksOf (outP st ps) = refMarks env items
  simple : ∀ t ∈ outP st ps, PlainMacro.Simple t
  cost : cost st ps ≤ itemsLen items + refInserted env items
  unk : (finalSt st ps).unknowns = (refUnknowns env items).foldl addU st.unknowns
  arity : ArityOk st ps

theorem link_sem (T : PTables) (st1 : PState) {ps : List Piece} {items : List Item} (hl : Link ps items) :
    PiecesOk T st1 ps → ∀ (st : PState) (env : Env), StOk T st1 st → Rel st1 st env →
    refArity env items = true → Sem st env ps items := by
  induction hl with
  | nil => intro _ st env _ _ _; exact ⟨rfl, by simp [outP], by simp [cost], rfl, trivial⟩
  | tok t ps items hfix hshape _ ih =>
    intro hok st env hst hrel har
    obtain ⟨hp, _, hrest⟩ := hok
    rw [refArity_chrItems] at har
    have I := ih hrest st env hst hrel har
    refine ⟨?_, ?_, ?_, ?_, I.arity⟩
    · simp only [outP]
      rw [PlainMacro.marksOf_cons, PlainMacro.tokMarks_nonaction _ hp.notAction,
        PlainMacro.tokChars_nofix t hfix, refMarks_chrItems, I.marks]
    · intro x hx
      simp only [outP, List.mem_cons] at hx
      rcases hx with rfl | hx
      · exact PlainMacro.simple_of_plain hp hshape
      · exact I.simple x hx
    · have := I.cost
      have h1 := List.length_pos_iff.mpr hshape.1
      simp only [cost, itemsLen_chrItems, refInserted_chrItems]
      omega
    · simp only [finalSt, refUnknowns_chrItems]
      exact I.unk
  | defn p q1 q2 q3 q4 q5 q6 q7 q8 name n body btoks ps items hb _ ih =>
    intro hok st env hst hrel har
    obtain ⟨hn, _, hgb, hrest⟩ := hok
    simp only [refArity] at har
    have I := ih hrest (defSt st name n btoks) ((name, n, body) :: env) (hst.defSt name n btoks hn hgb)
      (hrel.defSt name n body btoks hb) har
    refine ⟨?_, ?_, ?_, ?_, I.arity⟩
    · simp only [outP, refMarks]
      rw [PlainMacro.marksOf_cons, PlainMacro.tokMarks_mkAction, I.marks]; rfl
    · intro x hx
      simp only [outP, List.mem_cons] at hx
      rcases hx with rfl | hx
      · exact PlainMacro.simple_mkAction p
      · exact I.simple x hx
    · have := I.cost
      simp only [cost, itemsLen, refInserted]
      omega
    · simp only [finalSt, refUnknowns]
      exact I.unk
  | ddef p q2 q q7 q8 name n body btoks ps items hb _ ih =>
    intro hok st env hst hrel har
    obtain ⟨hn, hgb, hrest⟩ := hok
    simp only [refArity] at har
    have I := ih hrest (defSt st name n btoks) ((name, n, body) :: env) (hst.defSt name n btoks hn hgb)
      (hrel.defSt name n body btoks hb) har
    refine ⟨?_, ?_, ?_, ?_, I.arity⟩
    · simp only [outP, refMarks]
      rw [PlainMacro.marksOf_cons, PlainMacro.tokMarks_mkAction, I.marks]; rfl
    · intro x hx
      simp only [outP, List.mem_cons] at hx
      rcases hx with rfl | hx
      · exact PlainMacro.simple_mkAction p
      · exact I.simple x hx
    · have := I.cost
      simp only [cost, itemsLen, refInserted]
      omega
    · simp only [finalSt, refUnknowns]
      exact I.unk
  | use p name args gs ps items hne hgl _ ih =>
    intro hok st env hst hrel har
    obtain ⟨hn, _, hgg, hrest⟩ := hok
    simp only [refArity, Bool.and_eq_true, decide_eq_true_eq] at har
    obtain ⟨har1, har2⟩ := har
    have I := ih hrest (useSt st name) env (hst.useSt name) (hrel.useSt name) har2
    have hname := List.length_pos_iff.mpr hne
    have hR := hrel name hn.undecl
    have hlen := groupsLink_length hgl
    cases hbo : lookupDef env name with
    | none =>
      rw [hbo] at hR
      simp only [] at hR
      have e1 : useBody st p name gs = [] := by simp [useBody, hR]
      have e2 : useSt st name = { st with unknowns := addU st.unknowns ('\\' :: name) } := by
        simp [PlainMacroArgs.useSt, hR]
      have e3 : useN st name = 0 := by simp [useN, hR]
      have e4 : defOf env name = (0, []) := by simp [defOf, hbo]
      obtain ⟨g1, g2, g3⟩ := groups_sem 0 hgl hgg
      refine ⟨?_, ?_, ?_, ?_, ?_⟩
      · simp only [outP, refMarks, e1, e3, e4, List.nil_append, bodyMarks]
        rw [PlainMacro.marksOf_cons, PlainMacro.tokMarks_mkAction, PlainMacro.marksOf_append, g1, I.marks]; rfl
      · intro x hx
        simp only [outP, e1, e3, List.nil_append, List.mem_cons, List.mem_append] at hx
        rcases hx with rfl | hx | hx
        · exact PlainMacro.simple_mkAction p
        · exact g3 x hx
        · exact I.simple x hx
      · have := I.cost
        simp only [cost, itemsLen, refInserted, e1, e3, e4, List.length_nil, bodyInserted]
        omega
      · simp only [finalSt, refUnknowns, hbo, Option.isNone_none, if_true, List.singleton_append,
          List.foldl_cons]
        rw [I.unk, e2]
      · exact ⟨by rw [e3]; omega, I.arity⟩
    | some nb =>
      obtain ⟨n, body⟩ := nb
      rw [hbo] at hR
      obtain ⟨bt, hlk, hbl⟩ := hR
      obtain ⟨n', bt', hm, hgb⟩ := hst.user _ _ hn.undecl hlk
      obtain ⟨rfl, rfl⟩ := userMacro_inj hm
      have e1 : useBody st p name gs
          = genOut ((gs.take n).map (·.toks)) bt (genCur ((gs.take n).map (·.toks)) bt p) := by
        simp [useBody, hlk, userMacro]
      have e2 : useSt st name = st := by simp [PlainMacroArgs.useSt, hlk]
      have e3 : useN st name = n := by simp [useN, hlk, userMacro]
      have e4 : defOf env name = (n, body) := by simp [defOf, hbo]
      rw [e4] at har1
      simp only [] at har1
      obtain ⟨g1, g2, g3⟩ := groups_sem n hgl hgg
      obtain ⟨b1, b2, b3⟩ := body_sem _ _ n (argsSem_of_link hgl hgg n (by omega)) bt body hbl hgb.refs p
      rw [← e1] at b1 b2 b3
      refine ⟨?_, ?_, ?_, ?_, ?_⟩
      · simp only [outP, refMarks, e3, e4]
        rw [PlainMacro.marksOf_cons, PlainMacro.tokMarks_mkAction, PlainMacro.marksOf_append,
          PlainMacro.marksOf_append, b1, g1, I.marks]; rfl
      · intro x hx
        simp only [outP, e3, List.mem_cons, List.mem_append] at hx
        rcases hx with rfl | hx | hx | hx
        · exact PlainMacro.simple_mkAction p
        · exact b3 x hx
        · exact g3 x hx
        · exact I.simple x hx
      · have := I.cost
        simp only [cost, itemsLen, refInserted, e3, e4]
        omega
      · simp only [finalSt, refUnknowns, hbo, Option.isNone_some, Bool.false_eq_true, if_false,
          List.nil_append]
        rw [I.unk, e2]
      · exact ⟨by rw [e3]; omega, I.arity⟩

/-! ### `scan`, `parserWork`, `parse`, `tex2txt` -/

theorem OkSrc_len {T : PTables} {st : PState} {p : Nat} {s : Str} {items : List Item}
    (h : OkSrc T st p s items) : itemsLen items = s.length := by
  induction h with
  | nil p => rfl
  | chr p c cs items _ _ ih => simp only [itemsLen, ih, List.length_cons]; omega
  | defn p name n body R items _ _ ih =>
    simp only [itemsLen, ih, List.length_cons, List.length_append, ncName_eq]; simp; omega
  | ddef p name n body R items _ _ ih =>
    simp only [itemsLen, ih, List.length_cons, List.length_append, defName_eq, paramStr_length]; simp; omega
  | use p name args R items _ _ ih =>
    simp only [itemsLen, ih, List.length_cons, List.length_append, argsStr_length]; omega

/-- `scan` on a well-formed source: no diagnostics; the token buffer consists of plain tokens,
    definitions and uses that correspond to the items -/
theorem scan_macro (T : PTables) (st : PState) (src : Str) (items : List Item)
    (h : OkSrc T st 0 src items) :
    (scan T.toTables src).diags = [] ∧
    ∃ ps, (scan T.toTables src).toks = flat ps ∧ PiecesOk T st ps ∧ Link ps items := by
  obtain ⟨_, F⟩ := scanSteps_macro T st src src.length src.length 0 src items (Nat.le_refl _)
    (Nat.le_refl _) h
  have he := flatten_tok_extra (scanSteps T.toTables src src.length 0 src).1 (fun s hs => (F.ok s hs).2)
  have hd := flatten_diag_nil (scanSteps T.toTables src src.length 0 src).1 (fun s hs => (F.ok s hs).1)
  obtain ⟨ps, h1, h2, h3⟩ := F.pieces
  simp only [scan]
  rw [he, hd]
  exact ⟨rfl, ps, h1, h2, h3⟩

theorem paramToks_notComment : ∀ (m q i : Nat), ∀ t ∈ paramToks q i m, t.kind ≠ .comment
  | 0, _, _, t, h => by simp [paramToks] at h
  | m + 1, q, i, t, h => by
    simp only [paramToks, List.mem_cons] at h
    rcases h with rfl | h
    · simp [argTok]
    · exact paramToks_notComment m _ _ t h

theorem PiecesOk.notComment {T : PTables} {st : PState} : ∀ {ps : List Piece}, PiecesOk T st ps →
    ∀ t ∈ flat ps, t.kind ≠ .comment
  | [], _, _, h => by simp [flat] at h
  | .tok t :: rest, hok, x, hx => by
    simp only [flat, Piece.toks, List.singleton_append, List.mem_cons] at hx
    rcases hx with rfl | hx
    · exact hok.1.notComment
    · exact PiecesOk.notComment hok.2.2 x hx
  | .defn p q1 q2 q3 q4 q5 q6 q7 q8 name n body :: rest, hok, x, hx => by
    obtain ⟨_, _, hb, hrest⟩ := hok
    simp only [flat, Piece.toks, List.cons_append, List.append_assoc, List.mem_cons,
      List.mem_append, List.nil_append] at hx
    rcases hx with rfl | rfl | rfl | rfl | rfl | rfl | rfl | rfl | hx | rfl | hx
    · simp [cwTok]
    · simp [lbr]
    · simp [cwTok]
    · simp [rbr]
    · simp [txtTok]
    · simp [txtTok]
    · simp [txtTok]
    · simp [lbr]
    · rcases hb.2 x hx with ⟨h1, _⟩ | ⟨k, hk, _⟩
      · exact h1.notComment
      · intro e
        simp [argRef, e] at hk
    · simp [rbr]
    · exact PiecesOk.notComment hrest x hx
  | .ddef p q2 q q7 q8 name n body :: rest, hok, x, hx => by
    obtain ⟨_, hb, hrest⟩ := hok
    simp only [flat, Piece.toks, List.cons_append, List.append_assoc, List.mem_cons,
      List.mem_append, List.nil_append] at hx
    rcases hx with rfl | rfl | hx | rfl | hx | rfl | hx
    · simp [cwTok]
    · simp [cwTok]
    · exact paramToks_notComment _ _ _ x hx
    · simp [lbr]
    · rcases hb.2 x hx with ⟨h1, _⟩ | ⟨k, hk, _⟩
      · exact h1.notComment
      · intro e
        simp [argRef, e] at hk
    · simp [rbr]
    · exact PiecesOk.notComment hrest x hx
  | .use p name gs :: rest, hok, x, hx => by
    obtain ⟨_, _, hg, hrest⟩ := hok
    simp only [flat, Piece.toks, List.cons_append, List.mem_cons, List.mem_append] at hx
    rcases hx with rfl | hx | hx
    · simp [cwTok]
    · obtain ⟨g, hgm, h⟩ := mem_groupsFlat hx
      rcases h with rfl | rfl | h
      · simp [lbr]
      · simp [rbr]
      · exact ((hg g hgm).2 x h).1.notComment
    · exact PiecesOk.notComment hrest x hx

/-- the state after the pieces differs from the state before only in the macro table and the
    list of unknowns -/
theorem finalSt_eq : ∀ (ps : List Piece) (st : PState),
    finalSt st ps = { st with macros := (finalSt st ps).macros, unknowns := (finalSt st ps).unknowns }
  | [], st => rfl
  | .tok _ :: rest, st => finalSt_eq rest st
  | .defn _ _ _ _ _ _ _ _ _ name n body :: rest, st => by
    have := finalSt_eq rest (defSt st name n body)
    simp only [finalSt]
    rw [this]
    rfl
  | .ddef _ _ _ _ _ name n body :: rest, st => by
    have := finalSt_eq rest (defSt st name n body)
    simp only [finalSt]
    rw [this]
    rfl
  | .use _ name _ :: rest, st => by
    have := finalSt_eq rest (useSt st name)
    simp only [finalSt]
    rw [this]
    unfold PlainMacroArgs.useSt
    split <;> rfl

/-- **`parserWork` on a well-formed source.**  The characters of the result tokens, with their
    positions, are the reference output: the marks of the document with the pure Action lines
    deleted.  The state changes in the macro table (the definitions) and the list of unknowns. -/
theorem parserWork_macro (T : PTables) (st : PState) (src : Str) (fuel : Nat) (items : List Item)
    (hf : src.length + refInserted [] items + 6 ≤ fuel) (ha : noEmptyActive T st = true)
    (hnc : NcOk st) (h : OkSrc T st 0 src items) (har : refArity [] items = true) :
    ∃ r macros', parserWork T fuel src st
        = .ok (r, { st with macros := macros',
                            unknowns := (refUnknowns [] items).foldl addU st.unknowns }) ∧
      charsOf r = delLines (refMarks [] items) := by
  obtain ⟨f, rfl⟩ : ∃ f, fuel = f + 1 := ⟨fuel - 1, by omega⟩
  obtain ⟨hd, ps, hflat, hpok, hlink⟩ := scan_macro T st src items h
  have hstok : StOk T st { st with latex := src, nest := st.nest + 1 } := StOk.of_eq T rfl rfl rfl
  have S := link_sem T st hlink hpok { st with latex := src, nest := st.nest + 1 } [] hstok
    (Rel_init st _ rfl) har
  have hlen := OkSrc_len h
  have hs := seq_macro T none st hnc ha ps f [] { st with latex := src, nest := st.nest + 1 }
    (by have := S.cost; omega) hpok S.arity hstok
  rw [List.nil_append] at hs
  obtain ⟨r, hr, hchars⟩ := PlainMacro.removeLines_simple _ S.simple
  rw [hr] at hs
  simp only [] at hs
  rw [S.marks] at hchars
  refine ⟨r, (finalSt { st with latex := src, nest := st.nest + 1 } ps).macros, ?_, hchars⟩
  rw [parserWork.eq_2]
  refine (M.bind_ok _ _ _ _ _ (rfl : M.get st = _)).trans ?_
  refine (M.bind_ok _ _ _ _ _ (rfl : M.modify _ _ = _)).trans ?_
  refine (M.bind_ok _ _ _ _ _ (rfl : M.modify _ _ = _)).trans ?_
  refine (M.bind_ok _ _ _ _ _ (rfl : M.get _ = _)).trans ?_
  simp only [hd, List.append_nil]
  rw [skipPass_nocomment _ _ _ (fun t ht' => hpok.notComment t (by rw [← hflat]; exact ht'))]
  simp only []
  refine (M.bind_ok _ _ _ _ _ (rfl : (pure _ : M (List Tok)) _ = _)).trans ?_
  rw [hflat]
  refine (M.bind_ok _ _ _ _ _ hs).trans ?_
  refine (M.bind_ok _ _ _ _ _ (rfl : M.modify _ _ = _)).trans ?_
  show Outcome.ok _ = _
  rw [finalSt_eq ps, S.unk]
  simp only [Nat.add_sub_cancel]

theorem parse_macro (T : PTables) (st : PState) (src : Str) (fuel : Nat) (items : List Item)
    (hf : src.length + refInserted [] items + 6 ≤ fuel) (ha : noEmptyActive T st = true)
    (hnc : NcOk st) (h : OkSrc T st 0 src items) (har : refArity [] items = true) :
    ∃ r macros', parse T fuel src [] [] st
        = .ok (r, { st with extracted := [], unknowns := (refUnknowns [] items).eraseDups,
                            foreign := false, nest := 0, macros := macros' }) ∧
      charsOf r = delLines (refMarks [] items) := by
  have h' : OkSrc T { st with extracted := [], unknowns := [], foreign := false, nest := 0 } 0 src items :=
    OkSrc.congr (st := st)
      (st' := { st with extracted := [], unknowns := [], foreign := false, nest := 0 }) rfl rfl rfl h
  obtain ⟨r, macros', hw, hc⟩ := parserWork_macro T
    { st with extracted := [], unknowns := [], foreign := false, nest := 0 } src fuel items hf
    ((noEmptyActive_congr T st _ rfl).trans ha) (PlainMacro.NcOk_congr (st := st) rfl hnc) h' har
  refine ⟨r, macros', ?_, hc⟩
  unfold parse
  simp only [List.isEmpty_nil, Bool.not_true, Bool.false_eq_true, if_false, if_true]
  refine (M.bind_ok _ _ _ _ _ (rfl : M.modify _ _ = _)).trans ?_
  refine (M.bind_ok _ _ _ _ _ (rfl : (pure _ : M (List Tok)) _ = _)).trans ?_
  refine (M.bind_ok _ _ _ _ _ (rfl : M.modify _ _ = _)).trans ?_
  refine (M.bind_ok _ _ _ _ _ hw).trans ?_
  refine (M.bind_ok _ _ _ _ _ (rfl : M.get _ = _)).trans ?_
  show Outcome.ok _ = _
  simp [foldl_addU_nil]

/-- the result record of `tex2txt` on a well-formed source (no `--defs`, `--extr`, `--repl`,
    `--unkn`; single-language mode) -/
theorem tex2txt_macro_src (T : PTables) (o : Options) (fs : FS) (thresh : Nat) (src : Str) (fuel : Nat)
    (st1 : PState) (items : List Item)
    (hdefs : o.defs = []) (hextr : o.extr = []) (hrepl : o.hasRepl = false) (hunkn : o.unkn = false)
    (hinit : initParser T fuel o (initialState T o false fs) = .ok ((), st1))
    (ha : noEmptyActive T st1 = true) (hnc : NcOk st1) (h : OkSrc T st1 0 src items)
    (har : refArity [] items = true)
    (hf : src.length + refInserted [] items + 6 ≤ fuel) :
    ∃ toks, tex2txt T fuel src o false thresh fs
        = .ok { toks := toks, txt := (delLines (refMarks [] items)).map (·.1),
                pos := (delLines (refMarks [] items)).map (·.2 + 1), parts := [],
                unknowns := (refUnknowns [] items).eraseDups, diags := st1.diags, foreign := false } := by
  obtain ⟨r, macros', hp, hc⟩ := parse_macro T st1 src fuel items hf ha hnc h har
  refine ⟨r, ?_⟩
  have hrun : (initParser T fuel o >>= fun _ => parse T fuel src o.defs
        (if o.extr.isEmpty then [] else (splitOn ',' o.extr []).map (fun s => '\\' :: s)))
        (initialState T o false fs)
      = .ok (r, { st1 with extracted := [], unknowns := (refUnknowns [] items).eraseDups,
                           foreign := false, nest := 0, macros := macros' }) := by
    refine (M.bind_ok _ _ _ _ _ hinit).trans ?_
    rw [hdefs, hextr]
    exact hp
  unfold tex2txt
  simp only []
  rw [hrun]
  simp only [hrepl, hunkn, Bool.not_false, if_true, Bool.false_eq_true, if_false,
    PlainMacro.getTxtPos_charsOf, hc, List.map_map]
  rfl

/-! ### the reference on the level of segments -/

theorem refMarks_itemsOf : ∀ (segs : List Seg) (env : Env) (p : Nat),
    refMarks env (itemsOf p segs) = segMarks env p segs
  | [], _, _ => rfl
  | .txt s :: rest, env, p => by
    simp only [itemsOf, segMarks, refMarks_chrItems, refMarks_itemsOf rest]
  | .defn name n body :: rest, env, p => by
    simp only [itemsOf, segMarks, refMarks, refMarks_itemsOf rest]
  | .ddef name n body :: rest, env, p => by
    simp only [itemsOf, segMarks, refMarks, refMarks_itemsOf rest]
  | .use name args :: rest, env, p => by
    simp only [itemsOf, segMarks, refMarks, refMarks_itemsOf rest]

theorem refUnknowns_itemsOf : ∀ (segs : List Seg) (env : Env) (p : Nat),
    refUnknowns env (itemsOf p segs) = segUnknowns env segs
  | [], _, _ => rfl
  | .txt s :: rest, env, p => by
    simp only [itemsOf, segUnknowns, refUnknowns_chrItems, refUnknowns_itemsOf rest]
  | .defn name n body :: rest, env, p => by
    simp only [itemsOf, segUnknowns, refUnknowns, refUnknowns_itemsOf rest]
  | .ddef name n body :: rest, env, p => by
    simp only [itemsOf, segUnknowns, refUnknowns, refUnknowns_itemsOf rest]
  | .use name args :: rest, env, p => by
    simp only [itemsOf, segUnknowns, refUnknowns, refUnknowns_itemsOf rest]

theorem refInserted_itemsOf : ∀ (segs : List Seg) (env : Env) (p : Nat),
    refInserted env (itemsOf p segs) = segInserted env p segs
  | [], _, _ => rfl
  | .txt s :: rest, env, p => by
    simp only [itemsOf, segInserted, refInserted_chrItems, refInserted_itemsOf rest]
  | .defn name n body :: rest, env, p => by
    simp only [itemsOf, segInserted, refInserted, refInserted_itemsOf rest]
  | .ddef name n body :: rest, env, p => by
    simp only [itemsOf, segInserted, refInserted, refInserted_itemsOf rest]
  | .use name args :: rest, env, p => by
    simp only [itemsOf, segInserted, refInserted, refInserted_itemsOf rest]

theorem refArity_itemsOf : ∀ (segs : List Seg) (env : Env) (p : Nat),
    refArity env (itemsOf p segs) = arityOk env segs
  | [], _, _ => rfl
  | .txt s :: rest, env, p => by
    simp only [itemsOf, arityOk, refArity_chrItems, refArity_itemsOf rest]
  | .defn name n body :: rest, env, p => by
    simp only [itemsOf, arityOk, refArity, refArity_itemsOf rest]
  | .ddef name n body :: rest, env, p => by
    simp only [itemsOf, arityOk, refArity, refArity_itemsOf rest]
  | .use name args :: rest, env, p => by
    simp only [itemsOf, arityOk, refArity, refArity_itemsOf rest]

/-- all side conditions on the tables, the initialised parser state and the document -/
def SegsOk (T : PTables) (st : PState) (segs : List Seg) : Prop :=
  noEmptyActive T st = true ∧ ncOk st = true ∧ segsOk T st segs = true ∧ arityOk [] segs = true

instance (T : PTables) (st : PState) (segs : List Seg) : Decidable (SegsOk T st segs) := by
  unfold SegsOk; infer_instance

/-- **C09 end to end, `\\def` and `\\newcommand` definitions with parameters.** -/
theorem tex2txt_def (T : PTables) (o : Options) (fs : FS) (thresh : Nat) (segs : List Seg)
    (fuel : Nat) (st1 : PState)
    (hdefs : o.defs = []) (hextr : o.extr = []) (hrepl : o.hasRepl = false) (hunkn : o.unkn = false)
    (hinit : initParser T fuel o (initialState T o false fs) = .ok ((), st1))
    (hok : SegsOk T st1 segs) (hf : (render segs).length + segInserted [] 0 segs + 6 ≤ fuel) :
    ∃ r, tex2txt T fuel (render segs) o false thresh fs = .ok r ∧
      r.txt = (delLines (segMarks [] 0 segs)).map (·.1) ∧
      r.pos = (delLines (segMarks [] 0 segs)).map (·.2 + 1) ∧
      r.unknowns = (segUnknowns [] segs).eraseDups ∧
      r.diags = st1.diags ∧ r.parts = [] := by
  obtain ⟨ha, hnc, hsegs, har⟩ := hok
  have hsrc := OkSrc_of_segsOk T st1 segs 0 hsegs
  obtain ⟨toks, ht⟩ := tex2txt_macro_src T o fs thresh (render segs) fuel st1 _ hdefs hextr hrepl hunkn
    hinit ha (NcOk_of_ncOk hnc) hsrc (by rw [refArity_itemsOf]; exact har)
    (by rw [refInserted_itemsOf]; exact hf)
  rw [refMarks_itemsOf, refUnknowns_itemsOf] at ht
  exact ⟨_, ht, rfl, rfl, rfl, rfl, rfl⟩

end PlainDefTex
end Yalafi
