/-
  Proofs/PlainMixRead.lean — readings of the reference `delLines (marks …)` of the union grammar
  (Proofs/PlainMixE2E.lean).

  General facts about `PlainMacro.delLines` (lists of marks; independent of the documents)
    `delLines_sublist`     the output is a subsequence of the characters of the marks: nothing is
                           added, in particular no line break
    `delLines_words`       the characters that are no white space all survive, in order
    `delLines_mid`, `delLines_end`   the reference line by line: a line (marks without line break,
                           between line breaks) is deleted, with its line break, iff it is *pure*
                           (`pureLine`: white space only and at least one text-less mark); every other
                           line is copied without its marks
  The documents
    `plain`, `marks_chars` the characters of the marks of a document: text, special values, `\verb`
                           contents, placeholders with punctuation — nothing of keys, comments,
                           control-word names, formula bodies
-/
import YalafiVerif.Proofs.PlainMixE2E
namespace Yalafi
namespace PlainMix

open M
open PlainMacro

/-! ### `delLines`: nothing is added, nothing visible is lost -/

theorem delGo_sublist : ∀ (ms : List Mark) (cur : List (Char × Nat)) (b a : Bool),
    List.Sublist (delGo cur b a ms) (cur ++ ms.filterMap id)
  | [], cur, b, a => by
    simp only [delGo, List.filterMap_nil, List.append_nil]
    split
    · exact List.nil_sublist _
    · exact List.Sublist.refl _
  | none :: xs, cur, b, a => by
    simp only [delGo, List.filterMap_cons, id]
    exact delGo_sublist xs cur b true
  | some cp :: xs, cur, b, a => by
    simp only [delGo, List.filterMap_cons, id]
    split
    · have h1 : List.Sublist (if (b && a) = true then [] else cur ++ [cp]) (cur ++ [cp]) := by
        split
        · exact List.nil_sublist _
        · exact List.Sublist.refl _
      have h2 := delGo_sublist xs [] true false
      have := List.Sublist.append h1 h2
      simpa using this
    · have := delGo_sublist xs (cur ++ [cp]) (b && isSpace cp.1) a
      simpa using this

/-- the reference only deletes: the output is a subsequence of the characters of the marks -/
theorem delLines_sublist (ms : List Mark) : List.Sublist (delLines ms) (ms.filterMap id) := by
  have := delGo_sublist ms [] true false
  simpa [delLines] using this

/-- "no white space" on characters with positions -/
def vis (cp : Char × Nat) : Bool := !isSpace cp.1

theorem delGo_words : ∀ (ms : List Mark) (cur : List (Char × Nat)) (b a : Bool),
    (b = true → Blank cur) →
    (delGo cur b a ms).filter vis = cur.filter vis ++ (ms.filterMap id).filter vis
  | [], cur, b, a, hb => by
    simp only [delGo, List.filterMap_nil, List.filter_nil, List.append_nil]
    split
    · rename_i h
      have hb' : b = true := by
        cases b
        · simp at h
        · rfl
      have : cur.filter vis = [] := by
        rw [List.filter_eq_nil_iff]
        intro x hx
        simp [vis, hb hb' x hx]
      simp [this]
    · rfl
  | none :: xs, cur, b, a, hb => by
    simp only [delGo, List.filterMap_cons, id]
    exact delGo_words xs cur b true hb
  | some cp :: xs, cur, b, a, hb => by
    simp only [delGo, List.filterMap_cons, id]
    split
    · rename_i hn
      have hcp : vis cp = false := by
        have : cp.1 = nl := by simpa using hn
        simp [vis, this, show isSpace nl = true by decide]
      rw [List.filter_append, delGo_words xs [] true false (fun _ => by intro x hx; simp at hx)]
      have hcur : (if (b && a) = true then [] else cur ++ [cp]).filter vis = cur.filter vis := by
        split
        · rename_i h
          have hb' : b = true := by
            cases b
            · simp at h
            · rfl
          have : cur.filter vis = [] := by
            rw [List.filter_eq_nil_iff]
            intro x hx
            simp [vis, hb hb' x hx]
          simp [this]
        · simp [List.filter_append, hcp]
      rw [hcur]
      simp [hcp]
    · rw [delGo_words xs (cur ++ [cp]) (b && isSpace cp.1) a (by
        intro h x hx
        simp only [Bool.and_eq_true] at h
        rcases List.mem_append.mp hx with hx | hx
        · exact hb h.1 x hx
        · simp only [List.mem_singleton] at hx
          rw [hx]; exact h.2)]
      by_cases hv : vis cp = true <;> simp [List.filter_append, hv]

/-- every character that is no white space survives, in order -/
theorem delLines_words (ms : List Mark) :
    (delLines ms).filter vis = (ms.filterMap id).filter vis := by
  have := delGo_words ms [] true false (fun _ => by intro x hx; simp at hx)
  simpa [delLines] using this

/-! ### `delLines` line by line -/

/-- a mark that is a line break -/
def isNlMark : Mark → Bool
  | none => false
  | some cp => cp.1 == nl

/-- a mark that is text-less or white space -/
def blankMark : Mark → Bool
  | none => true
  | some cp => isSpace cp.1

/-- a line (marks without line break) is *pure*: white space only, at least one text-less mark -/
def pureLine (L : List Mark) : Bool := L.all blankMark && L.any Option.isNone

theorem delGo_line : ∀ (L : List Mark) (cur : List (Char × Nat)) (b a : Bool) (X : List Mark),
    L.any isNlMark = false →
    delGo cur b a (L ++ X)
      = delGo (cur ++ L.filterMap id) (b && L.all blankMark) (a || L.any Option.isNone) X
  | [], cur, b, a, X, _ => by simp
  | none :: L, cur, b, a, X, h => by
    simp only [List.any_cons, isNlMark, Bool.false_or] at h
    simp only [List.cons_append, delGo]
    rw [delGo_line L cur b true X h]
    simp [blankMark]
  | some cp :: L, cur, b, a, X, h => by
    simp only [List.any_cons, isNlMark, Bool.or_eq_false_iff] at h
    simp only [List.cons_append, delGo, h.1, Bool.false_eq_true, if_false]
    rw [delGo_line L _ _ a X h.2]
    simp [blankMark, Bool.and_assoc]

/-- one line in front of a line break: deleted with the line break iff it is pure -/
theorem delLines_line (L B : List Mark) (nlp : Char × Nat) (hL : L.any isNlMark = false)
    (hn : (nlp.1 == nl) = true) :
    delLines (L ++ some nlp :: B)
      = (if pureLine L then [] else L.filterMap id ++ [nlp]) ++ delLines B := by
  unfold delLines
  rw [delGo_line L [] true false _ hL]
  cases h1 : L.all blankMark <;> cases h2 : L.any Option.isNone <;>
    simp [delGo, hn, pureLine, h1, h2]

/-- the last line (no line break behind it): deleted iff it is pure -/
theorem delLines_last (L : List Mark) (hL : L.any isNlMark = false) :
    delLines L = if pureLine L then [] else L.filterMap id := by
  unfold delLines
  have := delGo_line L [] true false [] hL
  rw [List.append_nil] at this
  rw [this]
  cases h1 : L.all blankMark <;> cases h2 : L.any Option.isNone <;>
    simp [delGo, pureLine, h1, h2]

/-- `A` is empty or ends with a line break: the reference treats what follows independently -/
theorem delLines_after (A X : List Mark)
    (hA : A = [] ∨ ∃ A' q, A = A' ++ [some q] ∧ (q.1 == nl) = true) :
    delLines (A ++ X) = delLines A ++ delLines X := by
  rcases hA with rfl | ⟨A', q, rfl, hq⟩
  · simp [delLines, delGo]
  · rw [List.append_assoc, List.singleton_append, delLines_append_nl A' X q hq]

/-- **a line in the middle**: `A` is empty or ends with a line break, `L` holds no line break,
    `nlp` is a line break.  The line `L` is deleted together with `nlp` iff it is pure; otherwise
    its characters and `nlp` are copied; the lines in front and behind are not affected. -/
theorem delLines_mid (A L B : List Mark) (nlp : Char × Nat)
    (hA : A = [] ∨ ∃ A' q, A = A' ++ [some q] ∧ (q.1 == nl) = true)
    (hL : L.any isNlMark = false) (hn : (nlp.1 == nl) = true) :
    delLines (A ++ (L ++ some nlp :: B))
      = delLines A ++ ((if pureLine L then [] else L.filterMap id ++ [nlp]) ++ delLines B) := by
  rw [delLines_after A _ hA, delLines_line L B nlp hL hn]

/-- **the last line** -/
theorem delLines_end (A L : List Mark)
    (hA : A = [] ∨ ∃ A' q, A = A' ++ [some q] ∧ (q.1 == nl) = true)
    (hL : L.any isNlMark = false) :
    delLines (A ++ L) = delLines A ++ (if pureLine L then [] else L.filterMap id) := by
  rw [delLines_after A _ hA, delLines_last L hL]

/-! ### the characters of the marks of a document -/

/-- the output characters of a document before the blank-line removal, with their positions: the
    text, the values of the special sequences, the contents of the `\verb`s, the placeholders of
    the formulas with their punctuation — and nothing else -/
def plain (T : PTables) (repls : List Str) : Nat → Nat → List Seg → List (Char × Nat)
  | _, _, [] => []
  | k, p, .txt s :: rest => posText p s ++ plain T repls k (p + s.length) rest
  | k, p, .spc key :: rest =>
    posText p (specialValD T.toTables key) ++ plain T repls k (p + key.length) rest
  | k, p, .cw name sp :: rest => plain T repls k (p + (name.length + 1 + sp.length)) rest
  | k, p, .van name key :: rest => plain T repls k (p + PlainVanish.vanLen name key) rest
  | k, p, .com body :: rest => plain T repls k (p + (body.length + 1)) rest
  | k, p, .verb _ s :: rest => posText (p + 6) s ++ plain T repls k (p + (s.length + 7)) rest
  | k, p, .math body :: rest =>
    (PlainMath.placeholder repls (k + 1) ++ PlainMath.punctOf T body).map
        (fun c => (c, p + 1 + PlainMath.leadBlanks body))
      ++ plain T repls (k + 1) (p + (body.length + 2)) rest

theorem filterMap_map_some' {α β} (f : α → β) (l : List α) :
    (l.map (fun c => some (f c))).filterMap id = l.map f := by
  induction l with
  | nil => rfl
  | cons a l ih => simp [ih]

theorem marks_chars (T : PTables) (repls : List Str) : ∀ (segs : List Seg) (k p : Nat),
    (marks T repls k p segs).filterMap id = plain T repls k p segs
  | [], _, _ => rfl
  | .txt s :: rest, k, p => by
    simp only [marks, plain, List.filterMap_append, filterMap_map_some, marks_chars T repls rest]
  | .spc key :: rest, k, p => by
    simp only [marks, plain, List.filterMap_cons, id, List.filterMap_append, filterMap_map_some,
      marks_chars T repls rest]
  | .cw name sp :: rest, k, p => by
    simp only [marks, plain, List.filterMap_cons, id, marks_chars T repls rest]
  | .van name key :: rest, k, p => by
    simp only [marks, plain, List.filterMap_cons, id, marks_chars T repls rest]
  | .com body :: rest, k, p => by
    simp only [marks, plain, marks_chars T repls rest]
  | .verb d s :: rest, k, p => by
    simp only [marks, plain, List.filterMap_cons, id, List.filterMap_append, filterMap_map_some,
      marks_chars T repls rest]
  | .math body :: rest, k, p => by
    simp only [marks, plain, mathMarks, List.cons_append, List.filterMap_cons, id,
      List.filterMap_append, List.append_assoc, List.nil_append,
      marks_chars T repls rest, filterMap_map_some']

end PlainMix
end Yalafi
