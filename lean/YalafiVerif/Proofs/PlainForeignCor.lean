/-
  Proofs/PlainForeignCor.lean — consequences of the reference `PlainForeign.refParts` (documents of
  inert text and insertions `\foreignlanguage{name}{text}`): what is filed under each language code.

    `partOf`                 the pieces of text under a language code (`parts[code]`, `[]` if absent)
    `partOf_groupSecs`       grouping keeps the pieces of one code in their order
    `frnList`                the insertions of a document: start of the text, name, text
    `mainPieces`             the pieces of the main language (`refOut` without the foreign pieces)
    `mainStream`             … all together: text characters and placeholders
    `refParts_foreign`       under a foreign code: exactly the texts of the insertions with that code,
                             in document order, every character at its own position
    `refParts_main`          under the main code: `mainPieces`
    `mainPieces_flatten`     the pieces of the main language spell `mainStream`
-/
import YalafiVerif.Proofs.PlainForeign
namespace Yalafi
namespace PlainForeign

open PlainLang (codeOfName addPart groupSecs shiftParts)

/-- the pieces of text under the language code `k` (`[]` if the code does not occur) -/
def partOf (ps : Parts) (k : Str) : List (Str × List Nat) :=
  ((ps.find? (·.1 == k)).map (·.2)).getD []

theorem find_map_key (ps : Parts) (k : Str) (f : Str × List (Str × List Nat) → Str × List (Str × List Nat))
    (hf : ∀ e, (f e).1 = e.1) :
    (ps.map f).find? (·.1 == k) = (ps.find? (·.1 == k)).map f := by
  induction ps with
  | nil => rfl
  | cons e ps ih =>
    simp only [List.map_cons, List.find?_cons, hf]
    split
    · rfl
    · exact ih

theorem partOf_addPart (ps : Parts) (k : Str) (tp : Str × List Nat) (k' : Str) :
    partOf (addPart ps k tp) k' = if k' == k then partOf ps k ++ [tp] else partOf ps k' := by
  unfold addPart
  by_cases hany : ps.any (·.1 == k) = true
  · rw [if_pos hany]
    unfold partOf
    rw [find_map_key ps k' _ (by intro e; split <;> rfl)]
    cases hf : ps.find? (·.1 == k') with
    | none =>
      have hne : (k' == k) = false := by
        cases hkk : (k' == k) with
        | false => rfl
        | true =>
          exfalso
          rw [beq_iff_eq] at hkk
          subst hkk
          obtain ⟨x, hx, hxk⟩ := List.any_eq_true.mp hany
          have := List.find?_eq_none.mp hf x hx
          exact this hxk
      simp [hne]
    | some e =>
      have hek : (e.1 == k') = true := by
        have := List.find?_some hf
        simpa using this
      rw [beq_iff_eq] at hek
      by_cases hkk : (k' == k) = true
      · rw [beq_iff_eq] at hkk
        subst hkk
        simp [hf, hek]
      · have hkk' : (k' == k) = false := by simpa using hkk
        have : ¬ (e.1 = k) := by rw [hek]; simpa using hkk'
        simp [hkk', this]
  · rw [if_neg hany]
    have hnone : ps.find? (·.1 == k) = none := by
      rw [List.find?_eq_none]
      intro x hx hxk
      exact hany (List.any_eq_true.mpr ⟨x, hx, hxk⟩)
    unfold partOf
    rw [List.find?_append]
    by_cases hkk : (k' == k) = true
    · rw [beq_iff_eq] at hkk
      subst hkk
      simp [hnone]
    · have hkk' : (k' == k) = false := by simpa using hkk
      have hkk2 : (k == k') = false := by
        rw [Bool.eq_false_iff] at hkk' ⊢
        intro h; apply hkk'; rw [beq_iff_eq] at h ⊢; exact h.symm
      cases hf : ps.find? (·.1 == k') with
      | none => simp [hkk', hkk2]
      | some e => simp [hkk']

theorem partOf_fold : ∀ (secs : List Sec) (acc : Parts) (k : Str),
    partOf (secs.foldl (fun ps s => addPart ps s.lang (s.txt, s.pos)) acc) k
      = partOf acc k ++ (secs.filter (·.lang == k)).map (fun s => (s.txt, s.pos))
  | [], acc, k => by simp
  | s :: ss, acc, k => by
    rw [List.foldl_cons, partOf_fold ss _ k, partOf_addPart]
    by_cases h : (k == s.lang) = true
    · have h' : (s.lang == k) = true := by rw [beq_iff_eq] at h ⊢; exact h.symm
      rw [beq_iff_eq] at h
      subst h
      simp
    · have h1 : (k == s.lang) = false := by simpa using h
      have h' : (s.lang == k) = false := by
        rw [Bool.eq_false_iff] at h1 ⊢
        intro e; apply h1; rw [beq_iff_eq] at e ⊢; exact e.symm
      simp [h1, h']

/-- **grouping keeps the pieces of one language code in their order** -/
theorem partOf_groupSecs (secs : List Sec) (k : Str) :
    partOf (groupSecs secs) k = (secs.filter (·.lang == k)).map (fun s => (s.txt, s.pos)) := by
  unfold groupSecs
  rw [partOf_fold]
  simp [partOf]

/-- positions 1-based -/
def shiftTp (tp : Str × List Nat) : Str × List Nat := (tp.1, tp.2.map (· + 1))

theorem partOf_shiftParts (ps : Parts) (k : Str) :
    partOf (shiftParts ps) k = (partOf ps k).map shiftTp := by
  unfold partOf shiftParts
  rw [find_map_key ps k (fun e => (e.1, e.2.map (fun tp => (tp.1, tp.2.map (· + 1))))) (fun _ => rfl)]
  cases ps.find? (·.1 == k) with
  | none => rfl
  | some e => rfl

/-- a piece of `refOut` as it is reported: text, 1-based positions -/
def pieceTp (cs : List (Char × Nat)) : Str × List Nat := (cs.map (·.1), cs.map (fun cp => cp.2 + 1))

/-- the pieces under the code `k` are the pieces of `refOut` with that code, in order -/
theorem refParts_partOf (T : PTables) (main : Str) (thresh : Nat) (repl : List Str) (segs : List Seg)
    (k : Str) :
    partOf (refParts T main thresh repl segs) k
      = ((refOut T main thresh 0 repl [] segs).filter (·.1 == k)).map (fun x => pieceTp x.2) := by
  unfold refParts
  rw [partOf_shiftParts, partOf_groupSecs, List.filter_map, List.map_map, List.map_map]
  have hf : ((fun x : Sec => x.lang == k) ∘ toSec) = (fun x : Str × List (Char × Nat) => x.1 == k) := rfl
  rw [hf]
  apply List.map_congr_left
  intro x _
  simp [shiftTp, toSec, mkSec, pieceTp, List.map_map, Function.comp_def]

/-! ### the foreign codes -/

/-- the insertions of a document that starts at position `p`: (0-based) position of the first
    character of the text, name, text -/
def frnList : Nat → List Seg → List (Nat × Str × Str)
  | _, [] => []
  | p, .txt s :: rest => frnList (p + s.length) rest
  | p, .frn n b :: rest => (p + bodyOff n, n, b) :: frnList (p + frnLen n b) rest

theorem emitP_filter_ne (main k : Str) (acc : List (Char × Nat)) (h : (main == k) = false) :
    (emitP main acc).filter (·.1 == k) = [] := by
  unfold emitP
  split
  · rfl
  · simp [h]

theorem emitP_filter_eq (main : Str) (acc : List (Char × Nat)) :
    (emitP main acc).filter (·.1 == main) = emitP main acc := by
  unfold emitP
  split
  · rfl
  · simp

/-- the pieces of `refOut` under a foreign code: the texts of the insertions with that code -/
theorem refOut_filter_foreign (T : PTables) (main : Str) (thresh : Nat) (k : Str)
    (hk : (main == k) = false) :
    ∀ (segs : List Seg) (p : Nat) (repl : List Str) (acc : List (Char × Nat)),
    (refOut T main thresh p repl acc segs).filter (·.1 == k)
      = ((frnList p segs).filter (fun x => codeOfName T x.2.1 == k)).map
          (fun x => (codeOfName T x.2.1, posText x.1 x.2.2))
  | [], p, repl, acc => by simp [refOut, frnList, emitP_filter_ne main k acc hk]
  | .txt s :: rest, p, repl, acc => by
    simp only [refOut, frnList]
    exact refOut_filter_foreign T main thresh k hk rest _ repl _
  | .frn n b :: rest, p, repl, acc => by
    simp only [refOut, frnList]
    split
    · simp only [List.filter_cons]
      rw [refOut_filter_foreign T main thresh k hk rest]
      split <;> simp
    · rw [List.filter_append, emitP_filter_ne main k acc hk, List.nil_append]
      simp only [List.filter_cons]
      rw [refOut_filter_foreign T main thresh k hk rest]
      split <;> simp

theorem pieceTp_posText (q : Nat) (b : Str) : pieceTp (posText q b) = (b, List.range' (q + 1) b.length) := by
  unfold pieceTp
  rw [posText_fst]
  congr 1
  have : (posText q b).map (fun cp => cp.2 + 1) = ((posText q b).map (·.2)).map (· + 1) := by
    rw [List.map_map]; rfl
  rw [this, posText_snd]
  apply List.ext_getElem
  · simp
  · intro i h1 h2
    simp
    omega

/-- **under a foreign code `k`**: exactly the texts of the insertions whose name has the code `k`,
    in document order, every character at its own (1-based) source position -/
theorem refParts_foreign (T : PTables) (main : Str) (thresh : Nat) (repl : List Str) (segs : List Seg)
    (k : Str) (hk : k ≠ main) :
    partOf (refParts T main thresh repl segs) k
      = ((frnList 0 segs).filter (fun x => codeOfName T x.2.1 == k)).map
          (fun x => (x.2.2, List.range' (x.1 + 1) x.2.2.length)) := by
  have hk' : (main == k) = false := by
    rw [Bool.eq_false_iff]; intro h; rw [beq_iff_eq] at h; exact hk h.symm
  rw [refParts_partOf, refOut_filter_foreign T main thresh k hk', List.map_map]
  apply List.map_congr_left
  intro x _
  exact pieceTp_posText x.1 x.2.2

/-! ### the main code -/

/-- the current piece of the main language is closed: none if there is no character -/
def emitM (acc : List (Char × Nat)) : List (List (Char × Nat)) := if acc.isEmpty then [] else [acc]

/-- **the pieces of text of the main language** (`acc` = the current piece, `repl` = the
    language-change collection in its current rotation): text is appended; a short insertion behind
    a non-empty piece appends ONE placeholder — the head of the collection rotated by one — and the
    piece continues; any other insertion ends the piece -/
def mainPieces (thresh : Nat) : Nat → List Str → List (Char × Nat) → List Seg → List (List (Char × Nat))
  | _, _, acc, [] => emitM acc
  | p, repl, acc, .txt s :: rest => mainPieces thresh (p + s.length) repl (acc ++ posText p s) rest
  | p, repl, acc, .frn n b :: rest =>
    if isShort thresh b && !acc.isEmpty then
      mainPieces thresh (p + frnLen n b) (rotate repl)
        (acc ++ placeholder ((rotate repl).headD []) (p + bodyOff n) b) rest
    else emitM acc ++ mainPieces thresh (p + frnLen n b) repl [] rest

theorem emitP_map (main : Str) (acc : List (Char × Nat)) :
    emitP main acc = (emitM acc).map (fun x => (main, x)) := by
  unfold emitP emitM
  split <;> rfl

theorem refOut_filter_main (T : PTables) (main : Str) (thresh : Nat) :
    ∀ (segs : List Seg) (p : Nat) (repl : List Str) (acc : List (Char × Nat)),
    frnsOk T main segs = true →
    (refOut T main thresh p repl acc segs).filter (·.1 == main)
      = (mainPieces thresh p repl acc segs).map (fun x => (main, x))
  | [], p, repl, acc, _ => by
    simp only [refOut, mainPieces]
    rw [emitP_filter_eq, emitP_map]
  | .txt s :: rest, p, repl, acc, h => by
    simp only [refOut, mainPieces]
    exact refOut_filter_main T main thresh rest _ repl _ h
  | .frn n b :: rest, p, repl, acc, h => by
    simp only [frnsOk, Bool.and_eq_true, bne_iff_ne, ne_eq] at h
    have hc : (codeOfName T n == main) = false := by simpa using h.1.1
    simp only [refOut, mainPieces]
    split
    · rw [List.filter_cons_of_neg (by simp [hc])]
      exact refOut_filter_main T main thresh rest _ _ _ h.2
    · rw [List.filter_append, emitP_filter_eq, List.filter_cons_of_neg (by simp [hc]),
        refOut_filter_main T main thresh rest _ _ _ h.2, emitP_map, List.map_append]

/-- **under the main code**: `mainPieces`, positions 1-based -/
theorem refParts_main (T : PTables) (main : Str) (thresh : Nat) (repl : List Str) (segs : List Seg)
    (h : frnsOk T main segs = true) :
    partOf (refParts T main thresh repl segs) main
      = (mainPieces thresh 0 repl [] segs).map pieceTp := by
  rw [refParts_partOf, refOut_filter_main T main thresh segs 0 repl [] h, List.map_map]
  rfl

/-- **all characters filed under the main language, in order**: every character of a text segment
    at its own position; for an insertion of at most `thresh` words that has main-language text in
    front of it (`ne`: since the last long insertion, or since the beginning) ONE placeholder; nothing
    for any other insertion -/
def mainStream (thresh : Nat) : Nat → List Str → Bool → List Seg → List (Char × Nat)
  | _, _, _, [] => []
  | p, repl, ne, .txt s :: rest => posText p s ++ mainStream thresh (p + s.length) repl (ne || !s.isEmpty) rest
  | p, repl, ne, .frn n b :: rest =>
    if isShort thresh b && ne then
      placeholder ((rotate repl).headD []) (p + bodyOff n) b ++
        mainStream thresh (p + frnLen n b) (rotate repl) true rest
    else mainStream thresh (p + frnLen n b) repl false rest

theorem emitM_flatten (acc : List (Char × Nat)) : (emitM acc).flatten = acc := by
  unfold emitM
  split
  · rename_i h; simp [List.isEmpty_iff.mp h]
  · simp

theorem posText_isEmpty (p : Nat) (s : Str) : (posText p s).isEmpty = s.isEmpty := by
  cases s <;> rfl

/-- the pieces of the main language spell `mainStream` -/
theorem mainPieces_flatten (thresh : Nat) : ∀ (segs : List Seg) (p : Nat) (repl : List Str)
    (acc : List (Char × Nat)),
    (mainPieces thresh p repl acc segs).flatten = acc ++ mainStream thresh p repl (!acc.isEmpty) segs
  | [], p, repl, acc => by simp [mainPieces, mainStream, emitM_flatten]
  | .txt s :: rest, p, repl, acc => by
    simp only [mainPieces, mainStream]
    rw [mainPieces_flatten thresh rest, List.append_assoc]
    have : (!(acc ++ posText p s).isEmpty) = (!acc.isEmpty || !s.isEmpty) := by
      cases acc <;> cases s <;> rfl
    rw [this]
  | .frn n b :: rest, p, repl, acc => by
    simp only [mainPieces, mainStream]
    split
    · rw [mainPieces_flatten thresh rest, List.append_assoc]
      rename_i h
      simp only [Bool.and_eq_true, Bool.not_eq_true', List.isEmpty_eq_false_iff] at h
      have : (!(acc ++ placeholder ((rotate repl).headD []) (p + bodyOff n) b).isEmpty) = true := by
        cases acc with
        | nil => exact absurd rfl h.2
        | cons a l => rfl
      rw [this]
    · rw [List.flatten_append, emitM_flatten, mainPieces_flatten thresh rest]
      simp

/-- the characters of a reported piece of text with their positions -/
def tpChars (tp : Str × List Nat) : List (Char × Nat) := tp.1.zip tp.2

theorem tpChars_pieceTp : ∀ (cs : List (Char × Nat)),
    tpChars (pieceTp cs) = cs.map (fun cp => (cp.1, cp.2 + 1))
  | [] => rfl
  | cp :: cs => by
    have ih := tpChars_pieceTp cs
    simp only [tpChars, pieceTp, List.map_cons, List.zip_cons_cons] at ih ⊢
    rw [ih]

theorem flatMap_tpChars : ∀ (l : List (List (Char × Nat))),
    (l.map pieceTp).flatMap tpChars = l.flatten.map (fun cp => (cp.1, cp.2 + 1))
  | [] => rfl
  | x :: l => by
    simp only [List.map_cons, List.flatMap_cons, List.flatten_cons, List.map_append, tpChars_pieceTp,
      flatMap_tpChars l]

/-- the characters filed under the main language are `mainStream`, positions 1-based -/
theorem main_chars (thresh : Nat) (repl : List Str) (segs : List Seg) :
    ((mainPieces thresh 0 repl [] segs).map pieceTp).flatMap tpChars
      = (mainStream thresh 0 repl false segs).map (fun cp => (cp.1, cp.2 + 1)) := by
  rw [flatMap_tpChars, mainPieces_flatten]
  rfl

/-- the characters of the text segments of a document that starts at position `p`, each with its
    (0-based) source position -/
def textChars : Nat → List Seg → List (Char × Nat)
  | _, [] => []
  | p, .txt s :: rest => posText p s ++ textChars (p + s.length) rest
  | p, .frn n b :: rest => textChars (p + frnLen n b) rest

/-- every text character occurs in `mainStream` (the others are placeholders), in order -/
theorem textChars_sublist (thresh : Nat) : ∀ (segs : List Seg) (p : Nat) (repl : List Str) (ne : Bool),
    List.Sublist (textChars p segs) (mainStream thresh p repl ne segs)
  | [], _, _, _ => List.Sublist.refl _
  | .txt s :: rest, p, repl, ne => by
    simp only [textChars, mainStream]
    exact List.Sublist.append (List.Sublist.refl _) (textChars_sublist thresh rest _ _ _)
  | .frn n b :: rest, p, repl, ne => by
    simp only [textChars, mainStream]
    split
    · exact List.sublist_append_of_sublist_right (textChars_sublist thresh rest _ _ _)
    · exact textChars_sublist thresh rest _ _ _

/-- `textChars` are characters of the source -/
theorem textChars_render : ∀ (segs : List Seg) (p0 : Nat) (cp : Char × Nat), cp ∈ textChars p0 segs →
    p0 ≤ cp.2 ∧ (render segs)[cp.2 - p0]? = some cp.1
  | [], _, _, h => by cases h
  | .txt s :: rest, p0, cp, h => by
    simp only [textChars, List.mem_append] at h
    rcases h with h | h
    · have hb := PlainLang.posText_mem s p0 cp h
      refine ⟨hb.1, ?_⟩
      show (s ++ render rest)[cp.2 - p0]? = _
      rw [List.getElem?_append_left (by omega)]
      exact PlainLang.posText_getElem s p0 cp h
    · obtain ⟨h1, h2⟩ := textChars_render rest (p0 + s.length) cp h
      refine ⟨by omega, ?_⟩
      show (s ++ render rest)[cp.2 - p0]? = _
      rw [List.getElem?_append_right (by omega)]
      rw [show cp.2 - p0 - s.length = cp.2 - (p0 + s.length) by omega]; exact h2
  | .frn n b :: rest, p0, cp, h => by
    simp only [textChars] at h
    obtain ⟨h1, h2⟩ := textChars_render rest (p0 + frnLen n b) cp h
    refine ⟨by omega, ?_⟩
    have hl : (Seg.frn n b).render.length = frnLen n b := by
      simp only [Seg.render, List.length_cons, List.length_append, frnName_length, frnLen,
        List.length_nil]
      omega
    show ((Seg.frn n b).render ++ render rest)[cp.2 - p0]? = _
    rw [List.getElem?_append_right (by omega), hl]
    rw [show cp.2 - p0 - frnLen n b = cp.2 - (p0 + frnLen n b) by omega]; exact h2

/-- the insertions of `frnList` are insertions of the source: the text `b` stands at position `q` -/
theorem frnList_render : ∀ (segs : List Seg) (p0 : Nat) (x : Nat × Str × Str), x ∈ frnList p0 segs →
    p0 ≤ x.1 ∧ ((render segs).drop (x.1 - p0)).take x.2.2.length = x.2.2
  | [], _, _, h => by cases h
  | .txt s :: rest, p0, x, h => by
    simp only [frnList] at h
    obtain ⟨h1, h2⟩ := frnList_render rest (p0 + s.length) x h
    refine ⟨by omega, ?_⟩
    show ((s ++ render rest).drop (x.1 - p0)).take _ = _
    rw [show x.1 - p0 = s.length + (x.1 - (p0 + s.length)) by omega, List.drop_append,
      List.drop_of_length_le (by omega), List.nil_append, Nat.add_sub_cancel_left]
    exact h2
  | .frn n b :: rest, p0, x, h => by
    have hl : (Seg.frn n b).render.length = frnLen n b := by
      simp only [Seg.render, List.length_cons, List.length_append, frnName_length, frnLen,
        List.length_nil]
      omega
    simp only [frnList, List.mem_cons] at h
    rcases h with rfl | h
    · refine ⟨by omega, ?_⟩
      have : (render (Seg.frn n b :: rest)).drop (p0 + bodyOff n - p0) = b ++ '}' :: render rest := by
        rw [render_frn, show p0 + bodyOff n - p0 = (frnName.length + 1) + (n.length + 3) by
          simp only [bodyOff, frnName_length]; omega]
        rw [← List.drop_drop]
        rw [show ('\\' :: (frnName ++ '{' :: (n ++ '}' :: '{' :: (b ++ '}' :: render rest))))
          = ('\\' :: frnName) ++ ('{' :: (n ++ '}' :: '{' :: (b ++ '}' :: render rest))) by simp]
        rw [show frnName.length + 1 = ('\\' :: frnName).length by simp, List.drop_left]
        rw [show ('{' :: (n ++ '}' :: '{' :: (b ++ '}' :: render rest)))
          = ('{' :: (n ++ ['}', '{'])) ++ (b ++ '}' :: render rest) by simp]
        rw [show n.length + 3 = ('{' :: (n ++ ['}', '{'])).length by simp, List.drop_left]
      rw [this, List.take_left]
    · obtain ⟨h1, h2⟩ := frnList_render rest (p0 + frnLen n b) x h
      refine ⟨by omega, ?_⟩
      show (((Seg.frn n b).render ++ render rest).drop (x.1 - p0)).take _ = _
      rw [show x.1 - p0 = (Seg.frn n b).render.length + (x.1 - (p0 + frnLen n b)) by rw [hl]; omega,
        List.drop_append, List.drop_of_length_le (by omega), List.nil_append, Nat.add_sub_cancel_left]
      exact h2

end PlainForeign
end Yalafi
