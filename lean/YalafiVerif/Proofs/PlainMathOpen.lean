/-
  Proofs/PlainMathOpen.lean — C08 "LaTeX problems yield the full error mark at the right place" at
  UNTERMINATED INLINE MATHS, end to end on the model: a `$` that is never closed yields exactly one
  diagnostic `missing end of maths` at the line and column of the `$`, the complete error mark in the
  plain text with its first character mapped to the `$`, and everything behind the paragraph break
  that cuts the formula is kept with its own positions.
  (Token level — mark tokens, section parser, `expandInlineMath`, expander loop, blank-line removal:
  Proofs/PlainMathOpenTok.lean; statements for Properties: Properties/PlainMathOpenStmt.lean.)

  Documents
    `OSeg`, `orender`          text segment | simple formula `$body$` | OPEN formula `$body w`
                               (`w` = the paragraph break that cuts it, or `[]` at the end of the text)
    `openOk`, `osegsOk`, `OSegsOk`   well-formedness (computable); text and simple formulas as in
                               Proofs/PlainMath.lean (`textOk`, `mathOk`)
  What the model (= `mathparser.py:expand_math_section` / `expand_inline_math`) does with `$body w`
    * maths tokens are collected as for a closed formula; at the end of the buffer or at a paragraph
      token it calls `latex_error('missing end of maths', start)` with `start` = position of the `$`,
      puts the mark tokens IN FRONT of the collected maths tokens and CONSUMES the paragraph token;
    * the maths tokens behind the mark are replaced as usual: placeholder + closing punctuation
      pinned to the first maths token; without any maths token nothing follows the mark and the
      placeholder collection is not rotated;
    * so the paragraph break `w` is LOST: the text behind it is glued to the placeholder (or mark).
      C08 says "no text beyond the end of its paragraph is lost": true for the text, not for the
      paragraph separation.  The theorems follow the model.
  Source level (this file)
    `OItem`, `oitemsOf`, `orefItems`, `odiagsItems`, `OOkSrc`    the source character by character
    `Boundary`, `scanSteps_bodyrun'`    the scanner on a formula body in front of `$`, the end of the
                               text or a paragraph break
    `scanSteps_open` (`OScanFacts`), `scan_open`                  the scanner loop
    `parserWork_open`, `parse_open`, `tex2txt_open_src`           the lifts (state: `rots`, `diags`)
    `orefSegs`, `odiagsSegs`, `tex2txt_math_open_segs`            general end-to-end statement
    `tex2txt_math_unterminated` (+ `_end`, `tex2txt_math_mark_complete`, `tex2txt_math_text_kept`)
                               one open formula between documents of the class of Proofs/PlainMath.lean

  Side conditions of `tex2txt_math_unterminated` / `tex2txt_math_open_segs` (reasons)
    options / initialisation   as in `tex2txt_inline_math`: no --defs, --extr, --repl, --unkn,
                               single-language mode, `st1` = state after `Parser.__init__`
    `OSegsOk T st1 segs`       text: `textOk` (inert in its right context; the token behind an active
                               character may be `$`); simple formula: `mathOk`; open formula `openOk`:
        `dollarAt`             the `$` is scanned as the token `$` (a body starting with `$` makes `$$`)
        `bodyOk`               simple maths material: every character that is no white space is
                               admissible in its right context (`mathAt`: none of `% # \ $ { }`, not in
                               `math_ignore` / `math_space`, no special sequence matches there — `_ ^ & ~`
                               and `--` are special sequences of the real tables), every run of white
                               space has at most one line break;
        `w`                    all white space; at least two line breaks (else it is a space token and
                               part of the formula) or empty with nothing behind it; maximal: the body
                               does not end and the following text does not start with white space
                               (the scanner makes ONE token of a white-space run; this is no restriction
                               on the documents, only on how they are cut into segments)
    `markVisible T`            the mark `errMark` (" " ++ mark ++ " ", plus message if verbose) has no
                               line break and is not blank — else the blank-line removal could delete
                               or split the line with the mark (the formula emits Action tokens)
    `rotOf … = some rot`, `rot.inl = repls`, `repls ≠ []`, `VisibleRepls repls`,
    `(settingsOf …).isSome`    as in `tex2txt_inline_math` (`IndexError` / `KeyError` otherwise; a
                               blank placeholder could make a pure Action line)
    fuel                       `src.length + 3 ≤ fuel` (tight: `$ab` needs 6)
  NOT covered: maths material beyond `bodyOk` (macros such as `\alpha`, braces, subscripts and superscripts,
  `\text{…}`, environments) in an open formula; `\(` as opening token; displayed maths (`$$`, `\[`);
  an open formula inside a macro argument; multi-language mode; the options excluded above.
  Positions: the mark is anchored at the `$` (0-based `P`, reported `P + 1`); the part of the mark that
  does not fit in front of the end of the source at the last source position (`utils.latex_error`); the
  placeholder at the first body character that is no white space (`P + 2 + leadBlanks body`, 1-based).
  With a mark longer than the rest of the source the position list is not monotone.
-/
import YalafiVerif.Proofs.PlainMathOpenTok
namespace Yalafi
namespace PlainMathOpen

open M PlainMath

/-! ### the documents -/

/-- a segment of the source: a run of text, a simple inline formula `$body$`, or an OPEN formula
    `$body w` — `w` is the paragraph break that cuts it (white space with at least two line breaks),
    or `w = []` and the formula runs to the end of the text -/
inductive OSeg where
  | txt (s : Str)
  | math (body : Str)
  | opn (body w : Str)
deriving Repr, DecidableEq

def OSeg.render : OSeg → Str
  | .txt s => s
  | .math body => '$' :: (body ++ ['$'])
  | .opn body w => '$' :: (body ++ w)

/-- the source text -/
def orender : List OSeg → Str
  | [] => []
  | s :: rest => s.render ++ orender rest

/-- the open formula `$body w`, followed by `R`: the `$` is scanned as the token `$`; the body is
    admissible (`bodyOk` of Proofs/PlainMath.lean: simple maths characters, white-space runs with at
    most one line break — so the body does not end in white space if `w` follows); `w` is the
    maximal run of white space behind the body and has at least two line breaks, or it is empty and
    nothing follows -/
def openOk (T : PTables) (body w R : Str) : Bool :=
  dollarAt T (body ++ (w ++ R)) && bodyOk T body (w ++ R) && w.all isSpace &&
  (if w.isEmpty then R.isEmpty else decide (2 ≤ countNl w)) &&
  R.head?.all (fun c => !isSpace c)

/-- well-formed documents: every segment is fine in front of the rendering of the following ones -/
def osegsOk (T : PTables) (st : PState) : List OSeg → Bool
  | [] => true
  | .txt s :: rest => textOk T st s (orender rest) && osegsOk T st rest
  | .math body :: rest => mathOk T body (orender rest) && osegsOk T st rest
  | .opn body w :: rest => openOk T body w (orender rest) && osegsOk T st rest

/-- the source as a list of text characters (with their positions), formulas and open formulas
    (with the position of the opening `$`) -/
inductive OItem where
  | chr (c : Char) (p : Nat)
  | math (p : Nat) (body : Str)
  | opn (p : Nat) (body : Str)

def ochrItems : Nat → Str → List OItem
  | _, [] => []
  | p, c :: cs => .chr c p :: ochrItems (p + 1) cs

def oitemsOf : Nat → List OSeg → List OItem
  | _, [] => []
  | p, .txt s :: rest => ochrItems p s ++ oitemsOf (p + s.length) rest
  | p, .math body :: rest => .math p body :: oitemsOf (p + (body.length + 2)) rest
  | p, .opn body w :: rest => .opn p body :: oitemsOf (p + (body.length + 1 + w.length)) rest

/-- the characters of a formula body that are no white space -/
def visBody (body : Str) : Str := body.filter (fun c => !isSpace c)

/-- what replaces the body of an open formula behind the mark, `l` being the stored collection:
    nothing if the body is blank, else the head of the rotated collection and the closing
    punctuation mark -/
def openRepl (T : PTables) (l : List Str) (body : Str) : Str :=
  if visBody body = [] then [] else (rotL l).headD [] ++ (punctChar T (visBody body)).toList

/-- the collection behind an open formula -/
def openRotS (body : Str) (l : List Str) : List Str := if visBody body = [] then l else rotL l

/-- the reference output (text, 0-based positions) for a list of items of a source of length `n`,
    `l` being the stored placeholder collection -/
def orefItems (T : PTables) (n : Nat) : List Str → List OItem → Str × List Nat
  | _, [] => ([], [])
  | l, .chr c p :: rest => (c :: (orefItems T n l rest).1, p :: (orefItems T n l rest).2)
  | l, .math p body :: rest =>
    let t := (rotL l).headD [] ++ (punctChar T (visBody body)).toList
    (t ++ (orefItems T n (rotL l) rest).1,
     List.replicate t.length (p + 1 + (body.takeWhile isSpace).length) ++ (orefItems T n (rotL l) rest).2)
  | l, .opn p body :: rest =>
    (errMark T.toTables errMathEnd ++ (openRepl T l body ++ (orefItems T n (openRotS body l) rest).1),
     markPos T.toTables errMathEnd n p
       ++ (List.replicate (openRepl T l body).length (p + 1 + (body.takeWhile isSpace).length)
       ++ (orefItems T n (openRotS body l) rest).2))

/-- the expected diagnostics, in order -/
def odiagsItems (src : Str) : List OItem → List Diag
  | [] => []
  | .opn p _ :: rest => latexErrorDiag errMathEnd p src :: odiagsItems src rest
  | _ :: rest => odiagsItems src rest

/-- number of rotations -/
def onRot : List OItem → Nat
  | [] => 0
  | .chr .. :: rest => onRot rest
  | .math .. :: rest => onRot rest + 1
  | .opn _ body :: rest => onRot rest + (if visBody body = [] then 0 else 1)

theorem onRot_chrItems (items : List OItem) : ∀ (s : Str) (p : Nat),
    onRot (ochrItems p s ++ items) = onRot items
  | [], _ => rfl
  | c :: cs, p => by simp only [ochrItems, List.cons_append, onRot, onRot_chrItems items cs (p + 1)]

theorem odiags_chrItems (src : Str) (items : List OItem) : ∀ (s : Str) (p : Nat),
    odiagsItems src (ochrItems p s ++ items) = odiagsItems src items
  | [], _ => rfl
  | c :: cs, p => by
    simp only [ochrItems, List.cons_append, odiagsItems, odiags_chrItems src items cs (p + 1)]

theorem orefItems_chrItems (T : PTables) (n : Nat) (l : List Str) (items : List OItem) :
    ∀ (s : Str) (p : Nat), orefItems T n l (ochrItems p s ++ items)
      = (s ++ (orefItems T n l items).1, List.range' p s.length ++ (orefItems T n l items).2)
  | [], _ => rfl
  | c :: cs, p => by
    simp only [ochrItems, List.cons_append, orefItems, orefItems_chrItems T n l items cs (p + 1),
      List.length_cons, List.range'_succ]

/-- the same on the source text (which starts at position `p`) -/
inductive OOkSrc (T : PTables) (st : PState) : Nat → Str → List OItem → Prop
  | nil (p : Nat) : OOkSrc T st p [] []
  | chr (p : Nat) (c : Char) (cs : Str) (items : List OItem) :
      okAt T st c cs = true → OOkSrc T st (p + 1) cs items →
      OOkSrc T st p (c :: cs) (.chr c p :: items)
  | math (p : Nat) (body R : Str) (items : List OItem) :
      mathOk T body R = true → OOkSrc T st (p + (body.length + 2)) R items →
      OOkSrc T st p ('$' :: (body ++ '$' :: R)) (.math p body :: items)
  | opn (p : Nat) (body w R : Str) (items : List OItem) :
      openOk T body w R = true → OOkSrc T st (p + (body.length + 1 + w.length)) R items →
      OOkSrc T st p ('$' :: (body ++ (w ++ R))) (.opn p body :: items)

theorem OOkSrc_text (T : PTables) (st : PState) (R : Str) (items : List OItem) :
    ∀ (s : Str) (p : Nat), OOkSrc T st (p + s.length) R items → textOk T st s R = true →
      OOkSrc T st p (s ++ R) (ochrItems p s ++ items)
  | [], _, hR, _ => hR
  | c :: cs, p, hR, h => by
    simp only [textOk, Bool.and_eq_true] at h
    have hR' : OOkSrc T st (p + 1 + cs.length) R items := by
      have e : p + 1 + cs.length = p + (c :: cs).length := by simp; omega
      rw [e]; exact hR
    exact OOkSrc.chr p c (cs ++ R) _ h.1 (OOkSrc_text T st R items cs (p + 1) hR' h.2)

theorem OOkSrc_of_segsOk (T : PTables) (st : PState) :
    ∀ (segs : List OSeg) (p : Nat), osegsOk T st segs = true →
      OOkSrc T st p (orender segs) (oitemsOf p segs)
  | [], p, _ => .nil p
  | .txt s :: rest, p, h => by
    simp only [osegsOk, Bool.and_eq_true] at h
    exact OOkSrc_text T st _ _ s p (OOkSrc_of_segsOk T st rest _ h.2) h.1
  | .math body :: rest, p, h => by
    simp only [osegsOk, Bool.and_eq_true] at h
    have := OOkSrc.math p body (orender rest) _ h.1 (OOkSrc_of_segsOk T st rest _ h.2)
    simpa [orender, OSeg.render, oitemsOf] using this
  | .opn body w :: rest, p, h => by
    simp only [osegsOk, Bool.and_eq_true] at h
    have := OOkSrc.opn p body w (orender rest) _ h.1 (OOkSrc_of_segsOk T st rest _ h.2)
    simpa [orender, OSeg.render, oitemsOf] using this

/-- the conditions depend on the state only through the language stack -/
theorem OOkSrc.congr {T : PTables} {st st' : PState} (hl : st'.langStack = st.langStack)
    {p : Nat} {s : Str} {items : List OItem}
    (h : OOkSrc T st p s items) : OOkSrc T st' p s items := by
  induction h with
  | nil p => exact .nil p
  | chr p c cs items hat _ ih =>
    refine .chr p c cs items ?_ ih
    rw [← hat]
    simp only [okAt, activeChars_congr T st st' hl, shortKeys_congr T st st' hl]
  | math p body R items hm _ ih => exact .math p body R items hm ih
  | opn p body w R items hm _ ih => exact .opn p body w R items hm ih

/-- white space in front can be dropped -/
theorem OOkSrc_drop_space (T : PTables) (st : PState) :
    ∀ (k : Nat) (p : Nat) (s : Str) (items : List OItem), k ≤ s.length → OOkSrc T st p s items →
      (∀ x ∈ s.take k, isSpace x = true) →
      ∃ items', items = ochrItems p (s.take k) ++ items' ∧ OOkSrc T st (p + k) (s.drop k) items'
  | 0, _, _, items, _, h, _ => ⟨items, rfl, h⟩
  | k + 1, _, [], _, hk, _, _ => by simp at hk
  | k + 1, p, c :: cs, _, hk, h, hsp => by
    have hc : isSpace c = true := hsp c (by simp)
    cases h with
    | chr _ _ _ items0 _ h2 =>
      obtain ⟨items', e, h3⟩ := OOkSrc_drop_space T st k (p + 1) cs items0 (by simpa using hk) h2
        (fun x hx => hsp x (by simp [hx]))
      refine ⟨items', by simp [ochrItems, e], ?_⟩
      have e : p + (k + 1) = p + 1 + k := by omega
      rw [e]; exact h3
    | math _ body R _ _ _ => exact absurd hc (by decide)
    | opn _ body w R _ _ _ => exact absurd hc (by decide)

/-! ### the scanner on a formula body in front of an arbitrary boundary -/

/-- what may follow a formula body: the run of white space at the head of `R` (if any) is a
    paragraph break — a white-space run at the end of the body that makes a space token does not
    reach into `R` -/
def Boundary (R : Str) : Prop := countNl (R.takeWhile isSpace) < 2 → R.takeWhile isSpace = []

theorem countNl_cons_le (a : Char) (s : Str) : countNl s ≤ countNl (a :: s) := by
  unfold countNl
  rw [List.count_cons]
  omega

theorem takeWhile_body (R : Str) (hR : Boundary R) : ∀ s : Str,
    countNl ((s ++ R).takeWhile isSpace) < 2 → (s ++ R).takeWhile isSpace = s.takeWhile isSpace
  | [], h => by simpa using hR (by simpa using h)
  | a :: s, h => by
    by_cases ha : isSpace a = true
    · simp only [List.cons_append, List.takeWhile_cons, ha, if_true] at h ⊢
      rw [takeWhile_body R hR s (Nat.lt_of_le_of_lt (countNl_cons_le a _) h)]
    · simp [ha]

theorem boundary_dollar (R : Str) : Boundary ('$' :: R) := by
  intro _; simp [show isSpace '$' = false by decide]

theorem boundary_nil : Boundary [] := fun _ => rfl

theorem takeWhile_space_append (w R : Str) (hw : ∀ c ∈ w, isSpace c = true) :
    (w ++ R).takeWhile isSpace = w ++ R.takeWhile isSpace := by
  induction w with
  | nil => rfl
  | cons a w ih =>
    simp only [List.cons_append, List.takeWhile_cons, hw a (by simp), if_true]
    rw [ih (fun c hc => hw c (by simp [hc]))]

theorem countNl_append' (a b : Str) : countNl (a ++ b) = countNl a + countNl b := by
  unfold countNl; exact List.count_append

theorem boundary_par (w R : Str) (hw : ∀ c ∈ w, isSpace c = true) (h2 : 2 ≤ countNl w) :
    Boundary (w ++ R) := by
  intro h
  rw [takeWhile_space_append w R hw, countNl_append'] at h
  omega

/-- the scanner loop runs through a formula body in front of a boundary: one text token per
    character that is no white space, one space token per run of white space -/
theorem scanSteps_bodyrun' (T : PTables) (src : Str) (R : Str) (hR : Boundary R) :
    ∀ (n : Nat) (s : Str) (pos fuel : Nat), s.length ≤ n → s.length ≤ fuel →
      bodyOk T s R = true →
      ∃ steps, BodyRun T pos s steps ∧
        scanSteps T.toTables src fuel pos (s ++ R)
          = (steps ++ (scanSteps T.toTables src (fuel - steps.length) (pos + s.length) R).1,
             (scanSteps T.toTables src (fuel - steps.length) (pos + s.length) R).2) := by
  intro n
  induction n with
  | zero =>
    intro s pos fuel hn _ _
    have : s = [] := by cases s <;> simp_all
    subst this
    exact ⟨[], ⟨by simp, by simp, rfl, by simp⟩, by simp⟩
  | succ n ih =>
    intro s pos fuel hn hf hok
    cases s with
    | nil => exact ⟨[], ⟨by simp, by simp, rfl, by simp⟩, by simp⟩
    | cons c cs =>
      obtain ⟨f, rfl⟩ : ∃ f, fuel = f + 1 := ⟨fuel - 1, by simp at hf; omega⟩
      have hok0 := hok
      simp only [bodyOk, Bool.and_eq_true] at hok
      by_cases hsp : isSpace c = true
      · -- a run of white space
        simp only [hsp, if_true, decide_eq_true_eq] at hok
        have hwe : (c :: (cs ++ R)).takeWhile isSpace = (c :: cs).takeWhile isSpace :=
          takeWhile_body R hR (c :: cs) hok.1
        generalize hw : (c :: cs).takeWhile isSpace = w at hwe
        have hw' : w = c :: cs.takeWhile isSpace := by rw [← hw]; simp [hsp]
        have hall : ∀ d ∈ w, isSpace d = true := by
          intro d hd; rw [← hw] at hd; exact mem_takeWhile_imp _ _ _ hd
        have hsplit : w ++ (c :: cs).dropWhile isSpace = c :: cs := by
          rw [← hw]; exact List.takeWhile_append_dropWhile
        generalize hs' : (c :: cs).dropWhile isSpace = s' at hsplit
        have hlen : w.length + s'.length = cs.length + 1 := by
          rw [← List.length_append, hsplit]; rfl
        simp only [List.length_cons] at hn hf
        have hwpos : 1 ≤ w.length := by rw [hw']; simp
        have hnt : nextToken T.toTables src pos (c :: (cs ++ R))
            = { tok := { kind := .space, pos := pos, txt := w }, len := w.length } := by
          have h1 : nextToken T.toTables src pos (c :: (cs ++ R))
              = scanSpace pos (c :: (cs ++ R)) := by simp [nextToken, hsp]
          rw [h1]
          simp only [scanSpace, hwe]
          rw [hwe] at hok
          simp [hok.1]
        have hdrop : (c :: (cs ++ R)).drop w.length = s' ++ R := by
          have : c :: (cs ++ R) = w ++ (s' ++ R) := by
            rw [← List.append_assoc, hsplit]; rfl
          rw [this, List.drop_left]
        have hoks' : bodyOk T s' R = true := by
          have := bodyOk_drop T R w.length (c :: cs) hok0
          rw [← hsplit, List.drop_left] at this
          exact this
        obtain ⟨steps', B, hsc⟩ := ih s' (pos + w.length) f (by omega) (by omega) hoks'
        refine ⟨{ tok := { kind := .space, pos := pos, txt := w }, len := w.length } :: steps', ?_, ?_⟩
        · refine ⟨?_, ?_, ?_, ?_⟩
          · intro x hx
            rcases List.mem_cons.mp hx with rfl | hx
            · exact ⟨rfl, rfl, Or.inr rfl⟩
            · exact B.ok x hx
          · have := B.len
            simp only [List.length_cons] at ⊢
            omega
          · rw [List.map_cons, mathToks_cons_space _ _ rfl, B.txt, ← hsplit,
              filter_nonspace_of_space w s' hall]
          · intro hany
            have hany' : s'.any (fun c => !isSpace c) = true := by
              rw [← hsplit, List.any_append] at hany
              have : w.any (fun c => !isSpace c) = false := by
                rw [List.any_eq_false]
                intro d hd
                simp [hall d hd]
              simpa [this] using hany
            rw [List.map_cons, mathToks_cons_space _ _ rfl, B.first hany', hw, ← hs',
              takeWhile_dropWhile_nil]
            simp
        · show scanSteps T.toTables src (f + 1) pos (c :: (cs ++ R)) = _
          simp only [scanSteps, hnt]
          rw [if_neg (by rw [hw']; simp), hdrop, hsc]
          simp only [List.cons_append, List.length_cons]
          have e1 : pos + w.length + s'.length = pos + (cs.length + 1) := by omega
          have e2 : f + 1 - (steps'.length + 1) = f - steps'.length := by omega
          rw [e1, e2]
      · -- a body character
        have hsp' : isSpace c = false := by simpa using hsp
        simp only [hsp', Bool.false_eq_true, if_false] at hok
        have facts := mathAtFacts hok.1
        have hnt := nextToken_body T src pos c (cs ++ R) facts
        obtain ⟨steps', B, hsc⟩ := ih cs (pos + 1) f (by simp at hn; omega) (by simp at hf; omega) hok.2
        have hbt := bodyTok_bodyTokAt T pos c _ facts
        refine ⟨{ tok := bodyTokAt pos c, len := 1 } :: steps', ?_, ?_⟩
        · refine ⟨?_, ?_, ?_, ?_⟩
          · intro x hx
            rcases List.mem_cons.mp hx with rfl | hx
            · exact ⟨rfl, rfl, Or.inl hbt⟩
            · exact B.ok x hx
          · have := B.len
            simp only [List.length_cons]
            omega
          · rw [List.map_cons, mathToks_cons_body T _ _ hbt]
            have := B.txt
            simp only [bodyTxt] at this ⊢
            simp [bodyTokAt, this, hsp']
          · intro _
            rw [List.map_cons, mathToks_cons_body T _ _ hbt]
            simp [firstPos, bodyTokAt, hsp']
        · show scanSteps T.toTables src (f + 1) pos (c :: (cs ++ R)) = _
          simp only [scanSteps, hnt]
          rw [if_neg (by simp)]
          simp only [List.drop_succ_cons, List.drop_zero]
          rw [hsc]
          simp only [List.cons_append, List.length_cons]
          have e1 : pos + 1 + cs.length = pos + (cs.length + 1) := by omega
          have e2 : f + 1 - (steps'.length + 1) = f - steps'.length := by omega
          rw [e1, e2]

/-! ### text and positions of the output for an open formula -/

/-- the text that replaces the maths tokens of an open formula -/
def shapeTxt (T : PTables) (ph : Str) (mb : List Tok) : Str :=
  if mb = [] then [] else ph ++ (punctChar T (bodyTxt mb)).toList

theorem getTxtPos_openShape (T : PTables) (ph : Str) (mb : List Tok) :
    getTxtPos (openShape T ph mb)
      = (shapeTxt T ph mb, List.replicate (shapeTxt T ph mb).length (firstPos mb)) := by
  unfold openShape shapeTxt
  split
  · rfl
  · cases punctChar T (bodyTxt mb) <;>
      simp [getTxtPos, tokPositions, mkFix, List.replicate_succ']

theorem getTxtPos_openOut (T : PTables) (n : Nat) (ph : Str) (p : Nat) (mb : List Tok) (rest : List Tok) :
    getTxtPos (openOut T n ph p mb ++ rest)
      = (errMark T.toTables errMathEnd ++ (shapeTxt T ph mb ++ (getTxtPos rest).1),
         markPos T.toTables errMathEnd n p
           ++ (List.replicate (shapeTxt T ph mb).length (firstPos mb) ++ (getTxtPos rest).2)) := by
  generalize hq : ((openCore T n ph p mb).getLast?.map (·.pos)).getD p = q
  have h1 : getTxtPos (openOut T n ph p mb)
      = (errMark T.toTables errMathEnd ++ shapeTxt T ph mb,
         markPos T.toTables errMathEnd n p ++ List.replicate (shapeTxt T ph mb).length (firstPos mb)) := by
    unfold openOut
    rw [hq]
    unfold openCore
    rw [getTxtPos_append]
    have h2 : getTxtPos (mkAction p :: (latexErrorToks T.toTables errMathEnd p n ++ openShape T ph mb))
        = getTxtPos (latexErrorToks T.toTables errMathEnd p n ++ openShape T ph mb) := by
      simp [getTxtPos, tokPositions, mkAction]
    rw [h2, getTxtPos_append, latexErrorToks_txtpos, getTxtPos_openShape]
    simp [getTxtPos, tokPositions, mkAction]
  rw [getTxtPos_append, h1]
  simp [List.append_assoc]

theorem bodyTxt_nil_iff (T : PTables) (mb : List Tok) (h : ∀ t ∈ mb, BodyTok T t) :
    bodyTxt mb = [] ↔ mb = [] := by
  constructor
  · intro e
    cases mb with
    | nil => rfl
    | cons t ts =>
      obtain ⟨c, hc, _⟩ := (h t (by simp)).one
      simp [bodyTxt, hc] at e
  · intro e; subst e; rfl

theorem visBody_any (body : Str) : body.any (fun c => !isSpace c) = true ↔ visBody body ≠ [] := by
  unfold visBody
  rw [List.any_eq_true, Ne, List.filter_eq_nil_iff]
  constructor
  · rintro ⟨c, hc, h⟩ hall
    exact hall c hc h
  · intro h
    by_cases hex : ∃ c, c ∈ body ∧ (!isSpace c) = true
    · exact hex
    · exfalso; apply h
      intro c hc hn
      exact hex ⟨c, hc, hn⟩

/-- the link between the tokens of a body and the body: text and position of the replacement,
    the rotation -/
theorem open_link (T : PTables) (l : List Str) (pos : Nat) (body : Str) (steps : List ScanStep)
    (B : BodyRun T (pos + 1) body steps) (hok : ∀ t ∈ steps.map (·.tok), BodyItem T t) :
    shapeTxt T ((rotL l).headD []) (mathToks (steps.map (·.tok))) = openRepl T l body ∧
    openRot (mathToks (steps.map (·.tok))) l = openRotS body l ∧
    (if mathToks (steps.map (·.tok)) = [] then 0 else 1) = (if visBody body = [] then 0 else 1) ∧
    (visBody body ≠ [] →
      firstPos (mathToks (steps.map (·.tok))) = pos + 1 + (body.takeWhile isSpace).length) := by
  have htxt : bodyTxt (mathToks (steps.map (·.tok))) = visBody body := B.txt
  have hiff := bodyTxt_nil_iff T _ (mathToks_body T _ hok)
  rw [htxt] at hiff
  by_cases hv : visBody body = []
  · have hm := hiff.mp hv
    simp [shapeTxt, openRepl, openRot, openRotS, hv, hm]
  · have hm : mathToks (steps.map (·.tok)) ≠ [] := fun e => hv (hiff.mpr e)
    refine ⟨?_, ?_, ?_, ?_⟩
    · simp only [shapeTxt, openRepl, if_neg hv, if_neg hm, htxt]
    · simp only [openRot, openRotS, if_neg hv, if_neg hm]
    · simp only [if_neg hv, if_neg hm]
    · intro _
      exact B.first ((visBody_any body).mpr hv)

/-! ### the scanner loop -/

/-- what the scanner loop yields on a well-formed source (`n`: the length used for the mark
    positions, `dsrc`: the source the diagnostics refer to) -/
structure OScanFacts (T : PTables) (st : PState) (n : Nat) (dsrc : Str) (rest : Str)
    (items : List OItem) (steps : List ScanStep) : Prop where
  ok : ∀ s ∈ steps, s.diag = none ∧ s.extra = []
  pieces : ∃ ps, steps.map (·.tok) = oflat ps ∧ OPiecesOk T st ps ∧
    (∀ l, getTxtPos (ooutP T n l ps) = orefItems T n l items) ∧ nRot ps = onRot items ∧
    diagsP dsrc ps = odiagsItems dsrc items
  first : ∀ s ss, steps = s :: ss → s.tok.txt = firstTokTxtM rest
  len : steps.length ≤ rest.length

theorem scanSteps_nil (T : Tables) (src : Str) (fuel pos : Nat) :
    scanSteps T src fuel pos [] = ([], true) := by
  cases fuel <;> simp [scanSteps]

theorem OScanFacts_nil (T : PTables) (st : PState) (n : Nat) (dsrc : Str) :
    OScanFacts T st n dsrc [] [] [] :=
  ⟨by simp, ⟨[], by simp [oflat], trivial, fun l => rfl, rfl, rfl⟩, by simp, by simp⟩

/-- the paragraph token of a white-space run with at least two line breaks -/
theorem nextToken_par (T : Tables) (src : Str) (pos : Nat) (c : Char) (w R : Str)
    (hw : ∀ d ∈ c :: w, isSpace d = true) (h2 : 2 ≤ countNl (c :: w))
    (hR : R.head?.all (fun c => !isSpace c) = true) :
    nextToken T src pos (c :: w ++ R)
      = { tok := { kind := .par, pos := pos, txt := c :: w }, len := (c :: w).length } := by
  have hc : isSpace c = true := hw c (by simp)
  have htw : (c :: w ++ R).takeWhile isSpace = c :: w := by
    rw [takeWhile_space_append (c :: w) R hw]
    cases R with
    | nil => simp
    | cons r R' =>
      have : isSpace r = false := by simpa using hR
      simp [this]
  have h1 : nextToken T src pos (c :: w ++ R) = scanSpace pos (c :: w ++ R) := by
    simp [nextToken, hc]
  rw [h1]
  simp only [scanSpace, htw]
  rw [if_neg (by omega)]

theorem scanSteps_open (T : PTables) (st : PState) (src : Str) (N : Nat) (dsrc : Str) :
    ∀ (n fuel pos : Nat) (rest : Str) (items : List OItem),
    rest.length ≤ n → rest.length ≤ fuel → OOkSrc T st pos rest items →
    (scanSteps T.toTables src fuel pos rest).2 = true ∧
    OScanFacts T st N dsrc rest items (scanSteps T.toTables src fuel pos rest).1 := by
  intro n
  induction n with
  | zero =>
    intro fuel pos rest items hn _ hok
    cases rest with
    | nil =>
      cases hok
      rw [scanSteps_nil]
      exact ⟨rfl, OScanFacts_nil T st N dsrc⟩
    | cons c cs => simp at hn
  | succ n ih =>
    intro fuel pos rest items hn hf hok
    cases rest with
    | nil =>
      cases hok
      rw [scanSteps_nil]
      exact ⟨rfl, OScanFacts_nil T st N dsrc⟩
    | cons c cs =>
      obtain ⟨fuel, rfl⟩ : ∃ f, fuel = f + 1 := ⟨fuel - 1, by simp at hf; omega⟩
      have hok0 := hok
      cases hok with
      | chr _ _ _ items' hat hsub0 =>
        have hsnd := okAt_snd hat
        obtain ⟨hp, hone⟩ := nextToken_text T src pos c cs hsnd
        generalize hs : nextToken T.toTables src pos (c :: cs) = s at hp hone
        have h1 := hp.len_pos
        have h2 := hp.len_le
        have hsub : ∃ items1, OItem.chr c pos :: items' = ochrItems pos ((c :: cs).take s.len) ++ items1 ∧
            OOkSrc T st (pos + s.len) ((c :: cs).drop s.len) items1 := by
          by_cases hsp : isSpace c = true
          · refine OOkSrc_drop_space T st s.len pos (c :: cs) _ h2 hok0 ?_
            intro x hx
            rw [← hp.txt, hp.first] at hx
            simp only [firstTokTxt, hsp, if_true] at hx
            exact mem_takeWhile_imp _ _ _ hx
          · have := (hone (by simpa using hsp)).1
            rw [this]
            exact ⟨items', rfl, hsub0⟩
        obtain ⟨items1, hitems1, hsub⟩ := hsub
        simp only [scanSteps, hs]
        rw [if_neg (by simp; omega)]
        have hl : ((c :: cs).drop s.len).length ≤ fuel := by
          simp only [List.length_drop]; simp only [List.length_cons] at hf h2 ⊢; omega
        have hl' : ((c :: cs).drop s.len).length ≤ n := by
          simp only [List.length_drop]; simp only [List.length_cons] at hn h2 ⊢; omega
        obtain ⟨i1, I⟩ := ih fuel (pos + s.len) ((c :: cs).drop s.len) items1 hl' hl hsub
        obtain ⟨ps', hflat, hpok, hout, hnm, hdg⟩ := I.pieces
        refine ⟨i1, ?_, ?_, ?_, ?_⟩
        · intro x hx
          rcases List.mem_cons.mp hx with rfl | hx
          · exact ⟨hp.diag, hp.extra⟩
          · exact I.ok x hx
        · refine ⟨.tok s.tok :: ps', by simp [oflat, OPiece.toks, hflat], ⟨hp.tok, ?_, ?_, hpok⟩, ?_,
            by rw [hitems1, onRot_chrItems]; exact hnm,
            by rw [hitems1, odiags_chrItems]; exact hdg⟩
          · -- the short-macro branch
            rw [← hflat]
            have hact := hat
            simp only [okAt, Bool.and_eq_true, Bool.or_eq_true, Bool.not_eq_true'] at hact
            rcases hact.1 with hna | ⟨hns, hk⟩
            · left
              have : s.tok.txt = c :: (cs.take (s.len - 1)) := by
                rw [hp.txt]
                obtain ⟨k, hk⟩ : ∃ k, s.len = k + 1 := ⟨s.len - 1, by omega⟩
                rw [hk]; simp
              rw [this]
              exact not_active_cons T st c _ hna
            · right
              have hlen := (hone hns).1
              have htxt : s.tok.txt = [c] := by rw [hp.txt, hlen]; rfl
              have i4 := I.first
              rw [hlen] at i4 ⊢
              simp only [List.drop_succ_cons, List.drop_zero] at i4 ⊢
              cases hr : (scanSteps T.toTables src fuel (pos + 1) cs).1 with
              | nil => rfl
              | cons s2 ss =>
                simp only [List.map_cons]
                apply expandShortMacro_none
                rw [htxt, i4 s2 ss hr]
                rcases hk with hk | hk
                · cases cs with
                  | nil => cases fuel <;> simp [scanSteps] at hr
                  | cons => simp at hk
                · simpa using hk
          · -- the shape of the token
            refine ⟨?_, ?_⟩
            · rw [hp.txt]
              intro h0
              have := congrArg List.length h0
              simp only [List.length_take, List.length_nil] at this
              omega
            · by_cases hsp : isSpace c = true
              · right
                refine ⟨?_, ?_⟩
                · have hs' : s = scanSpace pos (c :: cs) := by
                    rw [← hs]; simp [nextToken, hsp]
                  rw [hs']
                  simp only [scanSpace]; split
                  · exact Or.inl rfl
                  · exact Or.inr rfl
                · rw [hp.first]
                  simp only [firstTokTxt, hsp, if_true, isBlank, List.all_eq_true]
                  exact fun x hx => mem_takeWhile_imp _ _ _ hx
              · left
                have hsp' : isSpace c = false := by simpa using hsp
                have := hone hsp'
                refine ⟨this.2, ?_⟩
                rw [hp.txt, this.1]
                exact hasNl_single c hsp'
          · intro l
            rw [hitems1, orefItems_chrItems]
            simp only [ooutP]
            rw [getTxtPos_cons_plain _ _ hp.fix, hout l, hp.pos, hp.txt]
        · intro s' ss' he
          simp only [List.cons.injEq] at he
          rw [← he.1, hp.first]
          refine (firstTokTxtM_of_text c cs ?_).symm
          rcases hsnd with h | h
          · exact Or.inl h
          · exact Or.inr h.1
        · have := I.len
          simp only [List.length_cons, List.length_drop] at this h2 ⊢
          omega
      | math _ body R items' hm hsub =>
        simp only [mathOk, Bool.and_eq_true] at hm
        obtain ⟨⟨⟨hbne, hd1⟩, hbody⟩, hd2⟩ := hm
        obtain ⟨k1, hk1, hn1⟩ := nextToken_dollar T src pos (body ++ '$' :: R) hd1
        obtain ⟨k2, hk2, hn2⟩ := nextToken_dollar T src (pos + 1 + body.length) R hd2
        simp only [List.length_cons, List.length_append] at hf hn
        obtain ⟨bsteps, B, hrun⟩ := scanSteps_bodyrun T src R body.length body (pos + 1) fuel
          (Nat.le_refl _) (by omega) hbody
        have hBl := B.len
        obtain ⟨g, hg⟩ : ∃ g, fuel - bsteps.length = g + 1 := ⟨fuel - bsteps.length - 1, by omega⟩
        have hRn : R.length ≤ n := by omega
        have hRg : R.length ≤ g := by omega
        obtain ⟨i1, I⟩ := ih g (pos + (body.length + 2)) R items' hRn hRg hsub
        obtain ⟨ps', hflat, hpok, hout, hnm, hdg⟩ := I.pieces
        have hpos2 : pos + 1 + body.length + 1 = pos + (body.length + 2) := by omega
        have hsteps : scanSteps T.toTables src (fuel + 1) pos ('$' :: (body ++ '$' :: R))
            = ({ tok := { kind := k1, pos := pos, txt := ['$'] }, len := 1 } ::
                (bsteps ++
                  { tok := { kind := k2, pos := pos + 1 + body.length, txt := ['$'] }, len := 1 } ::
                  (scanSteps T.toTables src g (pos + (body.length + 2)) R).1),
               (scanSteps T.toTables src g (pos + (body.length + 2)) R).2) := by
          simp only [scanSteps, hn1]
          rw [if_neg (by simp)]
          simp only [List.drop_succ_cons, List.drop_zero]
          rw [hrun, hg]
          simp only [scanSteps, hn2]
          rw [if_neg (by simp)]
          simp only [List.drop_succ_cons, List.drop_zero, hpos2]
        rw [hsteps]
        refine ⟨i1, ?_, ?_, ?_, ?_⟩
        · intro x hx
          simp only [List.mem_cons, List.mem_append] at hx
          rcases hx with rfl | hx | rfl | hx
          · exact ⟨rfl, rfl⟩
          · exact ⟨(B.ok x hx).1, (B.ok x hx).2.1⟩
          · exact ⟨rfl, rfl⟩
          · exact I.ok x hx
        · refine ⟨.math { kind := k1, pos := pos, txt := ['$'] } (bsteps.map (·.tok))
              { kind := k2, pos := pos + 1 + body.length, txt := ['$'] } :: ps', ?_, ?_, ?_,
              by simp only [nRot, onRot, hnm], by simp only [diagsP, odiagsItems, hdg]⟩
          · simp [oflat, OPiece.toks, hflat]
          · refine ⟨⟨hk1, rfl⟩, B.ne hbne, ?_, ⟨hk2, rfl⟩, hpok⟩
            intro t ht
            obtain ⟨x, hx, rfl⟩ := List.mem_map.mp ht
            exact (B.ok x hx).2.2
          · intro l
            simp only [ooutP, orefItems, visBody]
            rw [getTxtPos_formulaOut, hout (rotL l), B.txt, B.first hbne]
        · intro s' ss' he
          simp only [List.cons.injEq] at he
          rw [← he.1]
          rfl
        · have := I.len
          simp only [List.length_cons, List.length_append] at this ⊢
          omega
      | opn _ body w R items' hm hsub =>
        simp only [openOk, Bool.and_eq_true] at hm
        obtain ⟨⟨⟨⟨hd1, hbody⟩, hwsp⟩, hwc⟩, hRh⟩ := hm
        have hwsp' : ∀ d ∈ w, isSpace d = true := by simpa using hwsp
        obtain ⟨k1, hk1, hn1⟩ := nextToken_dollar T src pos (body ++ (w ++ R)) hd1
        simp only [List.length_cons, List.length_append] at hf hn
        have hbd : Boundary (w ++ R) := by
          cases w with
          | nil =>
            have : R = [] := by simpa using hwc
            subst this; exact boundary_nil
          | cons c w' =>
            exact boundary_par _ R hwsp' (by simpa using hwc)
        obtain ⟨bsteps, B, hrun⟩ := scanSteps_bodyrun' T src (w ++ R) hbd body.length body (pos + 1) fuel
          (Nat.le_refl _) (by omega) hbody
        have hBl := B.len
        have hBok : ∀ t ∈ bsteps.map (·.tok), BodyItem T t := by
          intro t ht
          obtain ⟨x, hx, rfl⟩ := List.mem_map.mp ht
          exact (B.ok x hx).2.2
        have hstep1 : scanSteps T.toTables src (fuel + 1) pos ('$' :: (body ++ (w ++ R)))
            = ({ tok := { kind := k1, pos := pos, txt := ['$'] }, len := 1 } ::
                (bsteps ++ (scanSteps T.toTables src (fuel - bsteps.length) (pos + 1 + body.length) (w ++ R)).1),
               (scanSteps T.toTables src (fuel - bsteps.length) (pos + 1 + body.length) (w ++ R)).2) := by
          simp only [scanSteps, hn1]
          rw [if_neg (by simp)]
          simp only [List.drop_succ_cons, List.drop_zero]
          rw [hrun]
        rw [hstep1]
        cases w with
        | nil =>
          have hR : R = [] := by simpa using hwc
          subst hR
          cases hsub
          simp only [List.append_nil, scanSteps_nil]
          refine ⟨trivial, ?_, ?_, ?_, ?_⟩
          · intro x hx
            simp only [List.mem_cons] at hx
            rcases hx with rfl | hx
            · exact ⟨rfl, rfl⟩
            · exact ⟨(B.ok x hx).1, (B.ok x hx).2.1⟩
          · refine ⟨[.opn { kind := k1, pos := pos, txt := ['$'] } (bsteps.map (·.tok)) none],
              ?_, ?_, ?_, ?_, ?_⟩
            · simp [oflat, OPiece.toks]
            · exact ⟨⟨hk1, rfl⟩, hBok, by simp [OPiecesOk]⟩
            · intro l
              obtain ⟨hl1, hl2, _, hl4⟩ := open_link T l pos body bsteps B hBok
              simp only [ooutP, orefItems]
              rw [getTxtPos_openOut, hl1]
              by_cases hv : visBody body = []
              · simp [openRepl, hv, getTxtPos]
              · rw [hl4 hv]; simp [getTxtPos]
            · obtain ⟨_, _, hl3, _⟩ := open_link T [] pos body bsteps B hBok
              simp only [nRot, onRot, hl3]
            · simp only [diagsP, odiagsItems]
          · intro s' ss' he
            simp only [List.cons.injEq] at he
            rw [← he.1]
            rfl
          · simp only [List.length_cons]
            omega
        | cons c w' =>
          have hw2 : 2 ≤ countNl (c :: w') := by simpa using hwc
          have hnp := nextToken_par T.toTables src (pos + 1 + body.length) c w' R hwsp' hw2 hRh
          obtain ⟨g, hg⟩ : ∃ g, fuel - bsteps.length = g + 1 := ⟨fuel - bsteps.length - 1, by
            simp only [List.length_cons] at hf; omega⟩
          simp only [List.length_cons] at hf hn
          have hRn : R.length ≤ n := by omega
          have hRg : R.length ≤ g := by omega
          have hpos2 : pos + 1 + body.length + (w'.length + 1) = pos + (body.length + 1 + (c :: w').length) := by
            simp only [List.length_cons]; omega
          obtain ⟨i1, I⟩ := ih g (pos + (body.length + 1 + (c :: w').length)) R items' hRn hRg hsub
          obtain ⟨ps', hflat, hpok, hout, hnm, hdg⟩ := I.pieces
          have hstep2 : scanSteps T.toTables src (fuel - bsteps.length) (pos + 1 + body.length) (c :: w' ++ R)
              = ({ tok := { kind := .par, pos := pos + 1 + body.length, txt := c :: w' }, len := (c :: w').length } ::
                  (scanSteps T.toTables src g (pos + (body.length + 1 + (c :: w').length)) R).1,
                 (scanSteps T.toTables src g (pos + (body.length + 1 + (c :: w').length)) R).2) := by
            rw [hg]
            show scanSteps T.toTables src (g + 1) (pos + 1 + body.length) (c :: (w' ++ R)) = _
            have hnp' : nextToken T.toTables src (pos + 1 + body.length) (c :: (w' ++ R))
                = { tok := { kind := .par, pos := pos + 1 + body.length, txt := c :: w' },
                    len := (c :: w').length } := hnp
            simp only [scanSteps, hnp']
            rw [if_neg (by simp)]
            have hdr : (c :: (w' ++ R)).drop (c :: w').length = R := by
              have : c :: (w' ++ R) = (c :: w') ++ R := rfl
              rw [this, List.drop_left]
            rw [hdr]
            simp only [List.length_cons, hpos2]
          rw [hstep2]
          refine ⟨i1, ?_, ?_, ?_, ?_⟩
          · intro x hx
            simp only [List.mem_cons, List.mem_append] at hx
            rcases hx with rfl | hx | rfl | hx
            · exact ⟨rfl, rfl⟩
            · exact ⟨(B.ok x hx).1, (B.ok x hx).2.1⟩
            · exact ⟨rfl, rfl⟩
            · exact I.ok x hx
          · refine ⟨.opn { kind := k1, pos := pos, txt := ['$'] } (bsteps.map (·.tok))
                (some { kind := .par, pos := pos + 1 + body.length, txt := c :: w' }) :: ps',
              ?_, ?_, ?_, ?_, ?_⟩
            · simp only [oflat, OPiece.toks]
              rw [← hflat]
              simp
            · exact ⟨⟨hk1, rfl⟩, hBok, rfl, hpok⟩
            · intro l
              obtain ⟨hl1, hl2, _, hl4⟩ := open_link T l pos body bsteps B hBok
              simp only [ooutP, orefItems]
              rw [getTxtPos_openOut, hl1, hl2, hout]
              by_cases hv : visBody body = []
              · simp [openRepl, hv]
              · rw [hl4 hv]
            · obtain ⟨_, _, hl3, _⟩ := open_link T [] pos body bsteps B hBok
              simp only [nRot, onRot, hl3, hnm]
            · simp only [diagsP, odiagsItems, hdg]
          · intro s' ss' he
            simp only [List.cons.injEq] at he
            rw [← he.1]
            rfl
          · have := I.len
            simp only [List.length_cons, List.length_append] at this ⊢
            omega

theorem OPiecesOk.notComment {T : PTables} {st : PState} : ∀ {ps : List OPiece}, OPiecesOk T st ps →
    ∀ t ∈ oflat ps, t.kind ≠ .comment
  | [], _, _, h => by simp [oflat] at h
  | .tok t :: rest, hok, x, hx => by
    simp only [oflat, OPiece.toks, List.singleton_append, List.mem_cons] at hx
    rcases hx with rfl | hx
    · exact hok.1.notComment
    · exact OPiecesOk.notComment hok.2.2.2 x hx
  | .math d1 b d2 :: rest, hok, x, hx => by
    obtain ⟨h1, _, hb, h2, hrest⟩ := hok
    simp only [oflat, OPiece.toks, List.cons_append, List.append_assoc, List.mem_cons,
      List.mem_append, List.nil_append] at hx
    rcases hx with rfl | hx | rfl | hx
    · rcases h1.kind with k | k <;> simp [k]
    · rcases hb x hx with k | k
      · rw [k.kind]; simp
      · rw [k]; simp
    · rcases h2.kind with k | k <;> simp [k]
    · exact OPiecesOk.notComment hrest x hx
  | .opn d1 b par :: rest, hok, x, hx => by
    obtain ⟨h1, hb, hp, hrest⟩ := hok
    simp only [oflat, OPiece.toks, List.cons_append, List.append_assoc, List.mem_cons,
      List.mem_append] at hx
    rcases hx with rfl | hx | hx | hx
    · rcases h1.kind with k | k <;> simp [k]
    · rcases hb x hx with k | k
      · rw [k.kind]; simp
      · rw [k]; simp
    · cases par with
      | none => simp at hx
      | some pt =>
        simp only [Option.toList_some, List.mem_singleton] at hx
        subst hx
        simp only [] at hp
        rw [hp]; simp
    · exact OPiecesOk.notComment hrest x hx

/-- `scan` on a well-formed source: no diagnostics of the scanner; the token buffer consists of
    plain tokens, simple formulas and open formulas; what the expander loop emits for it spells the
    reference output; at most one token per character -/
theorem scan_open (T : PTables) (st : PState) (src : Str) (items : List OItem)
    (h : OOkSrc T st 0 src items) :
    (scan T.toTables src).diags = [] ∧
    ∃ ps, (scan T.toTables src).toks = oflat ps ∧ OPiecesOk T st ps ∧
      (∀ l, getTxtPos (ooutP T src.length l ps) = orefItems T src.length l items) ∧
      nRot ps = onRot items ∧ diagsP src ps = odiagsItems src items ∧
      (oflat ps).length ≤ src.length := by
  obtain ⟨_, F⟩ := scanSteps_open T st src src.length src src.length src.length 0 src items
    (Nat.le_refl _) (Nat.le_refl _) h
  have he := flatten_tok_extra (scanSteps T.toTables src src.length 0 src).1 (fun s hs => (F.ok s hs).2)
  have hd := flatten_diag_nil (scanSteps T.toTables src src.length 0 src).1 (fun s hs => (F.ok s hs).1)
  obtain ⟨ps, h1, h2, h3, h4, h5⟩ := F.pieces
  simp only [scan]
  rw [he, hd]
  refine ⟨rfl, ps, h1, h2, h3, h4, h5, ?_⟩
  rw [← h1]
  simpa using F.len

/-! ### `parserWork`, `parse`, `tex2txt` -/

/-- **C08 on `parserWork`.**  On a well-formed source `parserWork` succeeds; text and positions of
    the result tokens are the reference output for the stored placeholder collection; the state
    changes only in the rotation records and in the diagnostics, which grow by one `missing end of
    maths` per open formula. -/
theorem parserWork_open (T : PTables) (st : PState) (src : Str) (fuel : Nat) (items : List OItem)
    (rot : Rot) (ls : LangSettings)
    (hf : src.length + 3 ≤ fuel) (h : OOkSrc T st 0 src items)
    (hm : markVisible T.toTables = true)
    (hrot : rotOf st (curSettings st) = some rot) (hne : rot.inl ≠ []) (hvis : VisibleRepls rot.inl)
    (hls : settingsOf T (curSettings st) = some ls) :
    ∃ toks rots', parserWork T fuel src st
        = .ok (toks, { st with rots := rots', diags := st.diags ++ odiagsItems src items }) ∧
      getTxtPos toks = orefItems T src.length rot.inl items := by
  obtain ⟨f, rfl⟩ : ∃ f, fuel = f + 1 := ⟨fuel - 1, by omega⟩
  obtain ⟨hd, ps, hflat, hpok, hout, hnm, hdg, hlen⟩ := scan_open T st src items h
  have hpok' : OPiecesOk T { st with latex := src, nest := st.nest + 1 } ps :=
    OPiecesOk.congr (st := st) (st' := { st with latex := src, nest := st.nest + 1 }) rfl hpok
  obtain ⟨st', h1, h2, h3⟩ := seq_open T none ls ps f [] { st with latex := src, nest := st.nest + 1 }
    rot (by omega) hpok' hrot hne hls
  rw [List.nil_append] at h1
  simp only [] at h1
  rw [removeLines_ooutP T _ src.length hm ps rot.inl hpok' hvis hne] at h1
  simp only [] at h1
  refine ⟨(ooutP T src.length rot.inl ps).filter keepOut, st'.rots, ?_, ?_⟩
  · rw [parserWork.eq_2]
    refine (M.bind_ok _ _ _ _ _ (rfl : M.get st = _)).trans ?_
    refine (M.bind_ok _ _ _ _ _ (rfl : M.modify _ _ = _)).trans ?_
    refine (M.bind_ok _ _ _ _ _ (rfl : M.modify _ _ = _)).trans ?_
    refine (M.bind_ok _ _ _ _ _ (rfl : M.get _ = _)).trans ?_
    simp only [hd, List.append_nil]
    rw [skipPass_nocomment _ _ _ (fun t ht' => hpok.notComment t (by rw [← hflat]; exact ht'))]
    simp only []
    refine (M.bind_ok _ _ _ _ _ (rfl : (pure _ : M (List Tok)) _ = _)).trans ?_
    rw [hflat]
    refine (M.bind_ok _ _ _ _ _ h1).trans ?_
    refine (M.bind_ok _ _ _ _ _ (rfl : M.modify _ _ = _)).trans ?_
    show Outcome.ok _ = _
    rw [h2]
    simp only [Nat.add_sub_cancel, hdg]
  · rw [getTxtPos_filter_keepOut, hout]

theorem parse_open (T : PTables) (st : PState) (src : Str) (fuel : Nat) (items : List OItem)
    (rot : Rot) (ls : LangSettings)
    (hf : src.length + 3 ≤ fuel) (h : OOkSrc T st 0 src items)
    (hm : markVisible T.toTables = true)
    (hrot : rotOf st (curSettings st) = some rot) (hne : rot.inl ≠ []) (hvis : VisibleRepls rot.inl)
    (hls : settingsOf T (curSettings st) = some ls) :
    ∃ toks rots', parse T fuel src [] [] st
        = .ok (toks, { st with extracted := [], unknowns := [], foreign := false, nest := 0,
                               rots := rots', diags := st.diags ++ odiagsItems src items }) ∧
      getTxtPos toks = orefItems T src.length rot.inl items := by
  have h' : OOkSrc T { st with extracted := [], unknowns := [], foreign := false, nest := 0 } 0 src items :=
    OOkSrc.congr (st := st)
      (st' := { st with extracted := [], unknowns := [], foreign := false, nest := 0 }) rfl h
  obtain ⟨toks, rots', hw, ht⟩ := parserWork_open T
    { st with extracted := [], unknowns := [], foreign := false, nest := 0 } src fuel items rot ls hf h'
    hm hrot hne hvis hls
  refine ⟨toks, rots', ?_, ht⟩
  unfold parse
  simp only [List.isEmpty_nil, Bool.not_true, Bool.false_eq_true, if_false, if_true]
  refine (M.bind_ok _ _ _ _ _ (rfl : M.modify _ _ = _)).trans ?_
  refine (M.bind_ok _ _ _ _ _ (rfl : (pure _ : M (List Tok)) _ = _)).trans ?_
  refine (M.bind_ok _ _ _ _ _ (rfl : M.modify _ _ = _)).trans ?_
  refine (M.bind_ok _ _ _ _ _ hw).trans ?_
  refine (M.bind_ok _ _ _ _ _ (rfl : M.get _ = _)).trans ?_
  show Outcome.ok _ = _
  simp

/-- the result record of `tex2txt` on a well-formed source (no `--defs`, `--extr`, `--repl`,
    `--unkn`; single-language mode) -/
theorem tex2txt_open_src (T : PTables) (o : Options) (fs : FS) (thresh : Nat) (src : Str) (fuel : Nat)
    (st1 : PState) (items : List OItem) (rot : Rot)
    (hdefs : o.defs = []) (hextr : o.extr = []) (hrepl : o.hasRepl = false) (hunkn : o.unkn = false)
    (hinit : initParser T fuel o (initialState T o false fs) = .ok ((), st1))
    (h : OOkSrc T st1 0 src items)
    (hm : markVisible T.toTables = true)
    (hrot : rotOf st1 (curSettings st1) = some rot) (hne : rot.inl ≠ []) (hvis : VisibleRepls rot.inl)
    (hls : (settingsOf T (curSettings st1)).isSome = true)
    (hf : src.length + 3 ≤ fuel) :
    ∃ toks, tex2txt T fuel src o false thresh fs
        = .ok { toks := toks, txt := (orefItems T src.length rot.inl items).1,
                pos := (orefItems T src.length rot.inl items).2.map (· + 1), parts := [], unknowns := [],
                diags := st1.diags ++ odiagsItems src items, foreign := false } := by
  obtain ⟨ls, hls⟩ := Option.isSome_iff_exists.mp hls
  obtain ⟨toks, rots', hp, ht⟩ := parse_open T st1 src fuel items rot ls hf h hm hrot hne hvis hls
  refine ⟨toks, ?_⟩
  have hrun : (initParser T fuel o >>= fun _ => parse T fuel src o.defs
        (if o.extr.isEmpty then [] else (splitOn ',' o.extr []).map (fun s => '\\' :: s)))
        (initialState T o false fs)
      = .ok (toks, { st1 with extracted := [], unknowns := [], foreign := false, nest := 0,
                              rots := rots', diags := st1.diags ++ odiagsItems src items }) := by
    refine (M.bind_ok _ _ _ _ _ hinit).trans ?_
    rw [hdefs, hextr]
    exact hp
  unfold tex2txt
  simp only []
  rw [hrun]
  simp only [hrepl, hunkn, Bool.not_false, if_true, Bool.false_eq_true, if_false, ht]

/-! ### the reference output of a document -/

/-- what follows the mark of an open formula, `k` formulas having taken a placeholder before:
    nothing if the body is blank, else `placeholder repls (k + 1)` and the closing punctuation -/
def openText (T : PTables) (repls : List Str) (k : Nat) (body : Str) : Str :=
  if visBody body = [] then [] else placeholder repls (k + 1) ++ punctOf T body

/-- the number of placeholders used behind an open formula -/
def openNext (k : Nat) (body : Str) : Nat := if visBody body = [] then k else k + 1

/-- the reference output (text, 0-based positions) of the segments that start at offset `p` of a
    source of length `n`, `k` formulas having taken a placeholder before: text is copied with its
    positions; a simple formula is replaced as in `PlainMath.refMath`; an open formula is replaced by
    the complete error mark (`errMark`: `' ' ++ T.mark ++ ' '`, plus the message in verbose mode), its
    characters at `markPos … p` — the offset `p` of the `$` for all characters that fit in front of
    the end of the source — followed by `openText`, pinned to the first character of the body that is
    no white space; the paragraph break `w` is dropped -/
def orefSegs (T : PTables) (n : Nat) (repls : List Str) : Nat → Nat → List OSeg → Str × List Nat
  | _, _, [] => ([], [])
  | k, p, .txt s :: rest =>
    (s ++ (orefSegs T n repls k (p + s.length) rest).1,
     List.range' p s.length ++ (orefSegs T n repls k (p + s.length) rest).2)
  | k, p, .math body :: rest =>
    ((placeholder repls (k + 1) ++ punctOf T body)
        ++ (orefSegs T n repls (k + 1) (p + (body.length + 2)) rest).1,
     List.replicate (placeholder repls (k + 1) ++ punctOf T body).length (p + 1 + leadBlanks body)
        ++ (orefSegs T n repls (k + 1) (p + (body.length + 2)) rest).2)
  | k, p, .opn body w :: rest =>
    (errMark T.toTables errMathEnd ++ (openText T repls k body
        ++ (orefSegs T n repls (openNext k body) (p + (body.length + 1 + w.length)) rest).1),
     markPos T.toTables errMathEnd n p
        ++ (List.replicate (openText T repls k body).length (p + 1 + leadBlanks body)
        ++ (orefSegs T n repls (openNext k body) (p + (body.length + 1 + w.length)) rest).2))

/-- the expected diagnostics: one `missing end of maths` per open formula, at the offset of its `$` -/
def odiagsSegs (src : Str) : Nat → List OSeg → List Diag
  | _, [] => []
  | p, .txt s :: rest => odiagsSegs src (p + s.length) rest
  | p, .math body :: rest => odiagsSegs src (p + (body.length + 2)) rest
  | p, .opn body w :: rest =>
    latexErrorDiag errMathEnd p src :: odiagsSegs src (p + (body.length + 1 + w.length)) rest

theorem orefItems_itemsOf (T : PTables) (n : Nat) (repls : List Str) (hne : repls ≠ []) :
    ∀ (segs : List OSeg) (k p : Nat),
      orefItems T n (rotN k repls) (oitemsOf p segs) = orefSegs T n repls k p segs
  | [], _, _ => rfl
  | .txt s :: rest, k, p => by
    simp only [oitemsOf, orefItems_chrItems, orefSegs, orefItems_itemsOf T n repls hne rest k]
  | .math body :: rest, k, p => by
    simp only [oitemsOf, orefItems, orefSegs, ← rotN_succ, rotN_headD repls hne,
      orefItems_itemsOf T n repls hne rest (k + 1), punctOf, leadBlanks, visBody]
  | .opn body w :: rest, k, p => by
    by_cases hv : visBody body = []
    · simp only [oitemsOf, orefItems, orefSegs, openRepl, openRotS, openText, openNext, hv, if_true,
        orefItems_itemsOf T n repls hne rest k, leadBlanks]
    · simp only [oitemsOf, orefItems, orefSegs, openRepl, openRotS, openText, openNext, if_neg hv]
      simp only [← rotN_succ, rotN_headD repls hne, orefItems_itemsOf T n repls hne rest (k + 1), punctOf,
        leadBlanks, visBody]

theorem odiagsItems_itemsOf (src : Str) : ∀ (segs : List OSeg) (p : Nat),
    odiagsItems src (oitemsOf p segs) = odiagsSegs src p segs
  | [], _ => rfl
  | .txt s :: rest, p => by
    simp only [oitemsOf, odiags_chrItems, odiagsSegs, odiagsItems_itemsOf src rest]
  | .math body :: rest, p => by
    simp only [oitemsOf, odiagsItems, odiagsSegs, odiagsItems_itemsOf src rest]
  | .opn body w :: rest, p => by
    simp only [oitemsOf, odiagsItems, odiagsSegs, odiagsItems_itemsOf src rest]

/-- well-formedness of a document as a proposition -/
def OSegsOk (T : PTables) (st : PState) (segs : List OSeg) : Prop := osegsOk T st segs = true

instance (T : PTables) (st : PState) (segs : List OSeg) : Decidable (OSegsOk T st segs) := by
  unfold OSegsOk; infer_instance

/-- **C08 at inline maths, end to end, general form.**  The document is a sequence of inert text
    segments, simple inline formulas `$body$` and open formulas `$body w` (`OSegsOk`); `st1` is the state
    after `Parser.__init__`; no `--defs`, `--extr`, `--repl`, `--unkn`; single-language mode; `repls` is
    the inline placeholder collection of the current language (not empty, every entry a visible one-line
    text); the mark is a visible one-line text; the language settings exist.  With one unit of fuel per
    source character plus three, `tex2txt` succeeds and text, positions and diagnostics are exactly
    `orefSegs` and `odiagsSegs`: one `missing end of maths` per open formula. -/
theorem tex2txt_math_open_segs (T : PTables) (o : Options) (fs : FS) (thresh : Nat)
    (segs : List OSeg) (fuel : Nat) (st1 : PState) (rot : Rot) (repls : List Str)
    (hdefs : o.defs = []) (hextr : o.extr = []) (hrepl : o.hasRepl = false) (hunkn : o.unkn = false)
    (hinit : initParser T fuel o (initialState T o false fs) = .ok ((), st1))
    (hok : OSegsOk T st1 segs)
    (hm : markVisible T.toTables = true)
    (hrot : rotOf st1 (curSettings st1) = some rot) (hrepls : rot.inl = repls)
    (hne : repls ≠ []) (hvis : VisibleRepls repls)
    (hls : (settingsOf T (curSettings st1)).isSome = true)
    (hf : (orender segs).length + 3 ≤ fuel) :
    ∃ r, tex2txt T fuel (orender segs) o false thresh fs = .ok r ∧
      r.txt = (orefSegs T (orender segs).length repls 0 0 segs).1 ∧
      r.pos = (orefSegs T (orender segs).length repls 0 0 segs).2.map (· + 1) ∧
      r.unknowns = [] ∧ r.diags = st1.diags ++ odiagsSegs (orender segs) 0 segs := by
  subst hrepls
  obtain ⟨toks, ht⟩ := tex2txt_open_src T o fs thresh (orender segs) fuel st1 (oitemsOf 0 segs) rot
    hdefs hextr hrepl hunkn hinit (OOkSrc_of_segsOk T st1 segs 0 hok) hm hrot hne hvis hls hf
  have href := orefItems_itemsOf T (orender segs).length rot.inl hne segs 0 0
  simp only [rotN] at href
  exact ⟨_, ht, by rw [href], by rw [href], rfl, by simp only [odiagsItems_itemsOf]⟩

/-! ### one open formula behind a document of the class of Proofs/PlainMath.lean -/

/-- a segment of Proofs/PlainMath.lean as a segment of this file -/
def ofMath : PlainMath.Seg → OSeg
  | .txt s => .txt s
  | .math b => .math b

/-- number of formulas of a document of Proofs/PlainMath.lean -/
def nForm : List PlainMath.Seg → Nat
  | [] => 0
  | .txt _ :: rest => nForm rest
  | .math _ :: rest => nForm rest + 1

theorem orender_ofMath (rest : List OSeg) : ∀ pre : List PlainMath.Seg,
    orender (pre.map ofMath ++ rest) = PlainMath.render pre ++ orender rest
  | [] => rfl
  | .txt s :: pre => by
    simp only [List.map_cons, List.cons_append, orender, ofMath, OSeg.render, PlainMath.render,
      PlainMath.Seg.render, orender_ofMath rest pre, List.append_assoc]
  | .math b :: pre => by
    simp only [List.map_cons, List.cons_append, orender, ofMath, OSeg.render, PlainMath.render,
      PlainMath.Seg.render, orender_ofMath rest pre, List.append_assoc, List.cons_append]

theorem orefSegs_ofMath (T : PTables) (n : Nat) (repls : List Str) (rest : List OSeg) :
    ∀ (pre : List PlainMath.Seg) (k p : Nat),
      orefSegs T n repls k p (pre.map ofMath ++ rest)
        = ((refMath T repls k p pre).1
            ++ (orefSegs T n repls (k + nForm pre) (p + (PlainMath.render pre).length) rest).1,
           (refMath T repls k p pre).2
            ++ (orefSegs T n repls (k + nForm pre) (p + (PlainMath.render pre).length) rest).2)
  | [], k, p => by simp [refMath, nForm, PlainMath.render]
  | .txt s :: pre, k, p => by
    have ih := orefSegs_ofMath T n repls rest pre k (p + s.length)
    have e2 : p + s.length + (PlainMath.render pre).length
        = p + (PlainMath.render (.txt s :: pre)).length := by
      simp [PlainMath.render, PlainMath.Seg.render]; omega
    rw [e2] at ih
    simp only [List.map_cons, List.cons_append, ofMath, orefSegs, refMath, nForm, ih, List.append_assoc]
  | .math b :: pre, k, p => by
    have ih := orefSegs_ofMath T n repls rest pre (k + 1) (p + (b.length + 2))
    have e1 : k + 1 + nForm pre = k + nForm (.math b :: pre) := by simp [nForm]; omega
    have e2 : p + (b.length + 2) + (PlainMath.render pre).length
        = p + (PlainMath.render (.math b :: pre)).length := by
      simp [PlainMath.render, PlainMath.Seg.render]; omega
    rw [e1, e2] at ih
    simp only [List.map_cons, List.cons_append, ofMath, orefSegs, refMath, ih, List.append_assoc]

theorem odiagsSegs_ofMath (src : Str) (rest : List OSeg) :
    ∀ (pre : List PlainMath.Seg) (p : Nat),
      odiagsSegs src p (pre.map ofMath ++ rest)
        = odiagsSegs src (p + (PlainMath.render pre).length) rest
  | [], p => by simp [PlainMath.render]
  | .txt s :: pre, p => by
    have ih := odiagsSegs_ofMath src rest pre (p + s.length)
    have e2 : p + s.length + (PlainMath.render pre).length
        = p + (PlainMath.render (.txt s :: pre)).length := by
      simp [PlainMath.render, PlainMath.Seg.render]; omega
    rw [e2] at ih
    simp only [List.map_cons, List.cons_append, ofMath, odiagsSegs, ih]
  | .math b :: pre, p => by
    have ih := odiagsSegs_ofMath src rest pre (p + (b.length + 2))
    have e2 : p + (b.length + 2) + (PlainMath.render pre).length
        = p + (PlainMath.render (.math b :: pre)).length := by
      simp [PlainMath.render, PlainMath.Seg.render]; omega
    rw [e2] at ih
    simp only [List.map_cons, List.cons_append, ofMath, odiagsSegs, ih]

/-- the positions of the mark, 1-based: the first `mx = min |mark| (n - p)` characters at the
    problem, the others (if the mark is longer than the rest of the source) at the last position -/
theorem markPos_succ (T : Tables) (err : Str) (n p : Nat) (hp : p < n) :
    (markPos T err n p).map (· + 1)
      = List.replicate (min (errMark T err).length (n - p)) (p + 1)
        ++ List.replicate ((errMark T err).length - min (errMark T err).length (n - p))
            (p + min (errMark T err).length (n - p)) := by
  have h2 := errMark_length_pos T err
  have hmx : 1 ≤ min (errMark T err).length (n - p) := by omega
  unfold markPos
  generalize min (errMark T err).length (n - p) = mx at hmx
  simp only [List.map_append, List.map_replicate]
  congr 2
  omega

/-- the first character of the mark sits at the problem -/
theorem markPos_head (T : Tables) (err : Str) (n p : Nat) (hp : p < n) :
    (markPos T err n p).head? = some p := by
  have h2 := errMark_length_pos T err
  obtain ⟨m, hm⟩ : ∃ m, min (errMark T err).length (n - p) = m + 1 :=
    ⟨min (errMark T err).length (n - p) - 1, by omega⟩
  unfold markPos
  rw [hm]
  simp [List.replicate_succ]

/-- **C08 at an unterminated inline formula, end to end.**
    `src = render pre ++ "$" ++ body ++ w ++ render post`: `pre`, `post` are documents of the class of
    Proofs/PlainMath.lean (inert text and simple inline formulas), the `$` opens a formula with simple
    maths material `body` that is never closed: it is cut by the paragraph break `w` (white space with
    at least two line breaks), or `w = []`, `post = []` and it runs to the end of the text.
    Then `tex2txt` succeeds and

    * the output text is the output of `pre`, the complete mark `errMark` (" " ++ `T.mark` ++ " ", plus
      the message in verbose mode), the placeholder and closing punctuation for the maths material read
      so far (`openText`: nothing if `body` is blank), and the output of `post` — the paragraph break
      `w` itself is dropped;
    * the first `mx = min |mark| (|body w post| + 1)` characters of the mark are mapped to the `$`
      (1-based `P + 1`), the others, if the mark is longer than the rest of the source, to the last
      position; the placeholder to the first character of `body` that is no white space; `post` to its
      own positions;
    * exactly one diagnostic is added: "missing end of maths", line = number of line breaks in front of
      the `$` + 1, column = number of characters between the last line break and the `$` + 1;
    * nothing is reported as unknown. -/
theorem tex2txt_math_unterminated (T : PTables) (o : Options) (fs : FS) (thresh : Nat)
    (pre : List PlainMath.Seg) (body w : Str) (post : List PlainMath.Seg)
    (fuel : Nat) (st1 : PState) (rot : Rot) (repls : List Str)
    (hdefs : o.defs = []) (hextr : o.extr = []) (hrepl : o.hasRepl = false) (hunkn : o.unkn = false)
    (hinit : initParser T fuel o (initialState T o false fs) = .ok ((), st1))
    (hok : OSegsOk T st1 (pre.map ofMath ++ .opn body w :: post.map ofMath))
    (hm : markVisible T.toTables = true)
    (hrot : rotOf st1 (curSettings st1) = some rot) (hrepls : rot.inl = repls)
    (hne : repls ≠ []) (hvis : VisibleRepls repls)
    (hls : (settingsOf T (curSettings st1)).isSome = true)
    (hf : (PlainMath.render pre ++ '$' :: (body ++ (w ++ PlainMath.render post))).length + 3 ≤ fuel) :
    let src := PlainMath.render pre ++ '$' :: (body ++ (w ++ PlainMath.render post))
    let P := (PlainMath.render pre).length
    let mark := errMark T.toTables errMathEnd
    let mx := min mark.length (body.length + w.length + (PlainMath.render post).length + 1)
    let k := nForm pre
    let d := latexErrorDiag errMathEnd P src
    ∃ r, tex2txt T fuel src o false thresh fs = .ok r ∧
      r.txt = (refMath T repls 0 0 pre).1 ++ mark ++ openText T repls k body
        ++ (refMath T repls (openNext k body) (P + (body.length + 1 + w.length)) post).1 ∧
      r.pos = (refMath T repls 0 0 pre).2.map (· + 1)
        ++ List.replicate mx (P + 1) ++ List.replicate (mark.length - mx) (P + mx)
        ++ List.replicate (openText T repls k body).length (P + 2 + leadBlanks body)
        ++ (refMath T repls (openNext k body) (P + (body.length + 1 + w.length)) post).2.map (· + 1) ∧
      r.unknowns = [] ∧
      r.diags = st1.diags ++ [d] ∧
      d.msg = errMathEnd ∧ d.line = countNl (PlainMath.render pre) + 1 ∧
      d.col = (afterLastNl (PlainMath.render pre)).length + 1 := by
  intro src P mark mx k d
  have hsrc : orender (pre.map ofMath ++ .opn body w :: post.map ofMath) = src := by
    rw [orender_ofMath]
    have h0 := orender_ofMath [] post
    simp only [List.append_nil, orender] at h0
    simp only [orender, OSeg.render, h0, List.cons_append, List.append_assoc]
    rfl
  obtain ⟨r, h, h1, h2, h3, h4⟩ := tex2txt_math_open_segs T o fs thresh
    (pre.map ofMath ++ .opn body w :: post.map ofMath) fuel st1 rot repls hdefs hextr hrepl hunkn hinit
    hok hm hrot hrepls hne hvis hls (by rw [hsrc]; exact hf)
  rw [hsrc] at h h1 h2 h4
  have hpost := orefSegs_ofMath T src.length repls [] post (openNext (nForm pre) body)
    ((PlainMath.render pre).length + (body.length + 1 + w.length))
  simp only [List.append_nil, orefSegs] at hpost
  have hdp := odiagsSegs_ofMath src [] post ((PlainMath.render pre).length + (body.length + 1 + w.length))
  simp only [List.append_nil, odiagsSegs] at hdp
  have e3 : (PlainMath.render pre).length + 1 + leadBlanks body + 1
      = (PlainMath.render pre).length + 2 + leadBlanks body := by omega
  have hn : src.length - P = body.length + w.length + (PlainMath.render post).length + 1 := by
    simp only [src, P, List.length_append, List.length_cons]
    omega
  have hPn : P < src.length := by omega
  obtain ⟨hl, hc⟩ := lineCol_after (PlainMath.render pre) ('$' :: (body ++ (w ++ PlainMath.render post)))
  refine ⟨r, h, ?_, ?_, h3, ?_, rfl, hl, hc⟩
  · rw [h1, orefSegs_ofMath]
    simp only [orefSegs, Nat.zero_add, hpost, List.append_assoc]
    rfl
  · rw [h2, orefSegs_ofMath]
    simp only [orefSegs, Nat.zero_add, hpost, List.map_append, List.append_assoc, List.map_replicate]
    have := markPos_succ T.toTables errMathEnd src.length P hPn
    rw [hn] at this
    rw [this, e3]
    simp only [List.append_assoc]
    rfl
  · rw [h4, odiagsSegs_ofMath]
    simp only [odiagsSegs, Nat.zero_add, hdp]
    rfl

/-- (A) the formula runs to the end of the text: `src = render pre ++ "$" ++ body` -/
theorem tex2txt_math_unterminated_end (T : PTables) (o : Options) (fs : FS) (thresh : Nat)
    (pre : List PlainMath.Seg) (body : Str)
    (fuel : Nat) (st1 : PState) (rot : Rot) (repls : List Str)
    (hdefs : o.defs = []) (hextr : o.extr = []) (hrepl : o.hasRepl = false) (hunkn : o.unkn = false)
    (hinit : initParser T fuel o (initialState T o false fs) = .ok ((), st1))
    (hok : OSegsOk T st1 (pre.map ofMath ++ [.opn body []]))
    (hm : markVisible T.toTables = true)
    (hrot : rotOf st1 (curSettings st1) = some rot) (hrepls : rot.inl = repls)
    (hne : repls ≠ []) (hvis : VisibleRepls repls)
    (hls : (settingsOf T (curSettings st1)).isSome = true)
    (hf : (PlainMath.render pre ++ '$' :: body).length + 3 ≤ fuel) :
    let src := PlainMath.render pre ++ '$' :: body
    let P := (PlainMath.render pre).length
    let mark := errMark T.toTables errMathEnd
    let mx := min mark.length (body.length + 1)
    let k := nForm pre
    let d := latexErrorDiag errMathEnd P src
    ∃ r, tex2txt T fuel src o false thresh fs = .ok r ∧
      r.txt = (refMath T repls 0 0 pre).1 ++ mark ++ openText T repls k body ∧
      r.pos = (refMath T repls 0 0 pre).2.map (· + 1)
        ++ List.replicate mx (P + 1) ++ List.replicate (mark.length - mx) (P + mx)
        ++ List.replicate (openText T repls k body).length (P + 2 + leadBlanks body) ∧
      r.unknowns = [] ∧
      r.diags = st1.diags ++ [d] ∧
      d.msg = errMathEnd ∧ d.line = countNl (PlainMath.render pre) + 1 ∧
      d.col = (afterLastNl (PlainMath.render pre)).length + 1 := by
  have e : body ++ ([] ++ PlainMath.render []) = body := by simp [PlainMath.render]
  have h := tex2txt_math_unterminated T o fs thresh pre body [] [] fuel st1 rot repls hdefs hextr hrepl
    hunkn hinit hok hm hrot hrepls hne hvis hls (by rw [e]; exact hf)
  simp only [refMath, List.append_nil, List.map_nil, List.length_nil, Nat.add_zero,
    PlainMath.render] at h
  exact h

theorem refMath_length (T : PTables) (repls : List Str) : ∀ (segs : List PlainMath.Seg) (k p : Nat),
    (refMath T repls k p segs).1.length = (refMath T repls k p segs).2.length
  | [], _, _ => rfl
  | .txt s :: rest, k, p => by
    simp [refMath, refMath_length T repls rest]
  | .math b :: rest, k, p => by
    simp [refMath, refMath_length T repls rest, Nat.add_assoc]

/-- **the mark is complete and sits at the problem**: in the situation of
    `tex2txt_math_unterminated` the plain text contains the whole mark `errMark` (which starts with
    `" " ++ T.mark ++ " "`) as one contiguous piece; the first of its characters is mapped to the `$`,
    all of them into the range from the `$` to the end of the source -/
theorem tex2txt_math_mark_complete (T : PTables) (o : Options) (fs : FS) (thresh : Nat)
    (pre : List PlainMath.Seg) (body w : Str) (post : List PlainMath.Seg)
    (fuel : Nat) (st1 : PState) (rot : Rot) (repls : List Str)
    (hdefs : o.defs = []) (hextr : o.extr = []) (hrepl : o.hasRepl = false) (hunkn : o.unkn = false)
    (hinit : initParser T fuel o (initialState T o false fs) = .ok ((), st1))
    (hok : OSegsOk T st1 (pre.map ofMath ++ .opn body w :: post.map ofMath))
    (hm : markVisible T.toTables = true)
    (hrot : rotOf st1 (curSettings st1) = some rot) (hrepls : rot.inl = repls)
    (hne : repls ≠ []) (hvis : VisibleRepls repls)
    (hls : (settingsOf T (curSettings st1)).isSome = true)
    (hf : (PlainMath.render pre ++ '$' :: (body ++ (w ++ PlainMath.render post))).length + 3 ≤ fuel) :
    let src := PlainMath.render pre ++ '$' :: (body ++ (w ++ PlainMath.render post))
    let P := (PlainMath.render pre).length
    ∃ r a b pa pm pb, tex2txt T fuel src o false thresh fs = .ok r ∧
      r.txt = a ++ errMark T.toTables errMathEnd ++ b ∧ r.pos = pa ++ pm ++ pb ∧
      pa.length = a.length ∧ pm.length = (errMark T.toTables errMathEnd).length ∧
      pm.head? = some (P + 1) ∧ (∀ q ∈ pm, P + 1 ≤ q ∧ q ≤ src.length) ∧
      (∃ v, errMark T.toTables errMathEnd = ' ' :: (T.mark ++ ' ' :: v)) := by
  intro src P
  obtain ⟨r, h, h1, h2, _⟩ := tex2txt_math_unterminated T o fs thresh pre body w post fuel st1 rot repls
    hdefs hextr hrepl hunkn hinit hok hm hrot hrepls hne hvis hls hf
  have hl2 := errMark_length_pos T.toTables errMathEnd
  have hmx : min (errMark T.toTables errMathEnd).length
      (body.length + w.length + (PlainMath.render post).length + 1) ≤ (errMark T.toTables errMathEnd).length :=
    Nat.min_le_left _ _
  have hmx1 : 1 ≤ min (errMark T.toTables errMathEnd).length
      (body.length + w.length + (PlainMath.render post).length + 1) := by omega
  have hmx2 : min (errMark T.toTables errMathEnd).length
      (body.length + w.length + (PlainMath.render post).length + 1)
      ≤ body.length + w.length + (PlainMath.render post).length + 1 := Nat.min_le_right _ _
  have hlen : src.length = P + (body.length + w.length + (PlainMath.render post).length + 1) := by
    simp only [src, P, List.length_append, List.length_cons]; omega
  generalize hmxv : min (errMark T.toTables errMathEnd).length
      (body.length + w.length + (PlainMath.render post).length + 1) = mx at hmx hmx1 hmx2 h2
  refine ⟨r, (refMath T repls 0 0 pre).1,
    openText T repls (nForm pre) body
      ++ (refMath T repls (openNext (nForm pre) body) (P + (body.length + 1 + w.length)) post).1,
    (refMath T repls 0 0 pre).2.map (· + 1),
    List.replicate mx (P + 1) ++ List.replicate ((errMark T.toTables errMathEnd).length - mx) (P + mx),
    List.replicate (openText T repls (nForm pre) body).length (P + 2 + leadBlanks body)
      ++ (refMath T repls (openNext (nForm pre) body) (P + (body.length + 1 + w.length)) post).2.map (· + 1),
    h, ?_, ?_, ?_, ?_, ?_, ?_, ?_⟩
  · rw [h1]; simp only [List.append_assoc]; rfl
  · rw [h2]; simp only [List.append_assoc]; rfl
  · simp [refMath_length]
  · simp only [List.length_append, List.length_replicate]; omega
  · obtain ⟨m, rfl⟩ : ∃ m, mx = m + 1 := ⟨mx - 1, by omega⟩
    simp [List.replicate_succ]
  · intro q hq
    simp only [List.mem_append, List.mem_replicate] at hq
    rcases hq with ⟨_, rfl⟩ | ⟨_, rfl⟩ <;> omega
  · unfold errMark
    cases T.toTables.markVerbose <;> simp

/-- **no text behind the paragraph break is lost**: if inert text `s` follows the paragraph break
    that cuts the open formula, every character of `s` is in the output, at its own position -/
theorem tex2txt_math_text_kept (T : PTables) (o : Options) (fs : FS) (thresh : Nat)
    (pre : List PlainMath.Seg) (body w s : Str)
    (fuel : Nat) (st1 : PState) (rot : Rot) (repls : List Str)
    (hdefs : o.defs = []) (hextr : o.extr = []) (hrepl : o.hasRepl = false) (hunkn : o.unkn = false)
    (hinit : initParser T fuel o (initialState T o false fs) = .ok ((), st1))
    (hok : OSegsOk T st1 (pre.map ofMath ++ [.opn body w, .txt s]))
    (hm : markVisible T.toTables = true)
    (hrot : rotOf st1 (curSettings st1) = some rot) (hrepls : rot.inl = repls)
    (hne : repls ≠ []) (hvis : VisibleRepls repls)
    (hls : (settingsOf T (curSettings st1)).isSome = true)
    (hf : (PlainMath.render pre ++ '$' :: (body ++ (w ++ s))).length + 3 ≤ fuel) :
    let src := PlainMath.render pre ++ '$' :: (body ++ (w ++ s))
    ∃ r a pa, tex2txt T fuel src o false thresh fs = .ok r ∧
      r.txt = a ++ s ∧ r.pos = pa ++ List.range' (src.length - s.length + 1) s.length ∧
      pa.length = a.length := by
  intro src
  have e : PlainMath.render [.txt s] = s := by simp [PlainMath.render, PlainMath.Seg.render]
  have h := tex2txt_math_unterminated T o fs thresh pre body w [.txt s] fuel st1 rot repls hdefs hextr
    hrepl hunkn hinit hok hm hrot hrepls hne hvis hls (by rw [e]; exact hf)
  simp only [e] at h
  obtain ⟨r, h0, h1, h2, _⟩ := h
  have hq : src.length - s.length = (PlainMath.render pre).length + (body.length + 1 + w.length) := by
    simp only [src, List.length_append, List.length_cons]; omega
  generalize hmxv : min (errMark T.toTables errMathEnd).length (body.length + w.length + s.length + 1)
    = mx at h2
  have hmx : mx ≤ (errMark T.toTables errMathEnd).length := by rw [← hmxv]; exact Nat.min_le_left _ _
  refine ⟨r, (refMath T repls 0 0 pre).1 ++ errMark T.toTables errMathEnd ++ openText T repls (nForm pre) body,
    (refMath T repls 0 0 pre).2.map (· + 1)
      ++ List.replicate mx ((PlainMath.render pre).length + 1)
      ++ List.replicate ((errMark T.toTables errMathEnd).length - mx) ((PlainMath.render pre).length + mx)
      ++ List.replicate (openText T repls (nForm pre) body).length
          ((PlainMath.render pre).length + 2 + leadBlanks body),
    h0, ?_, ?_, ?_⟩
  · rw [h1]
    simp only [refMath, List.append_nil]
  · rw [h2, hq]
    simp only [refMath, List.append_nil]
    congr 1
    simp [List.range'_eq_map_range, Nat.add_comm, Nat.add_left_comm, Function.comp_def]
  · simp only [List.length_append, List.length_map, List.length_replicate, refMath_length]
    omega

/-! ### the hypotheses can be met -/

namespace OpenExample
open PlainExample MathExample

/-- `"Let $x + 1$ be\nopen $ y, z\n\nNext $u$."` on the tiny tables of Proofs/PlainMath.lean -/
def preE : List PlainMath.Seg := [.txt "Let ".toList, .math "x + 1".toList, .txt " be\nopen ".toList]
def postE : List PlainMath.Seg := [.txt "Next ".toList, .math "u".toList, .txt ".".toList]
def segsE : List OSeg := preE.map ofMath ++ .opn " y, z".toList "\n\n".toList :: postE.map ofMath

example : orender segsE = "Let $x + 1$ be\nopen $ y, z\n\nNext $u$.".toList := by decide

theorem segsE_ok : OSegsOk tinyM stM segsE := by decide

theorem mark_visible : markVisible tinyM.toTables = true := by decide

/-- the end-to-end statement applies (39 characters, fuel 45): the first formula takes `C-C-C`, the
    open one `D-D-D` (no closing punctuation: the last maths character is `z`) behind the complete
    mark, which sits at the `$` of line 2, column 6 (offset 20); the placeholder at `y` (offset 22);
    the paragraph break is dropped; the formula behind it takes `B-B-B` -/
example : ∃ r, tex2txt tinyM 45 "Let $x + 1$ be\nopen $ y, z\n\nNext $u$.".toList oEn false 0 [] = .ok r ∧
    r.txt = "Let C-C-C be\nopen  LTERROR D-D-DNext B-B-B.".toList ∧
    r.pos = [1, 2, 3, 4, 6, 6, 6, 6, 6, 12, 13, 14, 15, 16, 17, 18, 19, 20,
             21, 21, 21, 21, 21, 21, 21, 21, 21, 23, 23, 23, 23, 23,
             29, 30, 31, 32, 33, 35, 35, 35, 35, 35, 37] ∧
    r.unknowns = [] ∧
    r.diags = [{ line := 2, col := 6, msg := "missing end of maths".toList }] := by
  obtain ⟨r, h, h1, h2, h3, h4, _⟩ := tex2txt_math_unterminated tinyM oEn [] 0 preE " y, z".toList
    "\n\n".toList postE 45 stM _ MathExample.repls rfl rfl rfl rfl
    (by with_unfolding_all rfl) segsE_ok mark_visible stM_rot rfl (by decide) repls_visible (by decide)
    (by decide)
  refine ⟨r, h, ?_, ?_, h3, ?_⟩
  · rw [h1]; decide
  · rw [h2]; decide
  · rw [h4]; decide

/-- the side conditions reject what they should: a paragraph break that is not maximal (white space
    left in front of it in the body, or behind it in the following text), a single line break as
    "paragraph break", an open formula without paragraph break that is not the last segment, maths
    material outside the class (`_`, `\\alpha`, `{`); they admit an empty body (a lone `$`), a
    blank body at the end of the text, white space and single line breaks in the body, several open
    formulas -/
example : osegsOk tinyM stM [.opn "x ".toList "\n\n".toList, .txt "y".toList] = false := by decide
example : osegsOk tinyM stM [.opn "x".toList "\n\n".toList, .txt " y".toList] = false := by decide
example : osegsOk tinyM stM [.opn "x".toList "\n".toList, .txt "y".toList] = false := by decide
example : osegsOk tinyM stM [.opn "x".toList [], .txt "y".toList] = false := by decide
example : osegsOk tinyM stM [.opn "x_1".toList []] = false := by decide
example : osegsOk tinyM stM [.opn "\\alpha".toList []] = false := by decide
example : osegsOk tinyM stM [.opn "{x".toList []] = false := by decide
example : osegsOk tinyM stM [.txt "Price: 5 ".toList, .opn [] []] = true := by decide
example : osegsOk tinyM stM [.txt "a ".toList, .opn " ".toList []] = true := by decide
example : osegsOk tinyM stM [.opn [] "\n\n".toList, .txt "y".toList] = true := by decide
example : osegsOk tinyM stM [.opn "a + b\n =c".toList " \n\t\n ".toList, .txt "y".toList] = true := by decide
example : osegsOk tinyM stM
    [.opn "x".toList "\n\n".toList, .opn "y".toList "\n\n".toList, .opn "z".toList []] = true := by decide

/-
  Recorded `#eval`s (real tables: `Generated.theTables`, `Generated.stDefault`, default options;
  the same texts and positions come out of /repo's `tex2txt.tex2txt`).

  * `"Abc $x+1 def ghi"` ↦ `"Abc  LATEXXXERROR C-C-C"`, positions
    `[1,2,3,4, 5×12, 16,16, 6×5]`, one diagnostic (line 1, column 5): the mark (14 characters) is
    longer than the rest of the source (12 characters), its last two characters are mapped to the last
    position 16 — the position list is NOT monotone (16, 16, 6, …).
  * `"Abc $x+1 def\n\nNext para."` ↦ `"Abc  LATEXXXERROR C-C-CNext para."`, positions
    `[1,2,3,4, 5×14, 6×5, 15,…,24]`: the paragraph break is dropped, `Next para.` keeps its positions.
  * `"Abc $"` ↦ `"Abc  LATEXXXERROR "` (positions `5×14`: one token `" "` at 5 and, as the rest of the
    source has one character only, a second token `"LATEXXXERROR "` at 5 + 1 - 1); `"Abc $ "` the same
    text with the positions `5, 5, 6×12`; `"Abc $\n\nNext para."` ↦ `"Abc  LATEXXXERROR Next para."`:
    no placeholder, the collection is not rotated.
  * `"Abc $a$\nfoo $x+1 def,\n\nNext $y$ para."` ↦ `"Abc C-C-C\nfoo  LATEXXXERROR D-D-D,Next E-E-E para."`
    = `orefSegs` (see `C08_math_unterminated_current` in Properties/PlainMathOpenStmt.lean).
  * `"$x\n\n$y\n\n$z"` ↦ `" LATEXXXERROR C-C-C LATEXXXERROR D-D-D LATEXXXERROR E-E-E"`, three diagnostics
    (lines 1, 3, 5, column 1) = `orefSegs` / `odiagsSegs`.
  * the fuel bound is tight: `parserWork T 5 "$ab" st1 = outOfFuel`, `parserWork T 6 "$ab" st1` is `ok`
    (one unit more than for `$ab$`: the section parser needs a further iteration to see the end of the
    buffer, and the loop one for the empty rest).
-/

end OpenExample

end PlainMathOpen
end Yalafi
