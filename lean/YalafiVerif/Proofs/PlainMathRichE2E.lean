/-
  Proofs/PlainMathRichE2E.lean — C10 for the FULL body class of the property, END TO END on the
  model: documents of inert text and inline formulas `$…$` / `\(…\)` whose bodies consist of letters,
  digits, ASCII operators, `^` `_`, braces (any nesting), undeclared control words (`\alpha`,
  `\frac`, `\sqrt`), maths-space tokens (`\,` `\;` `\:` `\ ` `~`) and punctuation.
  (Token level: Proofs/PlainMathRich.lean; documents, side conditions, scanner on a body:
  Proofs/PlainMathRichSrc.lean; statements: Properties/PlainMathRichStmt.lean.)

  The reference output (`refRich`): text segments are copied with their positions; the `k`-th
  formula of the document (k = 1, 2, …) with the maths tokens `m = mtoks T (offset of the body) body`
  is replaced by
        `fTxt T (placeholder repls k) m  =  leadSp m ++ placeholder repls k ++ punctM T m ++ trailSp m`
    `leadSp m`   one blank if the FIRST maths token is maths space (white space and ignored tokens
                 in front of it do not count), else nothing
    `placeholder repls k`   entry `k mod length` of the inline collection of the current language
    `punctM T m` the last character of the concatenated texts of the maths tokens that is no white
                 space (maths space has the text `" "`), if it is one of `math_punctuation`
    `trailSp m`  one blank if the LAST maths token is maths space
  and every character of the replacement carries the position `anchor m` of the first maths token of
  the body (NOT of the opening delimiter; NOT of the first token that is not maths space).

  Side conditions of `tex2txt_inline_rich`
    options / initialisation   no `--defs`, `--extr`, `--repl`, `--unkn`, single-language mode, `st1` =
                               state after `Parser.__init__`
    `SegsOk T st1 segs`        see Proofs/PlainMathRichSrc.lean
    `rotOf st1 (curSettings st1) = some rot`, `rot.inl = repls`, `repls ≠ []`
                               the inline collection of the current language (Python: `IndexError`
                               on an empty collection)
    `VisibleRepls repls`       no placeholder is blank or contains a line break: then every formula
                               leaves visible text and `remove_pure_action_lines` deletes nothing
    `(settingsOf T (curSettings st1)).isSome`   the language settings exist (Python: `KeyError`)
    fuel                       `(render segs).length + 2 ≤ fuel`
  NOT covered: formulas that consist only of maths space / ignored tokens / white space (the model
  emits one blank for `$\,$` and nothing for `${}$`, and does not rotate the collection); declared
  macros in formulas (`\quad`, `\qquad`, `\text`-like macros `\mbox{…}`: their expansion / argument is
  parsed); `\begin`/`\end` in formulas; a paragraph break in a formula; displayed formulas; touching
  formulas `$a$$b$`; mixed delimiters `$x\)` (the model accepts them: the section ends at the first
  `$` or `\)` — the token-level lemmas cover this, the document grammar does not offer it).
-/
import YalafiVerif.Proofs.PlainMathRichSrc
namespace Yalafi
namespace PlainMathRich

open M
open PlainMath (Piece flat nMath TokShape rotN VisibleRepls placeholder)
open PlainUnkn2 (MPart renderM)
open PlainMacro (scanSteps_step)

/-! ### the reference rendering of one formula -/

/-- a blank if the first maths token is maths space -/
def leadSp (m : List MT) : Str := if (m.head?.map (·.sp)).getD false then [' '] else []
/-- a blank if the last maths token is maths space -/
def trailSp (m : List MT) : Str := if (m.getLast?.map (·.sp)).getD false then [' '] else []
/-- the position of the first maths token -/
def anchor (m : List MT) : Nat := (m.head?.map (·.pos)).getD 0
/-- the concatenated texts of the maths tokens -/
def mText (m : List MT) : Str := m.flatMap (·.txt)
/-- the closing punctuation mark: the last character of `mText m` that is no white space, if it is
    one of the `math_punctuation` characters -/
def punctM (T : PTables) (m : List MT) : Str :=
  match lastNonBlank (mText m) with
  | some c => if T.mathPunctuation.contains [c] then [c] else []
  | none => []

/-- the text a formula with the maths tokens `m` is replaced by, `ph` being its placeholder -/
def fTxt (T : PTables) (ph : Str) (m : List MT) : Str := leadSp m ++ ph ++ punctM T m ++ trailSp m

theorem getTextDirect_math (mb : List Tok) (hm : ∀ t ∈ mb, isMathTok t = true) :
    getTextDirect mb = mText (mb.map toMT) := by
  unfold getTextDirect mText
  have : mb.filter (fun t => t.kind != Kind.comment) = mb := by
    rw [List.filter_eq_self]
    intro t ht
    have := hm t ht
    unfold isMathTok at this
    cases hk : t.kind <;> simp_all
  rw [this]
  clear this hm
  induction mb with
  | nil => rfl
  | cons a l ih => simp only [List.flatMap_cons, List.map_cons, ih]; rfl

/-- the token-level text `shapeTxt` and the anchor, read off the abstraction of the maths tokens -/
theorem shapeTxt_eq (T : PTables) (mb : List Tok) (ph : Str) (hm : ∀ t ∈ mb, isMathTok t = true)
    (hne : mb ≠ []) :
    shapeTxt T mb ph = fTxt T ph (mb.map toMT) ∧ (hdTok mb).pos = anchor (mb.map toMT) := by
  have h0 : mb.head? = some (hdTok mb) := by
    cases mb with
    | nil => exact absurd rfl hne
    | cons a l => rfl
  have hl : mb.getLast? = some (ltTok mb) := by
    unfold ltTok
    rw [List.getLast?_eq_some_getLast hne]; rfl
  have e1 : ((mb.map toMT).head?.map (·.sp)).getD false = ((hdTok mb).kind == .mathSpace) := by
    rw [List.head?_map, h0]; rfl
  have e2 : ((mb.map toMT).getLast?.map (·.sp)).getD false = ((ltTok mb).kind == .mathSpace) := by
    rw [List.getLast?_map, hl]; rfl
  have e3 : (partPunct T mb).toList = punctM T (mb.map toMT) := by
    unfold partPunct punctM
    rw [getTextDirect_math mb hm]
    cases lastNonBlank (mText (mb.map toMT)) with
    | none => rfl
    | some c => simp only []; split <;> rfl
  refine ⟨?_, ?_⟩
  · unfold shapeTxt fTxt leadSp trailSp
    rw [e1, e2, e3]
    simp only [beq_iff_eq]
  · unfold anchor
    rw [List.head?_map, h0]; rfl

/-! ### the reference output for a list of items -/

/-- the reference output (text, 0-based positions) for a list of items, `l` being the stored
    placeholder collection -/
def refItems (T : PTables) : List Str → List Item → Str × List Nat
  | _, [] => ([], [])
  | l, .chr c p :: rest => (c :: (refItems T l rest).1, p :: (refItems T l rest).2)
  | l, .math m :: rest =>
    (fTxt T ((rotL l).headD []) m ++ (refItems T (rotL l) rest).1,
     List.replicate (fTxt T ((rotL l).headD []) m).length (anchor m) ++ (refItems T (rotL l) rest).2)

/-- number of formulas -/
def nFormulas : List Item → Nat
  | [] => 0
  | .chr .. :: rest => nFormulas rest
  | .math .. :: rest => nFormulas rest + 1

theorem nFormulas_chrItems (items : List Item) : ∀ (s : Str) (p : Nat),
    nFormulas (chrItems p s ++ items) = nFormulas items
  | [], _ => rfl
  | c :: cs, p => by simp only [chrItems, List.cons_append, nFormulas, nFormulas_chrItems items cs (p + 1)]

theorem refItems_chrItems (T : PTables) (l : List Str) (items : List Item) :
    ∀ (s : Str) (p : Nat), refItems T l (chrItems p s ++ items)
      = (s ++ (refItems T l items).1, List.range' p s.length ++ (refItems T l items).2)
  | [], _ => rfl
  | c :: cs, p => by
    simp only [chrItems, List.cons_append, refItems, refItems_chrItems T l items cs (p + 1),
      List.length_cons, List.range'_succ]

/-! ### the scanner on a document -/

theorem okAtR_snd {T : PTables} {st : PState} {c : Char} {cs : Str} (h : okAtR T st c cs = true) :
    isSpace c = true ∨ (structuralChar c = false ∧ matchSpecial T.toTables (c :: cs) = none) := by
  simp only [okAtR, Bool.and_eq_true, Bool.or_eq_true] at h
  rcases h.2 with h | ⟨h1, h2⟩
  · exact Or.inl h
  · refine Or.inr ⟨by simpa using h1, ?_⟩
    cases hx : matchSpecial T.toTables (c :: cs) with
    | none => rfl
    | some _ => rw [hx] at h2; simp at h2

theorem firstTokTxtR_of_text (T : PTables) (c : Char) (cs : Str)
    (h : isSpace c = true ∨ matchSpecial T.toTables (c :: cs) = none) :
    firstTokTxtR T (c :: cs) = firstTokTxt (c :: cs) := by
  unfold firstTokTxtR firstTokTxt
  by_cases hsp : isSpace c = true
  · simp [hsp]
  · rcases h with h | h
    · exact absurd h hsp
    · simp [hsp, h]

/-- what the scanner loop yields on a well-formed source -/
structure ScanFacts (T : PTables) (st : PState) (rest : Str) (items : List Item)
    (steps : List ScanStep) : Prop where
  ok : ∀ s ∈ steps, s.diag = none ∧ s.extra = []
  pieces : ∃ ps, steps.map (·.tok) = flat ps ∧ PiecesOk T st ps ∧
    (∀ l, getTxtPos (outP T st l ps) = refItems T l items) ∧ nMath ps = nFormulas items ∧
    cost ps ≤ rest.length
  first : ∀ s ss, steps = s :: ss → s.tok.txt = firstTokTxtR T rest

theorem scanSteps_rich (T : PTables) (st : PState) (src : Str) :
    ∀ (n fuel pos : Nat) (rest : Str) (items : List Item),
    rest.length ≤ n → rest.length ≤ fuel → OkSrc T st pos rest items →
    (scanSteps T.toTables src fuel pos rest).2 = true ∧
    ScanFacts T st rest items (scanSteps T.toTables src fuel pos rest).1 := by
  intro n
  induction n with
  | zero =>
    intro fuel pos rest items hn _ hok
    cases rest with
    | nil =>
      cases hok
      exact ⟨by simp [scanSteps], by simp [scanSteps], ⟨[], by simp [scanSteps, flat], trivial,
        fun l => rfl, rfl, by simp [cost]⟩, by simp [scanSteps]⟩
    | cons c cs => simp at hn
  | succ n ih =>
    intro fuel pos rest items hn hf hok
    cases rest with
    | nil =>
      cases hok
      exact ⟨by simp [scanSteps], by simp [scanSteps], ⟨[], by simp [scanSteps, flat], trivial,
        fun l => rfl, rfl, by simp [cost]⟩, by simp [scanSteps]⟩
    | cons c cs =>
      obtain ⟨fuel, rfl⟩ : ∃ f, fuel = f + 1 := ⟨fuel - 1, by simp at hf; omega⟩
      have hok0 := hok
      cases hok with
      | chr _ _ _ items' hat hsub0 =>
        have hsnd := okAtR_snd hat
        obtain ⟨hp, hone⟩ := nextToken_text T src pos c cs hsnd
        generalize hs : nextToken T.toTables src pos (c :: cs) = s at hp hone
        have h1 := hp.len_pos
        have h2 := hp.len_le
        have hsub : ∃ items1, Item.chr c pos :: items' = chrItems pos ((c :: cs).take s.len) ++ items1 ∧
            OkSrc T st (pos + s.len) ((c :: cs).drop s.len) items1 := by
          by_cases hsp : isSpace c = true
          · refine OkSrc_drop_space T st s.len pos (c :: cs) _ h2 hok0 ?_
            intro x hx
            rw [← hp.txt, hp.first] at hx
            simp only [firstTokTxt, hsp, if_true] at hx
            exact mem_takeWhile_imp _ _ _ hx
          · have := (hone (by simpa using hsp)).1
            rw [this]
            exact ⟨items', rfl, hsub0⟩
        obtain ⟨items1, hitems1, hsub⟩ := hsub
        simp only [scanSteps, hs]
        rw [if_neg (by simp; omega)]
        have hl : ((c :: cs).drop s.len).length ≤ fuel := by
          simp only [List.length_drop]; simp only [List.length_cons] at hf h2 ⊢; omega
        have hl' : ((c :: cs).drop s.len).length ≤ n := by
          simp only [List.length_drop]; simp only [List.length_cons] at hn h2 ⊢; omega
        obtain ⟨i1, I⟩ := ih fuel (pos + s.len) ((c :: cs).drop s.len) items1 hl' hl hsub
        obtain ⟨ps', hflat, hpok, hout, hnm, hcost⟩ := I.pieces
        refine ⟨i1, ?_, ?_, ?_⟩
        · intro x hx
          rcases List.mem_cons.mp hx with rfl | hx
          · exact ⟨hp.diag, hp.extra⟩
          · exact I.ok x hx
        · refine ⟨.tok s.tok :: ps', by simp [flat, Piece.toks, hflat], ⟨hp.tok, ?_, ?_, hpok⟩, ?_,
            by rw [hitems1, nFormulas_chrItems]; exact hnm, ?_⟩
          · -- the short-macro branch
            rw [← hflat]
            have hact := hat
            simp only [okAtR, Bool.and_eq_true, Bool.or_eq_true, Bool.not_eq_true'] at hact
            rcases hact.1 with hna | ⟨hns, hk⟩
            · left
              have : s.tok.txt = c :: (cs.take (s.len - 1)) := by
                rw [hp.txt]
                obtain ⟨k, hk⟩ : ∃ k, s.len = k + 1 := ⟨s.len - 1, by omega⟩
                rw [hk]; simp
              rw [this]
              exact not_active_cons T st c _ hna
            · right
              have hlen := (hone hns).1
              have htxt : s.tok.txt = [c] := by rw [hp.txt, hlen]; rfl
              have i4 := I.first
              rw [hlen] at i4 ⊢
              simp only [List.drop_succ_cons, List.drop_zero] at i4 ⊢
              cases hr : (scanSteps T.toTables src fuel (pos + 1) cs).1 with
              | nil => rfl
              | cons s2 ss =>
                simp only [List.map_cons]
                apply expandShortMacro_none
                rw [htxt, i4 s2 ss hr]
                rcases hk with hk | hk
                · cases cs with
                  | nil => cases fuel <;> simp [scanSteps] at hr
                  | cons => simp at hk
                · simpa using hk
          · -- the shape of the token
            refine ⟨?_, ?_⟩
            · rw [hp.txt]
              intro h0
              have := congrArg List.length h0
              simp only [List.length_take, List.length_nil] at this
              omega
            · by_cases hsp : isSpace c = true
              · right
                refine ⟨?_, ?_⟩
                · have hs' : s = scanSpace pos (c :: cs) := by
                    rw [← hs]; simp [nextToken, hsp]
                  rw [hs']
                  simp only [scanSpace]; split
                  · exact Or.inl rfl
                  · exact Or.inr rfl
                · rw [hp.first]
                  simp only [firstTokTxt, hsp, if_true, isBlank, List.all_eq_true]
                  exact fun x hx => mem_takeWhile_imp _ _ _ hx
              · left
                have hsp' : isSpace c = false := by simpa using hsp
                have := hone hsp'
                refine ⟨this.2, ?_⟩
                rw [hp.txt, this.1]
                exact PlainMath.hasNl_single c hsp'
          · intro l
            rw [hitems1, refItems_chrItems]
            simp only [outP]
            rw [getTxtPos_cons_plain _ _ hp.fix, hout l, hp.pos, hp.txt]
          · simp only [cost, List.length_cons, List.length_drop] at hcost h2 ⊢
            omega
        · intro s' ss' he
          simp only [List.cons.injEq] at he
          rw [← he.1, hp.first]
          refine (firstTokTxtR_of_text T c cs ?_).symm
          rcases hsnd with h | h
          · exact Or.inl h
          · exact Or.inr h.2
      | math _ k _ tl X R m items' ho hd hm hvis hsub =>
        obtain ⟨o1, o2, o3⟩ := ho.facts
        have hnt := nextToken_spec T src pos c tl X o1 o2 o3 (delimAt_eq hd)
        have hXlen := MOk_len hm
        simp only [List.length_cons, List.length_append] at hf hn
        have hdrop : (c :: (tl ++ X)).drop (tl.length + 1) = X := by simp
        obtain ⟨bsteps, s2, B, hrun⟩ := scanSteps_rbody T st src k k (pos + (tl.length + 1)) X R m fuel
          (Nat.le_refl _) (by omega) hm
        have hBl := B.len
        obtain ⟨i1, I⟩ := ih (fuel - bsteps.length - 1) (pos + (tl.length + 1) + k) R items'
          (by omega) (by omega) hsub
        obtain ⟨ps', hflat, hpok, hout, hnm, hcost⟩ := I.pieces
        have hsteps : scanSteps T.toTables src (fuel + 1) pos (c :: (tl ++ X))
            = ({ tok := { kind := .special, pos := pos, txt := c :: tl }, len := tl.length + 1 } ::
                (bsteps ++ s2 ::
                  (scanSteps T.toTables src (fuel - bsteps.length - 1) (pos + (tl.length + 1) + k) R).1),
               (scanSteps T.toTables src (fuel - bsteps.length - 1) (pos + (tl.length + 1) + k) R).2) := by
          rw [scanSteps_step T.toTables src fuel pos _ _ _ hnt (by simp)]
          simp only [hdrop]
          rw [hrun]
        rw [hsteps]
        have hmath : ∀ t ∈ (bsteps.map (·.tok)).flatMap (mout T st), isMathTok t = true := by
          intro t ht
          obtain ⟨u, _, hu⟩ := List.mem_flatMap.mp ht
          exact mout_math T st u t hu
        have habs : ((bsteps.map (·.tok)).flatMap (mout T st)).map toMT = m := by
          rw [flatMap_mout_toMT, B.abs]
        have hmbne : (bsteps.map (·.tok)).flatMap (mout T st) ≠ [] := by
          intro e
          rw [e] at habs
          rw [← habs] at hvis
          simp at hvis
        refine ⟨i1, ?_, ?_, ?_⟩
        · intro x hx
          simp only [List.mem_cons, List.mem_append] at hx
          rcases hx with rfl | hx | rfl | hx
          · exact ⟨rfl, rfl⟩
          · exact ⟨(B.ok x hx).1, (B.ok x hx).2.1⟩
          · exact B.ok2
          · exact I.ok x hx
        · refine ⟨.math { kind := .special, pos := pos, txt := c :: tl } (bsteps.map (·.tok)) s2.tok :: ps',
            ?_, ?_, ?_, by simp only [nMath, nFormulas, hnm], ?_⟩
          · simp [flat, Piece.toks, hflat]
          · refine ⟨⟨Or.inl rfl, ho⟩, by rw [B.abs]; exact hvis, ?_, B.close, hpok⟩
            intro t ht
            obtain ⟨x, hx, rfl⟩ := List.mem_map.mp ht
            exact (B.ok x hx).2.2
          · intro l
            obtain ⟨e1, e2⟩ := shapeTxt_eq T _ ((rotL l).headD []) hmath hmbne
            simp only [outP, refItems]
            rw [getTxtPos_fOut, hout (rotL l), e1, e2, habs]
          · have := B.cost
            simp only [cost, List.length_cons, List.length_append]
            omega
        · intro s' ss' he
          simp only [List.cons.injEq] at he
          rw [← he.1]
          simp only [firstTokTxtR, o1, Bool.false_eq_true, if_false, delimAt_eq hd]

/-- `scan` on a well-formed source: no diagnostics; the token buffer consists of plain tokens and
    formulas; what the expander loop emits for it spells the reference output; the cost is at most
    one unit per character -/
theorem scan_rich (T : PTables) (st : PState) (src : Str) (items : List Item)
    (h : OkSrc T st 0 src items) :
    (scan T.toTables src).diags = [] ∧
    ∃ ps, (scan T.toTables src).toks = flat ps ∧ PiecesOk T st ps ∧
      (∀ l, getTxtPos (outP T st l ps) = refItems T l items) ∧ nMath ps = nFormulas items ∧
      cost ps ≤ src.length := by
  obtain ⟨_, F⟩ := scanSteps_rich T st src src.length src.length 0 src items (Nat.le_refl _)
    (Nat.le_refl _) h
  have he := flatten_tok_extra (scanSteps T.toTables src src.length 0 src).1 (fun s hs => (F.ok s hs).2)
  have hd := flatten_diag_nil (scanSteps T.toTables src src.length 0 src).1 (fun s hs => (F.ok s hs).1)
  obtain ⟨ps, h1, h2, h3, h4, h5⟩ := F.pieces
  simp only [scan]
  rw [he, hd]
  exact ⟨rfl, ps, h1, h2, h3, h4, h5⟩

/-! ### `parserWork`, `parse`, `tex2txt` -/

/-- **C10 on `parserWork`.**  On a well-formed source `parserWork` succeeds; text and positions of
    the result tokens are the reference output for the stored placeholder collection; the state
    changes only in the rotation records, and afterwards the record of the current language holds
    the collection rotated once per formula. -/
theorem parserWork_rich (T : PTables) (st : PState) (src : Str) (fuel : Nat) (items : List Item)
    (rot : Rot) (ls : LangSettings)
    (hf : src.length + 2 ≤ fuel) (h : OkSrc T st 0 src items)
    (hrot : rotOf st (curSettings st) = some rot) (hne : rot.inl ≠ []) (hvis : VisibleRepls rot.inl)
    (hls : settingsOf T (curSettings st) = some ls) :
    ∃ toks rots', parserWork T fuel src st = .ok (toks, { st with rots := rots' }) ∧
      getTxtPos toks = refItems T rot.inl items ∧
      rotOf { st with rots := rots' } (curSettings st)
        = some { rot with inl := rotN (nFormulas items) rot.inl } := by
  obtain ⟨f, rfl⟩ : ∃ f, fuel = f + 1 := ⟨fuel - 1, by omega⟩
  obtain ⟨hd, ps, hflat, hpok, hout, hnm, hlen⟩ := scan_rich T st src items h
  have hS : Same st { st with latex := src, nest := st.nest + 1 } := ⟨rfl, rfl, rfl, rfl⟩
  have hpok' : PiecesOk T { st with latex := src, nest := st.nest + 1 } ps := PiecesOk.congr hS hpok
  obtain ⟨st', h1, h2, h3⟩ := seq_rich T none ls ps f [] { st with latex := src, nest := st.nest + 1 }
    rot (by omega) hpok' hrot hne hls
  rw [List.nil_append, removeLines_outP T _ ps rot.inl hpok' hvis hne] at h1
  simp only [] at h1
  refine ⟨(outP T { st with latex := src, nest := st.nest + 1 } rot.inl ps).filter keepOut, st'.rots,
    ?_, ?_, ?_⟩
  · rw [parserWork.eq_2]
    refine (M.bind_ok _ _ _ _ _ (rfl : M.get st = _)).trans ?_
    refine (M.bind_ok _ _ _ _ _ (rfl : M.modify _ _ = _)).trans ?_
    refine (M.bind_ok _ _ _ _ _ (rfl : M.modify _ _ = _)).trans ?_
    refine (M.bind_ok _ _ _ _ _ (rfl : M.get _ = _)).trans ?_
    simp only [hd, List.append_nil]
    rw [skipPass_nocomment _ _ _ (fun t ht' => hpok.notComment t (by rw [← hflat]; exact ht'))]
    simp only []
    refine (M.bind_ok _ _ _ _ _ (rfl : (pure _ : M (List Tok)) _ = _)).trans ?_
    rw [hflat]
    refine (M.bind_ok _ _ _ _ _ h1).trans ?_
    refine (M.bind_ok _ _ _ _ _ (rfl : M.modify _ _ = _)).trans ?_
    show Outcome.ok _ = _
    rw [h2]
    simp only [Nat.add_sub_cancel]
  · rw [getTxtPos_filter_keepOut, outP_congr T st { st with latex := src, nest := st.nest + 1 } rfl, hout]
  · rw [← hnm, ← h3, h2]
    rfl

theorem parse_rich (T : PTables) (st : PState) (src : Str) (fuel : Nat) (items : List Item)
    (rot : Rot) (ls : LangSettings)
    (hf : src.length + 2 ≤ fuel) (h : OkSrc T st 0 src items)
    (hrot : rotOf st (curSettings st) = some rot) (hne : rot.inl ≠ []) (hvis : VisibleRepls rot.inl)
    (hls : settingsOf T (curSettings st) = some ls) :
    ∃ toks rots', parse T fuel src [] [] st
        = .ok (toks, { st with extracted := [], unknowns := [], foreign := false, nest := 0,
                               rots := rots' }) ∧
      getTxtPos toks = refItems T rot.inl items := by
  have hS : Same st { st with extracted := [], unknowns := [], foreign := false, nest := 0 } :=
    ⟨rfl, rfl, rfl, rfl⟩
  have h' : OkSrc T { st with extracted := [], unknowns := [], foreign := false, nest := 0 } 0 src items :=
    OkSrc.congr hS h
  obtain ⟨toks, rots', hw, ht, _⟩ := parserWork_rich T
    { st with extracted := [], unknowns := [], foreign := false, nest := 0 } src fuel items rot ls hf h'
    hrot hne hvis hls
  refine ⟨toks, rots', ?_, ht⟩
  unfold parse
  simp only [List.isEmpty_nil, Bool.not_true, Bool.false_eq_true, if_false, if_true]
  refine (M.bind_ok _ _ _ _ _ (rfl : M.modify _ _ = _)).trans ?_
  refine (M.bind_ok _ _ _ _ _ (rfl : (pure _ : M (List Tok)) _ = _)).trans ?_
  refine (M.bind_ok _ _ _ _ _ (rfl : M.modify _ _ = _)).trans ?_
  refine (M.bind_ok _ _ _ _ _ hw).trans ?_
  refine (M.bind_ok _ _ _ _ _ (rfl : M.get _ = _)).trans ?_
  show Outcome.ok _ = _
  simp

/-- the result record of `tex2txt` on a well-formed source (no `--defs`, `--extr`, `--repl`,
    `--unkn`; single-language mode) -/
theorem tex2txt_rich_src (T : PTables) (o : Options) (fs : FS) (thresh : Nat) (src : Str) (fuel : Nat)
    (st1 : PState) (items : List Item) (rot : Rot)
    (hdefs : o.defs = []) (hextr : o.extr = []) (hrepl : o.hasRepl = false) (hunkn : o.unkn = false)
    (hinit : initParser T fuel o (initialState T o false fs) = .ok ((), st1))
    (h : OkSrc T st1 0 src items)
    (hrot : rotOf st1 (curSettings st1) = some rot) (hne : rot.inl ≠ []) (hvis : VisibleRepls rot.inl)
    (hls : (settingsOf T (curSettings st1)).isSome = true)
    (hf : src.length + 2 ≤ fuel) :
    ∃ toks, tex2txt T fuel src o false thresh fs
        = .ok { toks := toks, txt := (refItems T rot.inl items).1,
                pos := (refItems T rot.inl items).2.map (· + 1), parts := [], unknowns := [],
                diags := st1.diags, foreign := false } := by
  obtain ⟨ls, hls⟩ := Option.isSome_iff_exists.mp hls
  obtain ⟨toks, rots', hp, ht⟩ := parse_rich T st1 src fuel items rot ls hf h hrot hne hvis hls
  refine ⟨toks, ?_⟩
  have hrun : (initParser T fuel o >>= fun _ => parse T fuel src o.defs
        (if o.extr.isEmpty then [] else (splitOn ',' o.extr []).map (fun s => '\\' :: s)))
        (initialState T o false fs)
      = .ok (toks, { st1 with extracted := [], unknowns := [], foreign := false, nest := 0,
                              rots := rots' }) := by
    refine (M.bind_ok _ _ _ _ _ hinit).trans ?_
    rw [hdefs, hextr]
    exact hp
  unfold tex2txt
  simp only []
  rw [hrun]
  simp only [hrepl, hunkn, Bool.not_false, if_true, Bool.false_eq_true, if_false, ht]

/-! ### the reference output of a document -/

/-- the length of a formula in the source -/
def mathLen (par : Bool) (body : List MPart) : Nat :=
  (opn par).length + ((renderM body).length + (cls par).length)

/-- the reference output (text, 0-based positions) of the segments that start at offset `p`, `k`
    formulas having been replaced before: text is copied with its positions; the next formula, with
    the maths tokens `m`, is replaced by `fTxt T (placeholder repls (k + 1)) m`, every character of
    which carries the position `anchor m` of the first maths token -/
def refRich (T : PTables) (repls : List Str) : Nat → Nat → List Seg → Str × List Nat
  | _, _, [] => ([], [])
  | k, p, .txt s :: rest =>
    (s ++ (refRich T repls k (p + s.length) rest).1,
     List.range' p s.length ++ (refRich T repls k (p + s.length) rest).2)
  | k, p, .math par body :: rest =>
    (fTxt T (placeholder repls (k + 1)) (mtoks T (p + (opn par).length) body)
        ++ (refRich T repls (k + 1) (p + mathLen par body) rest).1,
     List.replicate (fTxt T (placeholder repls (k + 1)) (mtoks T (p + (opn par).length) body)).length
          (anchor (mtoks T (p + (opn par).length) body))
        ++ (refRich T repls (k + 1) (p + mathLen par body) rest).2)

theorem refItems_itemsOf (T : PTables) (repls : List Str) (hne : repls ≠ []) :
    ∀ (segs : List Seg) (k p : Nat),
      refItems T (rotN k repls) (itemsOf T p segs) = refRich T repls k p segs
  | [], _, _ => rfl
  | .txt s :: rest, k, p => by
    simp only [itemsOf, refItems_chrItems, refRich, refItems_itemsOf T repls hne rest k]
  | .math par body :: rest, k, p => by
    simp only [itemsOf, refItems, refRich, ← PlainMath.rotN_succ, PlainMath.rotN_headD repls hne,
      refItems_itemsOf T repls hne rest (k + 1), mathLen]

/-- **C10 end to end, full body class.**  The document is a sequence of inert text segments and
    inline formulas `$body$` / `\(body\)` (`SegsOk`); `st1` is the state after `Parser.__init__`; no
    `--defs`, `--extr`, `--repl`, `--unkn`; single-language mode; `repls` is the inline placeholder
    collection stored for the current language, not empty, every entry a visible one-line text; the
    language settings exist.  With one unit of fuel per source character plus two, `tex2txt` succeeds,
    text and positions are `refRich`, nothing is reported as unknown and no diagnostic is added. -/
theorem tex2txt_inline_rich (T : PTables) (o : Options) (fs : FS) (thresh : Nat)
    (segs : List Seg) (fuel : Nat) (st1 : PState) (rot : Rot) (repls : List Str)
    (hdefs : o.defs = []) (hextr : o.extr = []) (hrepl : o.hasRepl = false) (hunkn : o.unkn = false)
    (hinit : initParser T fuel o (initialState T o false fs) = .ok ((), st1))
    (hok : SegsOk T st1 segs)
    (hrot : rotOf st1 (curSettings st1) = some rot) (hrepls : rot.inl = repls)
    (hne : repls ≠ []) (hvis : VisibleRepls repls)
    (hls : (settingsOf T (curSettings st1)).isSome = true)
    (hf : (render segs).length + 2 ≤ fuel) :
    ∃ r, tex2txt T fuel (render segs) o false thresh fs = .ok r ∧
      r.txt = (refRich T repls 0 0 segs).1 ∧
      r.pos = (refRich T repls 0 0 segs).2.map (· + 1) ∧
      r.unknowns = [] ∧ r.diags = st1.diags := by
  subst hrepls
  obtain ⟨toks, ht⟩ := tex2txt_rich_src T o fs thresh (render segs) fuel st1 (itemsOf T 0 segs) rot
    hdefs hextr hrepl hunkn hinit (OkSrc_of_segsOk T st1 segs 0 hok) hrot hne hvis hls hf
  have href := refItems_itemsOf T rot.inl hne segs 0 0
  simp only [rotN] at href
  exact ⟨_, ht, by rw [href], by rw [href], rfl, rfl⟩

/-! ### readings of the reference output -/

/-- **no character of the formula source appears**, except the closing punctuation mark: the text
    a formula is replaced by consists of characters of the placeholder, blanks, and at most one
    `math_punctuation` character -/
theorem fTxt_chars (T : PTables) (ph : Str) (m : List MT) :
    ∀ c ∈ fTxt T ph m, c ∈ ph ∨ c = ' ' ∨ T.mathPunctuation.contains [c] = true := by
  intro c hc
  unfold fTxt leadSp trailSp punctM at hc
  simp only [List.mem_append] at hc
  rcases hc with ((hc | hc) | hc) | hc
  · split at hc
    · simp only [List.mem_singleton] at hc; exact Or.inr (Or.inl hc)
    · simp at hc
  · exact Or.inl hc
  · split at hc
    · split at hc
      · rename_i hp
        simp only [List.mem_singleton] at hc
        subst hc; exact Or.inr (Or.inr hp)
      · simp at hc
    · simp at hc
  · split at hc
    · simp only [List.mem_singleton] at hc; exact Or.inr (Or.inl hc)
    · simp at hc

/-- the text segments of a document, concatenated -/
def textOf : List Seg → Str
  | [] => []
  | .txt s :: rest => s ++ textOf rest
  | .math .. :: rest => textOf rest

theorem placeholder_mem (repls : List Str) (hne : repls ≠ []) (k : Nat) : placeholder repls k ∈ repls := by
  have hpos : 0 < repls.length := List.length_pos_iff.mpr hne
  have hm : k % repls.length < repls.length := Nat.mod_lt _ hpos
  unfold placeholder
  rw [List.getD_eq_getElem?_getD, List.getElem?_eq_getElem hm]
  exact List.getElem_mem hm

/-- the output text consists of the characters of the text segments, of placeholders of the
    collection, blanks and `math_punctuation` characters: nothing else of a formula survives -/
theorem refRich_chars (T : PTables) (repls : List Str) (hne : repls ≠ []) :
    ∀ (segs : List Seg) (k p : Nat), ∀ c ∈ (refRich T repls k p segs).1,
      c ∈ textOf segs ∨ (∃ ph ∈ repls, c ∈ ph) ∨ c = ' ' ∨ T.mathPunctuation.contains [c] = true
  | [], _, _, c, hc => by simp [refRich] at hc
  | .txt s :: rest, k, p, c, hc => by
    simp only [refRich, List.mem_append] at hc
    rcases hc with hc | hc
    · exact Or.inl (by simp [textOf, hc])
    · rcases refRich_chars T repls hne rest k _ c hc with h | h
      · exact Or.inl (by simp [textOf, h])
      · exact Or.inr h
  | .math par body :: rest, k, p, c, hc => by
    simp only [refRich, List.mem_append] at hc
    rcases hc with hc | hc
    · rcases fTxt_chars T _ _ c hc with h | h
      · exact Or.inr (Or.inl ⟨_, placeholder_mem repls hne (k + 1), h⟩)
      · exact Or.inr (Or.inr h)
    · rcases refRich_chars T repls hne rest (k + 1) _ c hc with h | h
      · exact Or.inl (by simpa [textOf] using h)
      · exact Or.inr h

theorem charToks_pos : ∀ (s : Str) (p : Nat), ∀ x ∈ charToks p s, p ≤ x.pos ∧ x.pos < p + s.length
  | [], _, x, hx => by simp [charToks] at hx
  | c :: cs, p, x, hx => by
    simp only [charToks, List.mem_append] at hx
    rcases hx with hx | hx
    · split at hx
      · simp at hx
      · simp only [List.mem_singleton] at hx
        subst hx
        simp
    · have := charToks_pos cs (p + 1) x hx
      simp only [List.length_cons]
      omega

theorem mtoks_pos (T : PTables) : ∀ (parts : List MPart) (p : Nat),
    (∀ t, MPart.spec t ∈ parts → t ≠ []) →
    ∀ x ∈ mtoks T p parts, p ≤ x.pos ∧ x.pos < p + (renderM parts).length
  | [], _, _, x, hx => by simp [mtoks] at hx
  | .chars s :: r, p, hs, x, hx => by
    simp only [mtoks, List.mem_append] at hx
    simp only [renderM, MPart.render, List.length_append]
    rcases hx with hx | hx
    · have := charToks_pos s p x hx; omega
    · have := mtoks_pos T r (p + s.length) (fun t ht => hs t (by simp [ht])) x hx; omega
  | .cw name :: r, p, hs, x, hx => by
    simp only [mtoks, List.mem_cons] at hx
    simp only [renderM, MPart.render, List.length_append, List.length_cons]
    rcases hx with rfl | hx
    · simp; omega
    · have := mtoks_pos T r (p + (name.length + 1)) (fun t ht => hs t (by simp [ht])) x hx; omega
  | .spec t :: r, p, hs, x, hx => by
    simp only [mtoks, List.mem_append] at hx
    simp only [renderM, MPart.render, List.length_append]
    have htne : 0 < t.length := List.length_pos_iff.mpr (hs t (by simp))
    rcases hx with hx | hx
    · have : x.pos = p := by
        unfold specToks at hx
        split at hx
        · simp at hx
        · split at hx <;> (simp only [List.mem_singleton] at hx; subst hx; rfl)
      omega
    · have := mtoks_pos T r (p + t.length) (fun t' ht => hs t' (by simp [ht])) x hx; omega

theorem mpartsOk_spec_ne (T : PTables) (st : PState) : ∀ (parts : List MPart) (R : Str),
    mpartsOk T st parts R = true → ∀ t, MPart.spec t ∈ parts → t ≠ []
  | [], _, _, t, ht => by simp at ht
  | .chars s :: r, R, h, t, ht => by
    simp only [mpartsOk, Bool.and_eq_true] at h
    exact mpartsOk_spec_ne T st r R h.2 t (by simpa using ht)
  | .cw n :: r, R, h, t, ht => by
    simp only [mpartsOk, Bool.and_eq_true] at h
    exact mpartsOk_spec_ne T st r R h.2 t (by simpa using ht)
  | .spec t' :: r, R, h, t, ht => by
    simp only [mpartsOk, Bool.and_eq_true] at h
    simp only [List.mem_cons, MPart.spec.injEq] at ht
    rcases ht with rfl | ht
    · intro e; subst e; simp [mspecOkR] at h
    · exact mpartsOk_spec_ne T st r R h.2 t ht

/-- **all generated characters map inside the formula**: the position every character of the
    replacement carries — the anchor, the position of the first maths token — lies strictly between
    the delimiters: it is the offset of a character of the body -/
theorem anchor_inside (T : PTables) (st : PState) (par : Bool) (body : List MPart) (R : Str) (p : Nat)
    (h : mathOk T st par body R = true) :
    p + (opn par).length ≤ anchor (mtoks T (p + (opn par).length) body) ∧
    anchor (mtoks T (p + (opn par).length) body) < p + (opn par).length + (renderM body).length := by
  simp only [mathOk, Bool.and_eq_true] at h
  obtain ⟨⟨⟨_, h2⟩, h3⟩, _⟩ := h
  have hvis := mtoks_any T body (p + (opn par).length)
  rw [h3] at hvis
  cases hm : mtoks T (p + (opn par).length) body with
  | nil => rw [hm] at hvis; simp at hvis
  | cons x xs =>
    have := mtoks_pos T body (p + (opn par).length) (mpartsOk_spec_ne T st body _ h2) x
      (by rw [hm]; simp)
    simpa [anchor] using this

/-- the placeholders are taken cyclically: formula `k + length` gets the placeholder of formula `k` -/
theorem placeholder_cyclic (repls : List Str) (k : Nat) :
    placeholder repls (k + repls.length) = placeholder repls k := by
  unfold placeholder
  rw [Nat.add_mod_right]

/-- successive formulas get successive entries: the index of formula `k + 1` is the index of
    formula `k` plus one, cyclically -/
theorem placeholder_succ (repls : List Str) (k : Nat) :
    placeholder repls (k + 1) = repls.getD ((k % repls.length + 1) % repls.length) [] := by
  unfold placeholder
  rw [Nat.mod_add_mod]

/-- the first `length - 1` formulas get the entries 1, 2, … (entry 0 is used by formula `length`) -/
theorem placeholder_lt (repls : List Str) (k : Nat) (h : k < repls.length) :
    placeholder repls k = repls.getD k [] := by
  unfold placeholder
  rw [Nat.mod_eq_of_lt h]

end PlainMathRich
end Yalafi
