/-
  Proofs/PlainFaultArg.lean — C08 at a MANDATORY ARGUMENT THAT IS STILL OPEN AT THE END OF THE TEXT,
  end to end on the model, for (a) vanishing macros (`\label{…`, `\index{…`, …: one argument, thrown
  away) and (b) `\footnote{…` (argument extracted into a separate text flow).

  Document: `pre ++ \name{ ++ post` — `pre`, `post` inert text (`PlainFootnote.textOk`; so `post`
  contains no brace: the `{` is never closed).

  What the model (= `Parser.arg_buffer`, the recovery of "issue 23") does: the collecting loop runs
  to the end of the buffer; `latex_error('cannot find closing "}"', pos of the "{")`; the tokens
  `[ "{" ] ++ mark tokens ++ collected tokens` are PUSHED BACK and the argument that is returned
  consists of ONE fixed text token `" " ++ mark ++ " "` (without the message, also in verbose mode)
  at the `{`.  Hence
    * the macro is expanded with the mark as argument: a vanishing macro throws it away (Action +
      void tokens); `\footnote` extracts it — the mark appears A SECOND TIME, as its own text flow
      `"\n\n\n" ++ " " ++ mark ++ " " ++ "\n"` behind the main text, all characters at the `{`;
      (`\section{…`: the heading handler copies the argument and adds a full stop — the main text
      has `" MARK . MARK body"`; not stated);
    * then the loop meets the pushed-back tokens: `{` gives an Action token, the mark tokens and the
      collected text are copied: NO TEXT IS LOST, the argument text stays in the main flow at its
      own positions (for `\footnote` too — it is not moved into the flow).

  `collectArg_open`, `argBuffer_open`              the recovery
  `collectArgs_open_A`, `expandArguments_open_van`, `seq_open_van`       vanishing macro
  `collectArgs_open_OA`, `expandArguments_open_foot`, `seq_open_foot`    `\footnote`
  `scanRun_open`                                   scanner on `\name{`
  `tex2txt_arg_open_van`, `tex2txt_arg_open_foot`  end to end

  Side conditions (reasons)
    `pre`, `post`    inert text in their right context
    name             a control word (`macroChar`s), no special sequence matches at the backslash, none
                     of `\begin \end \item \verb \def`, no accent macro; `{` directly behind it,
                     scanned as special token `{`
    declaration      (a) `PlainVanish.vanDeclOk`: args `A`, no handler, no extraction, replacement at
                     most two void tokens; (b) `PlainFootnote.stateOk`: args `OA`, no handler, empty
                     replacement, extraction `#2`, single-language mode
    `noEmptyActive`, blank inactive   Action / void tokens and the mark tokens pass `expand_sequence`
    `markFine`       the mark (with message in verbose mode) is a visible one-line text: the line with
                     the two Action tokens is no "pure action line"; (b) also `T.mark` itself
  NOT covered: macros with a handler (`\section{`), several arguments, an open OPTIONAL argument
  (`\footnote[1`, message `cannot find closing "]"` — same recovery), white space between name and
  `{`, a `post` with macros, maths or balanced groups.
-/
import YalafiVerif.Proofs.PlainFaultBase
namespace Yalafi
namespace PlainFault

open M PlainMacro
open PlainFootnote (TextRun CopyTok lineC LinesOf)
open PlainAccent (ScanRun)
open PlainMathOpen (markPos)

/-- the message of the diagnostic: `cannot find closing "}"` -/
def errBrace : Str := errClosing ['}']

/-- the argument `arg_buffer` returns in its recovery: one fixed text token with the short mark -/
def markArg (T : Tables) (p : Nat) : Tok := mkFix .text p ([' '] ++ T.mark ++ [' '])

/-! ### the recovery of `arg_buffer` -/

theorem collectArg_open : ∀ (B acc : List Tok), (∀ t ∈ B, NoBrace t) →
    collectArg ['}'] 1 B acc = none
  | [], _, _ => rfl
  | t :: ts, acc, h => by
    obtain ⟨h1, h2⟩ := h t (List.mem_cons_self ..)
    simp only [collectArg, h1, h2, Bool.false_eq_true, if_false]
    rw [show ((1 : Int) == 0) = false by decide, Bool.and_false, if_neg (by simp)]
    exact collectArg_open ts (t :: acc) (fun x hx => h x (List.mem_cons_of_mem _ hx))

/-- **`arg_buffer` on `{` that is never closed**: the error is reported at the `{`; the returned
    argument is the short mark; the buffer is `{`, the mark tokens, everything collected -/
theorem argBuffer_open (T : Tables) (p : Nat) (B : List Tok) (start : Nat) (st : PState)
    (hB : ∀ t ∈ B, NoBrace t) :
    argBuffer T (lbr p :: B) start true st
      = .ok (([markArg T p], lbr p :: (latexErrorToks T errBrace p st.latex.length ++ B)),
             { st with diags := st.diags ++ [latexErrorDiag errBrace p st.latex] }) := by
  have hp : argBufferPure T.mark (lbr p :: B) start true
      = { arg := [markArg T p], buf := lbr p :: B, err := some errBrace, errPos := p } := by
    unfold argBufferPure
    rw [skipSpace_cons_of_not _ _ (by rfl)]
    have h1 : ((lbr p).kind == Kind.par) = false := by rfl
    have h2 : txtIsNV (lbr p) "{" = true := by simp [txtIsNV, lbr, isVerb]
    simp only [h1, h2, Bool.false_eq_true, if_false, Bool.not_true, Bool.and_false, if_true,
      collectArg_open B [] hB]
    rfl
  unfold argBuffer
  simp only [hp]
  rfl

/-! ### (a) a vanishing macro -/

theorem collectArgs_open_A (T : PTables) (mac : MacroDef) (p : Nat) (B : List Tok)
    (hB : ∀ t ∈ B, NoBrace t) (start : Nat) (st : PState) :
    collectArgs T mac ['A'] 0 (lbr p :: B) start {} st
      = .ok (({ args := [[markArg T.toTables p]], extr := [[markArg T.toTables p]], langs := [] },
              lbr p :: (latexErrorToks T.toTables errBrace p st.latex.length ++ B)),
             { st with diags := st.diags ++ [latexErrorDiag errBrace p st.latex] }) := by
  have hl : isSpaceTok (lbr p) = false := rfl
  rw [collectArgs]
  simp only [skippedLangs_cons_of_not _ _ hl, skipSpace_cons_of_not _ _ hl, List.append_nil,
    List.head?_cons, show ('A' == '*') = false by decide, show ('A' == 'O') = false by decide,
    beq_self_eq_true, if_true, show txtIsNV (lbr p) "}" = false by rfl, Bool.false_eq_true, if_false]
  refine (M.bind_ok _ _ _ _ _ (argBuffer_open T.toTables p B p st hB)).trans ?_
  rw [collectArgs]
  rfl

theorem expandArguments_open_van (T : PTables) (fuel : Nat) (mac : MacroDef)
    (hmac : PlainVanish.VanDecl mac) (p : Nat) (B : List Tok) (hB : ∀ t ∈ B, NoBrace t)
    (start : Nat) (st : PState) :
    expandArguments T (fuel + 1) (lbr p :: B) mac start st
      = .ok ((mkAction start :: mac.repl.map (restamp start),
              lbr p :: (latexErrorToks T.toTables errBrace p st.latex.length ++ B)),
             { st with diags := st.diags ++ [latexErrorDiag errBrace p st.latex] }) := by
  rw [expandArguments.eq_2, hmac.args]
  refine (M.bind_ok _ _ _ _ _ (collectArgs_open_A T mac p B hB start st)).trans ?_
  simp only [hmac.extract, hmac.handler, List.isEmpty_nil, Bool.not_true, Bool.false_eq_true, if_false,
    show (Handler.none != Handler.none) = false by decide,
    genRepl_noref [[markArg T.toTables p]] mac.repl start
      (fun t ht => PlainVanish.void_argRef (hmac.voids t ht).1)]
  simp
  rfl

theorem expandMacro_open_van (T : PTables) (fuel : Nat) (mac : MacroDef)
    (hmac : PlainVanish.VanDecl mac) (p : Nat) (B : List Tok) (hB : ∀ t ∈ B, NoBrace t)
    (tok : Tok) (st : PState) (hl : lookupMacro st tok.txt = some mac) :
    expandMacro T (fuel + 2) (lbr p :: B) tok false st
      = .ok ((mkAction tok.pos :: mac.repl.map (restamp tok.pos),
              lbr p :: (latexErrorToks T.toTables errBrace p st.latex.length ++ B)),
             { st with diags := st.diags ++ [latexErrorDiag errBrace p st.latex] }) := by
  rw [expandMacro.eq_2]
  refine (M.bind_ok _ _ _ _ _ (rfl : M.get st = _)).trans ?_
  simp only [hl, skipSpaceStopLang_cons_of_not _ _ (rfl : isSpaceTok (lbr p) = false)]
  exact expandArguments_open_van T fuel mac hmac p B hB tok.pos st

/-- what the loop emits for `\name{` of a vanishing macro with replacement `repl`: the Action token
    and the void tokens of the call, the Action token of the pushed-back `{`, the mark tokens -/
def openVanOut (T : Tables) (n p q : Nat) (repl : List Tok) : List Tok :=
  mkAction p :: (repl.map (restamp p) ++ (mkAction q :: latexErrorToks T errBrace q n))

/-- **the loop at `\name{` of a vanishing macro, the `{` never closed** -/
theorem seq_open_van (T : PTables) (g : Nat) (p q : Nat) (name : Str) (B : List Tok)
    (envStop : Option Str) (out : List Tok) (st : PState)
    (hn : PlainVanish.VanName st name) (hB : ∀ t ∈ B, NoBrace t)
    (ha : noEmptyActive T st = true) (hb : (activeChars T st).contains [' '] = false)
    (hq : q < st.latex.length) :
    ∃ g', g ≤ g' ∧
      expandSequence T (g + 7) (cwTok p name :: lbr q :: B) envStop out st
        = expandSequence T g' B envStop
            (out ++ openVanOut T.toTables st.latex.length p q (PlainVanish.replOf st name))
            { st with diags := st.diags ++ [latexErrorDiag errBrace q st.latex] } := by
  obtain ⟨hnd, m, hm, hmd⟩ := hn
  have D := PlainVanish.vanDecl hmd
  have hr : PlainVanish.replOf st name = m.repl := by simp [PlainVanish.replOf, hm]
  rw [hr]
  have hk : (cwTok p name).kind = .xmacro := rfl
  have hd : txtIs (cwTok p name) "\\def" = false := by
    simpa [txtIs, cwTok, sDef] using hnd
  generalize hst' : ({ st with diags := st.diags ++ [latexErrorDiag errBrace q st.latex] } : PState) = st'
  have ha' : noEmptyActive T st' = true := by
    rw [← hst']; exact (noEmptyActive_congr T st _ rfl).trans ha
  have hb' : (activeChars T st').contains [' '] = false := by
    rw [activeChars_congr T st st' (by rw [← hst'])]; exact hb
  have hlat : st'.latex = st.latex := by rw [← hst']
  have hlen := D.len
  obtain ⟨x, hx⟩ : ∃ x, g + 5 = (x + 3) + (m.repl.map (restamp p)).length :=
    ⟨g + 2 - m.repl.length, by simp; omega⟩
  obtain ⟨g', hg', hmark⟩ := seq_mark' T st' errBrace q st.latex.length hq hb' envStop B x
    ((out ++ [mkAction p]) ++ m.repl.map (restamp p) ++ [mkAction q])
  refine ⟨g', by simp at hx; omega, ?_⟩
  have hf : g + 7 = (g + 4) + 2 + 1 := by omega
  rw [hf, expandSequence.eq_3]
  show M.bind' M.get _ st = _
  simp only [M.bind', M.get]
  simp only [hk, hd, Bool.false_eq_true, if_false, if_true, reduceCtorEq, beq_iff_eq, beq_self_eq_true]
  refine (M.bind_ok _ _ _ _ _ (expandMacro_open_van T (g + 4) m D q B hB (cwTok p name) st hm)).trans ?_
  simp only [List.cons_append, show (cwTok p name).pos = p from rfl, hst']
  have hf2 : g + 4 + 2 = (g + 5) + 1 := by omega
  rw [hf2, seq_action_step T _ p _ envStop out st' ha', hx,
    PlainVanish.seq_void_run T envStop st' _ ha' (m.repl.map (restamp p)) (x + 3) (out ++ [mkAction p]) (by
      intro t ht
      obtain ⟨u, hu, rfl⟩ := List.mem_map.mp ht
      exact D.voids u hu)]
  rw [show x + 3 = (x + 2) + 1 by omega,
    seq_brace_step T (x + 2) (lbr q) _ envStop _ st' rfl (Or.inl rfl)]
  rw [show (lbr q).pos = q from rfl, hmark]
  simp [openVanOut, List.append_assoc]

/-! ### (b) `\footnote` -/

theorem collectArgs_open_OA (T : PTables) (mac : MacroDef) (p : Nat) (B : List Tok)
    (hB : ∀ t ∈ B, NoBrace t) (start : Nat) (st : PState) :
    collectArgs T mac ['O', 'A'] 0 (lbr p :: B) start {} st
      = .ok (({ args := [PlainFootnote.footDflt mac start, [markArg T.toTables p]],
                extr := [[], [markArg T.toTables p]], langs := [] },
              lbr p :: (latexErrorToks T.toTables errBrace p st.latex.length ++ B)),
             { st with diags := st.diags ++ [latexErrorDiag errBrace p st.latex] }) := by
  have hl : isSpaceTok (lbr p) = false := rfl
  have h1 : txtIsNV (lbr p) "[" = false := rfl
  have h2 : txtIsNV (lbr p) "}" = false := rfl
  simp only [collectArgs, skipSpace_cons_of_not _ _ hl, skippedLangs_cons_of_not _ _ hl, List.head?_cons,
    h1, h2, show ('O' == '*') = false by decide, show ('O' == 'O') = true by decide,
    show ('A' == '*') = false by decide, show ('A' == 'O') = false by decide,
    show ('A' == 'A') = true by decide, Bool.false_eq_true, if_false, if_true, List.append_nil,
    List.nil_append]
  refine (M.bind_ok _ _ _ _ _ (argBuffer_open T.toTables p B p st hB)).trans ?_
  rfl

/-- the short mark is a visible one-line text -/
def shortMarkFine (T : Tables) : Bool := !hasNl T.mark && !isBlank T.mark

theorem markArg_txt (T : Tables) (p : Nat) : (markArg T p).txt = ' ' :: (T.mark ++ [' ']) := rfl

theorem markArg_copy (T : PTables) (st : PState) (p : Nat)
    (hb : (activeChars T st).contains [' '] = false) (hm : shortMarkFine T.toTables = true) :
    CopyTok T st (markArg T.toTables p) := by
  simp only [shortMarkFine, Bool.and_eq_true, Bool.not_eq_true'] at hm
  refine ⟨plainTok_of_head _ ' ' _ (markArg_txt _ p) (Or.inl rfl) (by decide), ?_, ?_, ?_⟩
  · rw [markArg_txt]; exact not_active_cons T st ' ' _ hb
  · rw [markArg_txt]; simp
  · left
    refine ⟨rfl, ?_⟩
    rw [markArg_txt]
    simp only [hasNl, List.contains_cons, List.contains_append, List.contains_nil, Bool.or_false]
    have : hasNl T.mark = false := hm.1
    simp only [hasNl] at this
    rw [this]
    decide

theorem markArg_flowSafe (T : PTables) (p : Nat) (hm : shortMarkFine T.toTables = true) :
    PlainFootnote.FlowSafe [markArg T.toTables p] := by
  simp only [shortMarkFine, Bool.and_eq_true, Bool.not_eq_true'] at hm
  have hnl : hasNl (markArg T.toTables p).txt = false := by
    rw [markArg_txt]
    simp only [hasNl, List.contains_cons, List.contains_append, List.contains_nil, Bool.or_false]
    have : hasNl T.mark = false := hm.1
    simp only [hasNl] at this
    rw [this]
    decide
  have hbl : isBlank (markArg T.toTables p).txt = false := by
    rw [markArg_txt]
    have : isBlank T.mark = false := hm.2
    simp only [isBlank, List.all_cons, List.all_append] at this ⊢
    rw [this]
    simp
  apply PlainFootnote.flowSafe_of_lines [markArg T.toTables p] (markArg T.toTables p).txt
  · intro t ht
    simp only [List.mem_singleton] at ht
    subst ht
    rw [markArg_txt]; simp
  · intro σ tail ht
    simp only [List.map_cons, List.map_nil, List.cons_append, List.nil_append]
    rw [lineRun_txt _ rfl hnl σ tail ht, PlainFootnote.lineC_noNl _ σ hnl]
  · exact PlainFootnote.bodyLines_of_oneLine _ hnl hbl

/-- the state behind `\footnote{`: one more diagnostic, one more extracted flow -/
def footSt (T : Tables) (st : PState) (q : Nat) : PState :=
  { st with diags := st.diags ++ [latexErrorDiag errBrace q st.latex],
            extracted := st.extracted ++ [[markArg T q]],
            foreign := st.foreign || st.nest != 1 }

theorem expandArguments_open_foot (T : PTables) (fuel : Nat) (mac : MacroDef)
    (hm : PlainFootnote.MacroFacts mac) (p : Nat) (B : List Tok) (hB : ∀ t ∈ B, NoBrace t)
    (start : Nat) (st : PState) (hs : PlainFootnote.StateFacts T st)
    (hb : (activeChars T st).contains [' '] = false) (hmk : shortMarkFine T.toTables = true)
    (hf : 5 ≤ fuel) :
    expandArguments T (fuel + 1) (lbr p :: B) mac start st
      = .ok (([mkAction start], lbr p :: (latexErrorToks T.toTables errBrace p st.latex.length ++ B)),
             footSt T.toTables st p) := by
  obtain ⟨t, he, ht⟩ := hm.extract
  generalize hst' : ({ st with diags := st.diags ++ [latexErrorDiag errBrace p st.latex] } : PState) = st'
  have hs' : PlainFootnote.StateFacts T st' := by
    rw [← hst']; exact hs.congr rfl rfl rfl
  have hb' : (activeChars T st').contains [' '] = false := by
    rw [activeChars_congr T st st' (by rw [← hst'])]; exact hb
  rw [expandArguments.eq_2, hm.args]
  refine (M.bind_ok _ _ _ _ _ (collectArgs_open_OA T mac p B hB start st)).trans ?_
  rw [hst']
  simp only [he, hm.handler, hm.repl, PlainFootnote.genRepl_nil]
  rw [if_pos (by simp)]
  refine (M.bind_ok _ _ _ _ _ (rfl : M.get st' = _)).trans ?_
  simp only [PlainFootnote.genRepl_extract t ht [markArg T.toTables p] (markArg T.toTables p)
    (markArg T.toTables p) start rfl rfl]
  have hflow := PlainFootnote.seq_flow T st' start (curLang st') (markArg T.toTables p).pos
    (markArg T.toTables p).pos [markArg T.toTables p] fuel hs'
    (by intro x hx; simp only [List.mem_singleton] at hx; subst hx; exact markArg_copy T st' p hb' hmk)
    (markArg_flowSafe T p hmk) (by simp; omega)
  simp only [List.singleton_append] at hflow
  refine (M.bind_ok _ _ _ _ _ hflow).trans ?_
  refine (M.bind_ok _ _ _ _ _ (rfl : M.modify _ _ = _)).trans ?_
  rw [if_neg (by simp)]
  rw [← hst']
  rfl

/-- what the loop emits for `\footnote{` into the main flow -/
def openFootOut (T : Tables) (n p q : Nat) : List Tok :=
  mkAction p :: mkAction q :: latexErrorToks T errBrace q n

/-- **the loop at `\footnote{`, the `{` never closed** -/
theorem seq_open_foot (T : PTables) (g : Nat) (fn : Tok) (q : Nat) (B : List Tok)
    (envStop : Option Str) (out : List Tok) (st : PState)
    (hfn : PlainFootnote.FnTok fn) (hB : ∀ t ∈ B, NoBrace t)
    (hs : PlainFootnote.StateFacts T st) (hb : (activeChars T st).contains [' '] = false)
    (hmk : shortMarkFine T.toTables = true) (hq : q < st.latex.length) :
    ∃ g', g ≤ g' ∧
      expandSequence T (g + 10) (fn :: lbr q :: B) envStop out st
        = expandSequence T g' B envStop
            (out ++ openFootOut T.toTables st.latex.length fn.pos q) (footSt T.toTables st q) := by
  obtain ⟨mac, hmac, hmok⟩ := hs.mac
  have hm := PlainFootnote.macroFacts hmok
  have hdef : txtIs fn "\\def" = false := by
    simp only [txtIs, hfn.txt]; decide
  generalize hst' : footSt T.toTables st q = st'
  have ha' : noEmptyActive T st' = true := by
    rw [← hst']; exact (noEmptyActive_congr T st _ rfl).trans hs.nea
  have hb' : (activeChars T st').contains [' '] = false := by
    rw [activeChars_congr T st st' (by rw [← hst']; rfl)]; exact hb
  have hlat : st'.latex = st.latex := by rw [← hst']; rfl
  obtain ⟨g', hg', hmark⟩ := seq_mark' T st' errBrace q st.latex.length hq hb' envStop B (g + 5)
    ((out ++ [mkAction fn.pos]) ++ [mkAction q])
  refine ⟨g', by omega, ?_⟩
  have hsk : skipSpaceStopLangAct (lbr q :: B) = lbr q :: B :=
    skipSpaceStopLang_cons_of_not _ _ rfl
  have hexp : expandMacro T (g + 9) (lbr q :: B) fn false st
      = .ok (([mkAction fn.pos], lbr q :: (latexErrorToks T.toTables errBrace q st.latex.length ++ B)), st') := by
    rw [show g + 9 = (g + 7 + 1) + 1 by omega, expandMacro.eq_2]
    show M.bind' M.get _ st = _
    simp only [M.bind', M.get, hfn.txt, hmac, hsk]
    rw [← hst']
    exact expandArguments_open_foot T (g + 7) mac hm q B hB fn.pos st hs hb hmk (by omega)
  rw [show g + 10 = (g + 9) + 1 by omega, expandSequence.eq_3]
  show M.bind' M.get _ st = _
  simp only [M.bind', M.get]
  simp only [hfn.kind, hdef, Bool.false_eq_true, if_false, if_true, reduceCtorEq, beq_iff_eq,
    beq_self_eq_true]
  refine (M.bind_ok _ _ _ _ _ hexp).trans ?_
  simp only [List.singleton_append]
  rw [show g + 9 = (g + 8) + 1 by omega, seq_action_step T _ fn.pos _ envStop out st' ha',
    show g + 8 = (g + 7) + 1 by omega,
    seq_brace_step T (g + 7) (lbr q) _ envStop _ st' rfl (Or.inl rfl),
    show (lbr q).pos = q from rfl, show g + 7 = (g + 5) + 2 by omega, hmark]
  simp [openFootOut, List.append_assoc]

/-! ### the scanner on `\name{` -/

/-- the source of the open call -/
def openSrc (name : Str) : Str := '\\' :: (name ++ ['{'])

/-- the scanner steps of `\name{` -/
def openSteps (pos : Nat) (name : Str) : List ScanStep :=
  [{ tok := cwTok pos name, len := name.length + 1 }, { tok := lbr (pos + (name.length + 1)), len := 1 }]

/-- `\name{`, followed by `R`: a control word that is one macro token of the scanner, and the `{`
    is scanned as `{` -/
def openNameOk (T : PTables) (name R : Str) : Bool :=
  !name.isEmpty && name.all macroChar &&
  (matchSpecial T.toTables ('\\' :: (name ++ '{' :: R))).isNone &&
  ('\\' :: name) != sBegin && ('\\' :: name) != sEnd && ('\\' :: name) != sItem &&
  ('\\' :: name) != sVerb && !T.toTables.isAccent ('\\' :: name) && ('\\' :: name) != sDef &&
  braceAt T '{' R

structure OpenNameFacts (T : PTables) (name R : Str) : Prop where
  cw : CwFacts T ({ macros := [] } : PState) name ('{' :: R)
  b1 : braceAt T '{' R = true

theorem openNameFacts {T : PTables} {name R : Str} (h : openNameOk T name R = true) :
    OpenNameFacts T name R := by
  simp only [openNameOk, Bool.and_eq_true, bne_iff_ne, ne_eq, Bool.not_eq_true',
    Option.isNone_iff_eq_none, List.all_eq_true] at h
  obtain ⟨⟨⟨⟨⟨⟨⟨⟨⟨h1, h2⟩, h3⟩, h4⟩, h5⟩, h6⟩, h7⟩, h8⟩, h9⟩, h10⟩ := h
  refine ⟨⟨by simpa using h1, ?_, h3, h4, h5, h6, h7, h8, h9, rfl⟩, h10⟩
  exact takeWhile_append_stop _ _ _ (by rw [List.all_eq_true]; exact h2) rfl

theorem scanRun_open (T : PTables) (src : Str) (pos : Nat) (name R : Str) (F : OpenNameFacts T name R) :
    ScanRun T.toTables src (openSteps pos name) pos (openSrc name) R := by
  have r1 : ScanRun T.toTables src [{ tok := cwTok pos name, len := name.length + 1 }] pos
      ('\\' :: name) (['{'] ++ R) :=
    ScanRun.one _ _ _ '\\' name _ _ (nextToken_cw T _ src pos name _ F.cw) rfl
  have r2 : ScanRun T.toTables src [{ tok := lbr (pos + ('\\' :: name).length), len := 1 }]
      (pos + ('\\' :: name).length) ['{'] R :=
    ScanRun.one _ _ _ '{' [] _ _ (nextToken_brace T src _ '{' _ (Or.inl rfl) F.b1) rfl
  exact ScanRun.append r1 r2

theorem openSteps_toks (pos : Nat) (name : Str) :
    stepToks (openSteps pos name) = [cwTok pos name, lbr (pos + (name.length + 1))] ∧
    stepDiags (openSteps pos name) = [] := ⟨rfl, rfl⟩

/-! ### end to end: (a) a vanishing macro -/

/-- all side conditions on `pre ++ \name{ ++ post` for a vanishing macro -/
def argOpenVanOk (T : PTables) (st : PState) (pre name post : Str) : Bool :=
  PlainFootnote.textOk T st pre (openSrc name ++ post) &&
  PlainFootnote.textOk T st post [] &&
  openNameOk T name post &&
  (match lookupMacro st ('\\' :: name) with
   | some m => PlainVanish.vanDeclOk m
   | none => false) &&
  noEmptyActive T st && !(activeChars T st).contains [' '] && markFine T.toTables errBrace

/-- **C08 at an open mandatory argument of a vanishing macro, end to end.**
    `src = pre ++ \name{ ++ post` (`argOpenVanOk`).  Then `tex2txt` succeeds and

    * the text is `pre`, the COMPLETE mark `errMark` (once), `post` — the macro name and the `{` are
      dropped, the text behind the `{` is kept;
    * `pre` and `post` keep their own positions; the mark is mapped to the `{` (1-based `Q + 1`,
      `Q = |pre| + |\name|`; what does not fit in front of the end of the source to the last
      position: `markPos1`);
    * exactly one diagnostic is added: `cannot find closing "}"` at the line and column of the `{`;
      nothing is reported as unknown. -/
theorem tex2txt_arg_open_van (T : PTables) (o : Options) (fs : FS) (thresh : Nat)
    (pre name post : Str) (fuel : Nat) (st1 : PState)
    (hdefs : o.defs = []) (hextr : o.extr = []) (hrepl : o.hasRepl = false) (hunkn : o.unkn = false)
    (hinit : initParser T fuel o (initialState T o false fs) = .ok ((), st1))
    (hok : argOpenVanOk T st1 pre name post = true)
    (hf : (pre ++ (openSrc name ++ post)).length + 9 ≤ fuel) :
    let src := pre ++ (openSrc name ++ post)
    let Q := pre.length + (name.length + 1)
    let d := latexErrorDiag errBrace Q src
    ∃ r, tex2txt T fuel src o false thresh fs = .ok r ∧
      r.txt = pre ++ (errMark T.toTables errBrace ++ post) ∧
      r.pos = List.range' 1 pre.length ++ (markPos1 T.toTables errBrace src.length Q
        ++ List.range' (Q + 2) post.length) ∧
      r.unknowns = [] ∧ r.diags = st1.diags ++ [d] ∧
      d.msg = errBrace ∧ d.line = countNl (pre ++ '\\' :: name) + 1 ∧
      d.col = (afterLastNl (pre ++ '\\' :: name)).length + 1 := by
  intro src Q d
  simp only [argOpenVanOk, Bool.and_eq_true, Bool.not_eq_true'] at hok
  obtain ⟨⟨⟨⟨⟨⟨hpre, hpost⟩, hname⟩, hdecl⟩, hnea⟩, hblank⟩, hmark⟩ := hok
  have F := openNameFacts hname
  have hQn : Q < src.length := by
    simp only [src, Q, List.length_append, openSrc, List.length_cons, List.length_nil]; omega
  let stW := workState st1 src []
  obtain ⟨m, hm, hmd⟩ : ∃ m, lookupMacro stW ('\\' :: name) = some m ∧ PlainVanish.vanDeclOk m = true := by
    have e : lookupMacro stW ('\\' :: name) = lookupMacro st1 ('\\' :: name) := rfl
    rw [e]
    split at hdecl
    · exact ⟨_, ‹_›, hdecl⟩
    · cases hdecl
  have hvn : PlainVanish.VanName stW name := ⟨F.cw.nDef, m, hm, hmd⟩
  have D := PlainVanish.vanDecl hmd
  have hrepl' : PlainVanish.replOf stW name = m.repl := by simp [PlainVanish.replOf, hm]
  let stX : PState := { stW with diags := stW.diags ++ [latexErrorDiag errBrace Q src] }
  have hvoid : ∀ t ∈ m.repl.map (restamp pre.length), t.txt = [] ∧ keepIn t = false := by
    intro t ht
    obtain ⟨u, hu, rfl⟩ := List.mem_map.mp ht
    obtain ⟨k1, k2⟩ := D.voids u hu
    exact ⟨k2, by simp [keepIn, restamp, k2, isAction, isLang, k1]⟩
  obtain ⟨r, h, h1, h2, h3, h4⟩ := fault_frame T o fs thresh pre (openSrc name) post fuel st1 stX
    (openSteps pre.length name) (openVanOut T.toTables src.length pre.length Q m.repl) 7
    hdefs hextr hrepl hunkn hinit hpre (by simp [openSrc, show isSpace '\\' = false by decide])
    (scanRun_open T src pre.length name post F)
    (by simp [openSteps, openSrc])
    hpost
    (by
      intro t ht
      simp only [(openSteps_toks pre.length name).1, List.mem_cons, List.not_mem_nil, or_false] at ht
      rcases ht with rfl | rfl <;> simp [cwTok, lbr])
    rfl
    (by
      intro B hBc g out
      have hB : ∀ t ∈ B, NoBrace t := fun t ht => plainTok_noBrace (hBc t ht).plain
      obtain ⟨g', hg', hs⟩ := seq_open_van T g pre.length Q name B none out stW hvn hB
        ((noEmptyActive_congr T st1 stW rfl).trans hnea)
        (by rw [activeChars_congr T st1 stW rfl]; exact hblank) hQn
      refine ⟨g', hg', ?_⟩
      rw [(openSteps_toks pre.length name).1, (openSteps_toks pre.length name).2]
      rw [hrepl'] at hs
      exact hs)
    (by
      intro A B a b hA hB hAc hBc
      refine removeLines_vis A _ B a b hA hB (fun t ht => (hAc t ht).ne) (fun t ht => (hBc t ht).ne) ?_
      unfold openVanOut
      exact Vis.action _ (Vis.void_run _ (fun t ht => (hvoid t ht).2)
        (Vis.action _ (Vis.mark T.toTables errBrace Q src.length hmark))))
    (by omega)
  have hsplit : pre ++ (openSrc name ++ post) = (pre ++ '\\' :: name) ++ ('{' :: post) := by
    simp [openSrc]
  have hQ : Q = (pre ++ '\\' :: name).length := by simp [Q]
  obtain ⟨hl, hc⟩ := lineCol_after (pre ++ '\\' :: name) ('{' :: post)
  have htp : getTxtPos (openVanOut T.toTables src.length pre.length Q m.repl)
      = (errMark T.toTables errBrace, markPos T.toTables errBrace src.length Q) := by
    unfold openVanOut
    rw [show ∀ (x : Tok) (l : List Tok), x :: l = [x] ++ l from fun _ _ => rfl,
      getTxtPos_void_run [mkAction pre.length] (by simp [mkAction]),
      getTxtPos_void_run _ (fun t ht => (hvoid t ht).1),
      show ∀ (x : Tok) (l : List Tok), x :: l = [x] ++ l from fun _ _ => rfl,
      getTxtPos_void_run [mkAction Q] (by simp [mkAction]), PlainMathOpen.latexErrorToks_txtpos]
  refine ⟨r, h, ?_, ?_, h3, ?_, rfl, ?_, ?_⟩
  · rw [h1, htp]
    simp [flowsToks, stX, stW, workState, rootState, getTxtPos]
  · rw [h2, htp]
    simp only [markPos_map T.toTables errBrace src.length Q hQn]
    simp [flowsToks, stX, stW, workState, rootState, getTxtPos, Q, openSrc]
    omega
  · rw [h4]
    simp [stX, stW, workState, rootState, d]
  · show lineOf src Q = _
    rw [show src = (pre ++ '\\' :: name) ++ ('{' :: post) from hsplit, hQ]; exact hl
  · show colOf src Q = _
    rw [show src = (pre ++ '\\' :: name) ++ ('{' :: post) from hsplit, hQ]; exact hc

/-! ### end to end: (b) `\footnote` -/

/-- the name of `\footnote` without the backslash -/
def footName : Str := ['f', 'o', 'o', 't', 'n', 'o', 't', 'e']

/-- all side conditions on `pre ++ \footnote{ ++ post` -/
def argOpenFootOk (T : PTables) (st : PState) (pre post : Str) : Bool :=
  PlainFootnote.textOk T st pre (openSrc footName ++ post) &&
  PlainFootnote.textOk T st post [] &&
  openNameOk T footName post &&
  PlainFootnote.stateOk T st &&
  !(activeChars T st).contains [' '] && markFine T.toTables errBrace && shortMarkFine T.toTables

/-- the text flow that `parse` appends for the "footnote text" the recovery produced: three line
    breaks, the short mark, one line break -/
def footFlowTxt (T : Tables) : Str := [nl, nl, nl] ++ (' ' :: (T.mark ++ [' '])) ++ [nl]

/-- **C08 at an open argument of `\footnote`, end to end.**  `src = pre ++ \footnote{ ++ post`
    (`argOpenFootOk`).  Then `tex2txt` succeeds and

    * the text is `pre`, the COMPLETE mark `errMark`, `post` (the "footnote text" STAYS IN THE MAIN
      FLOW, at its own positions), and then the extracted flow `footFlowTxt`: three line breaks, the
      short mark `" " ++ T.mark ++ " "` A SECOND TIME, a line break — all mapped to the `{`;
    * the first mark is mapped to the `{` (`markPos1`); exactly one diagnostic is added:
      `cannot find closing "}"` at the line and column of the `{`; nothing is reported as unknown. -/
theorem tex2txt_arg_open_foot (T : PTables) (o : Options) (fs : FS) (thresh : Nat)
    (pre post : Str) (fuel : Nat) (st1 : PState)
    (hdefs : o.defs = []) (hextr : o.extr = []) (hrepl : o.hasRepl = false) (hunkn : o.unkn = false)
    (hinit : initParser T fuel o (initialState T o false fs) = .ok ((), st1))
    (hok : argOpenFootOk T st1 pre post = true)
    (hf : (pre ++ (openSrc footName ++ post)).length + 12 ≤ fuel) :
    let src := pre ++ (openSrc footName ++ post)
    let Q := pre.length + 9
    let d := latexErrorDiag errBrace Q src
    ∃ r, tex2txt T fuel src o false thresh fs = .ok r ∧
      r.txt = pre ++ (errMark T.toTables errBrace ++ (post ++ footFlowTxt T.toTables)) ∧
      r.pos = List.range' 1 pre.length ++ (markPos1 T.toTables errBrace src.length Q
        ++ (List.range' (Q + 2) post.length
        ++ List.replicate (footFlowTxt T.toTables).length (Q + 1))) ∧
      r.unknowns = [] ∧ r.diags = st1.diags ++ [d] ∧
      d.msg = errBrace ∧ d.line = countNl (pre ++ PlainFootnote.sFootnote) + 1 ∧
      d.col = (afterLastNl (pre ++ PlainFootnote.sFootnote)).length + 1 := by
  intro src Q d
  simp only [argOpenFootOk, Bool.and_eq_true, Bool.not_eq_true'] at hok
  obtain ⟨⟨⟨⟨⟨⟨hpre, hpost⟩, hname⟩, hstate⟩, hblank⟩, hmark⟩, hsmark⟩ := hok
  have F := openNameFacts hname
  have hQn : Q < src.length := by
    simp only [src, Q, List.length_append, openSrc, List.length_cons, List.length_nil, footName]
    omega
  let stW := workState st1 src []
  have hs : PlainFootnote.StateFacts T stW :=
    (PlainFootnote.stateFacts hstate).congr (st' := stW) rfl rfl rfl
  let stX : PState := footSt T.toTables stW Q
  have hfn : PlainFootnote.FnTok (cwTok pre.length footName) := ⟨rfl, rfl⟩
  obtain ⟨r, h, h1, h2, h3, h4⟩ := fault_frame T o fs thresh pre (openSrc footName) post fuel st1 stX
    (openSteps pre.length footName) (openFootOut T.toTables src.length pre.length Q) 10
    hdefs hextr hrepl hunkn hinit hpre (by simp [openSrc, show isSpace '\\' = false by decide])
    (scanRun_open T src pre.length footName post F)
    (by simp [openSteps, openSrc])
    hpost
    (by
      intro t ht
      simp only [(openSteps_toks pre.length footName).1, List.mem_cons, List.not_mem_nil, or_false] at ht
      rcases ht with rfl | rfl <;> simp [cwTok, lbr])
    rfl
    (by
      intro B hBc g out
      have hB : ∀ t ∈ B, NoBrace t := fun t ht => plainTok_noBrace (hBc t ht).plain
      obtain ⟨g', hg', hs'⟩ := seq_open_foot T g (cwTok pre.length footName) Q B none out stW hfn hB hs
        (by rw [activeChars_congr T st1 stW rfl]; exact hblank) hsmark hQn
      refine ⟨g', hg', ?_⟩
      rw [(openSteps_toks pre.length footName).1, (openSteps_toks pre.length footName).2]
      exact hs')
    (by
      intro A B a b hA hB hAc hBc
      refine removeLines_vis A _ B a b hA hB (fun t ht => (hAc t ht).ne) (fun t ht => (hBc t ht).ne) ?_
      unfold openFootOut
      exact Vis.action _ (Vis.action _ (Vis.mark T.toTables errBrace Q src.length hmark)))
    (by omega)
  have htp : getTxtPos (openFootOut T.toTables src.length pre.length Q)
      = (errMark T.toTables errBrace, markPos T.toTables errBrace src.length Q) := by
    unfold openFootOut
    rw [show ∀ (x : Tok) (l : List Tok), x :: l = [x] ++ l from fun _ _ => rfl,
      getTxtPos_void_run [mkAction pre.length] (by simp [mkAction]),
      show ∀ (x : Tok) (l : List Tok), x :: l = [x] ++ l from fun _ _ => rfl,
      getTxtPos_void_run [mkAction Q] (by simp [mkAction]), PlainMathOpen.latexErrorToks_txtpos]
  have hflow : getTxtPos (flowsToks stX.extracted)
      = (footFlowTxt T.toTables, List.replicate (footFlowTxt T.toTables).length Q) := by
    have e : stX.extracted = [[markArg T.toTables Q]] := rfl
    rw [e]
    have hfix : ∀ (q : Nat) (l : List Tok), (∀ t ∈ l, t.fix = true ∧ t.pos = q) →
        (getTxtPos l).2 = List.replicate (getTxtPos l).1.length q := by
      intro q l
      induction l with
      | nil => intro _; rfl
      | cons t ts ih =>
        intro hl
        obtain ⟨h1, h2⟩ := hl t (List.mem_cons_self ..)
        simp only [getTxtPos, tokPositions, h1, h2, if_true, List.length_append,
          ih (fun x hx => hl x (List.mem_cons_of_mem _ hx)), List.replicate_append_replicate]
    have hl : flowsToks [[markArg T.toTables Q]]
        = [mkFix .par Q [nl, nl, nl], markArg T.toTables Q, mkFix .space Q [nl]] := rfl
    have htxt : (getTxtPos (flowsToks [[markArg T.toTables Q]])).1 = footFlowTxt T.toTables := by
      rw [hl]; simp [getTxtPos, mkFix, markArg, footFlowTxt]
    rw [← htxt]
    refine Prod.ext rfl ?_
    rw [hl]
    exact hfix Q _ (by
      intro t ht
      simp only [List.mem_cons, List.not_mem_nil, or_false] at ht
      rcases ht with rfl | rfl | rfl <;> exact ⟨rfl, rfl⟩)
  refine ⟨r, h, ?_, ?_, h3, ?_, rfl, ?_, ?_⟩
  · rw [h1, htp, hflow]
  · rw [h2, htp, hflow]
    simp only [markPos_map T.toTables errBrace src.length Q hQn, List.map_replicate]
    simp [Q, openSrc, footName]
  · rw [h4]
    simp [stX, footSt, stW, workState, rootState, d]
  · have hsplit : src = (pre ++ PlainFootnote.sFootnote) ++ ('{' :: post) := by
      simp [src, openSrc, footName, PlainFootnote.sFootnote]
    have hQ : Q = (pre ++ PlainFootnote.sFootnote).length := by simp [Q, PlainFootnote.sFootnote]
    show lineOf src Q = _
    rw [hsplit, hQ]; exact (lineCol_after _ _).1
  · have hsplit : src = (pre ++ PlainFootnote.sFootnote) ++ ('{' :: post) := by
      simp [src, openSrc, footName, PlainFootnote.sFootnote]
    have hQ : Q = (pre ++ PlainFootnote.sFootnote).length := by simp [Q, PlainFootnote.sFootnote]
    show colOf src Q = _
    rw [hsplit, hQ]; exact (lineCol_after _ _).2

end PlainFault
end Yalafi
