/-
  Proofs/PlainFootnote.lean — C03 at `\footnote`, end to end on the model: "the text of a footnote
  is detached from the main flow: it does not appear where `\footnote` stands, and appears exactly
  once, after the main text, as a separate paragraph, in the order of the footnotes; every
  character of it maps to its own source position".

  Documents: sequences of inert text segments (cf. Proofs/Plain.lean) and `\footnote{body}` with an
  inert, non-empty body (line breaks allowed, see `footOk`), no optional argument, `{` directly
  behind the macro name.

  Model facts used: `\footnote` is a declared macro with argument codes `OA`, empty replacement and
  the extraction text `#2`.  `expandArguments` collects the arguments (`collectArgs`: no `[`, so the
  default is stored for `O`; `argBuffer` returns the tokens between the braces for `A`), builds
  `Language :: Action :: body ++ [Action]` with `generateReplacements`, expands it with
  `expandSequence` (single-language mode: the Language token vanishes; the two Action tokens are
  dropped by the blank-line removal at the end of that loop) and appends the result to
  `st.extracted`; the macro call itself yields one Action token at the position of `\footnote`.
  `parse` appends `[par "\n\n\n" @ first token] ++ flow ++ [space "\n" @ last token]` for every flow.

  `stateOk`, `footMacroOk`              the hypothesis on the initialised parser (computable)
  (1) `collectArgs_footnote`, `argBuffer_braced`, `collectArg_body`
  (2) `seq_flow`, `expandArguments_footnote`, `expandMacro_footnote`
  (3) `Piece`, `PiecesOk`, `outMain`, `flowsOf`, `seq_foot_step`, `seq_foot`   the loop
      `lineC`, `LinesOf`, `flowSafe_of_lines`, `removeLines_outMain`            blank-line removal
      `chrOk`, `textOk`, `TextRun`, `scanSteps_textrun`                         scanner on a text run
      `Seg`, `render`, `footOk`, `segsOk`, `lineS`, `linesOK`                   documents, conditions
      `mainOut`, `flowOut`, `flowsOut`, `refOut`, `lastTokOff`                  reference output
      `scanSteps_segs`, `scan_segs`, `parserWork_foot`
  (4) `parse_foot`
      `tex2txt_foot_record`, `tex2txt_footnote`                                 end to end
      `textOk_of_inertChar`, `bodyLines_of_oneLine`                             simple conditions

  Side conditions of `tex2txt_footnote` (reasons)
    options / initialisation   as in `tex2txt_plain_text`: no --defs, --extr, --repl, --unkn,
        single-language mode, `st1` = state after `Parser.__init__`
    `stateOk T st1`   `\footnote` is declared with args `OA`, no handler, empty replacement and an
        extraction text that is one reference to argument 2 (the default of the optional argument
        is irrelevant); `st1.multiLanguage = false` (Language tokens produce nothing); the empty
        string is no "active character" (else Action tokens would go to `expand_short_macro`).
        Holds for the real tables (`#eval`, see the end of the file).
    `segsOk T st1 segs`
      text / body characters (`chrOk`, in the full right context): no "active character" of the
        language settings (real tables: none for 'en'; `"` for 'de' is excluded — unlike
        `inertText` of Proofs/Plain.lean, which allows it where no short macro is completed:
        the token behind the last body character is `}` in the source but an Action token in the
        extraction buffer), and white space, or none of `% # \ $ { }` with no special sequence
        matching there (a lone `-` or `'` is fine);
      what follows a text segment does not start with white space (the white-space token would
        span the segment boundary: merge the segments — no loss of generality);
      `footOk`: no special sequence matches at the backslash, `\footnote` is no accent macro, both
        braces are scanned as brace tokens, the body is non-empty and inert in front of `}`
        (hence brace-free: the `}` is the one that closes the argument), and the body has visible
        text on its first and on its last line (`lineC (some true) body = some none`; the flow is
        expanded between two Action tokens, and `remove_pure_action_lines` deletes a first / last
        line that consists of white space only: `\footnote{ }` yields no text at all).  A body
        without line break that is not blank satisfies this (`bodyLines_of_oneLine`).  Line breaks
        and blank lines *inside* the body are allowed.
    `linesOK segs`   no line of the main text consists only of white space and footnotes with at
        least one footnote: such a line is a "pure action line" and is deleted together with its
        line break (`"x\n\footnote{a}\ny"` yields `"x\ny…"`).  Sufficient, not necessary.
    fuel   `(render segs).length + 2 ≤ fuel` (sufficient, not tight: a footnote costs
        `|body tokens| + 7` of its `|body| + 11` characters).
  Positions: the three line breaks of a separator are pinned to the first body character, the final
  line break to the start of the *last token* of the body (`lastTokOff`): its last character, or the
  start of the run of white space the body ends with.
  Not covered: optional argument `\footnote[n]{…}`, white space between `\footnote` and `{`,
  bodies with macros / braces / maths, multi-language mode.
-/
import YalafiVerif.Proofs.Plain
import YalafiVerif.Proofs.PlainUnknown
import YalafiVerif.Proofs.PlainSpecial
import YalafiVerif.Proofs.PlainMath
namespace Yalafi
namespace PlainFootnote

open M

/-! ### the declaration of `\footnote` and the state -/

def sFootnote : Str := ['\\', 'f', 'o', 'o', 't', 'n', 'o', 't', 'e']

theorem sFootnote_eq : sFootnote = "\\footnote".toList := by decide

/-- the declaration `Macro(parms, '\\footnote', args='OA', repl='', extract='#2')` as far as the
    expander looks at it: argument codes `OA`, no handler, empty replacement, and the extraction
    text is one argument reference to argument 2.  (The default value of the optional argument is
    irrelevant: the replacement is empty and the extraction uses the *given* arguments.) -/
def footMacroOk (m : MacroDef) : Bool :=
  m.args == ['O', 'A'] && m.handler == Handler.none && m.repl.isEmpty &&
  (match m.extract with | [t] => argRef t == some 2 | _ => false)

/-- the conditions on the initialised parser state: `\footnote` is declared as above,
    single-language mode (Language tokens produce nothing), and the empty string is no "active
    character" (otherwise Action tokens would be sent to `expand_short_macro`) -/
def stateOk (T : PTables) (st : PState) : Bool :=
  (match lookupMacro st sFootnote with | some m => footMacroOk m | none => false) &&
  !st.multiLanguage && noEmptyActive T st

structure StateFacts (T : PTables) (st : PState) : Prop where
  mac : ∃ m, lookupMacro st sFootnote = some m ∧ footMacroOk m = true
  single : st.multiLanguage = false
  nea : noEmptyActive T st = true

theorem stateFacts {T : PTables} {st : PState} (h : stateOk T st = true) : StateFacts T st := by
  simp only [stateOk, Bool.and_eq_true, Bool.not_eq_true'] at h
  obtain ⟨⟨h1, h2⟩, h3⟩ := h
  refine ⟨?_, h2, h3⟩
  cases hm : lookupMacro st sFootnote with
  | none => rw [hm] at h1; cases h1
  | some m => rw [hm] at h1; exact ⟨m, rfl, h1⟩

structure MacroFacts (m : MacroDef) : Prop where
  args : m.args = ['O', 'A']
  handler : m.handler = .none
  repl : m.repl = []
  extract : ∃ t, m.extract = [t] ∧ argRef t = some 2

theorem macroFacts {m : MacroDef} (h : footMacroOk m = true) : MacroFacts m := by
  simp only [footMacroOk, Bool.and_eq_true, beq_iff_eq, List.isEmpty_iff] at h
  obtain ⟨⟨⟨h1, h2⟩, h3⟩, h4⟩ := h
  refine ⟨h1, h2, h3, ?_⟩
  match hm : m.extract, h4 with
  | [t], h4 => exact ⟨t, rfl, by simpa using h4⟩

/-! ### the tokens -/

/-- the macro token of `\footnote` -/
structure FnTok (t : Tok) : Prop where
  kind : t.kind = .xmacro
  txt : t.txt = sFootnote

/-- the token of a brace -/
structure BraceTok (c : Char) (t : Tok) : Prop where
  kind : t.kind = .special ∨ t.kind = .text
  txt : t.txt = [c]

/-- a token that `expandSequence` copies in every context: plain, no "active character", and a
    one-line text token or a white-space token -/
structure CopyTok (T : PTables) (st : PState) (t : Tok) : Prop where
  plain : PlainTok t
  nact : (activeChars T st).contains t.txt = false
  shape : PlainMath.TokShape t

theorem CopyTok.congr {T : PTables} {st st' : PState} (hl : st'.langStack = st.langStack) {t : Tok}
    (h : CopyTok T st t) : CopyTok T st' t :=
  ⟨h.plain, by rw [activeChars_congr T st st' hl]; exact h.nact, h.shape⟩

/-! ### `arg_buffer` on `{body}` -/

theorem txtIsNV_plain (t : Tok) (h : PlainTok t) : txtIsNV t "{" = false ∧ txtIsNV t "}" = false := by
  have h6 := h.n6
  have h7 := h.n7
  simp only [txtIs] at h6 h7
  unfold txtIsNV
  rw [h6, h7]
  simp

theorem BraceTok.notVerb {c : Char} {t : Tok} (h : BraceTok c t) : isVerb t = false := by
  rcases h.kind with k | k <;> simp [isVerb, k]

theorem BraceTok.notSpace {c : Char} {t : Tok} (h : BraceTok c t) : isSpaceTok t = false := by
  rcases h.kind with k | k <;> simp [isSpaceTok, k]

/-- the collecting loop runs over a body of plain tokens up to the closing brace -/
theorem collectArg_body (rb : Tok) (rest : Buf) (hrb : BraceTok '}' rb) :
    ∀ (body acc : List Tok), (∀ t ∈ body, PlainTok t) →
      collectArg ['}'] 1 (body ++ rb :: rest) acc = some (acc.reverse ++ body, rest)
  | [], acc, _ => by
    have h1 : txtIsNV rb "{" = false := by simp [txtIsNV, hrb.txt]
    have h2 : txtIsNV rb "}" = true := by simp [txtIsNV, hrb.txt, hrb.notVerb]
    simp [collectArg, h1, h2, hrb.txt, hrb.notVerb]
  | t :: ts, acc, hb => by
    obtain ⟨h1, h2⟩ := txtIsNV_plain t (hb t (List.mem_cons_self ..))
    have ih := collectArg_body rb rest hrb ts (t :: acc) (fun x hx => hb x (List.mem_cons_of_mem _ hx))
    simp only [List.cons_append, collectArg, h1, h2, Bool.false_eq_true, if_false]
    rw [if_neg (by simp), ih]
    simp

/-- `arg_buffer` returns the body and the buffer behind the closing brace; no error -/
theorem argBuffer_braced (T : Tables) (lb rb : Tok) (body : List Tok) (rest : Buf) (start : Nat)
    (st : PState) (hlb : BraceTok '{' lb) (hrb : BraceTok '}' rb) (hb : ∀ t ∈ body, PlainTok t)
    (hne : body ≠ []) :
    argBuffer T (lb :: (body ++ rb :: rest)) start true st = .ok ((body, rest), st) := by
  have hsk : skipSpace (lb :: (body ++ rb :: rest)) = lb :: (body ++ rb :: rest) := by
    simp [skipSpace, hlb.notSpace]
  have hpar : (lb.kind == Kind.par) = false := by
    rcases hlb.kind with k | k <;> simp [k]
  have hnv : txtIsNV lb "{" = true := by simp [txtIsNV, hlb.txt, hlb.notVerb]
  have hpure : argBufferPure T.mark (lb :: (body ++ rb :: rest)) start true
      = { arg := body, buf := rest } := by
    simp only [argBufferPure, hsk, hpar, hnv, Bool.false_eq_true, if_false, Bool.not_true,
      Bool.and_false, if_true]
    rw [collectArg_body rb rest hrb body [] hb]
    simp [hne]
  unfold argBuffer
  simp only [hpure]
  rfl

/-! ### (1) `collectArgs` for `OA` on `{body}` -/

theorem skippedLangs_brace {c : Char} (lb : Tok) (X : Buf) (h : BraceTok c lb) :
    skippedLangs (lb :: X) = [] := by
  simp [skippedLangs, h.notSpace]

theorem skipSpace_brace {c : Char} (lb : Tok) (X : Buf) (h : BraceTok c lb) :
    skipSpace (lb :: X) = lb :: X := by
  simp [skipSpace, h.notSpace]

/-- the value `collectArgs` stores for the missing optional argument (never used) -/
def footDflt (mac : MacroDef) (start : Nat) : List Tok :=
  match mac.defaults[0]? with
  | some d => d.map (fun t => { t with pos := start, fix := true })
  | none => []

theorem collectArgs_footnote (T : PTables) (mac : MacroDef) (lb rb : Tok) (body : List Tok)
    (rest : Buf) (start : Nat) (st : PState) (hlb : BraceTok '{' lb) (hrb : BraceTok '}' rb)
    (hb : ∀ t ∈ body, PlainTok t) (hne : body ≠ []) :
    collectArgs T mac ['O', 'A'] 0 (lb :: (body ++ rb :: rest)) start {} st
      = .ok (({ args := [footDflt mac start, body], extr := [[], body], langs := [] }, rest), st) := by
  have h1 : txtIsNV lb "[" = false := by simp [txtIsNV, hlb.txt]
  have h2 : txtIsNV lb "}" = false := by simp [txtIsNV, hlb.txt]
  simp only [collectArgs, skipSpace_brace lb _ hlb, skippedLangs_brace lb _ hlb, List.head?_cons,
    h1, h2, show ('O' == '*') = false by decide, show ('O' == 'O') = true by decide,
    show ('A' == '*') = false by decide, show ('A' == 'O') = false by decide,
    show ('A' == 'A') = true by decide, Bool.false_eq_true, if_false, if_true, List.append_nil,
    List.nil_append]
  refine (M.bind_ok _ _ _ _ _ (argBuffer_braced T.toTables lb rb body rest lb.pos st hlb hrb hb hne)).trans ?_
  rfl

/-! ### the extracted flow -/

/-- a Language token is dropped in single-language mode -/
theorem seq_lang_step (T : PTables) (fuel : Nat) (p : Nat) (l : Str) (b h k : Bool) (rest : Buf)
    (envStop : Option Str) (out : List Tok) (st : PState) (hs : st.multiLanguage = false) :
    expandSequence T (fuel + 1) (mkLang p l b h k :: rest) envStop out st
      = expandSequence T fuel rest envStop out st := by
  rw [expandSequence.eq_3]
  show M.bind' M.get _ st = _
  simp only [M.bind', M.get]
  have n1 : txtIs (mkLang p l b h k) "$" = false := by simp [txtIs, mkLang]
  have n2 : txtIs (mkLang p l b h k) "\\(" = false := by simp [txtIs, mkLang]
  have n3 : txtIs (mkLang p l b h k) "$$" = false := by simp [txtIs, mkLang]
  have n4 : txtIs (mkLang p l b h k) "\\[" = false := by simp [txtIs, mkLang]
  have n5 : txtIs (mkLang p l b h k) "\\\\" = false := by simp [txtIs, mkLang]
  have n6 : txtIs (mkLang p l b h k) "{" = false := by simp [txtIs, mkLang]
  have n7 : txtIs (mkLang p l b h k) "}" = false := by simp [txtIs, mkLang]
  have hk : (mkLang p l b h k).kind = .lang l b h k := rfl
  simp only [hk, n1, n2, n3, n4, n5, n6, n7, hs, Bool.or_self, Bool.false_eq_true, if_false,
    reduceCtorEq, beq_iff_eq, if_true]

/-- a prefix of tokens that are copied -/
theorem seq_copy_prefix (T : PTables) (st : PState) (envStop : Option Str) (rest : Buf) :
    ∀ (toks : List Tok) (fuel : Nat) (out : List Tok), (∀ t ∈ toks, CopyTok T st t) →
      expandSequence T (fuel + toks.length) (toks ++ rest) envStop out st
        = expandSequence T fuel rest envStop (out ++ toks) st
  | [], fuel, out, _ => by simp
  | t :: ts, fuel, out, h => by
    have ht := h t (List.mem_cons_self ..)
    show expandSequence T (fuel + ts.length + 1) (t :: (ts ++ rest)) envStop out st = _
    rw [seq_plain_step T _ t _ envStop out st ht.plain (Or.inl ht.nact),
      seq_copy_prefix T st envStop rest ts fuel (out ++ [t]) (fun x hx => h x (List.mem_cons_of_mem _ hx))]
    simp

/-- the blank-line removal leaves exactly the body of a flow (`FlowSafe`: see `flowSafe_of_lines`) -/
def FlowSafe (b : List Tok) : Prop :=
  ∀ p q, removeLines (mkAction p :: (b ++ [mkAction q])) = some b

/-- the expansion of the extraction text: the Language token vanishes, the two Action tokens are
    dropped by the blank-line removal, the state is unchanged -/
theorem seq_flow (T : PTables) (st : PState) (start : Nat) (l : Str) (p q : Nat) (b : List Tok)
    (fuel : Nat) (hs : StateFacts T st) (hb : ∀ t ∈ b, CopyTok T st t) (hsafe : FlowSafe b)
    (hf : b.length + 4 ≤ fuel) :
    expandSequence T fuel (mkLang start l false true true :: mkAction p :: (b ++ [mkAction q])) none [] st
      = .ok ((b, []), st) := by
  obtain ⟨g, rfl⟩ : ∃ g, fuel = ((g + 1 + 1) + b.length) + 1 + 1 := ⟨fuel - (b.length + 4), by omega⟩
  rw [seq_lang_step T _ start l false true true _ none [] st hs.single,
    seq_action_step T _ p _ none [] st hs.nea,
    seq_copy_prefix T st none [mkAction q] b (g + 1 + 1) _ hb,
    seq_action_step T _ q _ none _ st hs.nea, expandSequence.eq_2]
  have := hsafe p q
  simp only [List.nil_append, List.cons_append] at this ⊢
  rw [this]
  rfl

/-! ### (2) `expandArguments` for the footnote macro -/

theorem genRepl_nil (args : List (List Tok)) (start : Nat) :
    generateReplacements args [] start = some [] := rfl

theorem genRepl_extract (t : Tok) (ht : argRef t = some 2) (b : List Tok) (h l : Tok) (start : Nat)
    (hh : b.head? = some h) (hl : b.getLast? = some l) :
    generateReplacements [[], b] [t] start = some (mkAction h.pos :: (b ++ [mkAction l.pos])) := by
  simp [generateReplacements, initCurPos, genReplLoop, ht, pyIndex, hh, hl]

theorem expandArguments_footnote (T : PTables) (fuel : Nat) (mac : MacroDef) (lb rb : Tok)
    (body : List Tok) (rest : Buf) (start : Nat) (st : PState) (hm : MacroFacts mac)
    (hs : StateFacts T st) (hlb : BraceTok '{' lb) (hrb : BraceTok '}' rb)
    (hb : ∀ t ∈ body, CopyTok T st t) (hne : body ≠ []) (hsafe : FlowSafe body)
    (hf : body.length + 4 ≤ fuel) :
    expandArguments T (fuel + 1) (lb :: (body ++ rb :: rest)) mac start st
      = .ok (([mkAction start], rest),
             { st with extracted := st.extracted ++ [body], foreign := st.foreign || st.nest != 1 }) := by
  obtain ⟨t, he, ht⟩ := hm.extract
  obtain ⟨h, hh⟩ : ∃ h, body.head? = some h := by
    cases body with
    | nil => exact absurd rfl hne
    | cons a _ => exact ⟨a, rfl⟩
  obtain ⟨l, hl⟩ : ∃ l, body.getLast? = some l := by
    cases hx : body.getLast? with
    | none => rw [List.getLast?_eq_none_iff] at hx; exact absurd hx hne
    | some a => exact ⟨a, rfl⟩
  rw [expandArguments.eq_2, hm.args]
  refine (M.bind_ok _ _ _ _ _ (collectArgs_footnote T mac lb rb body rest start st hlb hrb
    (fun x hx => (hb x hx).plain) hne)).trans ?_
  simp only [he, hm.handler, hm.repl, genRepl_nil]
  rw [if_pos (by simp)]
  refine (M.bind_ok _ _ _ _ _ (rfl : M.get st = _)).trans ?_
  simp only [genRepl_extract t ht body h l start hh hl]
  refine (M.bind_ok _ _ _ _ _ (seq_flow T st start _ h.pos l.pos body fuel hs hb hsafe hf)).trans ?_
  refine (M.bind_ok _ _ _ _ _ (rfl : M.modify _ _ = _)).trans ?_
  rw [if_neg (by simp)]
  rfl

/-- the state after one footnote: the body is appended to the extracted flows (ghost flag:
    `foreign` is set unless the root document is being parsed) -/
def addFlow (st : PState) (b : List Tok) : PState :=
  { st with extracted := st.extracted ++ [b], foreign := st.foreign || st.nest != 1 }

theorem expandMacro_footnote (T : PTables) (fuel : Nat) (mac : MacroDef) (fn lb rb : Tok)
    (body : List Tok) (rest : Buf) (st : PState) (hfn : FnTok fn)
    (hmac : lookupMacro st sFootnote = some mac) (hm : MacroFacts mac)
    (hs : StateFacts T st) (hlb : BraceTok '{' lb) (hrb : BraceTok '}' rb)
    (hb : ∀ t ∈ body, CopyTok T st t) (hne : body ≠ []) (hsafe : FlowSafe body)
    (hf : body.length + 4 ≤ fuel) :
    expandMacro T (fuel + 2) (lb :: (body ++ rb :: rest)) fn false st
      = .ok (([mkAction fn.pos], rest), addFlow st body) := by
  have hsk : skipSpaceStopLangAct (lb :: (body ++ rb :: rest)) = lb :: (body ++ rb :: rest) := by
    simp [skipSpaceStopLangAct, hlb.notSpace]
  rw [expandMacro.eq_2]
  show M.bind' M.get _ st = _
  simp only [M.bind', M.get, hfn.txt, hmac, hsk]
  exact expandArguments_footnote T fuel mac lb rb body rest fn.pos st hm hs hlb hrb hb hne hsafe hf

/-- (3) one footnote in the loop: three iterations' worth of fuel for the macro token, its
    expansion and the Action token that replaces it; the flow is appended to `extracted` -/
theorem seq_foot_step (T : PTables) (fuel : Nat) (fn lb rb : Tok) (body : List Tok) (rest : Buf)
    (envStop : Option Str) (out : List Tok) (st : PState) (hfn : FnTok fn)
    (hs : StateFacts T st) (hlb : BraceTok '{' lb) (hrb : BraceTok '}' rb)
    (hb : ∀ t ∈ body, CopyTok T st t) (hne : body ≠ []) (hsafe : FlowSafe body)
    (hf : body.length + 4 ≤ fuel) :
    expandSequence T (fuel + 3) (fn :: lb :: (body ++ rb :: rest)) envStop out st
      = expandSequence T (fuel + 1) rest envStop (out ++ [mkAction fn.pos]) (addFlow st body) := by
  obtain ⟨mac, hmac, hmok⟩ := hs.mac
  have hm := macroFacts hmok
  have hdef : txtIs fn "\\def" = false := by
    simp only [txtIs, hfn.txt]; decide
  rw [expandSequence.eq_3]
  show M.bind' M.get _ st = _
  simp only [M.bind', M.get]
  simp only [hfn.kind, hdef, Bool.false_eq_true, if_false, if_true, reduceCtorEq, beq_iff_eq,
    beq_self_eq_true]
  refine (M.bind_ok _ _ _ _ _ (expandMacro_footnote T fuel mac fn lb rb body rest st hfn hmac hm hs
    hlb hrb hb hne hsafe hf)).trans ?_
  simp only [List.singleton_append]
  exact seq_action_step T (fuel + 1) fn.pos _ envStop out _ (by
    have : noEmptyActive T (addFlow st body) = noEmptyActive T st := noEmptyActive_congr T st _ rfl
    rw [this]; exact hs.nea)

/-! ### (3) the loop on plain tokens and footnotes -/

/-- the pieces of a token buffer: a token that is copied, or `\footnote{body}` -/
inductive Piece where
  | tok (t : Tok)
  | foot (fn lb : Tok) (body : List Tok) (rb : Tok)

def Piece.toks : Piece → List Tok
  | .tok t => [t]
  | .foot fn lb b rb => fn :: lb :: (b ++ [rb])

/-- the token buffer -/
def flat : List Piece → List Tok
  | [] => []
  | p :: ps => p.toks ++ flat ps

def PiecesOk (T : PTables) (st : PState) : List Piece → Prop
  | [] => True
  | .tok t :: rest => CopyTok T st t ∧ PiecesOk T st rest
  | .foot fn lb b rb :: rest =>
    FnTok fn ∧ BraceTok '{' lb ∧ BraceTok '}' rb ∧ b ≠ [] ∧ (∀ t ∈ b, CopyTok T st t) ∧ FlowSafe b ∧
    PiecesOk T st rest

/-- what the loop emits into the main flow before the blank-line removal: a footnote leaves one
    Action token at the position of `\footnote` -/
def outMain : List Piece → List Tok
  | [] => []
  | .tok t :: rest => t :: outMain rest
  | .foot fn _ _ _ :: rest => mkAction fn.pos :: outMain rest

/-- the extracted flows, in order -/
def flowsOf : List Piece → List (List Tok)
  | [] => []
  | .tok _ :: rest => flowsOf rest
  | .foot _ _ b _ :: rest => b :: flowsOf rest

/-- fuel: one unit per copied token; a footnote needs `|body| + 7` units when the loop reaches it
    (it consumes two of them in the loop itself) -/
def cost : List Piece → Nat
  | [] => 0
  | .tok _ :: rest => 1 + cost rest
  | .foot _ _ b _ :: rest => b.length + 6 + cost rest

def addFlows (st : PState) (bs : List (List Tok)) : PState :=
  { st with extracted := st.extracted ++ bs, foreign := st.foreign || (!bs.isEmpty && st.nest != 1) }

theorem addFlows_nil (st : PState) : addFlows st [] = st := by
  simp [addFlows]

theorem addFlows_cons (st : PState) (b : List Tok) (bs : List (List Tok)) :
    addFlows (addFlow st b) bs = addFlows st (b :: bs) := by
  simp only [addFlows, addFlow, List.append_assoc, List.singleton_append, List.isEmpty_cons,
    Bool.not_false, Bool.true_and]
  congr 1
  cases st.foreign <;> cases (st.nest != 1) <;> cases bs.isEmpty <;> rfl

theorem StateFacts.congr {T : PTables} {st st' : PState} (h : StateFacts T st)
    (hm : st'.macros = st.macros) (hl : st'.langStack = st.langStack)
    (hs : st'.multiLanguage = st.multiLanguage) : StateFacts T st' := by
  obtain ⟨m, h1, h2⟩ := h.mac
  refine ⟨⟨m, ?_, h2⟩, hs.trans h.single, (noEmptyActive_congr T st st' hl).trans h.nea⟩
  simpa [lookupMacro, hm] using h1

theorem PiecesOk.congr {T : PTables} {st st' : PState} (hl : st'.langStack = st.langStack) :
    ∀ {ps : List Piece}, PiecesOk T st ps → PiecesOk T st' ps
  | [], _ => trivial
  | .tok _ :: _, h => ⟨h.1.congr hl, PiecesOk.congr hl h.2⟩
  | .foot _ _ _ _ :: _, h =>
    ⟨h.1, h.2.1, h.2.2.1, h.2.2.2.1, fun t ht => (h.2.2.2.2.1 t ht).congr hl, h.2.2.2.2.2.1,
      PiecesOk.congr hl h.2.2.2.2.2.2⟩

/-- the loop on a buffer of copied tokens and footnotes: the main output is the blank-line removal
    applied to `outMain`; the bodies are appended to `extracted`, in order; nothing else in the
    state changes -/
theorem seq_foot (T : PTables) (envStop : Option Str) :
    ∀ (ps : List Piece) (fuel : Nat) (out : List Tok) (st : PState),
      cost ps + 1 ≤ fuel → PiecesOk T st ps → StateFacts T st →
      expandSequence T fuel (flat ps) envStop out st
        = match removeLines (out ++ outMain ps) with
          | some r => .ok ((r, []), addFlows st (flowsOf ps))
          | none => .outOfFuel := by
  intro ps
  induction ps with
  | nil =>
    intro fuel out st hf _ _
    obtain ⟨f, rfl⟩ : ∃ f, fuel = f + 1 := ⟨fuel - 1, by omega⟩
    simp only [flat, outMain, flowsOf, addFlows_nil, List.append_nil]
    rw [expandSequence.eq_2]
    cases removeLines out <;> rfl
  | cons p ps ih =>
    intro fuel out st hf hok hs
    cases p with
    | tok t =>
      simp only [cost] at hf
      obtain ⟨f, rfl⟩ : ∃ f, fuel = f + 1 := ⟨fuel - 1, by omega⟩
      show expandSequence T (f + 1) (t :: flat ps) envStop out st = _
      rw [seq_plain_step T f t (flat ps) envStop out st hok.1.plain (Or.inl hok.1.nact),
        ih f (out ++ [t]) st (by omega) hok.2 hs]
      simp only [outMain, flowsOf, List.append_assoc, List.singleton_append]
    | foot fn lb b rb =>
      obtain ⟨hfn, hlb, hrb, hne, hb, hsafe, hrest⟩ := hok
      simp only [cost] at hf
      obtain ⟨f, rfl⟩ : ∃ f, fuel = f + 3 := ⟨fuel - 3, by omega⟩
      have hflat : flat (Piece.foot fn lb b rb :: ps) = fn :: lb :: (b ++ rb :: flat ps) := by
        simp [flat, Piece.toks]
      rw [hflat, seq_foot_step T f fn lb rb b (flat ps) envStop out st hfn hs hlb hrb hb hne hsafe
        (by omega)]
      rw [ih (f + 1) (out ++ [mkAction fn.pos]) (addFlow st b) (by omega)
        (PiecesOk.congr (st := st) (st' := addFlow st b) rfl hrest)
        (hs.congr (st' := addFlow st b) rfl rfl rfl)]
      simp only [outMain, flowsOf, addFlows_cons, List.append_assoc, List.singleton_append]

/-! ### the line automaton of the blank-line removal on a text

  State `some a`: the current line consists of white space (and footnotes) so far, `a` = there
  was a footnote (an Action token); `none`: the line has a visible character.  The automaton fails
  (`none`) at a line break that closes a line of white space with an Action token: that is a
  "pure action line", which `remove_pure_action_lines` deletes. -/

def lineC : Option Bool → Str → Option (Option Bool)
  | σ, [] => some σ
  | σ, c :: cs =>
    if c == nl then (if σ == some true then none else lineC (some false) cs)
    else if isSpace c then lineC σ cs
    else lineC none cs

/-- the work list of the blank-line removal, on tokens that spell `s`, follows `lineC` on `s` -/
def LinesOf (toks : List Tok) (s : Str) : Prop :=
  ∀ σ tail, tail ≠ [] →
    lineRun σ (toks.map evalTok ++ tail) =
      match lineC σ s with
      | none => false
      | some σ' => lineRun σ' tail

theorem lineC_blank : ∀ (w : Str), (∀ d ∈ w, isSpace d = true) → ∀ (σ : Option Bool) (s' : Str),
    lineC σ (w ++ s') = if hasNl w then (if σ == some true then none else lineC (some false) s')
      else lineC σ s'
  | [], _, σ, s' => by simp [hasNl]
  | c :: w, hw, σ, s' => by
    have ih := lineC_blank w (fun d hd => hw d (List.mem_cons_of_mem _ hd))
    have hc : isSpace c = true := hw c (List.mem_cons_self ..)
    by_cases hn : c = nl
    · subst hn
      have : hasNl (nl :: w) = true := by simp [hasNl]
      simp only [List.cons_append, lineC, beq_self_eq_true, if_true, this, ih]
      cases σ with
      | none => simp
      | some a => cases a <;> simp
    · have h1 : (c == nl) = false := by simpa using hn
      have h2 : hasNl (c :: w) = hasNl w := by
        simp only [hasNl, List.contains_cons]
        have : (nl == c) = false := by simpa using fun e : nl = c => hn e.symm
        rw [this, Bool.false_or]
      simp only [List.cons_append, lineC, h1, Bool.false_eq_true, if_false, hc, if_true, h2, ih]

theorem lineC_visible (σ : Option Bool) (c : Char) (cs : Str) (hc : isSpace c = false) :
    lineC σ (c :: cs) = lineC none cs := by
  have : (c == nl) = false := by
    cases hb : c == nl with
    | false => rfl
    | true => rw [beq_iff_eq] at hb; rw [hb] at hc; exact absurd hc (by decide)
  simp [lineC, this, hc]

theorem LinesOf_nil : LinesOf [] [] := by
  intro σ tail _; simp [lineC]

/-- the body of a flow is what the blank-line removal leaves of `Action body Action` if the body
    has visible text on its first and on its last line (and no blank line in between would be
    deleted anyway: there is no Action token inside) -/
theorem flowSafe_of_lines (b : List Tok) (s : Str) (hne : ∀ t ∈ b, t.txt ≠ []) (hl : LinesOf b s)
    (hs : lineC (some true) s = some none) : FlowSafe b := by
  intro p q
  have hkb : ∀ t ∈ b, keepIn t = true ∧ keepOut t = true := by
    intro t ht
    have := hne t ht
    cases hx : t.txt with
    | nil => exact absurd hx this
    | cons => simp [keepIn, keepOut, hx]
  have hfi : (mkAction p :: (b ++ [mkAction q])).filter keepIn = mkAction p :: (b ++ [mkAction q]) := by
    rw [List.filter_eq_self]
    intro t ht
    simp only [List.mem_cons, List.mem_append, List.not_mem_nil, or_false] at ht
    rcases ht with rfl | ht | rfl
    · rfl
    · exact (hkb t ht).1
    · rfl
  have hfo : (mkAction p :: (b ++ [mkAction q])).filter keepOut = b := by
    have h1 : keepOut (mkAction p) = false := rfl
    have h2 : keepOut (mkAction q) = false := rfl
    simp only [List.filter_cons, h1, Bool.false_eq_true, if_false, List.filter_append, h2,
      List.filter_nil, List.append_nil]
    rw [List.filter_eq_self]
    exact fun t ht => (hkb t ht).2
  rw [removeLines_safe_id, hfo]
  apply lineRun_linesInit
  intro r
  rw [hfi]
  simp only [List.map_cons, List.map_append, List.map_nil, List.cons_append, List.append_assoc,
    List.nil_append]
  rw [lineRun_action (mkAction p) rfl (some false) _ (by simp)]
  have := hl (some true) [evalTok (mkAction q), lastItem r] (by simp)
  rw [hs] at this
  simp only [Option.map_some] at this ⊢
  rw [this, lineRun_action (mkAction q) rfl none _ (by simp), lineRun_lastItem]
  rfl

/-! ### the start of the last token of an inert text -/

/-- offset of the start of the last scanner token of an inert text: the last character, or the
    start of the run of white space the text ends with -/
def lastTokOff (s : Str) : Nat := s.length - max 1 (s.reverse.takeWhile isSpace).length

theorem trail_le (s : Str) : (s.reverse.takeWhile isSpace).length ≤ s.length := by
  have := ScannerAux.length_takeWhile_le' isSpace s.reverse
  simpa using this

theorem lastTokOff_single (c : Char) : lastTokOff [c] = 0 := by
  unfold lastTokOff
  generalize ([c].reverse.takeWhile isSpace).length = k
  simp only [List.length_singleton]
  omega

theorem lastTokOff_blank (w : Str) (hw : ∀ d ∈ w, isSpace d = true) : lastTokOff w = 0 := by
  unfold lastTokOff
  rw [takeWhile_all isSpace w.reverse (fun x hx => hw x (List.mem_reverse.mp hx))]
  simp only [List.length_reverse]
  omega

theorem lastTokOff_visible (c : Char) (cs : Str) (hc : isSpace c = false) (hne : cs ≠ []) :
    lastTokOff (c :: cs) = 1 + lastTokOff cs := by
  unfold lastTokOff
  have e : (c :: cs).reverse.takeWhile isSpace = cs.reverse.takeWhile isSpace := by
    rw [List.reverse_cons]
    exact PlainMath.takeWhile_append_stop' isSpace c hc cs.reverse []
  rw [e]
  have h1 := trail_le cs
  have h2 : 1 ≤ cs.length := List.length_pos_iff.mpr hne
  simp only [List.length_cons]
  omega

theorem lastTokOff_ws (w : Str) (d : Char) (ds : Str) (hd : isSpace d = false) :
    lastTokOff (w ++ d :: ds) = w.length + lastTokOff (d :: ds) := by
  unfold lastTokOff
  have e1 : (w ++ d :: ds).reverse.takeWhile isSpace = ds.reverse.takeWhile isSpace := by
    rw [List.reverse_append, List.reverse_cons, List.append_assoc]
    exact PlainMath.takeWhile_append_stop' isSpace d hd ds.reverse _
  have e2 : (d :: ds).reverse.takeWhile isSpace = ds.reverse.takeWhile isSpace := by
    rw [List.reverse_cons]
    exact PlainMath.takeWhile_append_stop' isSpace d hd ds.reverse []
  rw [e1, e2]
  have h1 := trail_le ds
  simp only [List.length_append, List.length_cons]
  omega

/-! ### the scanner on an inert text in front of something that is no white space -/

/-- the text character `c`, followed by `X` (the whole rest of the source), is inert: it is no
    "active character" of the language settings, and it is white space or an ordinary character
    at which no special sequence matches -/
def chrOk (T : PTables) (st : PState) (c : Char) (X : Str) : Bool :=
  !(activeChars T st).contains [c] &&
  (isSpace c || (!structuralChar c && (matchSpecial T.toTables (c :: X)).isNone))

/-- the text `s`, followed by `R`, is inert -/
def textOk (T : PTables) (st : PState) : Str → Str → Bool
  | [], _ => true
  | c :: cs, R => chrOk T st c (cs ++ R) && textOk T st cs R

theorem textOk_drop (T : PTables) (st : PState) (R : Str) : ∀ (k : Nat) (s : Str),
    textOk T st s R = true → textOk T st (s.drop k) R = true
  | 0, _, h => by simpa using h
  | _ + 1, [], h => by simpa using h
  | k + 1, c :: cs, h => by
    simp only [textOk, Bool.and_eq_true] at h
    simpa using textOk_drop T st R k cs h.2

theorem chrOk_congr (T : PTables) (st st' : PState) (h : st'.langStack = st.langStack) (c : Char)
    (X : Str) : chrOk T st' c X = chrOk T st c X := by
  simp only [chrOk, activeChars_congr T st st' h]

theorem textOk_congr (T : PTables) (st st' : PState) (h : st'.langStack = st.langStack) (R : Str) :
    ∀ s : Str, textOk T st' s R = textOk T st s R
  | [] => rfl
  | c :: cs => by simp only [textOk, chrOk_congr T st st' h, textOk_congr T st st' h R cs]

theorem takeWhile_append_head {α} (p : α → Bool) (R : List α)
    (hR : R.head?.all (fun d => !p d) = true) : ∀ a : List α, (a ++ R).takeWhile p = a.takeWhile p
  | [] => by
    cases R with
    | nil => rfl
    | cons d ds =>
      have : p d = false := by simpa using hR
      simp [this]
  | x :: a => by
    by_cases h : p x = true
    · simp [h, takeWhile_append_head p R hR a]
    · simp [h]

theorem dropWhile_head_not {α} (p : α → Bool) : ∀ l : List α,
    (l.dropWhile p).head?.all (fun d => !p d) = true
  | [] => rfl
  | a :: l => by
    by_cases h : p a = true
    · simp only [List.dropWhile_cons, h, if_true]; exact dropWhile_head_not p l
    · simp [h]

/-- what the scanner loop yields on an inert text `s` that starts at `pos` -/
structure TextRun (T : PTables) (st : PState) (pos : Nat) (s : Str) (steps : List ScanStep) : Prop where
  ok : ∀ x ∈ steps, x.diag = none ∧ x.extra = [] ∧ CopyTok T st x.tok
  len : steps.length ≤ s.length
  txt : getTxtPos (steps.map (·.tok)) = (s, List.range' pos s.length)
  lines : LinesOf (steps.map (·.tok)) s
  first : ∀ t ts, steps.map (·.tok) = t :: ts → t.pos = pos
  last : ∀ t, (steps.map (·.tok)).getLast? = some t → t.pos = pos + lastTokOff s

theorem TextRun_nil (T : PTables) (st : PState) (pos : Nat) : TextRun T st pos [] [] where
  ok := by simp
  len := by simp
  txt := rfl
  lines := LinesOf_nil
  first := by intro t ts h; cases h
  last := by intro t h; cases h

theorem TextRun.nil_iff {T : PTables} {st : PState} {pos : Nat} {s : Str} {steps : List ScanStep}
    (h : TextRun T st pos s steps) (hs : steps = []) : s = [] := by
  have := h.txt
  rw [hs] at this
  simp only [List.map_nil, getTxtPos, Prod.mk.injEq] at this
  exact this.1.symm

/-- one more token in front of a run -/
theorem TextRun.cons {T : PTables} {st : PState} {pos : Nat} {u s' : Str} {steps' : List ScanStep}
    (x : ScanStep) (B : TextRun T st (pos + u.length) s' steps')
    (hd : x.diag = none) (he : x.extra = []) (hc : CopyTok T st x.tok) (hfix : x.tok.fix = false)
    (htxt : x.tok.txt = u) (hpos : x.tok.pos = pos) (hu : 1 ≤ u.length)
    (hlines : ∀ σ tail, tail ≠ [] → lineRun σ (evalTok x.tok :: tail) =
      match lineC σ u with | none => false | some σ' => lineRun σ' tail)
    (hlineC : ∀ σ, lineC σ (u ++ s') = match lineC σ u with | none => none | some σ' => lineC σ' s')
    (hlast : lastTokOff (u ++ s') = if s' = [] then 0 else u.length + lastTokOff s') :
    TextRun T st pos (u ++ s') (x :: steps') where
  ok := by
    intro y hy
    rcases List.mem_cons.mp hy with rfl | hy
    · exact ⟨hd, he, hc⟩
    · exact B.ok y hy
  len := by
    have := B.len
    simp only [List.length_cons, List.length_append]
    omega
  txt := by
    rw [List.map_cons, getTxtPos_cons_plain _ _ hfix, B.txt, htxt, hpos, List.length_append,
      List.range'_append_1]
  lines := by
    intro σ tail ht
    rw [List.map_cons, List.map_cons, List.cons_append, hlines σ _ (by simp [ht]), hlineC σ]
    cases lineC σ u with
    | none => rfl
    | some σ' => exact B.lines σ' tail ht
  first := by
    intro t ts h
    simp only [List.map_cons, List.cons.injEq] at h
    rw [← h.1]; exact hpos
  last := by
    intro t h
    rw [hlast]
    cases hs : steps' with
    | nil =>
      rw [hs] at h
      simp only [List.map_cons, List.map_nil, List.getLast?_singleton, Option.some.injEq] at h
      rw [← h, if_pos (B.nil_iff hs)]
      simpa using hpos
    | cons y ys =>
      have hne : s' ≠ [] := by
        intro e
        have := B.len
        rw [e, hs] at this
        simp at this
      rw [if_neg hne]
      rw [hs, List.map_cons, List.map_cons, List.getLast?_cons_cons] at h
      have := B.last t (by rw [hs, List.map_cons]; exact h)
      omega

structure ChrFacts (T : PTables) (st : PState) (c : Char) (X : Str) : Prop where
  nact : (activeChars T st).contains [c] = false
  snd : isSpace c = true ∨ (structuralChar c = false ∧ matchSpecial T.toTables (c :: X) = none)

theorem chrFacts {T : PTables} {st : PState} {c : Char} {X : Str} (h : chrOk T st c X = true) :
    ChrFacts T st c X := by
  simp only [chrOk, Bool.and_eq_true, Bool.or_eq_true, Bool.not_eq_true',
    Option.isNone_iff_eq_none] at h
  exact ⟨h.1, h.2⟩

/-- the scanner loop runs through an inert text that is not continued by white space: one text
    token per character that is no white space, one space / paragraph token per run of white
    space; every token costs one unit of fuel -/
theorem scanSteps_textrun (T : PTables) (st : PState) (src : Str) (R : Str)
    (hR : R.head?.all (fun d => !isSpace d) = true) :
    ∀ (n : Nat) (s : Str) (pos fuel : Nat), s.length ≤ n → s.length ≤ fuel →
      textOk T st s R = true →
      ∃ steps, TextRun T st pos s steps ∧
        scanSteps T.toTables src fuel pos (s ++ R)
          = (steps ++ (scanSteps T.toTables src (fuel - steps.length) (pos + s.length) R).1,
             (scanSteps T.toTables src (fuel - steps.length) (pos + s.length) R).2) := by
  intro n
  induction n with
  | zero =>
    intro s pos fuel hn _ _
    have : s = [] := by cases s <;> simp_all
    subst this
    exact ⟨[], TextRun_nil T st pos, by simp⟩
  | succ n ih =>
    intro s pos fuel hn hf hok
    cases s with
    | nil => exact ⟨[], TextRun_nil T st pos, by simp⟩
    | cons c cs =>
      obtain ⟨f, rfl⟩ : ∃ f, fuel = f + 1 := ⟨fuel - 1, by simp at hf; omega⟩
      have hok0 := hok
      simp only [textOk, Bool.and_eq_true] at hok
      have facts := chrFacts hok.1
      by_cases hsp : isSpace c = true
      · -- a run of white space
        have hwe : (c :: (cs ++ R)).takeWhile isSpace = (c :: cs).takeWhile isSpace :=
          takeWhile_append_head isSpace R hR (c :: cs)
        generalize hw : (c :: cs).takeWhile isSpace = w at hwe
        have hw' : w = c :: cs.takeWhile isSpace := by rw [← hw]; simp [hsp]
        have hall : ∀ d ∈ w, isSpace d = true := by
          intro d hd; rw [← hw] at hd; exact mem_takeWhile_imp _ _ _ hd
        have hsplit : w ++ (c :: cs).dropWhile isSpace = c :: cs := by
          rw [← hw]; exact List.takeWhile_append_dropWhile
        have hhead : ((c :: cs).dropWhile isSpace).head?.all (fun d => !isSpace d) = true := by
          exact dropWhile_head_not isSpace (c :: cs)
        generalize hs' : (c :: cs).dropWhile isSpace = s' at hsplit hhead
        have hlen : w.length + s'.length = cs.length + 1 := by
          rw [← List.length_append, hsplit]; rfl
        simp only [List.length_cons] at hn hf
        have hwpos : 1 ≤ w.length := by rw [hw']; simp
        have hnt : nextToken T.toTables src pos (c :: (cs ++ R)) = scanSpace pos (c :: (cs ++ R)) := by
          simp [nextToken, hsp]
        have hdrop : (c :: (cs ++ R)).drop w.length = s' ++ R := by
          have : c :: (cs ++ R) = w ++ (s' ++ R) := by
            rw [← List.append_assoc, hsplit]; rfl
          rw [this, List.drop_left]
        have hoks' : textOk T st s' R = true := by
          have := textOk_drop T st R w.length (c :: cs) hok0
          rw [← hsplit, List.drop_left] at this
          exact this
        obtain ⟨steps', B, hsc⟩ := ih s' (pos + w.length) f (by omega) (by omega) hoks'
        have hblank : isBlank w = true := by simpa [isBlank] using hall
        have hkind : (scanSpace pos (c :: (cs ++ R))).tok.kind = .space ∨
            (scanSpace pos (c :: (cs ++ R))).tok.kind = .par := by
          simp only [scanSpace]; split
          · exact Or.inl rfl
          · exact Or.inr rfl
        have htxt : (scanSpace pos (c :: (cs ++ R))).tok.txt = w := by simp only [scanSpace, hwe]
        have hslen : (scanSpace pos (c :: (cs ++ R))).len = w.length := by simp only [scanSpace, hwe]
        generalize hx : scanSpace pos (c :: (cs ++ R)) = x at hnt hkind htxt hslen
        have hposn : x.tok.pos = pos := by rw [← hx]; rfl
        have hfix : x.tok.fix = false := by rw [← hx]; rfl
        have hdiag : x.diag = none := by rw [← hx]; rfl
        have hextra : x.extra = [] := by rw [← hx]; rfl
        have hpl : PlainTok x.tok :=
          plainTok_of_head _ c (cs.takeWhile isSpace) (by rw [htxt, hw'])
            (by rcases hkind with k | k
                · exact Or.inr (Or.inl k)
                · exact Or.inr (Or.inr k))
            (structuralChar_of_isSpace c hsp)
        have hcopy : CopyTok T st x.tok := by
          refine ⟨hpl, ?_, ?_, Or.inr ⟨hkind, by rw [htxt]; exact hblank⟩⟩
          · rw [htxt, hw']; exact not_active_cons T st c _ facts.nact
          · rw [htxt, hw']; simp
        refine ⟨x :: steps', ?_, ?_⟩
        · rw [← hsplit]
          refine TextRun.cons x B hdiag hextra hcopy hfix htxt hposn hwpos ?_ ?_ ?_
          · intro σ tail ht
            rw [lineRun_ws x.tok hkind (by rw [htxt]; exact hblank) σ tail ht, htxt]
            have := lineC_blank w hall σ []
            rw [List.append_nil] at this
            rw [this]
            cases hasNl w
            · simp [lineC]
            · by_cases hσ : (σ == some true) = true <;> simp [hσ, lineC]
          · intro σ
            have h0 := lineC_blank w hall σ []
            rw [List.append_nil] at h0
            rw [lineC_blank w hall σ s', h0]
            cases hasNl w
            · simp [lineC]
            · by_cases hσ : (σ == some true) = true <;> simp [hσ, lineC]
          · cases s' with
            | nil => simp [lastTokOff_blank w hall]
            | cons d ds =>
              have hd : isSpace d = false := by simpa using hhead
              rw [lastTokOff_ws w d ds hd]
              simp
        · show scanSteps T.toTables src (f + 1) pos (c :: (cs ++ R)) = _
          simp only [scanSteps, hnt]
          have hne0 : ¬ ((x.len == 0) = true) := by
            rw [hslen, beq_iff_eq]; omega
          rw [if_neg hne0, hslen, hdrop, hsc]
          simp only [List.cons_append, List.length_cons]
          have e1 : pos + w.length + s'.length = pos + (cs.length + 1) := by omega
          have e2 : f + 1 - (steps'.length + 1) = f - steps'.length := by omega
          rw [e1, e2]
      · -- a visible character
        have hsp' : isSpace c = false := by simpa using hsp
        obtain ⟨hst, hms⟩ : structuralChar c = false ∧ matchSpecial T.toTables (c :: (cs ++ R)) = none := by
          rcases facts.snd with h | h
          · exact absurd h hsp
          · exact h
        have hst' := hst
        simp only [structuralChar, Bool.or_eq_false_iff, beq_eq_false_iff_ne] at hst'
        obtain ⟨⟨⟨⟨⟨h1, h2⟩, h3⟩, _⟩, _⟩, _⟩ := hst'
        have hnt : nextToken T.toTables src pos (c :: (cs ++ R))
            = { tok := { kind := .text, pos := pos, txt := [c] }, len := 1 } := by
          simp [nextToken, hsp', h1, h2, h3, hms]
        obtain ⟨steps', B, hsc⟩ := ih cs (pos + 1) f (by simp at hn; omega) (by simp at hf; omega) hok.2
        have hpl : PlainTok ({ kind := .text, pos := pos, txt := [c] } : Tok) :=
          plainTok_of_head _ c [] rfl (Or.inl rfl) hst
        have hnn : hasNl [c] = false := PlainMath.hasNl_single c hsp'
        have hnb : isBlank [c] = false := by simp [isBlank, hsp']
        have hcopy : CopyTok T st ({ kind := .text, pos := pos, txt := [c] } : Tok) :=
          ⟨hpl, facts.nact, by simp, Or.inl ⟨rfl, hnn⟩⟩
        refine ⟨{ tok := { kind := .text, pos := pos, txt := [c] }, len := 1 } :: steps', ?_, ?_⟩
        · have B' : TextRun T st (pos + [c].length) cs steps' := B
          have := TextRun.cons (u := [c]) { tok := { kind := .text, pos := pos, txt := [c] }, len := 1 }
            B' rfl rfl hcopy rfl rfl rfl (by simp) ?_ ?_ ?_
          · exact this
          · intro σ tail ht
            have := lineRun_txt { kind := .text, pos := pos, txt := [c] } rfl hnn σ tail ht
            rw [this, lineC_visible σ c [] hsp']
            simp [hnb, lineC]
          · intro σ
            rw [List.singleton_append, lineC_visible σ c cs hsp', lineC_visible σ c [] hsp']
            simp [lineC]
          · cases cs with
            | nil => simp [lastTokOff_single]
            | cons d ds =>
              rw [List.singleton_append, lastTokOff_visible c (d :: ds) hsp' (by simp)]
              simp
        · show scanSteps T.toTables src (f + 1) pos (c :: (cs ++ R)) = _
          simp only [scanSteps, hnt]
          rw [if_neg (by simp)]
          simp only [List.drop_succ_cons, List.drop_zero]
          rw [hsc]
          simp only [List.cons_append, List.length_cons]
          have e1 : pos + 1 + cs.length = pos + (cs.length + 1) := by omega
          have e2 : f + 1 - (steps'.length + 1) = f - steps'.length := by omega
          rw [e1, e2]

/-! ### the documents -/

/-- a segment of the source: a run of text, or `\footnote{body}` -/
inductive Seg where
  | txt (s : Str)
  | foot (body : Str)
deriving Repr, DecidableEq

def Seg.render : Seg → Str
  | .txt s => s
  | .foot body => sFootnote ++ '{' :: (body ++ ['}'])

/-- the source text -/
def render : List Seg → Str
  | [] => []
  | s :: rest => s.render ++ render rest

/-- the brace `c`, followed by `rest`, is scanned as the one-character token `c`: the special
    sequence that matches here, if any, is the brace itself -/
def braceAt (T : PTables) (c : Char) (rest : Str) : Bool :=
  match matchSpecial T.toTables (c :: rest) with
  | none => true
  | some t => t == [c]

/-- `\footnote{body}`, followed by `R`:
    * no special sequence of the tables matches at the backslash, `\footnote` is no accent macro
      (then the scanner yields the macro token `\footnote`; the opening brace ends the name);
    * both braces are scanned as brace tokens;
    * the body is not empty and inert in front of `}` (in particular it contains no brace, no
      macro, no `%`: the closing brace is the one that ends the argument);
    * the body has visible text on its first and on its last line (`lineC`; otherwise the
      blank-line removal, which sees the flow between two Action tokens, deletes part of it) -/
def footOk (T : PTables) (st : PState) (body R : Str) : Bool :=
  (matchSpecial T.toTables (sFootnote ++ '{' :: (body ++ '}' :: R))).isNone &&
  !T.toTables.isAccent sFootnote &&
  braceAt T '{' (body ++ '}' :: R) && braceAt T '}' R &&
  !body.isEmpty && textOk T st body ('}' :: R) && (lineC (some true) body == some none)

/-- well-formed documents: every segment is fine in front of the rendering of the following
    ones; what follows a text segment does not start with white space (a white-space token would
    span the boundary: merge the two text segments) -/
def segsOk (T : PTables) (st : PState) : List Seg → Bool
  | [] => true
  | .txt s :: rest =>
    textOk T st s (render rest) && (render rest).head?.all (fun d => !isSpace d) && segsOk T st rest
  | .foot body :: rest => footOk T st body (render rest) && segsOk T st rest

/-- the line automaton on a document: a footnote leaves an Action token in the main flow -/
def lineS : Option Bool → List Seg → Option (Option Bool)
  | σ, [] => some σ
  | σ, .txt s :: rest =>
    match lineC σ s with
    | none => none
    | some σ' => lineS σ' rest
  | σ, .foot _ :: rest => lineS (σ.map (fun _ => true)) rest

/-- no line of the main text consists only of white space and footnotes, with at least one
    footnote (such a line is deleted with its line break by `remove_pure_action_lines`) -/
def linesOK (segs : List Seg) : Bool :=
  match lineS (some false) segs with
  | some σ => σ != some true
  | none => false

/-! ### the expected result -/

/-- the main text: the characters of the text segments with their (0-based) source positions;
    `p` = offset of the first segment -/
def mainOut : Nat → List Seg → List (Char × Nat)
  | _, [] => []
  | p, .txt s :: rest => posText p s ++ mainOut (p + s.length) rest
  | p, .foot body :: rest => mainOut (p + (body.length + 11)) rest

/-- one flow; `p` = position of the first character of the body: three line breaks at the
    position of the first character, the body with its own positions, one line break at the
    position of the last token of the body -/
def flowOut (p : Nat) (body : Str) : List (Char × Nat) :=
  [(nl, p), (nl, p), (nl, p)] ++ posText p body ++ [(nl, p + lastTokOff body)]

/-- the flows of the footnotes, in order -/
def flowsOut : Nat → List Seg → List (Char × Nat)
  | _, [] => []
  | p, .txt s :: rest => flowsOut (p + s.length) rest
  | p, .foot body :: rest => flowOut (p + 10) body ++ flowsOut (p + (body.length + 11)) rest

/-- what `parse` appends for one extracted flow -/
def flowToks (e : List Tok) : List Tok :=
  match e.head?, e.getLast? with
  | some h, some l => [mkFix .par h.pos [nl, nl, nl]] ++ e ++ [mkFix .space l.pos [nl]]
  | _, _ => []

/-! ### the scanner at `\footnote`, `{`, `}` -/

theorem nextToken_footnote (T : Tables) (src : Str) (pos : Nat) (X : Str)
    (hm : matchSpecial T (sFootnote ++ '{' :: X) = none) (ha : T.isAccent sFootnote = false) :
    nextToken T src pos (sFootnote ++ '{' :: X)
      = { tok := { kind := .xmacro, pos := pos, txt := sFootnote }, len := 9 } := by
  have hlen : macroLen (sFootnote ++ '{' :: X) = 9 := by
    simp [macroLen, sFootnote, show macroChar '{' = false by decide,
      show macroChar 'f' = true by decide, show macroChar 'o' = true by decide,
      show macroChar 't' = true by decide, show macroChar 'n' = true by decide,
      show macroChar 'e' = true by decide]
  have htake : (sFootnote ++ '{' :: X).take 9 = sFootnote := by simp [sFootnote]
  have hm' : matchSpecial T ('\\' :: 'f' :: 'o' :: 'o' :: 't' :: 'n' :: 'o' :: 't' :: 'e' :: '{' :: X) = none := hm
  show nextToken T src pos ('\\' :: 'f' :: 'o' :: 'o' :: 't' :: 'n' :: 'o' :: 't' :: 'e' :: '{' :: X) = _
  unfold nextToken
  simp only [show isSpace '\\' = false by decide, Bool.false_eq_true, if_false,
    show ('\\' == '%') = false by decide, show ('\\' == '#') = false by decide, hm',
    beq_self_eq_true, if_true]
  show scanMacro T src pos (sFootnote ++ '{' :: X) = _
  simp only [scanMacro, hlen, htake, show (sFootnote == sBegin) = false by decide,
    show (sFootnote == sEnd) = false by decide, show (sFootnote == sItem) = false by decide,
    show (sFootnote == sVerb) = false by decide, ha, Bool.false_eq_true, if_false]

theorem nextToken_brace (T : PTables) (src : Str) (pos : Nat) (c : Char) (rest : Str)
    (hc : c = '{' ∨ c = '}') (h : braceAt T c rest = true) :
    ∃ k, (k = Kind.special ∨ k = Kind.text) ∧
      nextToken T.toTables src pos (c :: rest)
        = { tok := { kind := k, pos := pos, txt := [c] }, len := 1 } := by
  unfold braceAt at h
  have h1 : isSpace c = false := by rcases hc with rfl | rfl <;> decide
  have h2 : (c == '%') = false := by rcases hc with rfl | rfl <;> decide
  have h3 : (c == '#') = false := by rcases hc with rfl | rfl <;> decide
  have h4 : (c == '\\') = false := by rcases hc with rfl | rfl <;> decide
  unfold nextToken
  simp only [h1, h2, h3, h4, Bool.false_eq_true, if_false]
  cases hm : matchSpecial T.toTables (c :: rest) with
  | none => exact ⟨.text, Or.inr rfl, rfl⟩
  | some t =>
    rw [hm] at h
    have : t = [c] := by simpa using h
    subst this
    exact ⟨.special, Or.inl rfl, rfl⟩

/-! ### pieces of copied tokens -/

def tokPieces (toks : List Tok) : List Piece := toks.map Piece.tok

theorem flat_tokPieces (ps : List Piece) : ∀ toks : List Tok, flat (tokPieces toks ++ ps) = toks ++ flat ps
  | [] => rfl
  | t :: ts => by
    show [t] ++ flat (tokPieces ts ++ ps) = _
    rw [flat_tokPieces ps ts]; rfl

theorem outMain_tokPieces (ps : List Piece) : ∀ toks : List Tok,
    outMain (tokPieces toks ++ ps) = toks ++ outMain ps
  | [] => rfl
  | t :: ts => by
    show t :: outMain (tokPieces ts ++ ps) = _
    rw [outMain_tokPieces ps ts]; rfl

theorem flowsOf_tokPieces (ps : List Piece) : ∀ toks : List Tok,
    flowsOf (tokPieces toks ++ ps) = flowsOf ps
  | [] => rfl
  | _ :: ts => flowsOf_tokPieces ps ts

theorem cost_tokPieces (ps : List Piece) : ∀ toks : List Tok,
    cost (tokPieces toks ++ ps) = toks.length + cost ps
  | [] => by simp [tokPieces]
  | t :: ts => by
    show 1 + cost (tokPieces ts ++ ps) = _
    rw [cost_tokPieces ps ts, List.length_cons]; omega

theorem PiecesOk_tokPieces {T : PTables} {st : PState} (ps : List Piece) (hps : PiecesOk T st ps) :
    ∀ toks : List Tok, (∀ t ∈ toks, CopyTok T st t) → PiecesOk T st (tokPieces toks ++ ps)
  | [], _ => hps
  | t :: ts, h =>
    ⟨h t (List.mem_cons_self ..),
      PiecesOk_tokPieces ps hps ts (fun x hx => h x (List.mem_cons_of_mem _ hx))⟩

theorem CopyTok.txt_ne {T : PTables} {st : PState} {t : Tok} (h : CopyTok T st t) : t.txt ≠ [] :=
  h.shape.1

theorem filter_keepIn_copy {T : PTables} {st : PState} (toks : List Tok)
    (h : ∀ t ∈ toks, CopyTok T st t) : toks.filter keepIn = toks := by
  rw [List.filter_eq_self]
  intro t ht
  have := (h t ht).txt_ne
  cases hx : t.txt with
  | nil => exact absurd hx this
  | cons => simp [keepIn, hx]

/-! ### the scanner loop on a document -/

/-- what the scanner loop yields on a well-formed document that starts at `pos` -/
structure PieceFacts (T : PTables) (st : PState) (pos : Nat) (segs : List Seg) (ps : List Piece) :
    Prop where
  ok : PiecesOk T st ps
  main : getTxtPos (outMain ps) = ((mainOut pos segs).map (·.1), (mainOut pos segs).map (·.2))
  flows : getTxtPos ((flowsOf ps).map flowToks).flatten
    = ((flowsOut pos segs).map (·.1), (flowsOut pos segs).map (·.2))
  cost : cost ps ≤ (render segs).length
  lines : ∀ σ tail, tail ≠ [] →
    lineRun σ (((outMain ps).filter keepIn).map evalTok ++ tail) =
      match lineS σ segs with
      | none => false
      | some σ' => lineRun σ' tail

theorem PieceFacts_nil (T : PTables) (st : PState) (pos : Nat) : PieceFacts T st pos [] [] where
  ok := trivial
  main := rfl
  flows := rfl
  cost := Nat.le_refl _
  lines := by intro σ tail _; simp [outMain, lineS]

theorem PieceFacts_txt {T : PTables} {st : PState} {pos : Nat} {s : Str} {rest : List Seg}
    {steps : List ScanStep} {ps : List Piece} (B : TextRun T st pos s steps)
    (I : PieceFacts T st (pos + s.length) rest ps) :
    PieceFacts T st pos (.txt s :: rest) (tokPieces (steps.map (·.tok)) ++ ps) where
  ok := PiecesOk_tokPieces ps I.ok _ (by
    intro t ht
    obtain ⟨x, hx, rfl⟩ := List.mem_map.mp ht
    exact (B.ok x hx).2.2)
  main := by
    rw [outMain_tokPieces, getTxtPos_append, B.txt, I.main]
    simp [mainOut, posText_fst, posText_snd]
  flows := by
    rw [flowsOf_tokPieces, I.flows]; rfl
  cost := by
    have h1 := B.len
    have h2 := I.cost
    rw [cost_tokPieces]
    simp only [render, Seg.render, List.length_append, List.length_map]
    omega
  lines := by
    intro σ tail ht
    have hc : ∀ t ∈ steps.map (·.tok), CopyTok T st t := by
      intro t ht
      obtain ⟨x, hx, rfl⟩ := List.mem_map.mp ht
      exact (B.ok x hx).2.2
    rw [outMain_tokPieces, List.filter_append, filter_keepIn_copy _ hc, List.map_append,
      List.append_assoc, B.lines σ _ (by simp [ht])]
    simp only [lineS]
    cases lineC σ s with
    | none => rfl
    | some σ' => exact I.lines σ' tail ht

theorem getTxtPos_mkAction (p : Nat) (ts : List Tok) : getTxtPos (mkAction p :: ts) = getTxtPos ts := by
  simp [getTxtPos, tokPositions, mkAction]

theorem getTxtPos_flowToks (b : List Tok) (h l : Tok) (body : Str) (p : Nat)
    (hh : b.head? = some h) (hl : b.getLast? = some l)
    (hb : getTxtPos b = (body, List.range' p body.length)) :
    getTxtPos (flowToks b)
      = (([nl, nl, nl] ++ body) ++ [nl], ([h.pos, h.pos, h.pos] ++ List.range' p body.length) ++ [l.pos]) := by
  simp only [flowToks, hh, hl]
  rw [getTxtPos_append, getTxtPos_append, hb]
  simp [getTxtPos, tokPositions, mkFix]

theorem PieceFacts_foot {T : PTables} {st : PState} {pos : Nat} {body : Str} {rest : List Seg}
    {bsteps : List ScanStep} {ps : List Piece} (k1 k2 : Kind)
    (hk1 : k1 = Kind.special ∨ k1 = Kind.text) (hk2 : k2 = Kind.special ∨ k2 = Kind.text)
    (hne : body ≠ []) (hlc : lineC (some true) body = some none)
    (B : TextRun T st (pos + 10) body bsteps)
    (I : PieceFacts T st (pos + (body.length + 11)) rest ps) :
    PieceFacts T st pos (.foot body :: rest)
      (.foot { kind := .xmacro, pos := pos, txt := sFootnote }
             { kind := k1, pos := pos + 9, txt := ['{'] } (bsteps.map (·.tok))
             { kind := k2, pos := pos + 10 + body.length, txt := ['}'] } :: ps) := by
  have hc : ∀ t ∈ bsteps.map (·.tok), CopyTok T st t := by
    intro t ht
    obtain ⟨x, hx, rfl⟩ := List.mem_map.mp ht
    exact (B.ok x hx).2.2
  have hbne : bsteps.map (·.tok) ≠ [] := by
    intro e
    exact hne (B.nil_iff (by simpa using e))
  obtain ⟨h, hh⟩ : ∃ h, (bsteps.map (·.tok)).head? = some h := by
    cases hx : bsteps.map (·.tok) with
    | nil => exact absurd hx hbne
    | cons a _ => exact ⟨a, rfl⟩
  obtain ⟨l, hl⟩ : ∃ l, (bsteps.map (·.tok)).getLast? = some l := by
    cases hx : (bsteps.map (·.tok)).getLast? with
    | none => rw [List.getLast?_eq_none_iff] at hx; exact absurd hx hbne
    | some a => exact ⟨a, rfl⟩
  have hhp : h.pos = pos + 10 := by
    cases hx : bsteps.map (·.tok) with
    | nil => exact absurd hx hbne
    | cons a as =>
      rw [hx] at hh
      simp only [List.head?_cons, Option.some.injEq] at hh
      rw [← hh]; exact B.first a as hx
  have hlp : l.pos = pos + 10 + lastTokOff body := B.last l hl
  refine ⟨?_, ?_, ?_, ?_, ?_⟩
  · exact ⟨⟨rfl, rfl⟩, ⟨hk1, rfl⟩, ⟨hk2, rfl⟩, hbne, hc,
      flowSafe_of_lines _ body (fun t ht => (hc t ht).txt_ne) B.lines hlc, I.ok⟩
  · simp only [outMain, mainOut]
    rw [getTxtPos_mkAction, I.main]
  · simp only [flowsOf, flowsOut, List.map_cons, List.flatten_cons]
    rw [getTxtPos_append, I.flows, getTxtPos_flowToks _ h l body (pos + 10) hh hl B.txt, hhp, hlp]
    simp [flowOut, posText_fst, posText_snd]
  · have h1 := B.len
    have h2 := I.cost
    simp only [cost, render, Seg.render, List.length_append, List.length_cons, List.length_map,
      sFootnote, List.length_nil]
    omega
  · intro σ tail ht
    have hk : keepIn (mkAction pos) = true := rfl
    simp only [outMain, List.filter_cons, hk, if_true, List.map_cons, List.cons_append, lineS]
    rw [lineRun_action (mkAction pos) rfl σ _ (by simp [ht])]
    exact I.lines _ tail ht

theorem render_foot (body : Str) (rest : List Seg) :
    render (.foot body :: rest) = sFootnote ++ '{' :: (body ++ '}' :: render rest) := by
  simp [render, Seg.render]

structure FootFacts (T : PTables) (st : PState) (body R : Str) : Prop where
  special : matchSpecial T.toTables (sFootnote ++ '{' :: (body ++ '}' :: R)) = none
  nAccent : T.toTables.isAccent sFootnote = false
  lb : braceAt T '{' (body ++ '}' :: R) = true
  rb : braceAt T '}' R = true
  ne : body ≠ []
  text : textOk T st body ('}' :: R) = true
  lines : lineC (some true) body = some none

theorem footFacts {T : PTables} {st : PState} {body R : Str} (h : footOk T st body R = true) :
    FootFacts T st body R := by
  simp only [footOk, Bool.and_eq_true, Bool.not_eq_true', Option.isNone_iff_eq_none, beq_iff_eq,
    List.isEmpty_eq_false_iff] at h
  obtain ⟨⟨⟨⟨⟨⟨h1, h2⟩, h3⟩, h4⟩, h5⟩, h6⟩, h7⟩ := h
  exact ⟨h1, h2, h3, h4, h5, h6, h7⟩

/-- the scanner loop on a well-formed document: complete, no diagnostics, the token buffer
    consists of copied tokens and footnotes -/
theorem scanSteps_segs (T : PTables) (st : PState) (src : Str) :
    ∀ (segs : List Seg) (fuel pos : Nat), (render segs).length ≤ fuel → segsOk T st segs = true →
      ∃ steps ps, scanSteps T.toTables src fuel pos (render segs) = (steps, true) ∧
        (∀ x ∈ steps, x.diag = none ∧ x.extra = []) ∧ steps.map (·.tok) = flat ps ∧
        PieceFacts T st pos segs ps := by
  intro segs
  induction segs with
  | nil =>
    intro fuel pos _ _
    exact ⟨[], [], by simp [render, scanSteps], by simp, rfl, PieceFacts_nil T st pos⟩
  | cons sg rest ih =>
    intro fuel pos hf hok
    cases sg with
    | txt s =>
      simp only [segsOk, Bool.and_eq_true] at hok
      obtain ⟨⟨htext, hhead⟩, hrest⟩ := hok
      have hlen : (render (.txt s :: rest)).length = s.length + (render rest).length := by
        simp [render, Seg.render]
      rw [hlen] at hf
      obtain ⟨bsteps, B, hrun⟩ := scanSteps_textrun T st src (render rest) hhead s.length s pos fuel
        (Nat.le_refl _) (by omega) htext
      have hBl := B.len
      obtain ⟨steps', ps', hsc, hok', hflat, I⟩ := ih (fuel - bsteps.length) (pos + s.length)
        (by omega) hrest
      refine ⟨bsteps ++ steps', tokPieces (bsteps.map (·.tok)) ++ ps', ?_, ?_, ?_, PieceFacts_txt B I⟩
      · show scanSteps T.toTables src fuel pos (s ++ render rest) = _
        rw [hrun, hsc]
      · intro x hx
        rcases List.mem_append.mp hx with hx | hx
        · exact ⟨(B.ok x hx).1, (B.ok x hx).2.1⟩
        · exact hok' x hx
      · rw [List.map_append, flat_tokPieces, hflat]
    | foot body =>
      simp only [segsOk, Bool.and_eq_true] at hok
      obtain ⟨hfoot, hrest⟩ := hok
      have F := footFacts hfoot
      have hlen : (render (.foot body :: rest)).length = body.length + 11 + (render rest).length := by
        rw [render_foot]; simp [sFootnote]; omega
      rw [hlen] at hf
      rw [render_foot]
      have hn1 := nextToken_footnote T.toTables src pos (body ++ '}' :: render rest) F.special F.nAccent
      obtain ⟨k1, hk1, hn2⟩ := nextToken_brace T src (pos + 9) '{' (body ++ '}' :: render rest)
        (Or.inl rfl) F.lb
      obtain ⟨k2, hk2, hn3⟩ := nextToken_brace T src (pos + 10 + body.length) '}' (render rest)
        (Or.inr rfl) F.rb
      obtain ⟨f, rfl⟩ : ∃ f, fuel = f + 2 := ⟨fuel - 2, by omega⟩
      obtain ⟨bsteps, B, hrun⟩ := scanSteps_textrun T st src ('}' :: render rest) (by simp; decide)
        body.length body (pos + 10) f (Nat.le_refl _) (by omega) F.text
      have hBl := B.len
      obtain ⟨g, hg⟩ : ∃ g, f - bsteps.length = g + 1 := ⟨f - bsteps.length - 1, by omega⟩
      obtain ⟨steps', ps', hsc, hok', hflat, I⟩ := ih g (pos + (body.length + 11)) (by omega) hrest
      have hpos2 : pos + 10 + body.length + 1 = pos + (body.length + 11) := by omega
      have hsteps : scanSteps T.toTables src (f + 2) pos (sFootnote ++ '{' :: (body ++ '}' :: render rest))
          = ({ tok := { kind := .xmacro, pos := pos, txt := sFootnote }, len := 9 } ::
              { tok := { kind := k1, pos := pos + 9, txt := ['{'] }, len := 1 } ::
              (bsteps ++
                { tok := { kind := k2, pos := pos + 10 + body.length, txt := ['}'] }, len := 1 } ::
                steps'), true) := by
        have hd9 : (sFootnote ++ '{' :: (body ++ '}' :: render rest)).drop 9
            = '{' :: (body ++ '}' :: render rest) := by simp [sFootnote]
        show scanSteps T.toTables src (f + 1 + 1) pos
          ('\\' :: 'f' :: 'o' :: 'o' :: 't' :: 'n' :: 'o' :: 't' :: 'e' :: '{' :: (body ++ '}' :: render rest)) = _
        rw [scanSteps]
        simp only []
        have hn1' : nextToken T.toTables src pos
            ('\\' :: 'f' :: 'o' :: 'o' :: 't' :: 'n' :: 'o' :: 't' :: 'e' :: '{' :: (body ++ '}' :: render rest))
            = { tok := { kind := .xmacro, pos := pos, txt := sFootnote }, len := 9 } := hn1
        rw [hn1']
        rw [if_neg (by simp)]
        have hd9' : ('\\' :: 'f' :: 'o' :: 'o' :: 't' :: 'n' :: 'o' :: 't' :: 'e' :: '{' :: (body ++ '}' :: render rest)).drop 9
            = '{' :: (body ++ '}' :: render rest) := hd9
        simp only [hd9']
        rw [scanSteps]
        simp only [hn2]
        rw [if_neg (by simp)]
        simp only [List.drop_succ_cons, List.drop_zero]
        rw [show pos + 9 + 1 = pos + 10 by omega, hrun, hg]
        rw [scanSteps]
        simp only [hn3]
        rw [if_neg (by simp)]
        simp only [List.drop_succ_cons, List.drop_zero, hpos2, hsc]
      refine ⟨_, _, hsteps, ?_, ?_, PieceFacts_foot k1 k2 hk1 hk2 F.ne F.lines B I⟩
      · intro x hx
        simp only [List.mem_cons, List.mem_append] at hx
        rcases hx with rfl | rfl | hx | rfl | hx
        · exact ⟨rfl, rfl⟩
        · exact ⟨rfl, rfl⟩
        · exact ⟨(B.ok x hx).1, (B.ok x hx).2.1⟩
        · exact ⟨rfl, rfl⟩
        · exact hok' x hx
      · simp [flat, Piece.toks, hflat]

/-! ### `scan`, `parserWork`, `parse`, `tex2txt` -/

theorem PiecesOk.notComment {T : PTables} {st : PState} : ∀ {ps : List Piece}, PiecesOk T st ps →
    ∀ t ∈ flat ps, t.kind ≠ .comment
  | [], _, _, h => by simp [flat] at h
  | .tok t :: rest, hok, x, hx => by
    simp only [flat, Piece.toks, List.singleton_append, List.mem_cons] at hx
    rcases hx with rfl | hx
    · exact hok.1.plain.notComment
    · exact PiecesOk.notComment hok.2 x hx
  | .foot fn lb b rb :: rest, hok, x, hx => by
    obtain ⟨h1, h2, h3, _, hb, _, hrest⟩ := hok
    simp only [flat, Piece.toks, List.cons_append, List.append_assoc, List.mem_cons,
      List.mem_append, List.nil_append] at hx
    rcases hx with rfl | rfl | hx | rfl | hx
    · rw [h1.kind]; simp
    · rcases h2.kind with k | k <;> simp [k]
    · exact (hb x hx).plain.notComment
    · rcases h3.kind with k | k <;> simp [k]
    · exact PiecesOk.notComment hrest x hx

/-- `scan` on a well-formed document: no diagnostics; the token buffer consists of copied tokens
    and footnotes -/
theorem scan_segs (T : PTables) (st : PState) (segs : List Seg) (hok : segsOk T st segs = true) :
    (scan T.toTables (render segs)).diags = [] ∧
    ∃ ps, (scan T.toTables (render segs)).toks = flat ps ∧ PieceFacts T st 0 segs ps := by
  obtain ⟨steps, ps, hsc, hok', hflat, F⟩ := scanSteps_segs T st (render segs) segs
    (render segs).length 0 (Nat.le_refl _) hok
  have he := flatten_tok_extra steps (fun s hs => (hok' s hs).2)
  have hd := flatten_diag_nil steps (fun s hs => (hok' s hs).1)
  simp only [scan, hsc]
  rw [he, hd]
  exact ⟨rfl, ps, hflat, F⟩

/-- under `linesOK` the blank-line removal drops nothing but the Action tokens of the footnotes -/
theorem removeLines_outMain {T : PTables} {st : PState} {segs : List Seg} {ps : List Piece}
    (F : PieceFacts T st 0 segs ps) (hlines : linesOK segs = true) :
    removeLines (outMain ps) = some ((outMain ps).filter keepOut) := by
  apply removeLines_safe_id
  apply lineRun_linesInit
  intro p
  rw [F.lines (some false) [lastItem p] (by simp)]
  unfold linesOK at hlines
  cases hs : lineS (some false) segs with
  | none => rw [hs] at hlines; cases hlines
  | some σ' =>
    rw [hs] at hlines
    simp only [] at hlines ⊢
    rw [lineRun_lastItem]
    exact hlines

theorem segsOk_congr (T : PTables) (st st' : PState) (h : st'.langStack = st.langStack) :
    ∀ segs : List Seg, segsOk T st' segs = segsOk T st segs
  | [] => rfl
  | .txt s :: rest => by simp only [segsOk, textOk_congr T st st' h, segsOk_congr T st st' h rest]
  | .foot b :: rest => by
    simp only [segsOk, footOk, textOk_congr T st st' h, segsOk_congr T st st' h rest]

theorem stateOk_congr (T : PTables) (st st' : PState) (hm : st'.macros = st.macros)
    (hl : st'.langStack = st.langStack) (hs : st'.multiLanguage = st.multiLanguage) :
    stateOk T st' = stateOk T st := by
  simp only [stateOk, lookupMacro, hm, hs, noEmptyActive_congr T st st' hl]

/-- **`parserWork` on a well-formed document** (root level: `nest = 0` before the call).  The main
    tokens are the scanner tokens without the footnotes; the bodies are appended to `extracted`
    in order; nothing else in the state changes. -/
theorem parserWork_foot (T : PTables) (st : PState) (segs : List Seg) (fuel : Nat)
    (hf : (render segs).length + 2 ≤ fuel) (hs : stateOk T st = true)
    (hok : segsOk T st segs = true) (hlines : linesOK segs = true) (hn : st.nest = 0) :
    ∃ ps, PieceFacts T st 0 segs ps ∧
      parserWork T fuel (render segs) st
        = .ok ((outMain ps).filter keepOut, { st with extracted := st.extracted ++ flowsOf ps }) := by
  obtain ⟨f, rfl⟩ : ∃ f, fuel = f + 1 := ⟨fuel - 1, by omega⟩
  obtain ⟨hd, ps, hflat, F⟩ := scan_segs T st segs hok
  refine ⟨ps, F, ?_⟩
  have hsf := stateFacts hs
  have hcost := F.cost
  have hseq := seq_foot T none ps f [] { st with latex := render segs, nest := st.nest + 1 }
    (by omega)
    (PiecesOk.congr (st := st) (st' := { st with latex := render segs, nest := st.nest + 1 }) rfl F.ok)
    (hsf.congr (st' := { st with latex := render segs, nest := st.nest + 1 }) rfl rfl rfl)
  rw [List.nil_append, removeLines_outMain F hlines] at hseq
  simp only [] at hseq
  rw [parserWork.eq_2]
  refine (M.bind_ok _ _ _ _ _ (rfl : M.get st = _)).trans ?_
  refine (M.bind_ok _ _ _ _ _ (rfl : M.modify _ _ = _)).trans ?_
  refine (M.bind_ok _ _ _ _ _ (rfl : M.modify _ _ = _)).trans ?_
  refine (M.bind_ok _ _ _ _ _ (rfl : M.get _ = _)).trans ?_
  simp only [hd, List.append_nil]
  rw [skipPass_nocomment _ _ _ (fun t ht' => F.ok.notComment t (by rw [← hflat]; exact ht'))]
  simp only []
  refine (M.bind_ok _ _ _ _ _ (rfl : (pure _ : M (List Tok)) _ = _)).trans ?_
  rw [hflat]
  refine (M.bind_ok _ _ _ _ _ hseq).trans ?_
  refine (M.bind_ok _ _ _ _ _ (rfl : M.modify _ _ = _)).trans ?_
  show Outcome.ok _ = _
  simp [addFlows, hn]

/-- (4) **`parse` on a well-formed document**: behind the main tokens, every flow is appended
    between a paragraph separator (three line breaks, pinned to the position of its first token)
    and a final line break (pinned to the position of its last token) -/
theorem parse_foot (T : PTables) (st : PState) (segs : List Seg) (fuel : Nat)
    (hf : (render segs).length + 2 ≤ fuel) (hs : stateOk T st = true)
    (hok : segsOk T st segs = true) (hlines : linesOK segs = true) :
    ∃ ps, PieceFacts T st 0 segs ps ∧
      parse T fuel (render segs) [] [] st
        = .ok ((outMain ps).filter keepOut ++ ((flowsOf ps).map flowToks).flatten,
               { st with extracted := flowsOf ps, unknowns := [], foreign := false, nest := 0 }) := by
  have hs' : stateOk T { st with extracted := [], unknowns := [], foreign := false, nest := 0 } = true :=
    (stateOk_congr T st { st with extracted := [], unknowns := [], foreign := false, nest := 0 }
      rfl rfl rfl).trans hs
  have hok' : segsOk T { st with extracted := [], unknowns := [], foreign := false, nest := 0 } segs
      = true :=
    (segsOk_congr T st { st with extracted := [], unknowns := [], foreign := false, nest := 0 } rfl
      segs).trans hok
  obtain ⟨ps, F, hw⟩ := parserWork_foot T
    { st with extracted := [], unknowns := [], foreign := false, nest := 0 } segs fuel hf hs' hok'
    hlines rfl
  refine ⟨ps, ⟨PiecesOk.congr
    (st := { st with extracted := [], unknowns := [], foreign := false, nest := 0 }) (st' := st) rfl F.ok,
    F.main, F.flows, F.cost, F.lines⟩, ?_⟩
  unfold parse
  simp only [List.isEmpty_nil, Bool.not_true, Bool.false_eq_true, if_false, if_true]
  refine (M.bind_ok _ _ _ _ _ (rfl : M.modify _ _ = _)).trans ?_
  refine (M.bind_ok _ _ _ _ _ (rfl : (pure _ : M (List Tok)) _ = _)).trans ?_
  refine (M.bind_ok _ _ _ _ _ (rfl : M.modify _ _ = _)).trans ?_
  refine (M.bind_ok _ _ _ _ _ hw).trans ?_
  refine (M.bind_ok _ _ _ _ _ (rfl : M.get _ = _)).trans ?_
  show Outcome.ok _ = _
  simp only [List.nil_append]
  rfl

/-- the reference output of a document: main text, then the flows -/
def refOut (segs : List Seg) : List (Char × Nat) := mainOut 0 segs ++ flowsOut 0 segs

/-- the result record of `tex2txt` on a well-formed document (no `--defs`, `--extr`, `--repl`,
    `--unkn`; single-language mode) -/
theorem tex2txt_foot_record (T : PTables) (o : Options) (fs : FS) (thresh : Nat) (segs : List Seg)
    (fuel : Nat) (st1 : PState)
    (hdefs : o.defs = []) (hextr : o.extr = []) (hrepl : o.hasRepl = false) (hunkn : o.unkn = false)
    (hinit : initParser T fuel o (initialState T o false fs) = .ok ((), st1))
    (hst : stateOk T st1 = true) (hok : segsOk T st1 segs = true) (hlines : linesOK segs = true)
    (hf : (render segs).length + 2 ≤ fuel) :
    ∃ ps, PieceFacts T st1 0 segs ps ∧
      tex2txt T fuel (render segs) o false thresh fs
        = .ok { toks := (outMain ps).filter keepOut ++ ((flowsOf ps).map flowToks).flatten,
                txt := (refOut segs).map (·.1),
                pos := ((refOut segs).map (·.2)).map (· + 1), parts := [], unknowns := [],
                diags := st1.diags, foreign := false } := by
  obtain ⟨ps, F, hp⟩ := parse_foot T st1 segs fuel hf hst hok hlines
  refine ⟨ps, F, ?_⟩
  have hrun : (initParser T fuel o >>= fun _ => parse T fuel (render segs) o.defs
        (if o.extr.isEmpty then [] else (splitOn ',' o.extr []).map (fun s => '\\' :: s)))
        (initialState T o false fs)
      = .ok ((outMain ps).filter keepOut ++ ((flowsOf ps).map flowToks).flatten,
             { st1 with extracted := flowsOf ps, unknowns := [], foreign := false, nest := 0 }) := by
    refine (M.bind_ok _ _ _ _ _ hinit).trans ?_
    rw [hdefs, hextr]
    exact hp
  have htp : getTxtPos ((outMain ps).filter keepOut ++ ((flowsOf ps).map flowToks).flatten)
      = ((refOut segs).map (·.1), (refOut segs).map (·.2)) := by
    rw [getTxtPos_append, getTxtPos_filter_keepOut, F.main, F.flows]
    simp [refOut]
  unfold tex2txt
  simp only []
  rw [hrun]
  simp only [hrepl, hunkn, Bool.not_false, if_true, Bool.false_eq_true, if_false, htp]

/-! ### the text of the result -/

/-- the main text: the text segments, concatenated (every `\footnote{…}` deleted, nothing else) -/
def mainText : List Seg → Str
  | [] => []
  | .txt s :: rest => s ++ mainText rest
  | .foot _ :: rest => mainText rest

/-- the flows: for every footnote, in order, a paragraph separator of three line breaks, the body,
    one line break -/
def flowsText : List Seg → Str
  | [] => []
  | .txt _ :: rest => flowsText rest
  | .foot body :: rest => ([nl, nl, nl] ++ body ++ [nl]) ++ flowsText rest

theorem mainOut_fst : ∀ (p : Nat) (segs : List Seg), (mainOut p segs).map (·.1) = mainText segs
  | _, [] => rfl
  | p, .txt s :: rest => by simp [mainOut, mainText, posText_fst, mainOut_fst _ rest]
  | p, .foot _ :: rest => by simp [mainOut, mainText, mainOut_fst _ rest]

theorem flowsOut_fst : ∀ (p : Nat) (segs : List Seg), (flowsOut p segs).map (·.1) = flowsText segs
  | _, [] => rfl
  | p, .txt _ :: rest => by simp [flowsOut, flowsText, flowsOut_fst _ rest]
  | p, .foot b :: rest => by
    simp [flowsOut, flowsText, flowOut, posText_fst, flowsOut_fst _ rest]

/-- **C03 at `\footnote`, end to end.**  The document is a sequence of inert text segments and
    `\footnote{body}` with inert, non-empty bodies and no optional argument (`segsOk`, `linesOK`);
    `st1` is the state after `Parser.__init__` (`stateOk`: `\footnote` declared with `OA`,
    extraction `#2`, empty replacement; single-language mode); no `--defs`, `--extr`, `--repl`,
    `--unkn`.  With one unit of fuel per source character plus two, `tex2txt` succeeds and

    * the output text is the main text — the text segments, every `\footnote{…}` deleted and
      nothing else — followed, for each footnote in order, by three line breaks, its body and one
      line break: the text of a footnote does not appear where `\footnote` stands and appears
      exactly once, behind the main text, as a separate paragraph;
    * every character of the main text and of a body maps to its own source position (1-based);
      the three line breaks of a separator map to the position of the first character of the body,
      the final line break to the position of the last token of the body (`lastTokOff`: its
      last character, or the start of the white space it ends with): `refOut`;
    * nothing is reported as unknown, no diagnostic is added, the ghost flag `foreign` is unset. -/
theorem tex2txt_footnote (T : PTables) (o : Options) (fs : FS) (thresh : Nat) (segs : List Seg)
    (fuel : Nat) (st1 : PState)
    (hdefs : o.defs = []) (hextr : o.extr = []) (hrepl : o.hasRepl = false) (hunkn : o.unkn = false)
    (hinit : initParser T fuel o (initialState T o false fs) = .ok ((), st1))
    (hst : stateOk T st1 = true) (hok : segsOk T st1 segs = true) (hlines : linesOK segs = true)
    (hf : (render segs).length + 2 ≤ fuel) :
    ∃ r, tex2txt T fuel (render segs) o false thresh fs = .ok r ∧
      r.txt = mainText segs ++ flowsText segs ∧
      r.txt = (refOut segs).map (·.1) ∧
      r.pos = (refOut segs).map (fun cp => cp.2 + 1) ∧
      r.unknowns = [] ∧ r.diags = st1.diags ∧ r.foreign = false := by
  obtain ⟨ps, _, ht⟩ := tex2txt_foot_record T o fs thresh segs fuel st1 hdefs hextr hrepl hunkn hinit
    hst hok hlines hf
  refine ⟨_, ht, ?_, rfl, ?_, rfl, rfl, rfl⟩
  · simp only [refOut, List.map_append, mainOut_fst, flowsOut_fst]
  · simp only [List.map_map]; rfl

/-! ### simpler sufficient conditions -/

theorem chrOk_of_inertChar (T : PTables) (st : PState) (c : Char) (X : Str)
    (h : inertChar T st c = true) : chrOk T st c X = true := by
  unfold inertChar at h
  unfold chrOk
  simp only [Bool.and_eq_true, Bool.or_eq_true] at h ⊢
  refine ⟨h.1, ?_⟩
  rcases h.2 with hs | ⟨h1, h2⟩
  · exact Or.inl hs
  · exact Or.inr ⟨h1, by rw [matchSpecial_none_of_startsNoSpecial _ _ _ h2]; rfl⟩

/-- per-character condition (`inertChar` of Proofs/Plain.lean) for text segments and bodies -/
theorem textOk_of_inertChar (T : PTables) (st : PState) (R : Str) :
    ∀ s : Str, s.all (inertChar T st) = true → textOk T st s R = true
  | [], _ => rfl
  | c :: cs, h => by
    simp only [List.all_cons, Bool.and_eq_true] at h
    simp only [textOk, Bool.and_eq_true]
    exact ⟨chrOk_of_inertChar T st c _ h.1, textOk_of_inertChar T st R cs h.2⟩

theorem lineC_noNl : ∀ (s : Str) (σ : Option Bool), hasNl s = false →
    lineC σ s = some (if isBlank s then σ else none)
  | [], σ, _ => by simp [lineC, isBlank]
  | c :: cs, σ, h => by
    have h' : (nl == c || hasNl cs) = false := by
      simpa only [hasNl, List.contains_cons] using h
    rw [Bool.or_eq_false_iff] at h'
    have hcs : hasNl cs = false := h'.2
    have hc : (c == nl) = false := by
      have : nl ≠ c := by simpa using h'.1
      simpa using fun e : c = nl => this e.symm
    by_cases hsp : isSpace c = true
    · simp only [lineC, hc, Bool.false_eq_true, if_false, hsp, if_true, lineC_noNl cs σ hcs]
      simp [isBlank, hsp]
    · have hsp' : isSpace c = false := by simpa using hsp
      simp only [lineC, hc, Bool.false_eq_true, if_false, hsp', lineC_noNl cs none hcs]
      simp [isBlank, hsp']

/-- a body without line break that is not only white space passes the line condition of `footOk` -/
theorem bodyLines_of_oneLine (body : Str) (hn : hasNl body = false) (hb : isBlank body = false) :
    lineC (some true) body = some none := by
  rw [lineC_noNl body _ hn, hb]; rfl

/-! ### the hypotheses can be met -/

namespace FootExample
open PlainExample

/-- the declaration of `\footnote` as in `parameters.py`:
    `Macro(parms, '\\footnote', args='OA', repl='', extract='#2')` -/
def footDecl : MacroDef :=
  { name := sFootnote, args := ['O', 'A'], repl := [],
    extract := [{ kind := .arg 2, pos := 0, txt := ['#', '2'] }] }

/-- `PlainExample.tinyT` with the declaration of `\footnote` -/
def tinyF : PTables := { tinyT with macroDefsPython := [footDecl] }

/-- the state after `Parser.__init__` -/
def stF : PState := { initialState tinyF oEn false [] with macros := [footDecl] }

theorem initParser_tinyF : initParser tinyF 80 oEn (initialState tinyF oEn false []) = .ok ((), stF) := by
  with_unfolding_all rfl

theorem stF_ok : stateOk tinyF stF = true := by decide

/-- `"Alpha\footnote{first note} beta gamma\footnote{second}.\n"` -/
def segs : List Seg :=
  [.txt "Alpha".toList, .foot "first note".toList, .txt " beta gamma".toList,
   .foot "second".toList, .txt ".\n".toList]

example : render segs = "Alpha\\footnote{first note} beta gamma\\footnote{second}.\n".toList := by decide

theorem segs_ok : segsOk tinyF stF segs = true := by decide
theorem segs_lines : linesOK segs = true := by decide

theorem segs_ref : refOut segs
    = ("Alpha beta gamma.\n".toList.zip [0, 1, 2, 3, 4, 26, 27, 28, 29, 30, 31, 32, 33, 34, 35, 36, 54, 55])
      ++ ("\n\n\nfirst note\n".toList.zip [15, 15, 15, 15, 16, 17, 18, 19, 20, 21, 22, 23, 24, 24])
      ++ ("\n\n\nsecond\n".toList.zip [47, 47, 47, 47, 48, 49, 50, 51, 52, 52]) := by decide

/-- the end-to-end statement applies (56 characters, fuel 80): the bodies leave the main text and
    follow it as separate paragraphs, in order; every character keeps its source position -/
example : ∃ r, tex2txt tinyF 80 (render segs) oEn false 0 [] = .ok r ∧
    r.txt = "Alpha beta gamma.\n\n\n\nfirst note\n\n\n\nsecond\n".toList ∧
    r.pos = [1, 2, 3, 4, 5, 27, 28, 29, 30, 31, 32, 33, 34, 35, 36, 37, 55, 56,
             16, 16, 16, 16, 17, 18, 19, 20, 21, 22, 23, 24, 25, 25,
             48, 48, 48, 48, 49, 50, 51, 52, 53, 53] ∧
    r.unknowns = [] ∧ r.diags = [] ∧ r.foreign = false := by
  obtain ⟨r, h1, h2, _, h4, h5, h6, h7⟩ := tex2txt_footnote tinyF oEn [] 0 segs 80 stF rfl rfl rfl rfl
    initParser_tinyF stF_ok segs_ok segs_lines (by decide)
  refine ⟨r, h1, ?_, ?_, h5, h6, h7⟩
  · rw [h2]; decide
  · rw [h4, segs_ref]; decide

/-- the side conditions reject what they should (and accept what they should) -/
example : linesOK [.txt "x\n".toList, .foot "a".toList, .txt "\ny".toList] = false := by decide
example : linesOK [.txt "x\n".toList, .foot "a".toList, .txt " b\ny".toList] = true := by decide
example : segsOk tinyF stF [.foot " ".toList] = false := by decide
example : segsOk tinyF stF [.foot [] ] = false := by decide
example : segsOk tinyF stF [.foot "a{b}".toList] = false := by decide
example : segsOk tinyF stF [.foot "a\\b".toList] = false := by decide
example : segsOk tinyF stF [.foot "a\n".toList] = false := by decide
example : segsOk tinyF stF [.txt "x ".toList, .txt " y".toList] = false := by decide
example : segsOk tinyF stF [.txt "x".toList, .foot "a\n b\n\nc d  ".toList, .txt " y".toList] = true := by
  decide
example : lastTokOff "ab  ".toList = 2 := by decide
example : lastTokOff "first note".toList = 9 := by decide

/-
  Recorded `#eval`s.

  * tiny tables: `tex2txt tinyF 80 (render segs) oEn false 0 []` gives the text and positions of the
    example above.
  * real tables (`import YalafiVerif.Generated.Tables`, `YalafiVerif.Generated.Init`;
    `T := Generated.theTables`, `st1 := Generated.stDefault`, default options):
    - `lookupMacro st1 sFootnote` = `{ name := \footnote, args := "OA", repl := [], handler := none,
      defaults := [], extract := [{ kind := .arg 2, pos := 0, txt := "#2" }] }`;
      `(scan T "#2").toks` is that token list; `stateOk T st1 = true`.
    - `"Alpha\footnote{first note} beta gamma\footnote{second}.\n"`: `segsOk`, `linesOK`;
      `tex2txt T 2000 …` returns `"Alpha beta gamma.\n\n\n\nfirst note\n\n\n\nsecond\n"` with the
      positions of the example, no unknowns, no diagnostics, `foreign = false`  (= `refOut`).
    - `[.txt "x", .foot "ab  ", .txt " y"]` ↦ `"x y\n\n\nab  \n"`, positions
      `[1,17,18, 12,12,12, 12,13,14,15, 14]`: the final line break sits at the start of the trailing
      white space (`lastTokOff "ab  " = 2`)  (= `refOut`).
    - `[.txt "x", .foot "a\n b\n\nc d", .txt " y"]`: accepted; output `"x y\n\n\na\n b\n\nc d\n"` = `refOut`.
    - `[.txt "don't - well", .foot "it's 1-2"]`: accepted (context condition), output = `refOut`.
    - `"x\n\footnote{a}\ny"` ↦ `"x\ny\n\n\na\n"` with positions `[1,2,16,…]`: the line of the footnote
      is deleted — `linesOK` is false, the output differs from `refOut`.
    - `"\footnote{ }"` ↦ `""` (no flow text at all); rejected by `footOk`.
    - rejected by `segsOk`, output differs from `refOut`: `\footnote{x{y}}`, `\footnote{x\foo}`.
    - rejected although the output equals `refOut` (conditions are sufficient only):
      `x\footnote{a\n}` (`lineC` fails at the end of the body), `[.txt "x ", .txt " y"]`,
      `\footnote{a}\footnote{b}` alone (`linesOK`).
    - fuel: `parserWork T f "\footnote{a}" { st1 with nest := 0 }` is `ok` from `f = 9` on (bound: 14),
      for `"\footnote{abc}"` from 11 on (bound: 16).
-/

end FootExample

end PlainFootnote
end Yalafi
