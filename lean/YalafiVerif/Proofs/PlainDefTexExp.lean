/-
  Proofs/PlainDefTexExp.lean — the expander level of Proofs/PlainDefTex.lean: token buffers that consist of
  plain tokens, definitions `\newcommand{\name}[n]{body}`, definitions `\def\name#1…#n{body}` and uses
  `\name{a1}…{am}`.

    `paramToks`, `defArgs_params`, `defArgPosMap_params`, `defMapRepl_id`, `parseDefMacro_params`
                                        `parse_def_macro` on `\name#1…#n{body}` stores the SAME macro
                                        `userMacro \name n body` as `\newcommand{\name}[n]{body}`
    `seq_ddef_step`                     the `\def` branch of `expandSequence`: one iteration
    `Piece`, `PiecesOk`, `outP`, `finalSt`, `cost`, `ArityOk`, `seq_macro`   the loop (the use side and
                                        the `\newcommand` side are the lemmas of PlainMacroArgsExp.lean)
-/
import YalafiVerif.Proofs.PlainMacroArgs
namespace Yalafi
namespace PlainDefTex

open M
open PlainMacro (lbr rbr NoBrace restamp argBuffer_brace skipSpace_cons_of_not ncName NcOk NameOk
  plainTok_noBrace PassTok_congr)
open PlainMacroArgs (argTok digitChar userMacro RefsOk GoodBody BodyTok StOk defSt useSt useN useBody
  Group groupsFlat groupsOut GroupGood DigitOk txtTok seq_def_step seq_use_step noEmptyActive_of_StOk)

/-! ### `parse_def_macro` -/

/-- the name `def` (without backslash) -/
def defName : Str := "def".toList

/-- the tokens of the parameter text `#i #(i+1) … #(i+m-1)` that starts at position `q` -/
def paramToks : Nat → Nat → Nat → List Tok
  | _, _, 0 => []
  | q, i, m + 1 => argTok q i (digitChar i) :: paramToks (q + 2) (i + 1) m

theorem paramToks_length : ∀ (m q i : Nat), (paramToks q i m).length = m
  | 0, _, _ => rfl
  | m + 1, q, i => by simp [paramToks, paramToks_length m]

theorem defArgs_params (R : Buf) (q7 : Nat) : ∀ (m q i fuel : Nat) (acc : List Tok), m < fuel →
    defArgs fuel (paramToks q i m ++ lbr q7 :: R) acc = some (acc.reverse ++ paramToks q i m, lbr q7 :: R)
  | 0, q, i, fuel, acc, hf => by
    obtain ⟨f, rfl⟩ : ∃ f, fuel = f + 1 := ⟨fuel - 1, by omega⟩
    have ht : txtIs (lbr q7) "{" = true := by simp [txtIs, lbr]
    simp only [paramToks, List.nil_append, defArgs,
      skipSpace_cons_of_not _ _ (rfl : isSpaceTok (lbr q7) = false), ht, if_true, List.append_nil]
  | m + 1, q, i, fuel, acc, hf => by
    obtain ⟨f, rfl⟩ : ∃ f, fuel = f + 1 := ⟨fuel - 1, by omega⟩
    have hs : isSpaceTok (argTok q i (digitChar i)) = false := rfl
    have ht : txtIs (argTok q i (digitChar i)) "{" = false := by simp [txtIs, argTok]
    simp only [paramToks, List.cons_append, defArgs, skipSpace_cons_of_not _ _ hs, ht,
      Bool.false_eq_true, if_false]
    rw [defArgs_params R q7 m (q + 2) (i + 1) f _ (by omega)]
    simp

theorem defArgPosMap_params : ∀ (m q i : Nat) (acc : List Nat),
    defArgPosMap (paramToks q i m) i i acc = .ok (acc ++ List.range' i m)
  | 0, _, _, acc => by simp [paramToks, defArgPosMap]
  | m + 1, q, i, acc => by
    have hr : argRef (argTok q i (digitChar i)) = some i := rfl
    simp only [paramToks, defArgPosMap, hr, bne_self_eq_false, Bool.false_eq_true, if_false]
    rw [defArgPosMap_params m (q + 2) (i + 1) (acc ++ [i])]
    simp [List.range'_succ]

theorem kind_of_argRef {t : Tok} {a : Nat} (h : argRef t = some a) : t.kind = .arg a := by
  unfold argRef at h
  split at h
  · rename_i n hk; cases h; exact hk
  · cases h

theorem defMapRepl_id (n : Nat) : ∀ (b acc : List Tok), RefsOk n b →
    defMapRepl (List.range' 1 n) b acc = .ok (acc.reverse ++ b)
  | [], acc, _ => by simp [defMapRepl]
  | t :: ts, acc, h => by
    cases hk : argRef t with
    | none =>
      simp only [defMapRepl, hk]
      rw [defMapRepl_id n ts (t :: acc) h.tail]
      simp
    | some a =>
      obtain ⟨a1, a2⟩ := h t (List.mem_cons_self ..) a hk
      have hc : (decide (a < 1) || decide (a > (List.range' 1 n).length)) = false := by
        simp; omega
      have hg : (List.range' 1 n).getD (a - 1) 0 = a := by
        rw [List.getD_eq_getElem?_getD, List.getElem?_range' (by omega)]
        simp; omega
      have ht : ({ t with kind := .arg a } : Tok) = t := by
        have := kind_of_argRef hk
        cases t; simp_all
      simp only [defMapRepl, hk, hc, Bool.false_eq_true, if_false, hg, ht]
      rw [defMapRepl_id n ts (t :: acc) h.tail]
      simp

/-- **`parse_def_macro`** on `\name#1…#n{body}`: the macro `userMacro \name n body` is stored (the same
    record `\newcommand{\name}[n]{body}` stores), an Action token at the position of `\def` is
    returned, the buffer continues behind the closing brace -/
theorem parseDefMacro_params (T : PTables) (q2 : Nat) (name : Str) (n q q7 q8 : Nat) (body : List Tok)
    (rest : Buf) (start : Nat) (st : PState) (hb : ∀ t ∈ body, NoBrace t) (hbne : body ≠ [])
    (hr : RefsOk n body) :
    parseDefMacro T (cwTok q2 name :: (paramToks q 1 n ++ lbr q7 :: (body ++ rbr q8 :: rest))) start st
      = .ok (([mkAction start], rest),
             { st with macros := setMacro st.macros (userMacro ('\\' :: name) n body) }) := by
  have hs : isSpaceTok (cwTok q2 name) = false := rfl
  have hk : ((cwTok q2 name).kind != Kind.xmacro) = false := by simp [cwTok]
  have hda := defArgs_params (body ++ rbr q8 :: rest) q7 n q 1
    ((paramToks q 1 n ++ lbr q7 :: (body ++ rbr q8 :: rest)).length + 1) []
    (by simp [paramToks_length]; omega)
  have ha := argBuffer_brace T.toTables q7 q8 body rest q7 st hb hbne
  unfold parseDefMacro
  simp only [skipSpace_cons_of_not _ _ hs, hk, Bool.false_eq_true, if_false, hda, List.reverse_nil,
    List.nil_append, List.head?_cons]
  refine (M.bind_ok _ _ _ _ _ ha).trans ?_
  simp only [defArgPosMap_params n q 1 [], List.nil_append, defMapRepl_id n body [] hr, List.reverse_nil,
    paramToks_length]
  rfl

/-- **the `\def` step of `expandSequence`**: ONE iteration (the Action token goes to the output
    directly); the macro is stored, nothing but the Action token is emitted -/
theorem seq_ddef_step (T : PTables) (fuel : Nat) (p q2 q q7 q8 : Nat) (name : Str) (n : Nat)
    (body : List Tok) (rest : Buf) (envStop : Option Str) (out : List Tok) (st1 st : PState)
    (hb : GoodBody T st1 n body) :
    expandSequence T (fuel + 1)
        (cwTok p defName :: cwTok q2 name :: (paramToks q 1 n ++ lbr q7 :: (body ++ rbr q8 :: rest)))
        envStop out st
      = expandSequence T fuel rest envStop (out ++ [mkAction p]) (defSt st name n body) := by
  have hmac := parseDefMacro_params T q2 name n q q7 q8 body rest p st hb.noBrace hb.1 hb.refs
  rw [expandSequence.eq_3]
  show M.bind' M.get _ st = _
  simp only [M.bind', M.get]
  have hk : (cwTok p defName).kind = .xmacro := rfl
  have hdf : txtIs (cwTok p defName) "\\def" = true := by simp [txtIs, cwTok, defName]
  simp only [hk, hdf, Bool.false_eq_true, if_false, if_true, reduceCtorEq, beq_iff_eq, beq_self_eq_true]
  refine (M.bind_ok _ _ _ _ _ hmac).trans ?_
  rfl

/-! ### the token buffers -/

/-- the pieces of a token buffer: a token that is copied, a definition
    `\\newcommand { \name } [ n ] { body }`, a definition `\\def \name #1 … #n { body }`, a use
    `\name { a1 } … { am }` -/
inductive Piece where
  | tok (t : Tok)
  | defn (p q1 q2 q3 q4 q5 q6 q7 q8 : Nat) (name : Str) (n : Nat) (body : List Tok)
  | ddef (p q2 q q7 q8 : Nat) (name : Str) (n : Nat) (body : List Tok)
  | use (p : Nat) (name : Str) (gs : List Group)

def Piece.toks : Piece → List Tok
  | .tok t => [t]
  | .defn p q1 q2 q3 q4 q5 q6 q7 q8 name n body =>
    cwTok p ncName :: lbr q1 :: cwTok q2 name :: rbr q3 :: txtTok q4 '[' :: txtTok q5 (digitChar n) ::
      txtTok q6 ']' :: lbr q7 :: (body ++ [rbr q8])
  | .ddef p q2 q q7 q8 name n body =>
    cwTok p defName :: cwTok q2 name :: (paramToks q 1 n ++ lbr q7 :: (body ++ [rbr q8]))
  | .use p name gs => cwTok p name :: groupsFlat gs

/-- the token buffer -/
def flat : List Piece → List Tok
  | [] => []
  | p :: ps => p.toks ++ flat ps

def PiecesOk (T : PTables) (st1 : PState) : List Piece → Prop
  | [] => True
  | .tok t :: rest => PlainTok t ∧ PassTok T st1 t (flat rest) ∧ PiecesOk T st1 rest
  | .defn _ _ _ _ _ _ _ _ _ name n body :: rest =>
    NameOk st1 name ∧ DigitOk T st1 n ∧ GoodBody T st1 n body ∧ PiecesOk T st1 rest
  | .ddef _ _ _ _ _ name n body :: rest => NameOk st1 name ∧ GoodBody T st1 n body ∧ PiecesOk T st1 rest
  | .use _ name gs :: rest =>
    NameOk st1 name ∧ gs ≠ [] ∧ (∀ g ∈ gs, GroupGood T st1 g) ∧ PiecesOk T st1 rest

/-- what `expandSequence` emits for the pieces before the blank-line removal -/
def outP : PState → List Piece → List Tok
  | _, [] => []
  | st, .tok t :: rest => t :: outP st rest
  | st, .defn p _ _ _ _ _ _ _ _ name n body :: rest => mkAction p :: outP (defSt st name n body) rest
  | st, .ddef p _ _ _ _ name n body :: rest => mkAction p :: outP (defSt st name n body) rest
  | st, .use p name gs :: rest =>
    mkAction p :: (useBody st p name gs ++ (groupsOut (gs.drop (useN st name)) ++ outP (useSt st name) rest))

/-- the state after the pieces -/
def finalSt : PState → List Piece → PState
  | st, [] => st
  | st, .tok _ :: rest => finalSt st rest
  | st, .defn _ _ _ _ _ _ _ _ _ name n body :: rest => finalSt (defSt st name n body) rest
  | st, .ddef _ _ _ _ _ name n body :: rest => finalSt (defSt st name n body) rest
  | st, .use _ name _ :: rest => finalSt (useSt st name) rest

/-- iterations of `expandSequence` -/
def cost : PState → List Piece → Nat
  | _, [] => 0
  | st, .tok _ :: rest => 1 + cost st rest
  | st, .defn _ _ _ _ _ _ _ _ _ name n body :: rest => 2 + cost (defSt st name n body) rest
  | st, .ddef _ _ _ _ _ name n body :: rest => 1 + cost (defSt st name n body) rest
  | st, .use p name gs :: rest =>
    2 + (useBody st p name gs).length + (groupsOut (gs.drop (useN st name))).length
      + cost (useSt st name) rest

/-- every use has at least as many groups as the macro in force has parameters -/
def ArityOk : PState → List Piece → Prop
  | _, [] => True
  | st, .tok _ :: rest => ArityOk st rest
  | st, .defn _ _ _ _ _ _ _ _ _ name n body :: rest => ArityOk (defSt st name n body) rest
  | st, .ddef _ _ _ _ _ name n body :: rest => ArityOk (defSt st name n body) rest
  | st, .use _ name gs :: rest => useN st name ≤ gs.length ∧ ArityOk (useSt st name) rest

/-- **the loop on a buffer of plain tokens, definitions of both kinds and uses.**  The output is the
    blank-line removal applied to `outP`; the state is `finalSt`.  Fuel: `cost` plus five (the
    handler of a last `\\newcommand` nests six calls deep). -/
theorem seq_macro (T : PTables) (envStop : Option Str) (st1 : PState) (hnc : NcOk st1)
    (ha : noEmptyActive T st1 = true) :
    ∀ (ps : List Piece) (fuel : Nat) (out : List Tok) (st : PState),
      cost st ps + 5 ≤ fuel → PiecesOk T st1 ps → ArityOk st ps → StOk T st1 st →
      expandSequence T fuel (flat ps) envStop out st
        = match removeLines (out ++ outP st ps) with
          | some r => .ok ((r, []), finalSt st ps)
          | none => .outOfFuel := by
  intro ps
  induction ps with
  | nil =>
    intro fuel out st hf _ _ _
    obtain ⟨f, rfl⟩ : ∃ f, fuel = f + 1 := ⟨fuel - 1, by omega⟩
    simp only [flat, outP, finalSt, List.append_nil]
    rw [expandSequence.eq_2]
    cases removeLines out <;> rfl
  | cons pc ps ih =>
    intro fuel out st hf hok har hst
    cases pc with
    | tok t =>
      simp only [cost] at hf
      obtain ⟨f, rfl⟩ : ∃ f, fuel = f + 1 := ⟨fuel - 1, by omega⟩
      simp only [flat, Piece.toks, List.singleton_append]
      rw [seq_plain_step T f t (flat ps) envStop out st hok.1 (PassTok_congr hst.lang hok.2.1),
        ih f (out ++ [t]) st (by omega) hok.2.2 har hst]
      simp only [outP, finalSt, List.append_assoc, List.singleton_append]
    | defn p q1 q2 q3 q4 q5 q6 q7 q8 name n body =>
      obtain ⟨hn, hd, hb, hrest⟩ := hok
      simp only [cost] at hf
      obtain ⟨f, rfl⟩ : ∃ f, fuel = f + 7 := ⟨fuel - 7, by omega⟩
      have hflat : flat (Piece.defn p q1 q2 q3 q4 q5 q6 q7 q8 name n body :: ps)
          = cwTok p ncName :: lbr q1 :: cwTok q2 name :: rbr q3 :: txtTok q4 '[' ::
            txtTok q5 (digitChar n) :: txtTok q6 ']' :: lbr q7 :: (body ++ rbr q8 :: flat ps) := by
        simp [flat, Piece.toks]
      rw [hflat, seq_def_step T f p q1 q2 q3 q4 q5 q6 q7 q8 name n body (flat ps) envStop out st1 st hst
        hnc hn hd hb ha, ih (f + 5) _ _ (by omega) hrest har (hst.defSt name n body hn hb)]
      simp only [outP, finalSt, List.append_assoc, List.singleton_append]
    | ddef p q2 q q7 q8 name n body =>
      obtain ⟨hn, hb, hrest⟩ := hok
      simp only [cost] at hf
      obtain ⟨f, rfl⟩ : ∃ f, fuel = f + 1 := ⟨fuel - 1, by omega⟩
      have hflat : flat (Piece.ddef p q2 q q7 q8 name n body :: ps)
          = cwTok p defName :: cwTok q2 name :: (paramToks q 1 n ++ lbr q7 :: (body ++ rbr q8 :: flat ps)) := by
        simp [flat, Piece.toks]
      rw [hflat, seq_ddef_step T f p q2 q q7 q8 name n body (flat ps) envStop out st1 st hb,
        ih f _ _ (by omega) hrest har (hst.defSt name n body hn hb)]
      simp only [outP, finalSt, List.append_assoc, List.singleton_append]
    | use p name gs =>
      obtain ⟨hn, hne, hg, hrest⟩ := hok
      obtain ⟨har1, har2⟩ := har
      simp only [cost] at hf
      obtain ⟨f, hf'⟩ : ∃ f, fuel = f + (2 + (useBody st p name gs).length
          + (groupsOut (gs.drop (useN st name))).length) :=
        ⟨fuel - (2 + (useBody st p name gs).length + (groupsOut (gs.drop (useN st name))).length), by omega⟩
      have hflat : flat (Piece.use p name gs :: ps) = cwTok p name :: (groupsFlat gs ++ flat ps) := by
        simp [flat, Piece.toks]
      rw [hflat, hf', seq_use_step T f p name gs (flat ps) envStop out st1 st hst hn ha hne hg har1,
        ih f _ _ (by omega) hrest har2 (hst.useSt name)]
      simp only [outP, finalSt, List.append_assoc, List.cons_append]

end PlainDefTex
end Yalafi
