/-
  Proofs/PlainItemLBase.lean — first half of the development of Proofs/PlainItemL.lean (see the header
  there): the expander level of a LABELLED item `\item[label]` (`argBuffer_bracketA`,
  `collectArgs_itemL`, `expandArguments_itemL`, `expandItem_label`), the punctuation `expand_item`
  repeats behind the label (`pvOf`, `pstep`, `prevPunct`, `punctOf`), the steps of the loop
  (`seq_void_step`, `seq_arg_copy`, `seq_itemL_step`) and the loop on token buffers that mix plain
  tokens, list environments with labelled and unlabelled items, and undeclared environments
  (`Piece`, `PiecesOk`, `outP`, `finalStk`, `names`, `cost`, `seq_listL`).
-/
import YalafiVerif.Proofs.PlainItem
import YalafiVerif.Proofs.PlainUnkn2
import YalafiVerif.Proofs.PlainFlowsBase
namespace Yalafi
namespace PlainItemL

open M
open PlainMacro (lbr rbr NoBrace plainTok_noBrace PassTok_congr skipSpace_cons_of_not
  skippedLangs_cons_of_not)
open PlainFootnote (CopyTok seq_copy_prefix)
open PlainRef (chTok lastPos lastPos_of_getLast)
open PlainFlows (OptToks)
open PlainItem (begTok endTok itemTok spTok labTok itemMac NameToks listEnvAt begStk itemStk endStk labOf
  labelAt envOf styleOf envOut labOk labOk_facts spTok_plain skipSpace_sp skippedLangs_sp begSt endSt
  itemSt StOk listEnvAt_facts noEmptyActive_of_lang)

/-! ### `[label]` as the optional argument of `\item` -/

/-- the argument `arg_buffer` returns for `[label]`: the label tokens, or one void token at the
    position of `[` for the empty label `[]` -/
def labArg (b1 : Nat) (lab : List Tok) : List Tok := if lab.isEmpty then [mkVoid b1] else lab

theorem labArg_ne (b1 : Nat) (lab : List Tok) : labArg b1 lab ≠ [] := by
  unfold labArg; split
  · simp
  · rename_i h; intro e; rw [e] at h; simp at h

/-- the position of the first token of a list -/
def headPos (a : List Tok) : Nat := (a.head?.map (·.pos)).getD 0

/-- `arg_buffer` on `[label]`: the argument `labArg`, the buffer behind `]`; no error -/
theorem argBuffer_bracketA (T : Tables) (p q : Nat) (lab : List Tok) (rest : Buf) (start : Nat)
    (st : PState) (h : ∀ t ∈ lab, NoBrace t ∧ t.txt ≠ [']']) :
    argBuffer T (chTok p '[' :: (lab ++ chTok q ']' :: rest)) start false st
      = .ok ((labArg p lab, rest), st) := by
  have hc := PlainRef.collectArg_bracket q rest lab [] h
  have hp : argBufferPure T.mark (chTok p '[' :: (lab ++ chTok q ']' :: rest)) start false
      = { arg := labArg p lab, buf := rest } := by
    unfold argBufferPure
    rw [skipSpace_cons_of_not _ _ (by rfl)]
    have h1 : ((chTok p '[').kind == Kind.par) = false := by rfl
    have h2 : txtIsNV (chTok p '[') "{" = false := by simp [txtIsNV, chTok]
    simp only [h1, h2, Bool.false_eq_true, if_false, Bool.false_and, hc,
      List.reverse_nil, List.nil_append]
    rfl
  unfold argBuffer
  rw [hp]
  rfl

/-- `collectArgs` for `\item` WITH `[label]`: the white space behind `\item` is skipped, the label is
    the argument -/
theorem collectArgs_itemL (T : PTables) (sp : Buf) (b1 b2 : Nat) (lab : List Tok) (rest : Buf)
    (start : Nat) (st : PState)
    (hsp : ∀ t ∈ sp, isSpaceTok t = true ∧ isLangK t = false)
    (hlab : ∀ t ∈ lab, NoBrace t ∧ t.txt ≠ [']']) :
    collectArgs T itemMac ['O'] 0 (sp ++ chTok b1 '[' :: (lab ++ chTok b2 ']' :: rest)) start {} st
      = .ok (({ args := [labArg b1 lab], extr := [labArg b1 lab], langs := [] }, rest), st) := by
  have hns : ∀ t, (chTok b1 '[' :: (lab ++ chTok b2 ']' :: rest)).head? = some t → isSpaceTok t = false := by
    intro t ht
    simp only [List.head?_cons, Option.some.injEq] at ht
    subst ht; rfl
  have h1 := skipSpace_sp sp _ (fun t ht => (hsp t ht).1) hns
  have h2 := skippedLangs_sp sp _ hsp hns
  have hn := argBuffer_bracketA T.toTables b1 b2 lab rest b1 st hlab
  rw [collectArgs]
  simp only [h1, h2, show ('O' == '*') = false by decide, beq_self_eq_true, if_true,
    Bool.false_eq_true, if_false, List.append_nil, List.head?_cons,
    show txtIsNV (chTok b1 '[') "[" = true by rfl]
  refine (M.bind_ok _ _ _ _ _ hn).trans ?_
  rw [collectArgs]
  rfl

/-- what `expand_arguments` returns for `\item[label]`: the Action token of the call, and the
    argument between two Action tokens (the replacement `#1`) -/
def itemArgOut (p : Nat) (a : List Tok) : List Tok :=
  mkAction p :: mkAction (headPos a) :: (a ++ [mkAction (lastPos a)])

theorem genRepl_item (a : List Tok) (hne : a ≠ []) (start : Nat) :
    generateReplacements [a] itemMac.repl start
      = some (mkAction (headPos a) :: (a ++ [mkAction (lastPos a)])) := by
  obtain ⟨h, hh⟩ : ∃ h, a.head? = some h := by
    cases a with
    | nil => exact absurd rfl hne
    | cons x _ => exact ⟨x, rfl⟩
  obtain ⟨l, hl⟩ : ∃ l, a.getLast? = some l := by
    cases hx : a.getLast? with
    | none => rw [List.getLast?_eq_none_iff] at hx; exact absurd hx hne
    | some x => exact ⟨x, rfl⟩
  simp [generateReplacements, initCurPos, genReplLoop, itemMac, argRef, pyIndex, hh, hl, headPos, lastPos]

theorem expandArguments_itemL (T : PTables) (fuel : Nat) (sp : Buf) (b1 b2 : Nat) (lab : List Tok)
    (rest : Buf) (start : Nat) (st : PState)
    (hsp : ∀ t ∈ sp, isSpaceTok t = true ∧ isLangK t = false)
    (hlab : ∀ t ∈ lab, NoBrace t ∧ t.txt ≠ [']']) :
    expandArguments T (fuel + 1) (sp ++ chTok b1 '[' :: (lab ++ chTok b2 ']' :: rest)) itemMac start st
      = .ok ((itemArgOut start (labArg b1 lab), rest), st) := by
  rw [expandArguments.eq_2]
  refine (M.bind_ok _ _ _ _ _ (collectArgs_itemL T sp b1 b2 lab rest start st hsp hlab)).trans ?_
  have he : itemMac.extract = [] := rfl
  have hh : itemMac.handler = .none := rfl
  simp only [he, hh, List.isEmpty_nil, Bool.not_true, Bool.false_eq_true, if_false,
    show (Handler.none != Handler.none) = false by decide, genRepl_item _ (labArg_ne b1 lab) start]
  show Outcome.ok _ = _
  simp [itemArgOut]

/-! ### the punctuation `expand_item` repeats behind a label -/

/-- the last character of the last token of the output so far whose text is not blank -/
def pvOf (out : List Tok) : Option Char :=
  (out.reverse.find? (fun t => !isBlank t.txt)).bind (·.txt.getLast?)

/-- one more output token -/
def pstep (pv : Option Char) (t : Tok) : Option Char := if isBlank t.txt then pv else t.txt.getLast?

/-- more output tokens -/
def pvAfter (pv : Option Char) (ts : List Tok) : Option Char := ts.foldl pstep pv

theorem pvOf_snoc (out : List Tok) (t : Tok) : pvOf (out ++ [t]) = pstep (pvOf out) t := by
  unfold pvOf pstep
  rw [List.reverse_append]
  simp only [List.reverse_cons, List.reverse_nil, List.nil_append, List.singleton_append, List.find?_cons]
  cases hb : isBlank t.txt <;> simp

theorem pvOf_append (out : List Tok) : ∀ ts : List Tok, pvOf (out ++ ts) = pvAfter (pvOf out) ts
  | [] => by simp [pvAfter]
  | t :: ts => by
    have := pvOf_append (out ++ [t]) ts
    rw [List.append_assoc, List.singleton_append] at this
    rw [this, pvOf_snoc]
    rfl

theorem pvAfter_append (pv : Option Char) (a b : List Tok) :
    pvAfter pv (a ++ b) = pvAfter (pvAfter pv a) b := by
  simp [pvAfter, List.foldl_append]

/-- the punctuation character that is repeated: the last visible character so far, if it is in
    `item_punctuation` -/
def punctOf (T : PTables) (pv : Option Char) : Option Char :=
  match pv with
  | some c => if T.itemPunctuation.contains [c] then some c else none
  | none => none

/-- the tokens of the repeated punctuation, pinned at `q` -/
def punctToks (pc : Option Char) (q : Nat) : List Tok :=
  match pc with
  | some c => [mkFix .text q [c]]
  | none => []

/-- **what `expand_item` returns for `\item[label]`**: a blank at the position of `\item`, the
    Action token of the call, the label between two Action tokens, the repeated punctuation and a
    blank, both pinned at the last token of the label -/
def itemLOut (p : Nat) (a : List Tok) (pc : Option Char) : List Tok :=
  spTok p :: (itemArgOut p a ++ (punctToks pc (lastPos a) ++ [spTok (lastPos a)]))

theorem getLast_itemArgOut (p : Nat) (a : List Tok) :
    (itemArgOut p a).getLast? = some (mkAction (lastPos a)) := by
  have : itemArgOut p a = (mkAction p :: mkAction (headPos a) :: a) ++ [mkAction (lastPos a)] := by
    simp [itemArgOut]
  rw [this, List.getLast?_append]
  simp

theorem not_all_action (p : Nat) (a : List Tok) (hne : a ≠ [])
    (ha : ∀ t ∈ a, (t.kind == Kind.action || isLangK t) = false) :
    ((itemArgOut p a).all fun t => t.kind == Kind.action || isLangK t) = false := by
  cases a with
  | nil => exact absurd rfl hne
  | cons x xs =>
    have := ha x (List.mem_cons_self ..)
    simp only [itemArgOut, List.cons_append, List.all_cons, this, Bool.false_and, Bool.and_false]

/-- **`expandItem` for an item WITH `[label]`**: the white space behind `\item` is skipped, the
    output is `itemLOut` with the punctuation of the output so far; the state — the label
    generators included — is unchanged -/
theorem expandItem_label (T : PTables) (fuel : Nat) (sp : Buf) (b1 b2 : Nat) (lab : List Tok)
    (rest : Buf) (tok : Tok) (out : List Tok) (st : PState)
    (hsp : ∀ t ∈ sp, isSpaceTok t = true ∧ isLangK t = false)
    (hlab : ∀ t ∈ lab, NoBrace t ∧ t.txt ≠ [']'])
    (hna : ∀ t ∈ labArg b1 lab, (t.kind == Kind.action || isLangK t) = false) :
    expandItem T (fuel + 2) (sp ++ chTok b1 '[' :: (lab ++ chTok b2 ']' :: rest)) tok out st
      = .ok ((itemLOut tok.pos (labArg b1 lab) (punctOf T (pvOf out)), rest), st) := by
  rw [expandItem.eq_2]
  refine (M.bind_ok _ _ _ _ _ (expandArguments_itemL T fuel sp b1 b2 lab rest tok.pos st hsp hlab)).trans ?_
  simp only [not_all_action tok.pos _ (labArg_ne b1 lab) hna, Bool.false_eq_true, if_false]
  show Outcome.ok _ = _
  congr 2
  unfold itemLOut punctOf pvOf punctToks
  cases hprev : out.reverse.find? (fun t => !isBlank t.txt) with
  | none => simp [getLast_itemArgOut, spTok, mkAction]
  | some pt =>
    cases hl : pt.txt.getLast? with
    | none => simp [hl, getLast_itemArgOut, spTok, mkAction]
    | some c =>
      by_cases hc : [c] ∈ T.itemPunctuation
      · simp [hl, hc, getLast_itemArgOut, spTok, mkFix, mkAction]
      · simp [hl, hc, getLast_itemArgOut, spTok, mkAction]

/-! ### the steps of `expandSequence` -/

/-- a void token is copied -/
theorem seq_void_step (T : PTables) (fuel : Nat) (p : Nat) (rest : Buf) (envStop : Option Str)
    (out : List Tok) (st : PState) (ha : noEmptyActive T st = true) :
    expandSequence T (fuel + 1) (mkVoid p :: rest) envStop out st
      = expandSequence T fuel rest envStop (out ++ [mkVoid p]) st := by
  rw [expandSequence.eq_3]
  show M.bind' M.get _ st = _
  simp only [M.bind', M.get]
  have hc : (activeChars T st).contains (mkVoid p).txt = false := by
    simpa [noEmptyActive, mkVoid] using ha
  have n1 : txtIs (mkVoid p) "$" = false := by simp [txtIs, mkVoid]
  have n2 : txtIs (mkVoid p) "\\(" = false := by simp [txtIs, mkVoid]
  have n3 : txtIs (mkVoid p) "$$" = false := by simp [txtIs, mkVoid]
  have n4 : txtIs (mkVoid p) "\\[" = false := by simp [txtIs, mkVoid]
  have n5 : txtIs (mkVoid p) "\\\\" = false := by simp [txtIs, mkVoid]
  have n6 : txtIs (mkVoid p) "{" = false := by simp [txtIs, mkVoid]
  have n7 : txtIs (mkVoid p) "}" = false := by simp [txtIs, mkVoid]
  have hk : (mkVoid p).kind = .void := rfl
  simp only [hk, n1, n2, n3, n4, n5, n6, n7, hc, Bool.or_self, Bool.false_eq_true, if_false,
    reduceCtorEq, beq_iff_eq]

/-- the argument of a labelled item is copied -/
theorem seq_arg_copy (T : PTables) (st : PState) (envStop : Option Str) (rest : Buf) (b1 : Nat)
    (lab : List Tok) (fuel : Nat) (out : List Tok) (ha : noEmptyActive T st = true)
    (hlab : OptToks T st lab) :
    expandSequence T (fuel + (labArg b1 lab).length) (labArg b1 lab ++ rest) envStop out st
      = expandSequence T fuel rest envStop (out ++ labArg b1 lab) st := by
  unfold labArg
  split
  · exact seq_void_step T fuel b1 rest envStop out st ha
  · exact seq_copy_prefix T st envStop rest lab fuel out (fun t ht => (hlab t ht).1)

theorem labArg_not_action {T : PTables} {st : PState} (b1 : Nat) {lab : List Tok} (hlab : OptToks T st lab) :
    ∀ t ∈ labArg b1 lab, (t.kind == Kind.action || isLangK t) = false := by
  intro t ht
  unfold labArg at ht
  split at ht
  · simp only [List.mem_singleton] at ht
    subst ht; rfl
  · rcases (hlab t ht).1.plain.kind with k | k | k <;> simp [k, isLangK]

/-- the punctuation marks are harmless tokens: none of the texts the loop dispatches on, no active
    character, no line break -/
def punctOk (T : PTables) (st : PState) : Bool := T.itemPunctuation.all (labOk T st)

theorem punctOf_ok {T : PTables} {st : PState} (h : punctOk T st = true) {pv : Option Char} {c : Char}
    (hc : punctOf T pv = some c) : labOk T st [c] = true := by
  unfold punctOf at hc
  cases pv with
  | none => cases hc
  | some d =>
    simp only at hc
    split at hc
    · rename_i hm
      cases hc
      simp only [punctOk, List.all_eq_true] at h
      exact h _ (List.contains_iff_mem.mp hm)
    · cases hc

/-- the tokens of the repeated punctuation are copied -/
theorem seq_punct (T : PTables) (st : PState) (envStop : Option Str) (rest : Buf) (pc : Option Char)
    (q : Nat) (fuel : Nat) (out : List Tok) (hp : ∀ c, pc = some c → labOk T st [c] = true) :
    expandSequence T (fuel + (punctToks pc q).length) (punctToks pc q ++ rest) envStop out st
      = expandSequence T fuel rest envStop (out ++ punctToks pc q) st := by
  cases pc with
  | none => simp [punctToks]
  | some c =>
    obtain ⟨l1, l2, _⟩ := labOk_facts (hp c rfl) q
    simp only [punctToks, List.length_singleton, List.singleton_append]
    exact seq_plain_step T fuel _ rest envStop out st l1 (Or.inl l2)

/-- **`\item[label]` in the loop**: the `\item` token, then the tokens it leaves -/
theorem seq_itemL_step (T : PTables) (fuel : Nat) (p : Nat) (sp : Buf) (b1 b2 : Nat) (lab : List Tok)
    (rest : Buf) (envStop : Option Str) (out : List Tok) (st : PState)
    (hsp : ∀ t ∈ sp, isSpaceTok t = true ∧ isLangK t = false) (hlab : OptToks T st lab)
    (ha : noEmptyActive T st = true) (hb : (activeChars T st).contains [' '] = false)
    (hpu : punctOk T st = true) :
    expandSequence T (fuel + (labArg b1 lab).length + 7)
        (itemTok p :: (sp ++ chTok b1 '[' :: (lab ++ chTok b2 ']' :: rest))) envStop out st
      = expandSequence T (fuel + 1 - (punctToks (punctOf T (pvOf out)) (lastPos (labArg b1 lab))).length)
          rest envStop (out ++ itemLOut p (labArg b1 lab) (punctOf T (pvOf out))) st := by
  rw [expandSequence.eq_3]
  show M.bind' M.get _ st = _
  simp only [M.bind', M.get]
  have hk : (itemTok p).kind = .item := rfl
  simp only [hk, beq_self_eq_true, if_true, reduceCtorEq, beq_iff_eq, if_false]
  have hfe : fuel + (labArg b1 lab).length + 6 = (fuel + (labArg b1 lab).length + 4) + 2 := by omega
  rw [hfe]
  refine (M.bind_ok _ _ _ _ _ (expandItem_label T _ sp b1 b2 lab rest (itemTok p) out st hsp hlab.nb
    (labArg_not_action b1 hlab))).trans ?_
  generalize hpc : punctOf T (pvOf out) = pc
  generalize ha' : labArg b1 lab = a at *
  have hpl : (punctToks pc (lastPos a)).length ≤ 1 := by cases pc <;> simp [punctToks]
  show expandSequence T (fuel + a.length + 4 + 2) (itemLOut p a pc ++ rest) envStop out st = _
  simp only [itemLOut, itemArgOut, List.cons_append, List.append_assoc, List.nil_append]
  obtain ⟨g, hg⟩ : ∃ g, fuel + 1 = g + (punctToks pc (lastPos a)).length :=
    ⟨fuel + 1 - (punctToks pc (lastPos a)).length, by omega⟩
  have hfuel : fuel + a.length + 4 + 2
      = (((g + 1 + (punctToks pc (lastPos a)).length) + 1) + a.length + 1 + 1) + 1 := by omega
  rw [hfuel,
    seq_plain_step T _ (spTok p) _ envStop _ _ (spTok_plain p) (Or.inl hb),
    seq_action_step T _ p _ envStop _ _ ha,
    seq_action_step T _ (headPos a) _ envStop _ _ ha]
  have hcopy := seq_arg_copy T st envStop
    (mkAction (lastPos a) :: (punctToks pc (lastPos a) ++ (spTok (lastPos a) :: rest))) b1 lab
    ((g + 1 + (punctToks pc (lastPos a)).length) + 1) (out ++ [spTok p] ++ [mkAction p] ++ [mkAction (headPos a)])
    ha hlab
  rw [ha'] at hcopy
  rw [hcopy, seq_action_step T _ (lastPos a) _ envStop _ _ ha,
    seq_punct T st envStop _ pc (lastPos a) (g + 1) _ (fun c hc => punctOf_ok hpu (hpc.trans hc)),
    seq_plain_step T _ (spTok (lastPos a)) _ envStop _ _ (spTok_plain _) (Or.inl hb)]
  have e : g = fuel + 1 - (punctToks pc (lastPos a)).length := by omega
  rw [e]
  simp [List.append_assoc]

/-! ### the token buffers -/

/-- the pieces of a token buffer: a token that is copied; `\begin { name }` of a list environment;
    `\item` and white space; `\item`, white space, `[ label ]`; `\end { name }` of a list environment;
    `\begin { name }` / `\end { name }` of an UNDECLARED environment -/
inductive Piece where
  | tok (t : Tok)
  | beg (p q1 q2 : Nat) (nt : List Tok)
  | item (p : Nat) (sp : List Tok)
  | itemL (p : Nat) (sp : List Tok) (b1 b2 : Nat) (lab : List Tok)
  | en (p q1 q2 : Nat) (nt : List Tok)
  | ubeg (p q1 q2 : Nat) (nt : List Tok)
  | uen (p q1 q2 : Nat) (nt : List Tok)

def Piece.toks : Piece → List Tok
  | .tok t => [t]
  | .beg p q1 q2 nt => begTok p :: lbr q1 :: (nt ++ [rbr q2])
  | .item p sp => itemTok p :: sp
  | .itemL p sp b1 b2 lab => itemTok p :: (sp ++ chTok b1 '[' :: (lab ++ [chTok b2 ']']))
  | .en p q1 q2 nt => endTok p :: lbr q1 :: (nt ++ [rbr q2])
  | .ubeg p q1 q2 nt => begTok p :: lbr q1 :: (nt ++ [rbr q2])
  | .uen p q1 q2 nt => endTok p :: lbr q1 :: (nt ++ [rbr q2])

/-- the token buffer -/
def flat : List Piece → List Tok
  | [] => []
  | p :: ps => p.toks ++ flat ps

open PlainMacro (bodyTxt)

def PiecesOk (T : PTables) (st1 : PState) : List ItemGen → List Piece → Prop
  | _, [] => True
  | stk, .tok t :: rest => PlainTok t ∧ PassTok T st1 t (flat rest) ∧ PiecesOk T st1 stk rest
  | stk, .beg _ _ _ nt :: rest =>
    NameToks T st1 nt ∧ listEnvAt st1 (bodyTxt nt) = true ∧
      PiecesOk T st1 (begStk st1 stk (bodyTxt nt)) rest
  | stk, .item _ sp :: rest =>
    (∀ t ∈ sp, t.kind = .space) ∧ PlainItem.HeadOk (flat rest) ∧
      labelAt T st1 stk = true ∧ PiecesOk T st1 (itemStk stk) rest
  | stk, .itemL _ sp _ _ lab :: rest =>
    (∀ t ∈ sp, t.kind = .space) ∧ OptToks T st1 lab ∧ PiecesOk T st1 stk rest
  | stk, .en _ _ _ nt :: rest =>
    NameToks T st1 nt ∧ listEnvAt st1 (bodyTxt nt) = true ∧ PiecesOk T st1 (endStk stk) rest
  | stk, .ubeg _ _ _ nt :: rest =>
    NameToks T st1 nt ∧ lookupEnv st1 (bodyTxt nt) = none ∧ PiecesOk T st1 stk rest
  | stk, .uen _ _ _ nt :: rest =>
    NameToks T st1 nt ∧ lookupEnv st1 (bodyTxt nt) = none ∧ PiecesOk T st1 stk rest

/-- the tokens an unlabelled item leaves -/
def itemOut (p : Nat) (lab : Str) : List Tok := [mkAction p, spTok p, labTok p lab, spTok p]

/-- what `expandSequence` emits for the pieces before the blank-line removal; `pv` = the last
    character of the last non-blank token of the output so far (`pvOf`) -/
def outP (T : PTables) (st1 : PState) : Option Char → List ItemGen → List Piece → List Tok
  | _, _, [] => []
  | pv, stk, .tok t :: rest => t :: outP T st1 (pstep pv t) stk rest
  | pv, stk, .beg p _ _ nt :: rest =>
    envOut (envOf st1 (bodyTxt nt)) p :: mkAction p :: outP T st1 pv (begStk st1 stk (bodyTxt nt)) rest
  | pv, stk, .item p _ :: rest =>
    itemOut p (labOf T stk) ++ outP T st1 (pvAfter pv (itemOut p (labOf T stk))) (itemStk stk) rest
  | pv, stk, .itemL p _ b1 _ lab :: rest =>
    itemLOut p (labArg b1 lab) (punctOf T pv)
      ++ outP T st1 (pvAfter pv (itemLOut p (labArg b1 lab) (punctOf T pv))) stk rest
  | pv, stk, .en p _ _ nt :: rest => envOut (envOf st1 (bodyTxt nt)) p :: outP T st1 pv (endStk stk) rest
  | pv, stk, .ubeg p _ _ _ :: rest => mkAction p :: outP T st1 pv stk rest
  | pv, stk, .uen p _ _ _ :: rest => mkAction p :: outP T st1 pv stk rest

/-- the generators after the pieces (a labelled item does not advance the counter) -/
def finalStk (st1 : PState) : List ItemGen → List Piece → List ItemGen
  | stk, [] => stk
  | stk, .beg _ _ _ nt :: rest => finalStk st1 (begStk st1 stk (bodyTxt nt)) rest
  | stk, .item _ _ :: rest => finalStk st1 (itemStk stk) rest
  | stk, .en _ _ _ _ :: rest => finalStk st1 (endStk stk) rest
  | stk, _ :: rest => finalStk st1 stk rest

/-- the names of the undeclared environments, in order of occurrence -/
def names : List Piece → List Str
  | [] => []
  | .ubeg _ _ _ nt :: rest => bodyTxt nt :: names rest
  | _ :: rest => names rest

/-- iterations of `expandSequence` (plus the nested calls that read an environment name) -/
def cost : List Piece → Nat
  | [] => 0
  | .tok _ :: rest => 1 + cost rest
  | .beg _ _ _ nt :: rest => 3 + nt.length + cost rest
  | .item _ _ :: rest => 5 + cost rest
  | .itemL _ _ b1 _ lab :: rest => (labArg b1 lab).length + 7 + cost rest
  | .en _ _ _ nt :: rest => 2 + nt.length + cost rest
  | .ubeg _ _ _ nt :: rest => 5 + nt.length + cost rest
  | .uen _ _ _ nt :: rest => 5 + nt.length + cost rest

theorem envOut_blank (env : MacroDef) (p : Nat) : isBlank (envOut env p).txt = true := by
  unfold envOut; split <;> rfl

theorem pstep_envOut (pv : Option Char) (env : MacroDef) (p : Nat) : pstep pv (envOut env p) = pv := by
  simp [pstep, envOut_blank]

theorem pstep_action (pv : Option Char) (p : Nat) : pstep pv (mkAction p) = pv := rfl

/-- the state behind the loop -/
def endState (st1 : PState) (st : PState) (stk : List ItemGen) (ps : List Piece) : PState :=
  { st with itemStack := finalStk st1 stk ps, unknowns := (names ps).foldl addU st.unknowns }

/-- **the loop on a buffer of plain tokens, list environments with labelled and unlabelled items,
    and undeclared environments.**  The output is the blank-line removal applied to `outP` (with the
    punctuation of the output so far), the generators are `finalStk`, the names of the undeclared
    environments are recorded; nothing else in the state changes.  Fuel: `cost` plus three. -/
theorem seq_listL (T : PTables) (st1 : PState) (ha : noEmptyActive T st1 = true)
    (hb : (activeChars T st1).contains [' '] = false) (hpu : punctOk T st1 = true) :
    ∀ (ps : List Piece) (fuel : Nat) (out : List Tok) (st : PState) (stk : List ItemGen),
      cost ps + 3 ≤ fuel → PiecesOk T st1 stk ps → StOk st1 st stk →
      expandSequence T fuel (flat ps) none out st
        = match removeLines (out ++ outP T st1 (pvOf out) stk ps) with
          | some r => .ok ((r, []), endState st1 st stk ps)
          | none => .outOfFuel := by
  intro ps
  induction ps with
  | nil =>
    intro fuel out st stk hf _ hst
    obtain ⟨f, rfl⟩ : ∃ f, fuel = f + 1 := ⟨fuel - 1, by omega⟩
    simp only [flat, outP, endState, finalStk, names, List.foldl_nil, List.append_nil]
    rw [expandSequence.eq_2, ← hst.stack]
    cases removeLines out <;> rfl
  | cons pc ps ih =>
    intro fuel out st stk hf hok hst
    have ha' : noEmptyActive T st = true := noEmptyActive_of_lang hst.lang ha
    cases pc with
    | tok t =>
      simp only [cost] at hf
      obtain ⟨f, rfl⟩ : ∃ f, fuel = f + 1 := ⟨fuel - 1, by omega⟩
      simp only [flat, Piece.toks, List.singleton_append]
      rw [seq_plain_step T f t (flat ps) none out st hok.1 (PassTok_congr hst.lang hok.2.1),
        ih f (out ++ [t]) st stk (by omega) hok.2.2 hst, pvOf_snoc]
      simp only [outP, endState, finalStk, names, List.append_assoc, List.singleton_append]
    | beg p q1 q2 nt =>
      obtain ⟨hn, hle, hrest⟩ := hok
      obtain ⟨e1, e2, e3⟩ := listEnvAt_facts hle
      simp only [cost] at hf
      obtain ⟨f, rfl⟩ : ∃ f, fuel = f + 3 := ⟨fuel - 3, by omega⟩
      have hflat : flat (Piece.beg p q1 q2 nt :: ps) = begTok p :: lbr q1 :: (nt ++ rbr q2 :: flat ps) := by
        simp [flat, Piece.toks]
      have hl : lookupEnv st (bodyTxt nt) = some (envOf st1 (bodyTxt nt)) := by
        rw [← e1]; simp only [lookupEnv, hst.envs]
      have hst' : StOk st1 (begSt st (bodyTxt nt) (styleOf st1 (bodyTxt nt))) (begStk st1 stk (bodyTxt nt)) :=
        ⟨hst.lang, hst.envs, by simp only [begSt, begStk, hst.stack]⟩
      rw [hflat, PlainItem.seq_beg_step T f p q1 q2 nt (flat ps) none out st _ _ (hn.congr hst.lang)
          (by omega) hl e2 e3 ha',
        ih f _ _ _ (by omega) hrest hst', pvOf_append]
      simp only [pvAfter, List.foldl_cons, List.foldl_nil, pstep_envOut, pstep_action, outP, endState,
        finalStk, names, List.append_assoc, List.cons_append, List.nil_append, begSt]
    | item p sp =>
      obtain ⟨hsp0, hhd, hlab, hrest⟩ := hok
      have hsp : ∀ t ∈ sp, isSpaceTok t = true ∧ isLangK t = false := fun t ht => by
        simp [isSpaceTok, isLangK, hsp0 t ht]
      simp only [cost] at hf
      obtain ⟨f, rfl⟩ : ∃ f, fuel = f + 5 := ⟨fuel - 5, by omega⟩
      have hflat : flat (Piece.item p sp :: ps) = itemTok p :: (sp ++ flat ps) := by
        simp [flat, Piece.toks]
      cases stk with
      | nil => simp [labelAt] at hlab
      | cons g gs =>
        cases hil : itemLabel T.itemDefaultLabel g with
        | none => simp [labelAt, hil] at hlab
        | some lab =>
          have hlok : labOk T st1 lab = true := by simpa [labelAt, hil] using hlab
          have hlok' : labOk T st lab = true := by
            rw [← hlok]; simp only [labOk, activeChars_congr T st1 st hst.lang]
          have hb' : (activeChars T st).contains [' '] = false := by
            rw [activeChars_congr T st1 st hst.lang]; exact hb
          have hst' : StOk st1 (itemSt st) (itemStk (g :: gs)) :=
            ⟨by rw [← hst.lang]; unfold itemSt; split <;> rfl,
             by rw [← hst.envs]; unfold itemSt; split <;> rfl,
             by simp only [itemSt, hst.stack, itemStk]⟩
          rw [hflat, PlainItem.seq_item_step T f p sp (flat ps) none out st g gs lab hsp hhd.1 hhd.2
              hst.stack hil hlok' ha' hb',
            ih f _ _ _ (by omega) hrest hst', pvOf_append]
          simp only [outP, itemOut, endState, finalStk, names, labOf, hil, Option.getD_some,
            List.append_assoc, List.cons_append, List.nil_append, itemSt, hst.stack]
    | itemL p sp b1 b2 lab =>
      obtain ⟨hsp0, hlab, hrest⟩ := hok
      have hsp : ∀ t ∈ sp, isSpaceTok t = true ∧ isLangK t = false := fun t ht => by
        simp [isSpaceTok, isLangK, hsp0 t ht]
      simp only [cost] at hf
      obtain ⟨f, hfe⟩ : ∃ f, fuel = f + (labArg b1 lab).length + 7 :=
        ⟨fuel - (labArg b1 lab).length - 7, by omega⟩
      have hflat : flat (Piece.itemL p sp b1 b2 lab :: ps)
          = itemTok p :: (sp ++ chTok b1 '[' :: (lab ++ chTok b2 ']' :: flat ps)) := by
        simp [flat, Piece.toks]
      have hb' : (activeChars T st).contains [' '] = false := by
        rw [activeChars_congr T st1 st hst.lang]; exact hb
      have hlo : labOk T st = labOk T st1 := by
        funext l; simp only [labOk, activeChars_congr T st1 st hst.lang]
      have hpu' : punctOk T st = true := by
        rw [← hpu]; simp only [punctOk, hlo]
      have hpl : (punctToks (punctOf T (pvOf out)) (lastPos (labArg b1 lab))).length ≤ 1 := by
        cases punctOf T (pvOf out) <;> simp [punctToks]
      rw [hflat, hfe, seq_itemL_step T f p sp b1 b2 lab (flat ps) none out st hsp (hlab.congr hst.lang)
          ha' hb' hpu',
        ih _ _ _ _ (by omega) hrest hst, pvOf_append]
      simp only [outP, endState, finalStk, names, List.append_assoc]
    | en p q1 q2 nt =>
      obtain ⟨hn, hle, hrest⟩ := hok
      obtain ⟨e1, e2, _⟩ := listEnvAt_facts hle
      simp only [cost] at hf
      obtain ⟨f, rfl⟩ : ∃ f, fuel = f + 2 := ⟨fuel - 2, by omega⟩
      have hflat : flat (Piece.en p q1 q2 nt :: ps) = endTok p :: lbr q1 :: (nt ++ rbr q2 :: flat ps) := by
        simp [flat, Piece.toks]
      have hl : lookupEnv st (bodyTxt nt) = some (envOf st1 (bodyTxt nt)) := by
        rw [← e1]; simp only [lookupEnv, hst.envs]
      have hst' : StOk st1 (endSt st) (endStk stk) := by
        unfold endSt endStk
        rw [hst.stack]
        split
        · exact ⟨hst.lang, hst.envs, rfl⟩
        · exact hst
      rw [hflat, PlainItem.seq_end_step T f p q1 q2 nt (flat ps) out st _ (hn.congr hst.lang) (by omega)
          hl e2 ha',
        ih f _ _ _ (by omega) hrest hst', pvOf_append]
      simp only [pvAfter, List.foldl_cons, List.foldl_nil, pstep_envOut, outP, endState, finalStk, names,
        List.append_assoc, List.cons_append, List.nil_append]
      cases removeLines (out ++ envOut (envOf st1 (bodyTxt nt)) p :: outP T st1 (pvOf out) (endStk stk) ps) with
      | none => rfl
      | some r =>
        simp only [endSt, endStk, hst.stack]
        split <;> rfl
    | ubeg p q1 q2 nt =>
      obtain ⟨hn, hun, hrest⟩ := hok
      simp only [cost] at hf
      obtain ⟨f, rfl⟩ : ∃ f, fuel = f + 2 := ⟨fuel - 2, by omega⟩
      have hflat : flat (Piece.ubeg p q1 q2 nt :: ps) = begTok p :: lbr q1 :: (nt ++ rbr q2 :: flat ps) := by
        simp [flat, Piece.toks]
      have hl : lookupEnv st (bodyTxt nt) = none := by
        rw [← hun]; simp only [lookupEnv, hst.envs]
      have hst' : StOk st1 { st with unknowns := addU st.unknowns (bodyTxt nt) } stk :=
        ⟨hst.lang, hst.envs, hst.stack⟩
      rw [hflat, PlainUnkn2.seq_ubeg_step T f p q1 q2 nt (flat ps) none out st (hn.congr hst.lang)
          (by omega) hl ha',
        ih f _ _ _ (by omega) hrest hst', pvOf_snoc]
      simp only [pstep_action, outP, endState, finalStk, names, List.foldl_cons, List.append_assoc,
        List.singleton_append]
    | uen p q1 q2 nt =>
      obtain ⟨hn, hun, hrest⟩ := hok
      simp only [cost] at hf
      obtain ⟨f, rfl⟩ : ∃ f, fuel = f + 2 := ⟨fuel - 2, by omega⟩
      have hflat : flat (Piece.uen p q1 q2 nt :: ps) = endTok p :: lbr q1 :: (nt ++ rbr q2 :: flat ps) := by
        simp [flat, Piece.toks]
      have hl : lookupEnv st (bodyTxt nt) = none := by
        rw [← hun]; simp only [lookupEnv, hst.envs]
      rw [hflat, PlainUnkn2.seq_uend_step T f p q1 q2 nt (flat ps) out st (hn.congr hst.lang)
          (by omega) hl ha',
        ih f _ _ _ (by omega) hrest hst, pvOf_snoc]
      simp only [pstep_action, outP, endState, finalStk, names, List.append_assoc, List.singleton_append]

theorem PiecesOk.notComment {T : PTables} {st : PState} : ∀ {ps : List Piece} {stk : List ItemGen},
    PiecesOk T st stk ps → ∀ t ∈ flat ps, t.kind ≠ .comment
  | [], _, _, _, h => by simp [flat] at h
  | .tok t :: rest, _, hok, x, hx => by
    simp only [flat, Piece.toks, List.singleton_append, List.mem_cons] at hx
    rcases hx with rfl | hx
    · exact hok.1.notComment
    · exact PiecesOk.notComment hok.2.2 x hx
  | .beg p q1 q2 nt :: rest, _, hok, x, hx => by
    obtain ⟨hn, _, hrest⟩ := hok
    simp only [flat, Piece.toks, List.cons_append, List.append_assoc, List.mem_cons,
      List.mem_append, List.nil_append] at hx
    rcases hx with rfl | rfl | hx | rfl | hx
    · simp [begTok]
    · simp [lbr]
    · exact hn.notComment x hx
    · simp [rbr]
    · exact PiecesOk.notComment hrest x hx
  | .item p sp :: rest, _, hok, x, hx => by
    obtain ⟨hsp, _, _, hrest⟩ := hok
    simp only [flat, Piece.toks, List.cons_append, List.mem_cons, List.mem_append] at hx
    rcases hx with rfl | hx | hx
    · simp [itemTok]
    · simp [hsp x hx]
    · exact PiecesOk.notComment hrest x hx
  | .itemL p sp b1 b2 lab :: rest, _, hok, x, hx => by
    obtain ⟨hsp, hlab, hrest⟩ := hok
    simp only [flat, Piece.toks, List.cons_append, List.append_assoc, List.mem_cons, List.mem_append,
      List.nil_append] at hx
    rcases hx with rfl | hx | rfl | hx | rfl | hx
    · simp [itemTok]
    · simp [hsp x hx]
    · simp [chTok]
    · exact (hlab x hx).1.plain.notComment
    · simp [chTok]
    · exact PiecesOk.notComment hrest x hx
  | .en p q1 q2 nt :: rest, _, hok, x, hx => by
    obtain ⟨hn, _, hrest⟩ := hok
    simp only [flat, Piece.toks, List.cons_append, List.append_assoc, List.mem_cons,
      List.mem_append, List.nil_append] at hx
    rcases hx with rfl | rfl | hx | rfl | hx
    · simp [endTok]
    · simp [lbr]
    · exact hn.notComment x hx
    · simp [rbr]
    · exact PiecesOk.notComment hrest x hx
  | .ubeg p q1 q2 nt :: rest, _, hok, x, hx => by
    obtain ⟨hn, _, hrest⟩ := hok
    simp only [flat, Piece.toks, List.cons_append, List.append_assoc, List.mem_cons,
      List.mem_append, List.nil_append] at hx
    rcases hx with rfl | rfl | hx | rfl | hx
    · simp [begTok]
    · simp [lbr]
    · exact hn.notComment x hx
    · simp [rbr]
    · exact PiecesOk.notComment hrest x hx
  | .uen p q1 q2 nt :: rest, _, hok, x, hx => by
    obtain ⟨hn, _, hrest⟩ := hok
    simp only [flat, Piece.toks, List.cons_append, List.append_assoc, List.mem_cons,
      List.mem_append, List.nil_append] at hx
    rcases hx with rfl | rfl | hx | rfl | hx
    · simp [endTok]
    · simp [lbr]
    · exact hn.notComment x hx
    · simp [rbr]
    · exact PiecesOk.notComment hrest x hx

end PlainItemL
end Yalafi
