/-
  Proofs/Scanner.lean — lemmas about `Model/Scanner.lean`.
-/
import YalafiVerif.Spec.Scanner
namespace Yalafi

/-- every sub-scanner consumes at least one character and never more than is there -/
theorem nextToken_len (T : Tables) (h : T.WFScan) (src : Str) (start : Nat) (rest : Str)
    (hr : rest ≠ []) :
    1 ≤ (nextToken T src start rest).len ∧ (nextToken T src start rest).len ≤ rest.length := by
  sorry

/-- the fuel `src.length` always suffices: the scanner terminates having consumed everything -/
theorem scanSteps_complete (T : Tables) (h : T.WFScan) (src : Str) (fuel pos : Nat) (rest : Str)
    (hf : rest.length ≤ fuel) :
    (scanSteps T src fuel pos rest).2 = true ∧
    ((scanSteps T src fuel pos rest).1.map (·.len)).sum = rest.length := by
  sorry

/-- a non-error token is a literal slice of the source, lying inside the span the step consumed -/
theorem nextToken_slice (T : Tables) (h : T.WFScan) (src : Str) (start : Nat) (rest : Str)
    (hr : rest ≠ []) (hne : (nextToken T src start rest).diag = none) :
    let s := nextToken T src start rest
    s.tok.fix = false ∧ start ≤ s.tok.pos ∧ s.tok.pos + s.tok.txt.length ≤ start + s.len ∧
    (rest.drop (s.tok.pos - start)).take s.tok.txt.length = s.tok.txt := by
  sorry

/-- an error token is a fixed text token at the start of the step (the first half of the mark) -/
theorem nextToken_err (T : Tables) (src : Str) (start : Nat) (rest : Str)
    (hr : rest ≠ []) (he : (nextToken T src start rest).diag ≠ none) :
    let s := nextToken T src start rest
    s.tok.fix = true ∧ s.tok.pos = start ∧ s.tok.kind = .text := by
  sorry

/-- longest match: a special token returned by `next_token` is a prefix of the rest and no
    longer key of the table is a prefix there -/
theorem matchSpecial_longest (T : Tables) (h : T.WFScan) (rest : Str) (t : Str)
    (hm : matchSpecial T rest = some t) :
    startsWith rest t = true ∧ t ∈ T.special.map (·.1) ∧
    ∀ k ∈ T.special.map (·.1), startsWith rest k = true → k.length ≤ t.length := by
  sorry

theorem matchSpecial_none (T : Tables) (h : T.WFScan) (rest : Str)
    (hm : matchSpecial T rest = none) :
    ∀ k ∈ T.special.map (·.1), startsWith rest k = false := by
  sorry

/-- all scanner tokens are in range (feeds C01) -/
theorem scan_inRange (T : Tables) (h : T.WFScan) (src : Str) :
    ∀ t ∈ (scan T src).toks, TokInRange src.length t := by
  sorry

/-- tokens of the scan are literal slices of the source at their own offset (C02) -/
theorem scan_slice (T : Tables) (h : T.WFScan) (src : Str) :
    ∀ t ∈ (scan T src).toks, t.fix = false →
      (src.drop t.pos).take t.txt.length = t.txt := by
  sorry

/-- white space with at least two line breaks is a paragraph token, otherwise a space token (C05) -/
theorem scanSpace_kind (start : Nat) (rest : Str) :
    (scanSpace start rest).tok.kind = (if countNl (rest.takeWhile isSpace) < 2 then Kind.space else Kind.par) := by
  sorry

end Yalafi
