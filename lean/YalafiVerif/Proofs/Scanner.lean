/-
  Proofs/Scanner.lean — lemmas about `Model/Scanner.lean`.
-/
import YalafiVerif.Spec.Scanner
namespace Yalafi

/-! ### helper lemmas (in their own namespace to avoid clashes with other proof files) -/
namespace ScannerAux

theorem startsWith_spec : ∀ (s p : Str), startsWith s p = true →
    p.length ≤ s.length ∧ s.take p.length = p := by
  intro s p
  induction p generalizing s with
  | nil => intro _; simp
  | cons a p ih =>
    cases s with
    | nil => simp [startsWith]
    | cons c cs =>
      intro h
      simp only [startsWith, Bool.and_eq_true, beq_iff_eq] at h
      obtain ⟨h1, h2⟩ := h
      have := ih cs h2
      simp [h1, this]

theorem findSub_spec (p : Str) : ∀ (s : Str) (e : Nat), findSub p s = some e →
    e + p.length ≤ s.length ∧ (s.drop e).take p.length = p := by
  intro s
  induction s with
  | nil =>
    intro e h
    simp only [findSub] at h
    split at h
    · rename_i hp
      simp at hp h; subst hp; subst h; simp
    · simp at h
  | cons c cs ih =>
    intro e h
    simp only [findSub] at h
    split at h
    · rename_i hs
      have := startsWith_spec _ _ hs
      simp at h; subst h; simpa using this
    · cases hf : findSub p cs with
      | none => simp [hf] at h
      | some e' =>
        simp [hf] at h; subst h
        obtain ⟨h1, h2⟩ := ih e' hf
        refine ⟨by simp; omega, ?_⟩
        simpa using h2

theorem idxOf_le (f : Char → Bool) (s : Str) : idxOf f s ≤ s.length := by
  induction s with
  | nil => simp [idxOf]
  | cons c cs ih => simp only [idxOf]; split <;> simp <;> omega


/-- every token of an error mark is a fixed text token, in range when the mark is put
    inside the text -/
theorem latexErrorToks_all (T : Tables) (e : Str) (start n : Nat) :
    ∀ t ∈ latexErrorToks T e start n, t.fix = true ∧ t.kind = .text ∧ (start < n → t.pos < n) := by
  have hl : 2 ≤ (errMark T e).length := by simp [errMark]; omega
  unfold latexErrorToks
  simp only []
  split
  · intro t ht
    simp only [List.mem_cons, List.not_mem_nil, or_false] at ht
    rcases ht with rfl | rfl
    · exact ⟨rfl, rfl, fun h => h⟩
    · refine ⟨rfl, rfl, fun h => ?_⟩
      show start + min _ _ - 1 < n
      omega
  · intro t ht
    simp only [List.mem_cons, List.not_mem_nil, or_false] at ht
    subst ht
    exact ⟨rfl, rfl, fun h => h⟩

/-- the mark is never empty -/
theorem latexErrorToks_cons (T : Tables) (e : Str) (start n : Nat) :
    (latexErrorToks T e start n).headD default :: (latexErrorToks T e start n).tail =
      latexErrorToks T e start n := by
  unfold latexErrorToks
  simp only []
  split <;> rfl

structure Good (n : Nat) (start : Nat) (rest : Str) (s : ScanStep) : Prop where
  len_pos : 1 ≤ s.len
  len_le : s.len ≤ rest.length
  ok : s.diag = none → s.tok.fix = false ∧ start ≤ s.tok.pos ∧ s.tok.pos < start + s.len ∧
        s.tok.pos + s.tok.txt.length ≤ start + s.len ∧
        (rest.drop (s.tok.pos - start)).take s.tok.txt.length = s.tok.txt
  err : s.diag ≠ none → s.tok.fix = true ∧ s.tok.pos = start ∧ s.tok.kind = .text
  ext : ∀ t ∈ s.extra, t.fix = true ∧ t.kind = .text ∧ (start < n → t.pos < n)

theorem good_prefix {n : Nat} (start : Nat) (rest : Str) (kind : Kind) (k : Nat) (h1 : 1 ≤ k)
    (hk : k ≤ rest.length) :
    Good n start rest { tok := { kind := kind, pos := start, txt := rest.take k }, len := k } := by
  constructor <;> simp <;> omega

theorem good_prefix' {n : Nat} (start : Nat) (rest : Str) (kind : Kind) (t : Str) (h1 : 1 ≤ t.length)
    (hk : t.length ≤ rest.length) (ht : rest.take t.length = t) :
    Good n start rest { tok := { kind := kind, pos := start, txt := t }, len := t.length } := by
  constructor <;> simp <;> first | omega | exact ⟨by omega, ht⟩

theorem good_err (T : Tables) (e : Str) (src : Str) (start : Nat) (rest : Str) (k : Nat) (h1 : 1 ≤ k)
    (hk : k ≤ rest.length) :
    Good src.length start rest
      ({ tok := (latexErrorToks T e start src.length).headD default,
         len := k, diag := some (latexErrorDiag e start src),
         extra := (latexErrorToks T e start src.length).tail } : ScanStep) := by
  constructor
  · exact h1
  · exact hk
  · simp
  · intro _
    simp only [latexErrorToks]
    split <;> simp
  · intro t ht
    exact latexErrorToks_all T e start src.length t (List.mem_of_mem_tail ht)

theorem length_takeWhile_le' (p : Char → Bool) (l : Str) : (l.takeWhile p).length ≤ l.length :=
  (List.takeWhile_sublist p).length_le

theorem take_length_takeWhile (p : Char → Bool) (l : Str) :
    l.take (l.takeWhile p).length = l.takeWhile p := by
  induction l with
  | nil => simp
  | cons a l ih =>
    simp only [List.takeWhile_cons]
    split <;> simp [ih]

theorem scanSpace_good {n : Nat} (start : Nat) (c : Char) (cs : Str) (hc : isSpace c = true) :
    Good n start (c :: cs) (scanSpace start (c :: cs)) := by
  unfold scanSpace
  apply good_prefix'
  · simp [hc]
  · exact length_takeWhile_le' _ _
  · exact take_length_takeWhile _ _

theorem commentLen_bounds (c : Char) (cs : Str) :
    1 ≤ commentLen (c :: cs) ∧ commentLen (c :: cs) ≤ (c :: cs).length := by
  unfold commentLen
  have h1 : (cs.takeWhile (· != nl)).length ≤ cs.length := length_takeWhile_le' _ _
  simp only [List.tail_cons, List.length_cons]
  split
  · omega
  · rename_i x more heq
    split
    · omega
    · have h2 : (more.takeWhile isSpace).length ≤ more.length := length_takeWhile_le' _ _
      have := congrArg List.length heq
      simp at this
      omega

theorem scanComment_good {n : Nat} (start : Nat) (c : Char) (cs : Str) :
    Good n start (c :: cs) (scanComment start (c :: cs)) := by
  unfold scanComment
  have := commentLen_bounds c cs
  exact good_prefix _ _ _ _ this.1 this.2

theorem scanArgToken_good {n : Nat} (T : Tables) (start : Nat) (c : Char) (cs : Str) :
    Good n start (c :: cs) (scanArgToken T start (c :: cs)) := by
  unfold scanArgToken
  split
  · apply good_prefix <;> simp
  · rename_i d hd
    have : 2 ≤ (c :: cs).length := by
      cases cs <;> simp at hd ⊢
    split
    · apply good_prefix <;> simp
    · apply good_prefix
      · simp
      · exact this


theorem scanVerb_good (T : Tables) (src : Str) (start : Nat) (rest : Str) (h5 : 5 ≤ rest.length) :
    Good src.length start rest (scanVerb T src start rest) := by
  unfold scanVerb
  simp only []
  split
  · exact good_err _ _ _ _ _ _ (by omega) h5
  · rename_i delim body heq
    have hl : rest.length = 6 + body.length := by
      have := congrArg List.length heq; simp at this; omega
    have hb : rest.drop 6 = body := by
      have := congrArg (List.drop 1) heq
      simpa [List.drop_drop] using this
    have hj := idxOf_le (fun c => c == delim || c == nl) body
    split
    · rename_i hd
      have := congrArg List.length hd; simp at this
      exact good_err _ _ _ _ _ _ (by omega) (by omega)
    · rename_i c more hd
      have := congrArg List.length hd; simp at this
      split
      · exact good_err _ _ _ _ _ _ (by omega) (by omega)
      · constructor
        · simp
        · simp; omega
        · intro _
          simp [hb]
          omega
        · simp
        · simp

theorem sBegin_length : sBegin.length = 6 := by decide
theorem sVerbatimArg_length : sVerbatimArg.length = 10 := by decide
theorem sEndVerbatim_length : sEndVerbatim.length = 14 := by decide

theorem scanVerbatim_good (T : Tables) (src : Str) (start : Nat) (rest : Str)
    (h6 : rest.take 6 = sBegin) :
    Good src.length start rest (scanVerbatim T src start rest) := by
  have hl : 6 ≤ rest.length := by
    have := congrArg List.length h6
    rw [sBegin_length] at this; simp at this; omega
  unfold scanVerbatim
  simp only []
  split
  · have := good_prefix' (n := src.length) start rest .xbegin sBegin (by rw [sBegin_length]; omega)
      (by rw [sBegin_length]; exact hl) (by rw [sBegin_length]; exact h6)
    rw [sBegin_length] at this
    exact this
  · rename_i hc
    simp only [Bool.or_eq_true, not_or, Bool.not_eq_true, decide_eq_true_eq,
      Bool.not_eq_eq_eq_not, Bool.not_true, Bool.not_eq_false] at hc
    split
    · exact good_err _ _ _ _ _ _ (by omega) hl
    · rename_i e he
      obtain ⟨h1, h2⟩ := findSub_spec _ _ _ he
      obtain ⟨h3, _⟩ := startsWith_spec _ _ hc.2
      rw [sEndVerbatim_length] at h1
      rw [sVerbatimArg_length] at h3
      simp only [List.length_drop] at h1 h3
      constructor
      · simp
      · simp; omega
      · intro _
        simp
        omega
      · simp
      · simp

theorem sVerb_length : sVerb.length = 5 := by decide

theorem macroLen_bounds (c : Char) (cs : Str) :
    1 ≤ macroLen (c :: cs) ∧ macroLen (c :: cs) ≤ (c :: cs).length := by
  unfold macroLen
  have h1 : (cs.takeWhile macroChar).length ≤ cs.length := length_takeWhile_le' _ _
  show (1 ≤ if _ then 2 else _) ∧ (if _ then 2 else _) ≤ _
  split
  · rename_i h; simp at h ⊢; omega
  · simp; rw [Nat.add_comm]; exact Nat.succ_le_succ h1

theorem scanMacro_good (T : Tables) (src : Str) (start : Nat) (c : Char) (cs : Str) :
    Good src.length start (c :: cs) (scanMacro T src start (c :: cs)) := by
  obtain ⟨h1, h2⟩ := macroLen_bounds c cs
  unfold scanMacro
  simp only []
  split
  · rename_i hb
    simp only [beq_iff_eq] at hb
    have hk : macroLen (c :: cs) = 6 := by
      have := congrArg List.length hb
      rw [sBegin_length, List.length_take] at this
      omega
    rw [hk] at hb
    exact scanVerbatim_good _ _ _ _ hb
  · split
    · exact good_prefix _ _ _ _ h1 h2
    · split
      · exact good_prefix _ _ _ _ h1 h2
      · split
        · rename_i hb
          simp only [beq_iff_eq] at hb
          have := congrArg List.length hb
          rw [sVerb_length, List.length_take] at this
          exact scanVerb_good _ _ _ _ (by omega)
        · split
          · exact good_prefix _ _ _ _ h1 h2
          · exact good_prefix _ _ _ _ h1 h2

theorem good_special {n : Nat} (T : Tables) (h : T.WFScan) (start : Nat) (rest t : Str)
    (hm : matchSpecial T rest = some t) :
    Good n start rest { tok := { kind := .special, pos := start, txt := t }, len := t.length } := by
  unfold matchSpecial at hm
  have hmem := List.mem_of_find?_eq_some hm
  have hp := List.find?_some hm
  have hne := h.special_nonempty t hmem
  obtain ⟨h1, h2⟩ := startsWith_spec _ _ hp
  refine good_prefix' _ _ _ _ ?_ h1 h2
  cases t with
  | nil => exact absurd rfl hne
  | cons => simp

theorem good_text {n : Nat} (start : Nat) (c : Char) (cs : Str) :
    Good n start (c :: cs) { tok := { kind := .text, pos := start, txt := [c] }, len := 1 } := by
  have := good_prefix (n := n) start (c :: cs) .text 1 (by omega) (by simp)
  simpa using this

theorem nextToken_good (T : Tables) (h : T.WFScan) (src : Str) (start : Nat) (rest : Str)
    (hr : rest ≠ []) : Good src.length start rest (nextToken T src start rest) := by
  unfold nextToken
  split
  · exact absurd rfl hr
  · rename_i c cs
    split
    · rename_i hc; exact scanSpace_good _ _ _ hc
    · split
      · exact scanComment_good _ _ _
      · split
        · exact scanArgToken_good _ _ _ _
        · split
          · rename_i t ht; exact good_special T h _ _ _ ht
          · split
            · exact scanMacro_good _ _ _ _ _
            · exact good_text _ _ _

theorem scanSteps_spec (T : Tables) (h : T.WFScan) (src : Str) :
    ∀ (fuel pos : Nat) (rest : Str), rest.length ≤ fuel →
    (scanSteps T src fuel pos rest).2 = true ∧
    ((scanSteps T src fuel pos rest).1.map (·.len)).sum = rest.length ∧
    ∀ s ∈ (scanSteps T src fuel pos rest).1, ∃ (p : Nat) (r pre : Str), r ≠ [] ∧
      rest = pre ++ r ∧ p = pos + pre.length ∧ s = nextToken T src p r := by
  intro fuel
  induction fuel with
  | zero =>
    intro pos rest hf
    cases rest with
    | nil => simp [scanSteps]
    | cons c cs => simp at hf
  | succ fuel ih =>
    intro pos rest hf
    cases rest with
    | nil => simp [scanSteps]
    | cons c cs =>
      have hg := nextToken_good T h src pos (c :: cs) (by simp)
      have h1 := hg.len_pos
      have h2 := hg.len_le
      simp only [scanSteps]
      rw [if_neg (by simp; omega)]
      have hl : ((c :: cs).drop (nextToken T src pos (c :: cs)).len).length ≤ fuel := by
        simp only [List.length_drop]; simp only [List.length_cons] at hf h2 ⊢; omega
      obtain ⟨i1, i2, i3⟩ := ih (pos + (nextToken T src pos (c :: cs)).len)
        ((c :: cs).drop (nextToken T src pos (c :: cs)).len) hl
      refine ⟨i1, ?_, ?_⟩
      · simp only [List.map_cons, List.sum_cons, i2, List.length_drop]; omega
      · intro s hs
        simp only [List.mem_cons] at hs
        rcases hs with rfl | hs
        · exact ⟨pos, c :: cs, [], by simp, by simp, by simp, rfl⟩
        · obtain ⟨p, r, pre, hr, he, hp, hs⟩ := i3 s hs
          refine ⟨p, r, (c :: cs).take (nextToken T src pos (c :: cs)).len ++ pre, hr, ?_, ?_, hs⟩
          · rw [List.append_assoc, ← he, List.take_append_drop]
          · rw [List.length_append, List.length_take, Nat.min_eq_left h2]; omega

theorem scan_steps (T : Tables) (h : T.WFScan) (src : Str) :
    ∀ t ∈ (scan T src).toks, ∃ (p : Nat) (r : Str), r ≠ [] ∧ src.drop p = r ∧
      p + r.length = src.length ∧
      (t = (nextToken T src p r).tok ∨ t ∈ (nextToken T src p r).extra) := by
  intro t ht
  simp only [scan, List.mem_flatten, List.mem_map] at ht
  obtain ⟨l, ⟨s, hs, rfl⟩, ht⟩ := ht
  obtain ⟨p, r, pre, hr, he, hp, rfl⟩ := (scanSteps_spec T h src src.length 0 src (Nat.le_refl _)).2.2 s hs
  refine ⟨p, r, hr, ?_, ?_, List.mem_cons.mp ht⟩
  · have : p = pre.length := by omega
    rw [he, this]; simp
  · rw [he, List.length_append]; omega

end ScannerAux
open ScannerAux

/-! ### the stated lemmas -/

/-- every sub-scanner consumes at least one character and never more than is there -/
theorem nextToken_len (T : Tables) (h : T.WFScan) (src : Str) (start : Nat) (rest : Str)
    (hr : rest ≠ []) :
    1 ≤ (nextToken T src start rest).len ∧ (nextToken T src start rest).len ≤ rest.length :=
  ⟨(nextToken_good T h src start rest hr).len_pos, (nextToken_good T h src start rest hr).len_le⟩

/-- the fuel `src.length` always suffices: the scanner terminates having consumed everything -/
theorem scanSteps_complete (T : Tables) (h : T.WFScan) (src : Str) (fuel pos : Nat) (rest : Str)
    (hf : rest.length ≤ fuel) :
    (scanSteps T src fuel pos rest).2 = true ∧
    ((scanSteps T src fuel pos rest).1.map (·.len)).sum = rest.length :=
  ⟨(scanSteps_spec T h src fuel pos rest hf).1, (scanSteps_spec T h src fuel pos rest hf).2.1⟩

/-- a non-error token is a literal slice of the source, lying inside the span the step consumed -/
theorem nextToken_slice (T : Tables) (h : T.WFScan) (src : Str) (start : Nat) (rest : Str)
    (hr : rest ≠ []) (hne : (nextToken T src start rest).diag = none) :
    let s := nextToken T src start rest
    s.tok.fix = false ∧ start ≤ s.tok.pos ∧ s.tok.pos + s.tok.txt.length ≤ start + s.len ∧
    (rest.drop (s.tok.pos - start)).take s.tok.txt.length = s.tok.txt := by
  obtain ⟨a, b, _, c, d⟩ := (nextToken_good T h src start rest hr).ok hne
  exact ⟨a, b, c, d⟩

/-- an error token is a fixed text token at the start of the step (the first half of the mark) -/
theorem nextToken_err (T : Tables) (src : Str) (start : Nat) (rest : Str)
    (hr : rest ≠ []) (he : (nextToken T src start rest).diag ≠ none) :
    let s := nextToken T src start rest
    s.tok.fix = true ∧ s.tok.pos = start ∧ s.tok.kind = .text := by
  intro s
  revert he
  show s.diag ≠ none → _
  unfold s nextToken
  split
  · exact absurd rfl hr
  · rename_i c cs
    split
    · rename_i hc; exact (scanSpace_good (n := 0) _ _ _ hc).err
    · split
      · exact (scanComment_good (n := 0) _ _ _).err
      · split
        · exact (scanArgToken_good (n := 0) _ _ _ _).err
        · split
          · intro h; exact absurd rfl h
          · split
            · exact (scanMacro_good _ _ _ _ _).err
            · exact (good_text (n := 0) start c cs).err

theorem scanner_find?_sorted {α} (p : α → Bool) (R : α → α → Prop) (hR : ∀ a, R a a) :
    ∀ (l : List α) (t : α), l.Pairwise R → l.find? p = some t →
    ∀ k ∈ l, p k = true → R t k := by
  intro l
  induction l with
  | nil => intro t _ h; simp at h
  | cons a l ih =>
    intro t hp hf k hk hpk
    rw [List.pairwise_cons] at hp
    rw [List.find?_cons] at hf
    split at hf
    · simp only [Option.some.injEq] at hf; subst hf
      rcases List.mem_cons.mp hk with rfl | hk
      · exact hR _
      · exact hp.1 k hk
    · rename_i hpa
      rcases List.mem_cons.mp hk with rfl | hk
      · rw [hpk] at hpa; exact absurd hpa (by simp)
      · exact ih t hp.2 hf k hk hpk

/-- longest match: a special token returned by `next_token` is a prefix of the rest and no
    longer key of the table is a prefix there -/
theorem matchSpecial_longest (T : Tables) (h : T.WFScan) (rest : Str) (t : Str)
    (hm : matchSpecial T rest = some t) :
    startsWith rest t = true ∧ t ∈ T.special.map (·.1) ∧
    ∀ k ∈ T.special.map (·.1), startsWith rest k = true → k.length ≤ t.length := by
  unfold matchSpecial at hm
  refine ⟨List.find?_some hm, (h.keys t).mp (List.mem_of_find?_eq_some hm), ?_⟩
  intro k hk hs
  exact scanner_find?_sorted (fun t => startsWith rest t) (fun a b => b.length ≤ a.length)
    (fun _ => Nat.le_refl _) _ t h.sorted hm k ((h.keys k).mpr hk) hs

theorem matchSpecial_none (T : Tables) (h : T.WFScan) (rest : Str)
    (hm : matchSpecial T rest = none) :
    ∀ k ∈ T.special.map (·.1), startsWith rest k = false := by
  unfold matchSpecial at hm
  intro k hk
  have := List.find?_eq_none.mp hm k ((h.keys k).mpr hk)
  simpa using this

/-- all scanner tokens are in range (feeds C01) -/
theorem scan_inRange (T : Tables) (h : T.WFScan) (src : Str) :
    ∀ t ∈ (scan T src).toks, TokInRange src.length t := by
  intro t ht
  obtain ⟨p, r, hr, hd, hl, rfl | hx⟩ := scan_steps T h src t ht
  rotate_left
  · have hrl : 1 ≤ r.length := by
      cases r with
      | nil => exact absurd rfl hr
      | cons => simp
    obtain ⟨a, _, c⟩ := (nextToken_good T h src p r hr).ext t hx
    refine ⟨c (by omega), fun hf => ?_⟩
    rw [a] at hf; exact absurd hf (by simp)
  have hg := nextToken_good T h src p r hr
  have h2 := hg.len_le
  have hrl : 1 ≤ r.length := by
    cases r with
    | nil => exact absurd rfl hr
    | cons => simp
  unfold TokInRange
  by_cases hdg : (nextToken T src p r).diag = none
  · obtain ⟨a, b, c, d, _⟩ := hg.ok hdg
    exact ⟨by omega, fun _ => by omega⟩
  · obtain ⟨a, b, _⟩ := hg.err hdg
    refine ⟨by omega, fun hf => ?_⟩
    rw [a] at hf; exact absurd hf (by simp)

/-- tokens of the scan are literal slices of the source at their own offset (C02) -/
theorem scan_slice (T : Tables) (h : T.WFScan) (src : Str) :
    ∀ t ∈ (scan T src).toks, t.fix = false →
      (src.drop t.pos).take t.txt.length = t.txt := by
  intro t ht hfix
  obtain ⟨p, r, hr, hd, hl, rfl | hx⟩ := scan_steps T h src t ht
  rotate_left
  · obtain ⟨a, _⟩ := (nextToken_good T h src p r hr).ext t hx
    rw [a] at hfix; exact absurd hfix (by simp)
  have hg := nextToken_good T h src p r hr
  by_cases hdg : (nextToken T src p r).diag = none
  · obtain ⟨a, b, c, d, e⟩ := hg.ok hdg
    have key : ∀ q, p ≤ q → src.drop q = r.drop (q - p) := by
      intro q hq
      rw [← hd, List.drop_drop]; congr 1; omega
    rw [key _ b]; exact e
  · obtain ⟨a, _⟩ := hg.err hdg
    rw [a] at hfix; exact absurd hfix (by simp)

/-- white space with at least two line breaks is a paragraph token, otherwise a space token (C05) -/
theorem scanSpace_kind (start : Nat) (rest : Str) :
    (scanSpace start rest).tok.kind = (if countNl (rest.takeWhile isSpace) < 2 then Kind.space else Kind.par) := by
  rfl

/-- the scanner puts the complete mark of `latex_error` for a bad `\verb` -/
theorem scanVerb_err_mark (T : Tables) (src : Str) (start : Nat) (rest : Str)
    (h : (scanVerb T src start rest).diag ≠ none) :
    (scanVerb T src start rest).tok :: (scanVerb T src start rest).extra = latexErrorToks T errBadVerb start src.length := by
  revert h
  unfold scanVerb
  simp only []
  split
  · intro _; exact latexErrorToks_cons ..
  · split
    · intro _; exact latexErrorToks_cons ..
    · split
      · intro _; exact latexErrorToks_cons ..
      · intro h; exact absurd rfl h

/-- the scanner puts the complete mark of `latex_error` for an unterminated verbatim environment -/
theorem scanVerbatim_err_mark (T : Tables) (src : Str) (start : Nat) (rest : Str)
    (h : (scanVerbatim T src start rest).diag ≠ none) :
    (scanVerbatim T src start rest).tok :: (scanVerbatim T src start rest).extra = latexErrorToks T errMissingEndVerbatim start src.length := by
  revert h
  unfold scanVerbatim
  simp only []
  split
  · intro h; exact absurd rfl h
  · split
    · intro _; exact latexErrorToks_cons ..
    · intro h; exact absurd rfl h

end Yalafi
