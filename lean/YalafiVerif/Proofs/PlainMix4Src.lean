/-
  Proofs/PlainMix4Src.lean — source level of the fourth union grammar (header with the end-to-end
  statement and all side conditions: Proofs/PlainMix4E2E.lean).

  `Seg`, `render`, `grp`, `mac`   the documents (twenty-two kinds of segments)
  `Item`, `itemsOf`              the source as a list of items: a text character, a stateless
                                 construct with its fixed marks, a control word, a formula with its
                                 maths tokens, a footnote with its flow, a definition, a use, a
                                 displayed equation (marks as a function of the placeholder), a list
                                 command (marks as a function of the label generators, update of the
                                 generators, condition on them)
  `refMarks`, `refNames`, `refOk`, `refIns`, `itemsLen`, `refFlows`, `refNF`, `refND`
                                 the reference on items: everything that depends on the state is
                                 threaded here (`l` = the rotating collections of inline / display
                                 placeholders, `env` = the definitions in force, `stk` = the label
                                 generators)
  `marks`, `unkNames`, `liveOk`, `inserted`, `flows`, `nFormulas`, `nDisplays`
                                 the same on segments, in closed form (`refMarks_itemsOf` …: they
                                 agree, Proofs/PlainMix4E2E.lean)
  `firstTokTxtV`, `okAtV`, `textOkV`, `itemOkV`, `segsOk`   the static side conditions (computable)
  `OkSrc`                        the same on the source text (what the scanner lemma uses)
-/
import YalafiVerif.Proofs.PlainMix4Loop
import YalafiVerif.Proofs.PlainFlows
import YalafiVerif.Proofs.PlainParEnv
namespace Yalafi
namespace PlainMix4

open M
open PlainMacro
open PlainMix (spcOk cwOkU comOk verbOkU spcOk_ne spcOk_head)
open PlainFootnote (lastTokOff flowOut)
open PlainMacroArgs (BP bodyStr argsStr lookupDef defOf argSpans startCur bodyMarks groupMarks argsLen
  bodyInserted digitChar)
open PlainUnkn2 (MPart renderM)
open PlainMathRich (MT mtoks fTxt anchor)
open PlainDefTex (defName paramStr ddefOk paramStr_length defName_eq)

/-- the definitions in force: name (without backslash), number of parameters, body; latest first -/
abbrev Env := PlainMacroArgs.Env

/-! ### the documents -/

/-- a segment of the source -/
inductive Seg where
  | txt (s : Str)
  | spc (k : Str)
  | opn
  | cls
  | cw (name sp : Str)
  | van (name key : Str)
  | com (body : Str)
  | verb (d : Char) (s : Str)
  /-- an inline formula `$body$` (`par = false`) or `\(body\)` of the rich class -/
  | math (par : Bool) (body : List MPart)
  | ref (name key : Str)
  | cite (name key : Str)
  | citeN (name note key : Str)
  | foot (body : Str)
  | head (name title : Str)
  /-- an accent call `\name ws {l}` (`bo = true`) or `\name ws l` -/
  | acc (name ws : Str) (bo : Bool) (l : Char)
  /-- a definition `\newcommand{\name}[n]{body}` -/
  | defn (name : Str) (n : Nat) (body : List BP)
  /-- a definition `\def\name#1…#n{body}` -/
  | ddef (name : Str) (n : Nat) (body : List BP)
  /-- `\par` with the white space behind it -/
  | ppar (ws : Str)
  /-- `\begin{name}{arg}` of a paragraph-forming environment (`minipage`, `thebibliography`) -/
  | pbeg (name arg : Str)
  /-- `\end{name}` of a paragraph-forming environment -/
  | pen (name : Str)
  /-- a call `\name{body}` of a macro declared like `\footnote` (`\footnotetext`, `\caption`) -/
  | call (name body : Str)
  /-- a call `\name[opt]{body}` of a macro declared like `\footnote` -/
  | callO (name opt body : Str)
  /-- `\end{name}` of a float environment (`figure`, `table`) -/
  | fen (name : Str)
  /-- `\begin{name}[placement]` of a float environment -/
  | fbegN (name note : Str)
  /-- `\begin{name}` of a float environment and the white space `ws` behind it (which it swallows) -/
  | fbeg (name ws : Str)
  /-- a use `\name{a1}…{am}` of a name that is not declared in the initialised parser -/
  | use (name : Str) (args : List Str)
  /-- a simple displayed equation `\[body\]` -/
  | disp (body : Str)
  /-- a simple displayed equation `\begin{name}body\end{name}` -/
  | denv (name body : Str)
  /-- `\begin{name}` of a list environment -/
  | beg (name : Str)
  /-- `\item` with the white space behind it -/
  | item (ws : Str)
  /-- `\item ws [label]`; `pc` = the punctuation mark that is repeated behind the label (checked by `pvLive`) -/
  | itemL (ws label : Str) (pc : Option Char)
  /-- `\begin{name}` / `\end{name}` of an UNDECLARED environment (`description` in the tables of /repo) -/
  | ubeg (name : Str)
  | uen (name : Str)
  /-- `\end{name}` of a list environment -/
  | en (name : Str)
deriving Repr, DecidableEq

def Seg.render : Seg → Str
  | .txt s => s
  | .spc k => k
  | .opn => ['{']
  | .cls => ['}']
  | .cw name sp => '\\' :: (name ++ sp)
  | .van name key => '\\' :: (name ++ '{' :: (key ++ ['}']))
  | .com body => '%' :: body
  | .verb d s => '\\' :: 'v' :: 'e' :: 'r' :: 'b' :: d :: (s ++ [d])
  | .math par body => PlainMathRich.opn par ++ (renderM body ++ PlainMathRich.cls par)
  | .ref name key => '\\' :: (name ++ '{' :: (key ++ ['}']))
  | .cite name key => '\\' :: (name ++ '{' :: (key ++ ['}']))
  | .citeN name note key => '\\' :: (name ++ '[' :: (note ++ ']' :: '{' :: (key ++ ['}'])))
  | .foot body => '\\' :: 'f' :: 'o' :: 'o' :: 't' :: 'n' :: 'o' :: 't' :: 'e' :: '{' :: (body ++ ['}'])
  | .head name title => '\\' :: (name ++ '{' :: (title ++ ['}']))
  | .acc name ws bo l => '\\' :: (name ++ (ws ++ PlainAccent.argStr bo l))
  | .defn name n body =>
    '\\' :: (ncName ++ '{' :: '\\' :: (name ++ '}' :: '[' :: digitChar n :: ']' :: '{' ::
      (bodyStr body ++ ['}'])))
  | .ddef name n body =>
    '\\' :: (defName ++ '\\' :: (name ++ (paramStr 1 n ++ '{' :: (bodyStr body ++ ['}']))))
  | .ppar ws => '\\' :: (PlainParEnv.parName ++ ws)
  | .pbeg name arg => '\\' :: (PlainItem.nBegin ++ '{' :: (name ++ '}' :: '{' :: (arg ++ ['}'])))
  | .pen name => '\\' :: (PlainItem.nEnd ++ '{' :: (name ++ ['}']))
  | .call name body => '\\' :: (name ++ '{' :: (body ++ ['}']))
  | .callO name opt body => '\\' :: (name ++ '[' :: (opt ++ ']' :: '{' :: (body ++ ['}'])))
  | .fen name => '\\' :: (PlainItem.nEnd ++ '{' :: (name ++ ['}']))
  | .fbegN name note => '\\' :: (PlainItem.nBegin ++ '{' :: (name ++ '}' :: '[' :: (note ++ [']'])))
  | .fbeg name ws => '\\' :: (PlainItem.nBegin ++ '{' :: (name ++ '}' :: ws))
  | .use name args => '\\' :: (name ++ argsStr args)
  | .disp body => '\\' :: '[' :: (body ++ ['\\', ']'])
  | .denv name body =>
    '\\' :: (PlainItem.nBegin ++ '{' :: (name ++ '}' :: (body ++ PlainDisplay.endSrc name [])))
  | .beg name => '\\' :: (PlainItem.nBegin ++ '{' :: (name ++ ['}']))
  | .item ws => '\\' :: (PlainItem.nItem ++ ws)
  | .itemL ws label _ => '\\' :: (PlainItem.nItem ++ (ws ++ '[' :: (label ++ [']'])))
  | .ubeg name => '\\' :: (PlainItem.nBegin ++ '{' :: (name ++ ['}']))
  | .uen name => '\\' :: (PlainItem.nEnd ++ '{' :: (name ++ ['}']))
  | .en name => '\\' :: (PlainItem.nEnd ++ '{' :: (name ++ ['}']))

/-- the source text -/
def render : List Seg → Str
  | [] => []
  | s :: rest => s.render ++ render rest

/-- a brace group `{body}` -/
def grp (body : List Seg) : List Seg := .opn :: (body ++ [.cls])

/-- an undeclared control word with braced arguments `\name{a1}…{an}` (arguments of any kind) -/
def mac (name : Str) (args : List (List Seg)) : List Seg := .cw name [] :: (args.map grp).flatten

/-- the number of source characters of a segment -/
def Seg.len (s : Seg) : Nat := s.render.length

/-! ### items -/

/-- the source as a list of items -/
inductive Item where
  /-- a text character at position `p` -/
  | chr (c : Char) (p : Nat)
  /-- a construct of `len` characters whose marks depend on nothing -/
  | fix (ms : List Mark) (len : Nat)
  /-- an undeclared control word (`len` characters with the white space behind it) -/
  | cw (name : Str) (len : Nat)
  /-- a formula with the maths tokens `m` -/
  | math (m : List MT) (len : Nat)
  /-- a footnote with its flow -/
  | foot (fl : List (Char × Nat)) (len : Nat)
  | defn (p : Nat) (name : Str) (n : Nat) (body : List BP)
  | ddef (p : Nat) (name : Str) (n : Nat) (body : List BP)
  | use (p : Nat) (name : Str) (args : List Str)
  /-- a displayed equation: its marks as a function of the placeholder -/
  | disp (ms : Str → List Mark) (len : Nat)
  /-- a labelled item: its marks, the repeated punctuation mark, the label -/
  | itemL (ms : List Mark) (len : Nat) (pc : Option Char) (label : Str)
  /-- `\begin{name}` of an undeclared environment: the name goes to the unknowns (without backslash) -/
  | ubeg (name : Str) (len : Nat)
  /-- a list command: its marks as a function of the label generators, what it does to them, the
      condition on them -/
  | stk (ms : List ItemGen → List Mark) (upd : List ItemGen → List ItemGen) (ok : List ItemGen → Bool)
      (len : Nat)

def chrItems : Nat → Str → List Item
  | _, [] => []
  | p, c :: cs => .chr c p :: chrItems (p + 1) cs

/-- the marks of a formula with the maths tokens `m` and the placeholder `ph`: an Action mark, the
    rendering `PlainMathRich.fTxt` (`[blank] ph [punctuation] [blank]`), every character pinned to
    the position of the first maths token, and another Action mark -/
def mathMarksR (T : PTables) (ph : Str) (m : List MT) : List Mark :=
  none :: ((fTxt T ph m).map (fun c => some (c, anchor m)) ++ [none])

/-- a maths token with the text of a control word does not name a user macro -/
def liveTxt (env : Env) : Str → Bool
  | '\\' :: nm => (lookupDef env nm).isNone
  | _ => true

/-- **the reference on items**: the marks of the main flow; `l` = the stored collection of inline
    placeholders, `env` = the definitions in force -/
def refMarks (T : PTables) : Colls → Env → List ItemGen → List Item → List Mark
  | _, _, _, [] => []
  | l, env, stk, .chr c p :: r => some (c, p) :: refMarks T l env stk r
  | l, env, stk, .fix ms _ :: r => ms ++ refMarks T l env stk r
  | l, env, stk, .cw _ _ :: r => none :: refMarks T l env stk r
  | l, env, stk, .math m _ :: r => mathMarksR T ((rotL l.1).headD []) m ++ refMarks T (rotL l.1, l.2) env stk r
  | l, env, stk, .foot _ _ :: r => none :: refMarks T l env stk r
  | l, env, stk, .defn _ name n body :: r => none :: refMarks T l ((name, n, body) :: env) stk r
  | l, env, stk, .ddef _ name n body :: r => none :: refMarks T l ((name, n, body) :: env) stk r
  | l, env, stk, .use p name args :: r =>
    none :: (bodyMarks (argSpans (p + name.length + 1) args)
              (startCur (argSpans (p + name.length + 1) args) p (defOf env name).2) (defOf env name).2
      ++ (groupMarks ((argSpans (p + name.length + 1) args).drop (defOf env name).1)
      ++ refMarks T l env stk r))
  | l, env, stk, .disp ms _ :: r => ms ((rotL l.2).headD []) ++ refMarks T (l.1, rotL l.2) env stk r
  | l, env, stk, .itemL ms _ _ _ :: r => ms ++ refMarks T l env stk r
  | l, env, stk, .ubeg _ _ :: r => none :: refMarks T l env stk r
  | l, env, stk, .stk ms upd _ _ :: r => ms stk ++ refMarks T l env (upd stk) r

/-- the names that are recorded as unknown (with backslash, in order, with repetitions) -/
def refNames : Env → List Item → List Str
  | _, [] => []
  | env, .cw name _ :: r => ('\\' :: name) :: refNames env r
  | env, .defn _ name n body :: r => refNames ((name, n, body) :: env) r
  | env, .ddef _ name n body :: r => refNames ((name, n, body) :: env) r
  | env, .use _ name _ :: r =>
    (if (lookupDef env name).isNone then [('\\' :: name)] else []) ++ refNames env r
  | env, .ubeg name _ :: r => name :: refNames env r
  | env, _ :: r => refNames env r

/-- the conditions that depend on the definitions in force: a control word (in text or in a
    formula) is not defined at that point; a use has enough groups -/
def refOk : Env → List ItemGen → List Item → Bool
  | _, _, [] => true
  | env, stk, .cw name _ :: r => (lookupDef env name).isNone && refOk env stk r
  | env, stk, .math m _ :: r => m.all (fun x => liveTxt env x.txt) && refOk env stk r
  | env, stk, .defn _ name n body :: r => refOk ((name, n, body) :: env) stk r
  | env, stk, .ddef _ name n body :: r => refOk ((name, n, body) :: env) stk r
  | env, stk, .use _ name args :: r => decide ((defOf env name).1 ≤ args.length) && refOk env stk r
  | env, stk, .stk _ upd ok _ :: r => ok stk && refOk env (upd stk) r
  | env, stk, _ :: r => refOk env stk r

/-- tokens inserted by the uses (upper bound) -/
def refIns : Env → List Item → Nat
  | _, [] => 0
  | env, .defn _ name n body :: r => refIns ((name, n, body) :: env) r
  | env, .ddef _ name n body :: r => refIns ((name, n, body) :: env) r
  | env, .use p name args :: r =>
    bodyInserted (argSpans (p + name.length + 1) args) (defOf env name).2 + refIns env r
  | env, .itemL _ _ _ _ :: r => 1 + refIns env r
  | env, _ :: r => refIns env r

def itemsLen : List Item → Nat
  | [] => 0
  | .chr _ _ :: r => 1 + itemsLen r
  | .fix _ len :: r => len + itemsLen r
  | .cw _ len :: r => len + itemsLen r
  | .math _ len :: r => len + itemsLen r
  | .foot _ len :: r => len + itemsLen r
  | .defn _ name _ body :: r => name.length + (bodyStr body).length + 19 + itemsLen r
  | .ddef _ name n body :: r => name.length + (bodyStr body).length + 2 * n + 7 + itemsLen r
  | .use _ name args :: r => name.length + 1 + argsLen args + itemsLen r
  | .disp _ len :: r => len + itemsLen r
  | .itemL _ len _ _ :: r => len + itemsLen r
  | .ubeg _ len :: r => len + itemsLen r
  | .stk _ _ _ len :: r => len + itemsLen r

/-- the detached flows -/
def refFlows : List Item → List (Char × Nat)
  | [] => []
  | .foot fl _ :: r => fl ++ refFlows r
  | _ :: r => refFlows r

/-- the number of formulas -/
def refNF : List Item → Nat
  | [] => 0
  | .math _ _ :: r => refNF r + 1
  | _ :: r => refNF r

/-- the number of displayed equations -/
def refND : List Item → Nat
  | [] => 0
  | .disp _ _ :: r => refND r + 1
  | _ :: r => refND r

/-! ### the last visible output character (for the punctuation a labelled item repeats) -/

/-- what the reference knows about the text of the last non-blank output token: `none` = nothing,
    `some v` = its last character is `v` (`none`: there is no such token) -/
abbrev PvK := Option (Option Char)

/-- … behind a text character -/
def kChar (k : PvK) (c : Char) : PvK := if isSpace c then k else some (some c)

/-- … behind a text -/
def kText (k : PvK) (s : Str) : PvK := s.foldl kChar k

/-- a mark without visible character -/
def blankMark : Mark → Bool
  | none => true
  | some (c, _) => isSpace c

/-- … behind a construct with the marks `ms`: unchanged if it leaves no visible character,
    unknown otherwise (the token boundaries are not visible in the marks) -/
def kMarks (k : PvK) (ms : List Mark) : PvK := if ms.all blankMark then k else none

/-- … behind `\item[label]` with the repeated punctuation `pc` -/
def kItemL (k : PvK) (label : Str) (pc : Option Char) : PvK :=
  k.map (fun v => PlainItemL.pvPunct (PlainItemL.pvText v label) pc)

/-- the declared punctuation of a labelled item is the one the model repeats: the last visible
    output character is KNOWN and `pc` = that character if it is in `item_punctuation` -/
def pcOk (T : PTables) (k : PvK) (pc : Option Char) : Bool :=
  match k with
  | some v => PlainItemL.punctOf T v == pc
  | none => false

/-- the condition on the labelled items, on items -/
def refPv (T : PTables) : List ItemGen → PvK → List Item → Bool
  | _, _, [] => true
  | stk, k, .chr c _ :: r => refPv T stk (kChar k c) r
  | stk, k, .fix ms _ :: r => refPv T stk (kMarks k ms) r
  | stk, k, .cw _ _ :: r => refPv T stk k r
  | stk, _, .math _ _ :: r => refPv T stk none r
  | stk, k, .foot _ _ :: r => refPv T stk k r
  | stk, k, .defn _ _ _ _ :: r => refPv T stk k r
  | stk, k, .ddef _ _ _ _ :: r => refPv T stk k r
  | stk, _, .use _ _ _ :: r => refPv T stk none r
  | stk, _, .disp _ _ :: r => refPv T stk none r
  | stk, k, .ubeg _ _ :: r => refPv T stk k r
  | stk, k, .stk ms upd _ _ :: r => refPv T (upd stk) (kMarks k (ms stk)) r
  | stk, k, .itemL _ _ pc label :: r => pcOk T k pc && refPv T stk (kItemL k label pc) r

theorem refPv_chrItems (T : PTables) (stk : List ItemGen) (items : List Item) : ∀ (s : Str) (k : PvK) (p : Nat),
    refPv T stk k (chrItems p s ++ items) = refPv T stk (kText k s) items
  | [], _, _ => rfl
  | c :: cs, k, p => by simp [chrItems, refPv, kText, refPv_chrItems T stk items cs (kChar k c) (p + 1)]
theorem refND_chrItems (items : List Item) : ∀ (s : Str) (p : Nat),
    refND (chrItems p s ++ items) = refND items
  | [], _ => rfl
  | c :: cs, p => by simp [chrItems, refND, refND_chrItems items cs (p + 1)]

theorem refMarks_chrItems (T : PTables) (l : Colls) (env : Env) (stk : List ItemGen)
    (items : List Item) : ∀ (s : Str) (p : Nat),
      refMarks T l env stk (chrItems p s ++ items) = (posText p s).map some ++ refMarks T l env stk items
  | [], _ => rfl
  | c :: cs, p => by simp [chrItems, refMarks, posText, refMarks_chrItems T l env stk items cs (p + 1)]

theorem refNames_chrItems (env : Env) (items : List Item) : ∀ (s : Str) (p : Nat),
    refNames env (chrItems p s ++ items) = refNames env items
  | [], _ => rfl
  | c :: cs, p => by simp [chrItems, refNames, refNames_chrItems env items cs (p + 1)]

theorem refOk_chrItems (env : Env) (stk : List ItemGen) (items : List Item) : ∀ (s : Str) (p : Nat),
    refOk env stk (chrItems p s ++ items) = refOk env stk items
  | [], _ => rfl
  | c :: cs, p => by simp [chrItems, refOk, refOk_chrItems env stk items cs (p + 1)]

theorem refIns_chrItems (env : Env) (items : List Item) : ∀ (s : Str) (p : Nat),
    refIns env (chrItems p s ++ items) = refIns env items
  | [], _ => rfl
  | c :: cs, p => by simp [chrItems, refIns, refIns_chrItems env items cs (p + 1)]

theorem itemsLen_chrItems (items : List Item) : ∀ (s : Str) (p : Nat),
    itemsLen (chrItems p s ++ items) = s.length + itemsLen items
  | [], _ => by simp [chrItems]
  | c :: cs, p => by simp [chrItems, itemsLen, itemsLen_chrItems items cs (p + 1)]; omega

theorem refFlows_chrItems (items : List Item) : ∀ (s : Str) (p : Nat),
    refFlows (chrItems p s ++ items) = refFlows items
  | [], _ => rfl
  | c :: cs, p => by simp [chrItems, refFlows, refFlows_chrItems items cs (p + 1)]

theorem refNF_chrItems (items : List Item) : ∀ (s : Str) (p : Nat),
    refNF (chrItems p s ++ items) = refNF items
  | [], _ => rfl
  | c :: cs, p => by simp [chrItems, refNF, refNF_chrItems items cs (p + 1)]

/-! ### the reference on segments -/

/-- the full stop `h_heading` appends to a title that starts at position `q` -/
def dotMarks (T : PTables) (q : Nat) (title : Str) : List Mark :=
  if PlainHeading.needsDot T title then [some ('.', q + lastTokOff title)] else []

/-- the marks of a displayed equation at position `p` whose body starts at `p + o`, with the
    placeholder `ph`: a mark, two blanks at `p` (the indentation), the placeholder at the first
    ELEMENT character of the body (no white space, no operator of `ops`, no punctuation), the
    closing punctuation mark at the first character of the body that is no white space, a mark -/
def dispMarks (T : PTables) (ops : List Str) (ph : Str) (p o : Nat) (body : Str) : List Mark :=
  none :: some (' ', p) :: some (' ', p) ::
    (ph.map (fun c => some (c, p + o + PlainDisplay.elemOff T ops body)) ++
      ((PlainMath.punctOf T body).map (fun c => some (c, p + o + PlainMath.leadBlanks body)) ++ [none]))

/-- the marks of `\item` at position `p`: a mark, a blank, the next label of the innermost generator,
    a blank — all at `p` -/
def itemMarks (T : PTables) (p : Nat) (stk : List ItemGen) : List Mark :=
  none :: some (' ', p) :: ((PlainItem.labOf T stk).map (fun c => some (c, p)) ++ [some (' ', p)])

/-- the marks of `\item ws [label]` at position `p` with the repeated punctuation `pc`: a blank at
    `p`, two marks, the label at its own positions, a mark, the punctuation and a blank, both at
    the start of the last token of the label (`PlainItemL.labLast`; at `[` for an empty label) -/
def itemLMarks (p : Nat) (ws label : Str) (pc : Option Char) : List Mark :=
  some (' ', p) :: none :: none :: ((posText (p + (ws.length + 5) + 1) label).map some ++
    none :: (PlainItemL.punctMarks pc (PlainItemL.labLast (p + (ws.length + 5)) label) ++
      [some (' ', PlainItemL.labLast (p + (ws.length + 5)) label)]))
/-- the marks of a stateless segment that starts at position `p` (`[]` for the other kinds) -/
def fixOf (T : PTables) (st1 : PState) (p : Nat) : Seg → List Mark
  | .spc key => none :: (posText p (specialValD T.toTables key)).map some
  | .opn => [none]
  | .cls => [none]
  | .van _ _ => [none]
  | .verb _ s => none :: (posText (p + 6) s).map some
  | .ref name _ => none :: PlainRef.fixMarks p (PlainRef.phOf st1 name)
  | .cite _ _ => none :: (PlainRef.fixMarks p "[0]".toList ++ [none])
  | .citeN name note _ =>
    none :: (PlainRef.fixMarks p "[0, ".toList ++ ((posText (p + name.length + 2) note).map some ++
      [some (']', p + name.length + 2 + lastTokOff note), none]))
  | .head name title =>
    none :: ((posText (p + name.length + 2) title).map some ++ dotMarks T (p + name.length + 2) title)
  | .ppar _ => none :: PlainRef.fixMarks p [nl, nl]
  | .pbeg _ _ => PlainRef.fixMarks p [nl, nl] ++ [none]
  | .pen _ => PlainRef.fixMarks p [nl, nl]
  | .uen _ => [none]
  | .fen _ => [none]
  | .fbegN _ _ => [none, none]
  | .fbeg _ _ => [none, none]
  | .acc name _ _ l => (PlainAccent.accVal T name l).map (fun x => some (x, p))
  | _ => []

/-- the items of a document that starts at position `p` -/
def itemsOf (T : PTables) (st1 : PState) : Nat → List Seg → List Item
  | _, [] => []
  | p, .txt s :: rest => chrItems p s ++ itemsOf T st1 (p + s.length) rest
  | p, .cw name sp :: rest =>
    .cw name (name.length + 1 + sp.length) :: itemsOf T st1 (p + (Seg.cw name sp).len) rest
  | p, .math par body :: rest =>
    .math (mtoks T (p + (PlainMathRich.opn par).length) body) (Seg.math par body).len
      :: itemsOf T st1 (p + (Seg.math par body).len) rest
  | p, .foot body :: rest =>
    .foot (flowOut (p + 10) body) (body.length + 11) :: itemsOf T st1 (p + (Seg.foot body).len) rest
  | p, .defn name n body :: rest =>
    .defn p name n body :: itemsOf T st1 (p + (Seg.defn name n body).len) rest
  | p, .ddef name n body :: rest =>
    .ddef p name n body :: itemsOf T st1 (p + (Seg.ddef name n body).len) rest
  | p, .call name body :: rest =>
    .foot (flowOut (p + name.length + 2) body) (name.length + body.length + 3)
      :: itemsOf T st1 (p + (Seg.call name body).len) rest
  | p, .callO name opt body :: rest =>
    .foot (flowOut (p + name.length + opt.length + 4) body) (name.length + opt.length + body.length + 5)
      :: itemsOf T st1 (p + (Seg.callO name opt body).len) rest
  | p, .use name args :: rest => .use p name args :: itemsOf T st1 (p + (Seg.use name args).len) rest
  | p, .disp body :: rest =>
    .disp (fun ph => dispMarks T st1.mathOperators ph p 2 body) (body.length + 4)
      :: itemsOf T st1 (p + (Seg.disp body).len) rest
  | p, .denv name body :: rest =>
    .disp (fun ph => none :: none :: dispMarks T st1.mathOperators ph p (name.length + 8) body)
        (2 * name.length + body.length + 14)
      :: itemsOf T st1 (p + (Seg.denv name body).len) rest
  | p, .beg name :: rest =>
    .stk (fun _ => PlainItem.envMarks (PlainItem.envOf st1 name) p ++ [none])
        (fun stk => PlainItem.begStk st1 stk name) (fun _ => true) (name.length + 8)
      :: itemsOf T st1 (p + (Seg.beg name).len) rest
  | p, .item ws :: rest =>
    .stk (itemMarks T p) PlainItem.itemStk (fun stk => PlainItem.labelAt T st1 stk) (ws.length + 5)
      :: itemsOf T st1 (p + (Seg.item ws).len) rest
  | p, .itemL ws label pc :: rest =>
    .itemL (itemLMarks p ws label pc) (ws.length + label.length + 7) pc label
      :: itemsOf T st1 (p + (Seg.itemL ws label pc).len) rest
  | p, .ubeg name :: rest => .ubeg name (name.length + 8) :: itemsOf T st1 (p + (Seg.ubeg name).len) rest
  | p, .en name :: rest =>
    .stk (fun _ => PlainItem.envMarks (PlainItem.envOf st1 name) p) PlainItem.endStk (fun _ => true)
        (name.length + 6)
      :: itemsOf T st1 (p + (Seg.en name).len) rest
  | p, s :: rest => .fix (fixOf T st1 p s) s.len :: itemsOf T st1 (p + s.len) rest

/-- **the reference for the main flow**, in closed form: the document, which starts at position
    `p`, as a list of marks (`some (c, pos)` = an output character with its position, `none` = the
    model leaves an Action token there); `repls` = the inline placeholders of the language, `k` =
    the number of formulas in front, `env` = the definitions in force:
    * text: every character with its own position;
    * a stateless construct: `fixOf` (special sequences, braces, vanishing calls, `\verb`,
      references, citations, headings as in `PlainMix2.marks`; an accent call: the character(s) of
      the table at the backslash, NO mark; a comment: nothing);
    * a control word, a footnote: a mark;
    * the `k+1`-st formula: `mathMarksR` with the placeholder `PlainMath.placeholder repls (k+1)`;
    * a definition: a mark; it comes into force behind it;
    * a use `\name{a1}…{am}`: a mark, the body of the definition in force with `#k` replaced by
      the `k`-th argument at its own positions (`PlainMacroArgs.bodyMarks`), the groups that are
      left (`groupMarks`); for an undefined name: a mark and all groups. -/
def marks (T : PTables) (st1 : PState) (repls drepls : List Str) :
    Env → List ItemGen → Nat → Nat → Nat → List Seg → List Mark
  | _, _, _, _, _, [] => []
  | env, stk, k, k2, p, .txt s :: rest =>
    (posText p s).map some ++ marks T st1 repls drepls env stk k k2 (p + s.length) rest
  | env, stk, k, k2, p, .cw name sp :: rest =>
    none :: marks T st1 repls drepls env stk k k2 (p + (Seg.cw name sp).len) rest
  | env, stk, k, k2, p, .math par body :: rest =>
    mathMarksR T (PlainMath.placeholder repls (k + 1)) (mtoks T (p + (PlainMathRich.opn par).length) body)
      ++ marks T st1 repls drepls env stk (k + 1) k2 (p + (Seg.math par body).len) rest
  | env, stk, k, k2, p, .foot body :: rest => none :: marks T st1 repls drepls env stk k k2 (p + (Seg.foot body).len) rest
  | env, stk, k, k2, p, .defn name n body :: rest =>
    none :: marks T st1 repls drepls ((name, n, body) :: env) stk k k2 (p + (Seg.defn name n body).len) rest
  | env, stk, k, k2, p, .ddef name n body :: rest =>
    none :: marks T st1 repls drepls ((name, n, body) :: env) stk k k2 (p + (Seg.ddef name n body).len) rest
  | env, stk, k, k2, p, .call name body :: rest =>
    none :: marks T st1 repls drepls env stk k k2 (p + (Seg.call name body).len) rest
  | env, stk, k, k2, p, .callO name opt body :: rest =>
    none :: marks T st1 repls drepls env stk k k2 (p + (Seg.callO name opt body).len) rest
  | env, stk, k, k2, p, .use name args :: rest =>
    none :: (bodyMarks (argSpans (p + name.length + 1) args)
              (startCur (argSpans (p + name.length + 1) args) p (defOf env name).2) (defOf env name).2
      ++ (groupMarks ((argSpans (p + name.length + 1) args).drop (defOf env name).1)
      ++ marks T st1 repls drepls env stk k k2 (p + (Seg.use name args).len) rest))
  | env, stk, k, k2, p, .disp body :: rest =>
    dispMarks T st1.mathOperators (PlainMath.placeholder drepls (k2 + 1)) p 2 body
      ++ marks T st1 repls drepls env stk k (k2 + 1) (p + (Seg.disp body).len) rest
  | env, stk, k, k2, p, .denv name body :: rest =>
    none :: none ::
      dispMarks T st1.mathOperators (PlainMath.placeholder drepls (k2 + 1)) p (name.length + 8) body
      ++ marks T st1 repls drepls env stk k (k2 + 1) (p + (Seg.denv name body).len) rest
  | env, stk, k, k2, p, .beg name :: rest =>
    PlainItem.envMarks (PlainItem.envOf st1 name) p ++ none ::
      marks T st1 repls drepls env (PlainItem.begStk st1 stk name) k k2 (p + (Seg.beg name).len) rest
  | env, stk, k, k2, p, .item ws :: rest =>
    itemMarks T p stk
      ++ marks T st1 repls drepls env (PlainItem.itemStk stk) k k2 (p + (Seg.item ws).len) rest
  | env, stk, k, k2, p, .itemL ws label pc :: rest =>
    itemLMarks p ws label pc
      ++ marks T st1 repls drepls env stk k k2 (p + (Seg.itemL ws label pc).len) rest
  | env, stk, k, k2, p, .ubeg name :: rest =>
    none :: marks T st1 repls drepls env stk k k2 (p + (Seg.ubeg name).len) rest
  | env, stk, k, k2, p, .en name :: rest =>
    PlainItem.envMarks (PlainItem.envOf st1 name) p
      ++ marks T st1 repls drepls env (PlainItem.endStk stk) k k2 (p + (Seg.en name).len) rest
  | env, stk, k, k2, p, s :: rest => fixOf T st1 p s ++ marks T st1 repls drepls env stk k k2 (p + s.len) rest

/-- the names that are recorded as unknown: undeclared control words and uses of names that are
    not (yet) defined — with backslash, in order of occurrence, with repetitions -/
def unkNames : Env → List Seg → List Str
  | _, [] => []
  | env, .cw name _ :: rest => ('\\' :: name) :: unkNames env rest
  | env, .defn name n body :: rest => unkNames ((name, n, body) :: env) rest
  | env, .ddef name n body :: rest => unkNames ((name, n, body) :: env) rest
  | env, .use name _ :: rest =>
    (if (lookupDef env name).isNone then [('\\' :: name)] else []) ++ unkNames env rest
  | env, .ubeg name :: rest => name :: unkNames env rest
  | env, _ :: rest => unkNames env rest

/-- the control words of a formula body -/
def cwsOf : List MPart → List Str
  | [] => []
  | .cw name :: r => name :: cwsOf r
  | _ :: r => cwsOf r

/-- the side conditions that depend on the definitions in force (computable): an undeclared
    control word — in the text or in a formula — is not defined at that point (else it would be a
    use); a use has at least as many groups as the definition in force has parameters -/
def liveOk (T : PTables) (st1 : PState) : Env → List ItemGen → Nat → List Seg → Bool
  | _, _, _, [] => true
  | env, stk, p, .cw name sp :: rest =>
    (lookupDef env name).isNone && liveOk T st1 env stk (p + (Seg.cw name sp).len) rest
  | env, stk, p, .math par body :: rest =>
    (mtoks T (p + (PlainMathRich.opn par).length) body).all (fun x => liveTxt env x.txt) &&
      liveOk T st1 env stk (p + (Seg.math par body).len) rest
  | env, stk, p, .defn name n body :: rest =>
    liveOk T st1 ((name, n, body) :: env) stk (p + (Seg.defn name n body).len) rest
  | env, stk, p, .ddef name n body :: rest =>
    liveOk T st1 ((name, n, body) :: env) stk (p + (Seg.ddef name n body).len) rest
  | env, stk, p, .use name args :: rest =>
    decide ((defOf env name).1 ≤ args.length) && liveOk T st1 env stk (p + (Seg.use name args).len) rest
  | env, stk, p, .beg name :: rest =>
    liveOk T st1 env (PlainItem.begStk st1 stk name) (p + (Seg.beg name).len) rest
  | env, stk, p, .item ws :: rest =>
    PlainItem.labelAt T st1 stk && liveOk T st1 env (PlainItem.itemStk stk) (p + (Seg.item ws).len) rest
  | env, stk, p, .en name :: rest =>
    liveOk T st1 env (PlainItem.endStk stk) (p + (Seg.en name).len) rest
  | env, stk, p, s :: rest => liveOk T st1 env stk (p + s.len) rest

/-- **the side condition on the labelled items** (computable): `k` = what is known about the last
    visible output character at that point (`some none` at the start); text: the last character that is
    no white space; a construct that leaves no visible character: unchanged; a construct that leaves
    visible characters (a formula, a use, a reference, a generated label, …): UNKNOWN until the next
    visible text character; at a labelled item it must be known, and the declared `pc` must be the
    punctuation mark the model repeats -/
def pvLive (T : PTables) (st1 : PState) : List ItemGen → PvK → Nat → List Seg → Bool
  | _, _, _, [] => true
  | stk, k, p, .txt s :: rest => pvLive T st1 stk (kText k s) (p + s.length) rest
  | stk, k, p, .cw name sp :: rest => pvLive T st1 stk k (p + (Seg.cw name sp).len) rest
  | stk, _, p, .math par body :: rest => pvLive T st1 stk none (p + (Seg.math par body).len) rest
  | stk, k, p, .foot body :: rest => pvLive T st1 stk k (p + (Seg.foot body).len) rest
  | stk, k, p, .defn name n body :: rest => pvLive T st1 stk k (p + (Seg.defn name n body).len) rest
  | stk, k, p, .ddef name n body :: rest => pvLive T st1 stk k (p + (Seg.ddef name n body).len) rest
  | stk, _, p, .use name args :: rest => pvLive T st1 stk none (p + (Seg.use name args).len) rest
  | stk, _, p, .disp body :: rest => pvLive T st1 stk none (p + (Seg.disp body).len) rest
  | stk, _, p, .denv name body :: rest => pvLive T st1 stk none (p + (Seg.denv name body).len) rest
  | stk, k, p, .beg name :: rest =>
    pvLive T st1 (PlainItem.begStk st1 stk name) (kMarks k (PlainItem.envMarks (PlainItem.envOf st1 name) p ++ [none]))
      (p + (Seg.beg name).len) rest
  | stk, k, p, .item ws :: rest =>
    pvLive T st1 (PlainItem.itemStk stk) (kMarks k (itemMarks T p stk)) (p + (Seg.item ws).len) rest
  | stk, k, p, .itemL ws label pc :: rest =>
    pcOk T k pc && pvLive T st1 stk (kItemL k label pc) (p + (Seg.itemL ws label pc).len) rest
  | stk, k, p, .ubeg name :: rest => pvLive T st1 stk k (p + (Seg.ubeg name).len) rest
  | stk, k, p, .call name body :: rest => pvLive T st1 stk k (p + (Seg.call name body).len) rest
  | stk, k, p, .callO name opt body :: rest => pvLive T st1 stk k (p + (Seg.callO name opt body).len) rest
  | stk, k, p, .en name :: rest =>
    pvLive T st1 (PlainItem.endStk stk) (kMarks k (PlainItem.envMarks (PlainItem.envOf st1 name) p))
      (p + (Seg.en name).len) rest
  | stk, k, p, s :: rest => pvLive T st1 stk (kMarks k (fixOf T st1 p s)) (p + s.len) rest
/-- the number of tokens inserted by the uses (upper bound; enters the fuel) -/
def inserted : Env → Nat → List Seg → Nat
  | _, _, [] => 0
  | env, p, .defn name n body :: rest => inserted ((name, n, body) :: env) (p + (Seg.defn name n body).len) rest
  | env, p, .ddef name n body :: rest => inserted ((name, n, body) :: env) (p + (Seg.ddef name n body).len) rest
  | env, p, .use name args :: rest =>
    bodyInserted (argSpans (p + name.length + 1) args) (defOf env name).2
      + inserted env (p + (Seg.use name args).len) rest
  | env, p, .itemL ws label pc :: rest => 1 + inserted env (p + (Seg.itemL ws label pc).len) rest
  | env, p, s :: rest => inserted env (p + s.len) rest

/-- **the reference for the detached flows** (footnotes), as in `PlainMix2.flows` -/
def flows : Nat → List Seg → List (Char × Nat)
  | _, [] => []
  | p, .call name body :: rest =>
    flowOut (p + name.length + 2) body ++ flows (p + (Seg.call name body).len) rest
  | p, .callO name opt body :: rest =>
    flowOut (p + name.length + opt.length + 4) body ++ flows (p + (Seg.callO name opt body).len) rest
  | p, .foot body :: rest => flowOut (p + 10) body ++ flows (p + (Seg.foot body).len) rest
  | p, s :: rest => flows (p + s.len) rest

/-- the number of formulas of the document -/
def nFormulas : List Seg → Nat
  | [] => 0
  | .math _ _ :: rest => nFormulas rest + 1
  | _ :: rest => nFormulas rest

/-- the number of displayed equations of the document -/
def nDisplays : List Seg → Nat
  | [] => 0
  | .disp _ :: rest => nDisplays rest + 1
  | .denv _ _ :: rest => nDisplays rest + 1
  | _ :: rest => nDisplays rest

/-! ### the side conditions -/

/-- the text of the first scanner token of a well-formed source: a run of white space, a comment,
    a special sequence, a macro or accent token (`scan_macro`: a control word, or a backslash and
    one more character), the content of a `\verb`, or one character -/
def firstTokTxtV (T : Tables) : Str → Str
  | [] => []
  | d :: ds =>
    if isSpace d then (d :: ds).takeWhile isSpace
    else if d == '%' then (d :: ds).take (commentLen (d :: ds))
    else match matchSpecial T (d :: ds) with
      | some t => t
      | none =>
        if d == '\\' then
          (if (d :: ds).take (macroLen (d :: ds)) == sVerb then (scanVerb T [] 0 (d :: ds)).tok.txt
           else (d :: ds).take (macroLen (d :: ds)))
        else [d]

/-- the text character `c`, followed by `cs` (the whole rest of the source), is inert (`okAtU` of
    Proofs/PlainMixSrc.lean with the exact text of a following accent token) -/
def okAtV (T : PTables) (st : PState) (c : Char) (cs : Str) : Bool :=
  (!(activeChars T st).contains [c] ||
    (!isSpace c && (cs.isEmpty || !(shortKeys T st).contains (c :: firstTokTxtV T.toTables cs)))) &&
  (isSpace c || (!structuralChar c && (matchSpecial T.toTables (c :: cs)).isNone))

/-- the text `s`, followed by `R`, is inert -/
def textOkV (T : PTables) (st : PState) : Str → Str → Bool
  | [], _ => true
  | c :: cs, R => okAtV T st c (cs ++ R) && textOkV T st cs R

/-- the control word `\name` + white space `sp`, followed by `R`: `cwOkU` of Proofs/PlainMixSrc.lean -/
abbrev cwOkV := @cwOkU

/-- the value of an accent call has no line break, or is blank (real tables: one or two visible
    characters) — the blank-line removal is described character by character -/
def accNlOk (T : PTables) (name : Str) (l : Char) : Bool :=
  !hasNl (PlainAccent.accVal T name l) || isBlank (PlainAccent.accVal T name l)

/-- `\begin{name}` of a float environment and the white space `ws` behind it, followed by `R`:
    `PlainFlows.begOk` (declared with `figEnvOk`; `ws` is the whole white space, at most one line
    break); `R` is empty or starts with a visible character other than `[`, it does not start with a
    comment (`skip_space` would pass it), and its first token does not have the text `[` (it would
    be taken for the placement) -/
def fbegOk (T : PTables) (st : PState) (name ws R : Str) : Bool :=
  PlainFlows.begOk T st name ws R && R.head?.all (fun d => !isSpace d && d != '[') &&
  R.head?.all (fun d => d != '%') && firstTokTxtV T.toTables R != ['[']
/-- `\item` and the white space `ws` behind it, followed by `R`: `PlainItem.itemOk` (no special
    sequence at the backslash; at most one line break in `ws`; `R` is empty or starts with a visible
    character other than `[`); `R` does not start with a comment (`skip_space` would pass it) and
    its first token does not have the text `[` (a `\verb|[|` would be taken for a label); the blank
    is no active character (the blanks around the label are copied by the loop) -/
def itemOkV (T : PTables) (st : PState) (ws R : Str) : Bool :=
  PlainItem.itemOk T ws R && R.head?.all (fun d => d != '%') &&
  firstTokTxtV T.toTables R != ['['] && !(activeChars T st).contains [' ']

/-- `\item ws [label]`, followed by `R`: `PlainItemL.itemLOk` (no special sequence at the backslash; `ws`
    white space with at most one line break; `[label]`: brackets scanned as text tokens, the label inert
    and without `]`); the blank is no active character; the punctuation marks of `item_punctuation`
    are harmless tokens (`PlainItemL.punctOk`) -/
def itemLOkV (T : PTables) (st : PState) (ws label R : Str) : Bool :=
  PlainItemL.itemLOk T st ws label R && !(activeChars T st).contains [' '] && PlainItemL.punctOk T st
/-- the declared punctuation mark is one of `item_punctuation` -/
def pcIn (T : PTables) (pc : Option Char) : Bool := pc.all (fun c => T.itemPunctuation.contains [c])

/-- `\par` and the white space `ws` behind it, followed by `R`: `PlainParEnv.parOkS` (one macro token;
    `ws` is the white space `skip_space` eats, at most one line break, the whole run; `R` does not
    start with skippable white space); `\par` is declared as in the real tables
    (`PlainParEnv.parDeclOk`); `R` does not start with a comment (`skip_space` would pass it) -/
def parOkV (T : PTables) (st : PState) (ws R : Str) : Bool :=
  PlainParEnv.parOkS T ws R && PlainParEnv.parOk st && R.head?.all (fun d => d != '%')
/-- well-formed documents, the STATIC part (relative to the initialised state `st`): every segment
    is fine in front of the rendering of the following ones -/
def segsOk (T : PTables) (st : PState) : List Seg → Bool
  | [] => true
  | .txt s :: rest => textOkV T st s (render rest) && segsOk T st rest
  | .spc k :: rest => spcOk T k (render rest) && segsOk T st rest
  | .opn :: rest => braceAt T '{' (render rest) && segsOk T st rest
  | .cls :: rest => braceAt T '}' (render rest) && segsOk T st rest
  | .cw name sp :: rest => cwOkU T st name sp (render rest) && segsOk T st rest
  | .van name key :: rest => PlainVanish.vanOk T st name key (render rest) && segsOk T st rest
  | .com body :: rest => comOk T st body (render rest) && segsOk T st rest
  | .verb d s :: rest => verbOkU T d s (render rest) && segsOk T st rest
  | .math par body :: rest => PlainMathRich.mathOk T st par body (render rest) && segsOk T st rest
  | .ref name key :: rest => PlainRef.refOk T st name key (render rest) && segsOk T st rest
  | .cite name key :: rest =>
    (PlainRef.citeOk T st name key (render rest) && PlainRef.stateOk T st) && segsOk T st rest
  | .citeN name note key :: rest =>
    (PlainRef.citeNOk T st name note key (render rest) && PlainRef.stateOk T st) && segsOk T st rest
  | .foot body :: rest =>
    (PlainFootnote.footOk T st body (render rest) && PlainFootnote.stateOk T st) && segsOk T st rest
  | .head name title :: rest =>
    (PlainHeading.headOk T st name title (render rest) && PlainHeading.stateOk T st)
      && segsOk T st rest
  | .acc name ws bo l :: rest =>
    (PlainAccent.accOk T name ws bo l (render rest) && accNlOk T name l) && segsOk T st rest
  | .defn name n body :: rest =>
    (PlainMacroArgs.defOk T st name n body (render rest) && PlainMacro.ncOk st) && segsOk T st rest
  | .ddef name n body :: rest => ddefOk T st name n body (render rest) && segsOk T st rest
  | .ppar ws :: rest => parOkV T st ws (render rest) && segsOk T st rest
  | .pbeg name arg :: rest => PlainParEnv.begOk T st name arg (render rest) && segsOk T st rest
  | .pen name :: rest => PlainParEnv.endOk T st name (render rest) && segsOk T st rest
  | .call name body :: rest =>
    (PlainFlows.callOk T st name body (render rest) && PlainFlows.stateOk T st) && segsOk T st rest
  | .callO name opt body :: rest =>
    (PlainFlows.callOOk T st name opt body (render rest) && PlainFlows.stateOk T st) && segsOk T st rest
  | .fen name :: rest => PlainFlows.endOk T st name (render rest) && segsOk T st rest
  | .fbegN name note :: rest => PlainFlows.begNOk T st name note (render rest) && segsOk T st rest
  | .fbeg name ws :: rest => fbegOk T st name ws (render rest) && segsOk T st rest
  | .use name args :: rest => PlainMacroArgs.useOk T st name args (render rest) && segsOk T st rest
  | .disp body :: rest =>
    (PlainDisplay.dispOk T st body (render rest) && !st.displayedSimple) && segsOk T st rest
  | .denv name body :: rest =>
    (PlainDisplay.envOk T st name body (render rest) && !st.displayedSimple) && segsOk T st rest
  | .beg name :: rest => PlainItem.begOk T st name (render rest) && segsOk T st rest
  | .item ws :: rest => itemOkV T st ws (render rest) && segsOk T st rest
  | .itemL ws label pc :: rest => (itemLOkV T st ws label (render rest) && pcIn T pc) && segsOk T st rest
  | .ubeg name :: rest => PlainItemL.ubegOk T st name (render rest) && segsOk T st rest
  | .uen name :: rest => PlainItemL.uendOk T st name (render rest) && segsOk T st rest
  | .en name :: rest => PlainItem.endOk T st name (render rest) && segsOk T st rest

/-! ### the same on the source text -/

/-- the source text, which starts at position `p`, with its items -/
inductive OkSrc (T : PTables) (st : PState) : Nat → Str → List Item → Prop
  | nil (p : Nat) : OkSrc T st p [] []
  | chr (p : Nat) (c : Char) (cs : Str) (items : List Item) :
      okAtV T st c cs = true → OkSrc T st (p + 1) cs items →
      OkSrc T st p (c :: cs) (.chr c p :: items)
  | spc (p : Nat) (c : Char) (tl R : Str) (items : List Item) :
      spcOk T (c :: tl) R = true → OkSrc T st (p + (tl.length + 1)) R items →
      OkSrc T st p (c :: (tl ++ R))
        (.fix (fixOf T st p (.spc (c :: tl))) (tl.length + 1) :: items)
  | br (p : Nat) (c : Char) (R : Str) (items : List Item) :
      (c = '{' ∨ c = '}') → braceAt T c R = true → OkSrc T st (p + 1) R items →
      OkSrc T st p (c :: R) (.fix [none] 1 :: items)
  | cw (p : Nat) (name sp R : Str) (items : List Item) :
      cwOkU T st name sp R = true → OkSrc T st (p + (name.length + 1 + sp.length)) R items →
      OkSrc T st p ('\\' :: (name ++ (sp ++ R))) (.cw name (name.length + 1 + sp.length) :: items)
  | van (p : Nat) (name key R : Str) (items : List Item) :
      PlainVanish.vanOk T st name key R = true →
      OkSrc T st (p + PlainVanish.vanLen name key) R items →
      OkSrc T st p ('\\' :: (name ++ '{' :: (key ++ '}' :: R)))
        (.fix [none] (PlainVanish.vanLen name key) :: items)
  | com (p : Nat) (body R : Str) (items : List Item) :
      comOk T st body R = true → OkSrc T st (p + (body.length + 1)) R items →
      OkSrc T st p ('%' :: (body ++ R)) (.fix [] (body.length + 1) :: items)
  | verb (p : Nat) (d : Char) (s R : Str) (items : List Item) :
      verbOkU T d s R = true → OkSrc T st (p + (s.length + 7)) R items →
      OkSrc T st p ('\\' :: 'v' :: 'e' :: 'r' :: 'b' :: d :: (s ++ d :: R))
        (.fix (fixOf T st p (.verb d s)) (s.length + 7) :: items)
  | math (p k : Nat) (c : Char) (tl X R : Str) (m : List MT) (items : List Item) :
      PlainMathRich.IsOpen (c :: tl) → PlainMathRich.delimAt T (c :: tl) X = true →
      PlainMathRich.MOk T st k (p + (tl.length + 1)) X R m → m.any (fun x => !x.sp) = true →
      OkSrc T st (p + (tl.length + 1) + k) R items →
      OkSrc T st p (c :: (tl ++ X)) (.math m (tl.length + 1 + k) :: items)
  | ref (p : Nat) (name key R : Str) (items : List Item) :
      PlainRef.refOk T st name key R = true →
      OkSrc T st (p + PlainRef.callLen name key) R items →
      OkSrc T st p ('\\' :: (name ++ '{' :: (key ++ '}' :: R)))
        (.fix (fixOf T st p (.ref name key)) (PlainRef.callLen name key) :: items)
  | cite (p : Nat) (name key R : Str) (items : List Item) :
      PlainRef.citeOk T st name key R = true → PlainRef.stateOk T st = true →
      OkSrc T st (p + PlainRef.callLen name key) R items →
      OkSrc T st p ('\\' :: (name ++ '{' :: (key ++ '}' :: R)))
        (.fix (fixOf T st p (.cite name key)) (PlainRef.callLen name key) :: items)
  | citeN (p : Nat) (name note key R : Str) (items : List Item) :
      PlainRef.citeNOk T st name note key R = true → PlainRef.stateOk T st = true →
      OkSrc T st (p + PlainRef.callNLen name note key) R items →
      OkSrc T st p ('\\' :: (name ++ '[' :: (note ++ ']' :: '{' :: (key ++ '}' :: R))))
        (.fix (fixOf T st p (.citeN name note key)) (PlainRef.callNLen name note key) :: items)
  | foot (p : Nat) (body R : Str) (items : List Item) :
      PlainFootnote.footOk T st body R = true → PlainFootnote.stateOk T st = true →
      OkSrc T st (p + (body.length + 11)) R items →
      OkSrc T st p
        ('\\' :: 'f' :: 'o' :: 'o' :: 't' :: 'n' :: 'o' :: 't' :: 'e' :: '{' :: (body ++ '}' :: R))
        (.foot (flowOut (p + 10) body) (body.length + 11) :: items)
  | head (p : Nat) (name title R : Str) (items : List Item) :
      PlainHeading.headOk T st name title R = true → PlainHeading.stateOk T st = true →
      OkSrc T st (p + (name.length + title.length + 3)) R items →
      OkSrc T st p ('\\' :: (name ++ '{' :: (title ++ '}' :: R)))
        (.fix (fixOf T st p (.head name title)) (name.length + title.length + 3) :: items)
  | acc (p : Nat) (name ws : Str) (bo : Bool) (l : Char) (R : Str) (items : List Item) :
      PlainAccent.accOk T name ws bo l R = true → accNlOk T name l = true →
      OkSrc T st (p + PlainAccent.accLen name ws bo) R items →
      OkSrc T st p ('\\' :: (name ++ (ws ++ (PlainAccent.argStr bo l ++ R))))
        (.fix (fixOf T st p (.acc name ws bo l)) (PlainAccent.accLen name ws bo) :: items)
  | defn (p : Nat) (name : Str) (n : Nat) (body : List BP) (R : Str) (items : List Item) :
      PlainMacroArgs.defOk T st name n body R = true → PlainMacro.ncOk st = true →
      OkSrc T st (p + (name.length + (bodyStr body).length + 19)) R items →
      OkSrc T st p ('\\' :: (ncName ++ '{' :: '\\' :: (name ++ '}' :: '[' :: digitChar n :: ']' :: '{' ::
          (bodyStr body ++ '}' :: R))))
        (.defn p name n body :: items)
  | ddef (p : Nat) (name : Str) (n : Nat) (body : List BP) (R : Str) (items : List Item) :
      ddefOk T st name n body R = true →
      OkSrc T st (p + (name.length + (bodyStr body).length + 2 * n + 7)) R items →
      OkSrc T st p ('\\' :: (defName ++ '\\' :: (name ++ (paramStr 1 n ++ '{' :: (bodyStr body ++ '}' :: R)))))
        (.ddef p name n body :: items)
  | ppar (p : Nat) (ws R : Str) (items : List Item) :
      parOkV T st ws R = true → OkSrc T st (p + (ws.length + 4)) R items →
      OkSrc T st p ('\\' :: (PlainParEnv.parName ++ (ws ++ R)))
        (.fix (fixOf T st p (.ppar ws)) (ws.length + 4) :: items)
  | pbeg (p : Nat) (name arg R : Str) (items : List Item) :
      PlainParEnv.begOk T st name arg R = true →
      OkSrc T st (p + (name.length + arg.length + 10)) R items →
      OkSrc T st p ('\\' :: (PlainItem.nBegin ++ '{' :: (name ++ '}' :: '{' :: (arg ++ '}' :: R))))
        (.fix (fixOf T st p (.pbeg name arg)) (name.length + arg.length + 10) :: items)
  | pen (p : Nat) (name R : Str) (items : List Item) :
      PlainParEnv.endOk T st name R = true → OkSrc T st (p + (name.length + 6)) R items →
      OkSrc T st p ('\\' :: (PlainItem.nEnd ++ '{' :: (name ++ '}' :: R)))
        (.fix (fixOf T st p (.pen name)) (name.length + 6) :: items)
  | call (p : Nat) (name body R : Str) (items : List Item) :
      PlainFlows.callOk T st name body R = true → PlainFlows.stateOk T st = true →
      OkSrc T st (p + (name.length + body.length + 3)) R items →
      OkSrc T st p ('\\' :: (name ++ '{' :: (body ++ '}' :: R)))
        (.foot (flowOut (p + name.length + 2) body) (name.length + body.length + 3) :: items)
  | callO (p : Nat) (name opt body R : Str) (items : List Item) :
      PlainFlows.callOOk T st name opt body R = true → PlainFlows.stateOk T st = true →
      OkSrc T st (p + (name.length + opt.length + body.length + 5)) R items →
      OkSrc T st p ('\\' :: (name ++ '[' :: (opt ++ ']' :: '{' :: (body ++ '}' :: R))))
        (.foot (flowOut (p + name.length + opt.length + 4) body)
          (name.length + opt.length + body.length + 5) :: items)
  | fen (p : Nat) (name R : Str) (items : List Item) :
      PlainFlows.endOk T st name R = true → OkSrc T st (p + (name.length + 6)) R items →
      OkSrc T st p ('\\' :: (PlainItem.nEnd ++ '{' :: (name ++ '}' :: R)))
        (.fix [none] (name.length + 6) :: items)
  | fbegN (p : Nat) (name note R : Str) (items : List Item) :
      PlainFlows.begNOk T st name note R = true →
      OkSrc T st (p + (name.length + note.length + 10)) R items →
      OkSrc T st p ('\\' :: (PlainItem.nBegin ++ '{' :: (name ++ '}' :: '[' :: (note ++ ']' :: R))))
        (.fix [none, none] (name.length + note.length + 10) :: items)
  | fbeg (p : Nat) (name ws R : Str) (items : List Item) :
      fbegOk T st name ws R = true → OkSrc T st (p + (name.length + ws.length + 8)) R items →
      OkSrc T st p ('\\' :: (PlainItem.nBegin ++ '{' :: (name ++ '}' :: (ws ++ R))))
        (.fix [none, none] (name.length + ws.length + 8) :: items)
  | use (p : Nat) (name : Str) (args : List Str) (R : Str) (items : List Item) :
      PlainMacroArgs.useOk T st name args R = true →
      OkSrc T st (p + (name.length + 1 + argsLen args)) R items →
      OkSrc T st p ('\\' :: (name ++ (argsStr args ++ R))) (.use p name args :: items)
  | disp (p : Nat) (body R : Str) (items : List Item) :
      PlainDisplay.dispOk T st body R = true → st.displayedSimple = false →
      OkSrc T st (p + (body.length + 4)) R items →
      OkSrc T st p ('\\' :: '[' :: (body ++ '\\' :: ']' :: R))
        (.disp (fun ph => dispMarks T st.mathOperators ph p 2 body) (body.length + 4) :: items)
  | denv (p : Nat) (name body R : Str) (items : List Item) :
      PlainDisplay.envOk T st name body R = true → st.displayedSimple = false →
      OkSrc T st (p + (2 * name.length + body.length + 14)) R items →
      OkSrc T st p
        ('\\' :: (PlainItem.nBegin ++ '{' :: (name ++ '}' :: (body ++ PlainDisplay.endSrc name R))))
        (.disp (fun ph => none :: none :: dispMarks T st.mathOperators ph p (name.length + 8) body)
          (2 * name.length + body.length + 14) :: items)
  | beg (p : Nat) (name R : Str) (items : List Item) :
      PlainItem.begOk T st name R = true → OkSrc T st (p + (name.length + 8)) R items →
      OkSrc T st p ('\\' :: (PlainItem.nBegin ++ '{' :: (name ++ '}' :: R)))
        (.stk (fun _ => PlainItem.envMarks (PlainItem.envOf st name) p ++ [none])
          (fun stk => PlainItem.begStk st stk name) (fun _ => true) (name.length + 8) :: items)
  | item (p : Nat) (ws R : Str) (items : List Item) :
      itemOkV T st ws R = true → OkSrc T st (p + (ws.length + 5)) R items →
      OkSrc T st p ('\\' :: (PlainItem.nItem ++ (ws ++ R)))
        (.stk (itemMarks T p) PlainItem.itemStk (fun stk => PlainItem.labelAt T st stk) (ws.length + 5)
          :: items)
  | itemL (p : Nat) (ws label : Str) (pc : Option Char) (R : Str) (items : List Item) :
      itemLOkV T st ws label R = true → pcIn T pc = true →
      OkSrc T st (p + (ws.length + label.length + 7)) R items →
      OkSrc T st p ('\\' :: (PlainItem.nItem ++ (ws ++ '[' :: (label ++ ']' :: R))))
        (.itemL (itemLMarks p ws label pc) (ws.length + label.length + 7) pc label :: items)
  | ubeg (p : Nat) (name R : Str) (items : List Item) :
      PlainItemL.ubegOk T st name R = true → OkSrc T st (p + (name.length + 8)) R items →
      OkSrc T st p ('\\' :: (PlainItem.nBegin ++ '{' :: (name ++ '}' :: R)))
        (.ubeg name (name.length + 8) :: items)
  | uen (p : Nat) (name R : Str) (items : List Item) :
      PlainItemL.uendOk T st name R = true → OkSrc T st (p + (name.length + 6)) R items →
      OkSrc T st p ('\\' :: (PlainItem.nEnd ++ '{' :: (name ++ '}' :: R)))
        (.fix [none] (name.length + 6) :: items)
  | en (p : Nat) (name R : Str) (items : List Item) :
      PlainItem.endOk T st name R = true → OkSrc T st (p + (name.length + 6)) R items →
      OkSrc T st p ('\\' :: (PlainItem.nEnd ++ '{' :: (name ++ '}' :: R)))
        (.stk (fun _ => PlainItem.envMarks (PlainItem.envOf st name) p) PlainItem.endStk (fun _ => true)
          (name.length + 6) :: items)

theorem OkSrc_text (T : PTables) (st : PState) (R : Str) (items : List Item) :
    ∀ (s : Str) (p : Nat), OkSrc T st (p + s.length) R items → textOkV T st s R = true →
      OkSrc T st p (s ++ R) (chrItems p s ++ items)
  | [], _, hR, _ => hR
  | c :: cs, p, hR, h => by
    simp only [textOkV, Bool.and_eq_true] at h
    have hR' : OkSrc T st (p + 1 + cs.length) R items := by
      have e : p + 1 + cs.length = p + (c :: cs).length := by simp; omega
      rw [e]; exact hR
    exact OkSrc.chr p c (cs ++ R) _ h.1 (OkSrc_text T st R items cs (p + 1) hR' h.2)

theorem opn_len (par : Bool) : ∃ c tl, PlainMathRich.opn par = c :: tl ∧ PlainMathRich.IsOpen (c :: tl) :=
  PlainMathRich.opn_cases par

theorem OkSrc_of_segsOk (T : PTables) (st : PState) :
    ∀ (segs : List Seg) (p : Nat), segsOk T st segs = true →
      OkSrc T st p (render segs) (itemsOf T st p segs)
  | [], p, _ => .nil p
  | .txt s :: rest, p, h => by
    simp only [segsOk, Bool.and_eq_true] at h
    exact OkSrc_text T st _ _ s p (OkSrc_of_segsOk T st rest _ h.2) h.1
  | .spc k :: rest, p, h => by
    simp only [segsOk, Bool.and_eq_true] at h
    cases k with
    | nil => exact absurd rfl (spcOk_ne h.1)
    | cons c tl =>
      have := OkSrc.spc p c tl (render rest) _ h.1 (OkSrc_of_segsOk T st rest _ h.2)
      simpa [render, Seg.render, itemsOf, Seg.len] using this
  | .opn :: rest, p, h => by
    simp only [segsOk, Bool.and_eq_true] at h
    have := OkSrc.br p '{' (render rest) _ (Or.inl rfl) h.1 (OkSrc_of_segsOk T st rest _ h.2)
    simpa [render, Seg.render, itemsOf, Seg.len, fixOf] using this
  | .cls :: rest, p, h => by
    simp only [segsOk, Bool.and_eq_true] at h
    have := OkSrc.br p '}' (render rest) _ (Or.inr rfl) h.1 (OkSrc_of_segsOk T st rest _ h.2)
    simpa [render, Seg.render, itemsOf, Seg.len, fixOf] using this
  | .cw name sp :: rest, p, h => by
    simp only [segsOk, Bool.and_eq_true] at h
    have e : (Seg.cw name sp).len = name.length + 1 + sp.length := by
      simp [Seg.len, Seg.render]; omega
    have := OkSrc.cw p name sp (render rest) _ h.1 (by rw [← e]; exact OkSrc_of_segsOk T st rest _ h.2)
    simpa [render, Seg.render, itemsOf] using this
  | .van name key :: rest, p, h => by
    simp only [segsOk, Bool.and_eq_true] at h
    have e : (Seg.van name key).len = PlainVanish.vanLen name key := by
      simp [Seg.len, Seg.render, PlainVanish.vanLen]; omega
    have := OkSrc.van p name key (render rest) _ h.1 (by rw [← e]; exact OkSrc_of_segsOk T st rest _ h.2)
    simpa [render, Seg.render, itemsOf, fixOf, e] using this
  | .com body :: rest, p, h => by
    simp only [segsOk, Bool.and_eq_true] at h
    have e : (Seg.com body).len = body.length + 1 := by simp [Seg.len, Seg.render]
    have := OkSrc.com p body (render rest) _ h.1 (by rw [← e]; exact OkSrc_of_segsOk T st rest _ h.2)
    simpa [render, Seg.render, itemsOf, fixOf, e] using this
  | .verb d s :: rest, p, h => by
    simp only [segsOk, Bool.and_eq_true] at h
    have e : (Seg.verb d s).len = s.length + 7 := by simp [Seg.len, Seg.render]
    have := OkSrc.verb p d s (render rest) _ h.1 (by rw [← e]; exact OkSrc_of_segsOk T st rest _ h.2)
    simpa [render, Seg.render, itemsOf, e] using this
  | .math par body :: rest, p, h => by
    simp only [segsOk, Bool.and_eq_true] at h
    obtain ⟨hm, hrest⟩ := h
    simp only [PlainMathRich.mathOk, Bool.and_eq_true] at hm
    obtain ⟨⟨⟨h1, h2⟩, h3⟩, h4⟩ := hm
    obtain ⟨c, tl, ho, hopen⟩ := PlainMathRich.opn_cases par
    obtain ⟨c2, tl2, hc, hclose⟩ := PlainMathRich.cls_cases par
    rw [hc] at h1 h2 h4
    rw [ho] at h1
    obtain ⟨k, hk⟩ := PlainMathRich.MOk_parts T st c2 tl2 (render rest) hclose h4 body
      (p + (tl.length + 1)) h2
    have hlen := PlainMathRich.MOk_len hk
    have hk' : k = (renderM body).length + (tl2.length + 1) := by
      simp only [List.length_append, List.length_cons] at hlen; omega
    have e : (Seg.math par body).len = tl.length + 1 + k := by
      simp only [Seg.len, Seg.render, ho, hc, List.length_append, List.length_cons, hk']
    have hol : (PlainMathRich.opn par).length = tl.length + 1 := by rw [ho]; simp
    have hrest' := OkSrc_of_segsOk T st rest (p + (Seg.math par body).len) hrest
    rw [e, ← Nat.add_assoc] at hrest'
    have := OkSrc.math p k c tl _ (render rest) _ _ hopen
      (by simpa [List.append_assoc] using h1) hk
      (by rw [PlainMathRich.mtoks_any]; exact h3) hrest'
    simp only [render, Seg.render, itemsOf, ho, hc, hol, e]
    simpa [List.append_assoc, Nat.add_assoc] using this
  | .ref name key :: rest, p, h => by
    simp only [segsOk, Bool.and_eq_true] at h
    have e : (Seg.ref name key).len = PlainRef.callLen name key := by
      simp [Seg.len, Seg.render, PlainRef.callLen]; omega
    have := OkSrc.ref p name key (render rest) _ h.1 (by rw [← e]; exact OkSrc_of_segsOk T st rest _ h.2)
    simpa [render, Seg.render, itemsOf, e] using this
  | .cite name key :: rest, p, h => by
    simp only [segsOk, Bool.and_eq_true] at h
    have e : (Seg.cite name key).len = PlainRef.callLen name key := by
      simp [Seg.len, Seg.render, PlainRef.callLen]; omega
    have := OkSrc.cite p name key (render rest) _ h.1.1 h.1.2
      (by rw [← e]; exact OkSrc_of_segsOk T st rest _ h.2)
    simpa [render, Seg.render, itemsOf, e] using this
  | .citeN name note key :: rest, p, h => by
    simp only [segsOk, Bool.and_eq_true] at h
    have e : (Seg.citeN name note key).len = PlainRef.callNLen name note key := by
      simp [Seg.len, Seg.render, PlainRef.callNLen]; omega
    have := OkSrc.citeN p name note key (render rest) _ h.1.1 h.1.2
      (by rw [← e]; exact OkSrc_of_segsOk T st rest _ h.2)
    simpa [render, Seg.render, itemsOf, e] using this
  | .foot body :: rest, p, h => by
    simp only [segsOk, Bool.and_eq_true] at h
    have e : (Seg.foot body).len = body.length + 11 := by simp [Seg.len, Seg.render]
    have := OkSrc.foot p body (render rest) _ h.1.1 h.1.2
      (by rw [← e]; exact OkSrc_of_segsOk T st rest _ h.2)
    simpa [render, Seg.render, itemsOf] using this
  | .head name title :: rest, p, h => by
    simp only [segsOk, Bool.and_eq_true] at h
    have e : (Seg.head name title).len = name.length + title.length + 3 := by
      simp [Seg.len, Seg.render]; omega
    have := OkSrc.head p name title (render rest) _ h.1.1 h.1.2
      (by rw [← e]; exact OkSrc_of_segsOk T st rest _ h.2)
    simpa [render, Seg.render, itemsOf, e] using this
  | .acc name ws bo l :: rest, p, h => by
    simp only [segsOk, Bool.and_eq_true] at h
    have e : (Seg.acc name ws bo l).len = PlainAccent.accLen name ws bo := by
      cases bo <;> simp [Seg.len, Seg.render, PlainAccent.accLen, PlainAccent.argStr] <;> omega
    have := OkSrc.acc p name ws bo l (render rest) _ h.1.1 h.1.2
      (by rw [← e]; exact OkSrc_of_segsOk T st rest _ h.2)
    simpa [render, Seg.render, itemsOf, e, List.append_assoc] using this
  | .defn name n body :: rest, p, h => by
    simp only [segsOk, Bool.and_eq_true] at h
    have e : (Seg.defn name n body).len = name.length + (bodyStr body).length + 19 := by
      simp [Seg.len, Seg.render, PlainMacro.ncName_eq]; omega
    have := OkSrc.defn p name n body (render rest) _ h.1.1 h.1.2
      (by rw [← e]; exact OkSrc_of_segsOk T st rest _ h.2)
    simpa [render, Seg.render, itemsOf] using this
  | .ddef name n body :: rest, p, h => by
    simp only [segsOk, Bool.and_eq_true] at h
    have e : (Seg.ddef name n body).len = name.length + (bodyStr body).length + 2 * n + 7 := by
      simp [Seg.len, Seg.render, defName_eq, paramStr_length]; omega
    have := OkSrc.ddef p name n body (render rest) _ h.1
      (by rw [← e]; exact OkSrc_of_segsOk T st rest _ h.2)
    simpa [render, Seg.render, itemsOf] using this
  | .ppar ws :: rest, p, h => by
    simp only [segsOk, Bool.and_eq_true] at h
    have e : (Seg.ppar ws).len = ws.length + 4 := by
      simp [Seg.len, Seg.render, PlainParEnv.parName]
    have := OkSrc.ppar p ws (render rest) _ h.1 (by rw [← e]; exact OkSrc_of_segsOk T st rest _ h.2)
    simpa [render, Seg.render, itemsOf, e] using this
  | .pbeg name arg :: rest, p, h => by
    simp only [segsOk, Bool.and_eq_true] at h
    have e : (Seg.pbeg name arg).len = name.length + arg.length + 10 := by
      simp [Seg.len, Seg.render, PlainItem.nBegin]; omega
    have := OkSrc.pbeg p name arg (render rest) _ h.1
      (by rw [← e]; exact OkSrc_of_segsOk T st rest _ h.2)
    simpa [render, Seg.render, itemsOf, e] using this
  | .pen name :: rest, p, h => by
    simp only [segsOk, Bool.and_eq_true] at h
    have e : (Seg.pen name).len = name.length + 6 := by
      simp [Seg.len, Seg.render, PlainItem.nEnd]
    have := OkSrc.pen p name (render rest) _ h.1 (by rw [← e]; exact OkSrc_of_segsOk T st rest _ h.2)
    simpa [render, Seg.render, itemsOf, e] using this
  | .call name body :: rest, p, h => by
    simp only [segsOk, Bool.and_eq_true] at h
    have e : (Seg.call name body).len = name.length + body.length + 3 := by
      simp [Seg.len, Seg.render]; omega
    have := OkSrc.call p name body (render rest) _ h.1.1 h.1.2
      (by rw [← e]; exact OkSrc_of_segsOk T st rest _ h.2)
    simpa [render, Seg.render, itemsOf] using this
  | .callO name opt body :: rest, p, h => by
    simp only [segsOk, Bool.and_eq_true] at h
    have e : (Seg.callO name opt body).len = name.length + opt.length + body.length + 5 := by
      simp [Seg.len, Seg.render]; omega
    have := OkSrc.callO p name opt body (render rest) _ h.1.1 h.1.2
      (by rw [← e]; exact OkSrc_of_segsOk T st rest _ h.2)
    simpa [render, Seg.render, itemsOf] using this
  | .fen name :: rest, p, h => by
    simp only [segsOk, Bool.and_eq_true] at h
    have e : (Seg.fen name).len = name.length + 6 := by
      simp [Seg.len, Seg.render, PlainItem.nEnd]
    have := OkSrc.fen p name (render rest) _ h.1
      (by rw [← e]; exact OkSrc_of_segsOk T st rest _ h.2)
    simpa [render, Seg.render, itemsOf, fixOf, e] using this
  | .fbegN name note :: rest, p, h => by
    simp only [segsOk, Bool.and_eq_true] at h
    have e : (Seg.fbegN name note).len = name.length + note.length + 10 := by
      simp [Seg.len, Seg.render, PlainItem.nBegin]; omega
    have := OkSrc.fbegN p name note (render rest) _ h.1
      (by rw [← e]; exact OkSrc_of_segsOk T st rest _ h.2)
    simpa [render, Seg.render, itemsOf, fixOf, e] using this
  | .fbeg name ws :: rest, p, h => by
    simp only [segsOk, Bool.and_eq_true] at h
    have e : (Seg.fbeg name ws).len = name.length + ws.length + 8 := by
      simp [Seg.len, Seg.render, PlainItem.nBegin]; omega
    have := OkSrc.fbeg p name ws (render rest) _ h.1
      (by rw [← e]; exact OkSrc_of_segsOk T st rest _ h.2)
    simpa [render, Seg.render, itemsOf, fixOf, e] using this
  | .use name args :: rest, p, h => by
    simp only [segsOk, Bool.and_eq_true] at h
    have e : (Seg.use name args).len = name.length + 1 + argsLen args := by
      simp [Seg.len, Seg.render, PlainMacroArgs.argsStr_length]; omega
    have := OkSrc.use p name args (render rest) _ h.1
      (by rw [← e]; exact OkSrc_of_segsOk T st rest _ h.2)
    simpa [render, Seg.render, itemsOf] using this
  | .disp body :: rest, p, h => by
    simp only [segsOk, Bool.and_eq_true, Bool.not_eq_true'] at h
    have e : (Seg.disp body).len = body.length + 4 := by simp [Seg.len, Seg.render]
    have := OkSrc.disp p body (render rest) _ h.1.1 h.1.2
      (by rw [← e]; exact OkSrc_of_segsOk T st rest _ h.2)
    simpa [render, Seg.render, itemsOf] using this
  | .denv name body :: rest, p, h => by
    simp only [segsOk, Bool.and_eq_true, Bool.not_eq_true'] at h
    have e : (Seg.denv name body).len = 2 * name.length + body.length + 14 := by
      simp [Seg.len, Seg.render, PlainItem.nBegin, PlainItem.nEnd, PlainDisplay.endSrc]; omega
    have := OkSrc.denv p name body (render rest) _ h.1.1 h.1.2
      (by rw [← e]; exact OkSrc_of_segsOk T st rest _ h.2)
    simpa [render, Seg.render, itemsOf, PlainDisplay.endSrc, e] using this
  | .beg name :: rest, p, h => by
    simp only [segsOk, Bool.and_eq_true] at h
    have e : (Seg.beg name).len = name.length + 8 := by
      simp [Seg.len, Seg.render, PlainItem.nBegin]
    have := OkSrc.beg p name (render rest) _ h.1 (by rw [← e]; exact OkSrc_of_segsOk T st rest _ h.2)
    simpa [render, Seg.render, itemsOf] using this
  | .item ws :: rest, p, h => by
    simp only [segsOk, Bool.and_eq_true] at h
    have e : (Seg.item ws).len = ws.length + 5 := by
      simp [Seg.len, Seg.render, PlainItem.nItem]
    have := OkSrc.item p ws (render rest) _ h.1 (by rw [← e]; exact OkSrc_of_segsOk T st rest _ h.2)
    simpa [render, Seg.render, itemsOf] using this
  | .itemL ws label pc :: rest, p, h => by
    simp only [segsOk, Bool.and_eq_true] at h
    have e : (Seg.itemL ws label pc).len = ws.length + label.length + 7 := by
      simp [Seg.len, Seg.render, PlainItem.nItem]; omega
    have := OkSrc.itemL p ws label pc (render rest) _ h.1.1 h.1.2 (by rw [← e]; exact OkSrc_of_segsOk T st rest _ h.2)
    simpa [render, Seg.render, itemsOf] using this
  | .ubeg name :: rest, p, h => by
    simp only [segsOk, Bool.and_eq_true] at h
    have e : (Seg.ubeg name).len = name.length + 8 := by
      simp [Seg.len, Seg.render, PlainItem.nBegin]
    have := OkSrc.ubeg p name (render rest) _ h.1 (by rw [← e]; exact OkSrc_of_segsOk T st rest _ h.2)
    simpa [render, Seg.render, itemsOf] using this
  | .uen name :: rest, p, h => by
    simp only [segsOk, Bool.and_eq_true] at h
    have e : (Seg.uen name).len = name.length + 6 := by
      simp [Seg.len, Seg.render, PlainItem.nEnd]
    have := OkSrc.uen p name (render rest) _ h.1 (by rw [← e]; exact OkSrc_of_segsOk T st rest _ h.2)
    simpa [render, Seg.render, itemsOf, fixOf, e] using this
  | .en name :: rest, p, h => by
    simp only [segsOk, Bool.and_eq_true] at h
    have e : (Seg.en name).len = name.length + 6 := by
      simp [Seg.len, Seg.render, PlainItem.nEnd]
    have := OkSrc.en p name (render rest) _ h.1 (by rw [← e]; exact OkSrc_of_segsOk T st rest _ h.2)
    simpa [render, Seg.render, itemsOf] using this

/-- white space in front can be dropped -/
theorem OkSrc_drop_space (T : PTables) (st : PState) :
    ∀ (k : Nat) (p : Nat) (s : Str) (items : List Item), k ≤ s.length → OkSrc T st p s items →
      (∀ x ∈ s.take k, isSpace x = true) →
      ∃ items', items = chrItems p (s.take k) ++ items' ∧ OkSrc T st (p + k) (s.drop k) items'
  | 0, _, _, items, _, h, _ => ⟨items, rfl, h⟩
  | k + 1, _, [], _, hk, _, _ => by simp at hk
  | k + 1, p, c :: cs, _, hk, h, hsp => by
    have hc : isSpace c = true := hsp c (by simp)
    cases h with
    | chr _ _ _ items0 _ h2 =>
      obtain ⟨items', e, h3⟩ := OkSrc_drop_space T st k (p + 1) cs items0 (by simpa using hk) h2
        (fun x hx => hsp x (by simp [hx]))
      refine ⟨items', by simp [chrItems, e], ?_⟩
      have e : p + (k + 1) = p + 1 + k := by omega
      rw [e]; exact h3
    | spc _ _ tl R _ hd _ => exact absurd hc (by rw [(spcOk_head hd).1]; simp)
    | br _ _ R _ hb _ _ =>
      rcases hb with rfl | rfl <;> exact absurd hc (by decide)
    | cw _ name sp R _ _ _ => exact absurd hc (by decide)
    | van _ name key R _ _ _ => exact absurd hc (by decide)
    | com _ body R _ _ _ => exact absurd hc (by decide)
    | verb _ d s R _ _ _ => exact absurd hc (by decide)
    | math _ k' _ tl X R m _ ho _ _ _ _ => exact absurd hc (by rw [ho.facts.1]; simp)
    | ref _ name key R _ _ _ => exact absurd hc (by decide)
    | cite _ name key R _ _ _ _ => exact absurd hc (by decide)
    | citeN _ name note key R _ _ _ _ => exact absurd hc (by decide)
    | foot _ body R _ _ _ _ => exact absurd hc (by decide)
    | head _ name title R _ _ _ _ => exact absurd hc (by decide)
    | acc _ name ws bo l R _ _ _ _ => exact absurd hc (by decide)
    | defn _ name n body R _ _ _ _ => exact absurd hc (by decide)
    | ddef _ name n body R _ _ _ => exact absurd hc (by decide)
    | ppar _ ws R _ _ _ => exact absurd hc (by decide)
    | pbeg _ name arg R _ _ _ => exact absurd hc (by decide)
    | pen _ name R _ _ _ => exact absurd hc (by decide)
    | call _ name body R _ _ _ _ => exact absurd hc (by decide)
    | callO _ name opt body R _ _ _ _ => exact absurd hc (by decide)
    | fen _ name R _ _ _ => exact absurd hc (by decide)
    | fbegN _ name note R _ _ _ => exact absurd hc (by decide)
    | fbeg _ name ws R _ _ _ => exact absurd hc (by decide)
    | use _ name args R _ _ _ => exact absurd hc (by decide)
    | disp _ body R _ _ _ _ => exact absurd hc (by decide)
    | beg _ name R _ _ _ => exact absurd hc (by decide)
    | denv _ name body R _ _ _ _ => exact absurd hc (by decide)
    | item _ ws R _ _ _ => exact absurd hc (by decide)
    | itemL _ ws label pc R _ _ _ _ => exact absurd hc (by decide)
    | ubeg _ name R _ _ _ => exact absurd hc (by decide)
    | uen _ name R _ _ _ => exact absurd hc (by decide)
    | en _ name R _ _ _ => exact absurd hc (by decide)

end PlainMix4
end Yalafi
