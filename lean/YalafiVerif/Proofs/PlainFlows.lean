/-
  Proofs/PlainFlows.lean (with Proofs/PlainFlowsBase.lean; readings: Proofs/PlainFlowsRead.lean) — C03
  "detached flows (footnotes, captions) follow the main flow, each complete and in order of
  appearance", end to end on the model, for ALL macros of the tables that detach an argument:
  documents that consist of inert text (as in Proofs/PlainUnknown.lean),
    `\name{body}` and `\name[opt]{body}`            for every macro declared like `\footnote`
        (argument codes `OA`, no handler, empty replacement, extraction text `#2`: in the tables
        of /repo exactly `\footnote`, `\footnotetext`, `\caption` — found with `#eval` over
        `Generated.stDefault.macros`, `MacroDef.extract ≠ []`; there is no `\thanks`, and
        `\footnotemark` is defined by `\newcommand{\footnotemark}[1][]{}`: no extraction, it vanishes —
        `C03_flow_macros_current`, `C03_footnotemark_eval` in Properties/PlainFlowsStmt.lean),
    `\begin{name}`, `\begin{name}[placement]`, `\end{name}`   for every environment declared like
        `figure` / `table` (one optional argument, nothing else, body kept),
  in any order and mixture (`\caption` inside or outside a float, text inside the float, …).

  What the model does (found with `#eval`, then proved)
    `\name[opt]{body}`   `collectArgs` stores the tokens between `[` and the FIRST `]` as argument 1
        (a void token for `[]`) and the tokens of the brace group as argument 2; the extraction text
        `#2` is expanded to `Action body Action` behind a Language token, expanded by a nested
        `expand_sequence` (the Language token vanishes in single-language mode, the blank-line
        removal drops the two Action tokens) and appended to `extracted`; the replacement is empty:
        the call leaves ONE Action token at its backslash.  NOTHING of `opt` is used.
    `\begin{name}`       `begin_environment` emits an Action token (no `add_pars`), `expand_arguments`
        another one; looking for the optional argument it SKIPS THE WHITE SPACE (at most one line
        break) behind `}` and does not give it back.  With `[placement]` the placement vanishes and
        nothing behind `]` is skipped.  The body of the environment is kept (no `remove`).
    `\end{name}`         one Action token.
    `parse` appends, for every flow in order, `[par "\n\n\n" @ first token] ++ flow ++
        [space "\n" @ last token]` behind the main tokens.
    At the end of the MAIN loop `remove_pure_action_lines` deletes every line that is blank and holds
    an Action token (`delLines` of Proofs/PlainMacro.lean): a line with nothing but `\caption{…}`,
    `\begin{figure}`, `\end{figure}`, `\footnotetext{…}` disappears WITH its line break.

  The end-to-end statement `tex2txt_flows`.  `tex2txt` succeeds; text and (1-based) positions are
  `delLines (marks 0 segs) ++ flows 0 segs`:
    `marks`   text: every character with its own position; a call: ONE text-less mark; `\begin{…}`:
              two text-less marks (and the white space behind it dropped); `\end{…}`: one;
    `delLines` then every line deleted, with its line break, that is blank and holds a mark;
    `flows`   behind the main text, for every call in SOURCE ORDER: three line breaks pinned to the
              first body character, the body at its own positions, one line break pinned to the
              start of the last token of the body (`PlainFootnote.flowOut`);
  `unknowns = []`, no diagnostic.

  Side conditions (all in `SegsOk T st1 segs`, decidable; `st1` = state after `Parser.__init__`)
    `stateOk T st1`   single-language mode (Language tokens produce nothing); the empty string is no
                      "active character" (else Action tokens would go to `expand_short_macro`)
    text segments     `textOk` of Proofs/PlainUnknown.lean
    `callOk`          `\name` is one macro token (`PlainRef.nameOk`), declared with `flowDeclOk`;
                      `{body}`: both braces scanned as braces, the body not empty and inert in front of
                      `}` (`PlainFootnote.textOk`: no active character, no `% # \ $ { }`, no special
                      sequence); the body has visible text on its first and on its last line
                      (`lineC (some true) body = some none`: the flow is expanded between two Action
                      tokens, `remove_pure_action_lines` deletes a first / last line of white space;
                      `\footnote{ }` yields no text at all).  Sufficient, not necessary.
    `callOOk`         the same, and `[opt]` directly behind the name: brackets scanned as text tokens,
                      `opt` inert (MAY BE EMPTY), without `]`; `{` directly behind `]`
    `begOk`/`begNOk`/`endOk`   no special sequence matches at the backslash, `{name}` does not open
                      `{verbatim}`; the name: braces scanned as braces, not empty, inert; declared with
                      `figEnvOk`; `wsOk ws R` (Proofs/PlainThm.lean): `ws` is the whole white space
                      behind `}` with at most one line break, and what follows starts neither with
                      skippable white space nor with `[`; the placement as `opt`
    NO line condition on the main text (`delLines` is exact).
    options           no --defs, --extr, --repl, --unkn; single-language mode
    fuel              `(render segs).length + 4 ≤ fuel`
  NOT covered: bodies / optional arguments with macros, braces, maths, active characters, `]` inside
  `opt`; white space between the name and `[` / `{` (model: skipped, `\footnote [2] {x}` works, see the
  recorded `#eval`s at the end of this file); bodies whose first or last line is blank; `\footnotemark`;
  floats with `remove` or `add_pars`; a blank line (paragraph break) directly behind `\begin{figure}` is
  fine, a `[` behind white space behind it is not (it would be read as the placement);
  multi-language mode.
-/
import YalafiVerif.Proofs.PlainFlowsBase
import YalafiVerif.Proofs.PlainThm
namespace Yalafi
namespace PlainFlows

open M
open PlainMacro
open PlainFootnote (CopyTok FlowSafe TextRun lineC lastTokOff flowOut flowToks)
open PlainRef (chTok bracketAt nextToken_bracket scanSteps_note mem_txt_of_getTxtPos)
open PlainItem (begTok endTok nBegin nEnd nextToken_begin nextToken_end)
open PlainThm (NameToks SpToks HeadOk txtOf headSp headOk wsOk WsFacts wsFacts bracedTextOk BracedText
  bracedText scanSteps_bracedText wsSteps wsSteps_len wsSteps_ok scanSteps_ws headOk_steps
  nameToks_of_run firstTok_cw cwTok_notSpace)

/-! ### the documents -/

/-- a segment of the source: a run of text; `\name{body}`; `\name[opt]{body}`; `\begin{name}` and the
    white space behind it; `\begin{name}[note]`; `\end{name}` -/
inductive Seg where
  | txt (s : Str)
  | call (name body : Str)
  | callO (name opt body : Str)
  | beg (name ws : Str)
  | begN (name note : Str)
  | en (name : Str)
deriving Repr, DecidableEq

def Seg.render : Seg → Str
  | .txt s => s
  | .call name body => '\\' :: (name ++ '{' :: (body ++ ['}']))
  | .callO name opt body => '\\' :: (name ++ '[' :: (opt ++ ']' :: '{' :: (body ++ ['}'])))
  | .beg name ws => '\\' :: (nBegin ++ '{' :: (name ++ '}' :: ws))
  | .begN name note => '\\' :: (nBegin ++ '{' :: (name ++ '}' :: '[' :: (note ++ [']'])))
  | .en name => '\\' :: (nEnd ++ '{' :: (name ++ ['}']))

/-- the source text -/
def render : List Seg → Str
  | [] => []
  | s :: rest => s.render ++ render rest

/-- the number of source characters of a segment -/
def Seg.len : Seg → Nat
  | .txt s => s.length
  | .call name body => name.length + body.length + 3
  | .callO name opt body => name.length + opt.length + body.length + 5
  | .beg name ws => name.length + ws.length + 8
  | .begN name note => name.length + note.length + 10
  | .en name => name.length + 6

/-- **the main flow on the level of marks**: the document, which starts at position `p` — a text
    character with its position; ONE text-less mark for a call (with or without optional argument:
    nothing of either argument stays in the main flow); two text-less marks for `\begin{name}` /
    `\begin{name}[note]` (the white space behind `\begin{name}` is skipped); one for `\end{name}` -/
def marks : Nat → List Seg → List Mark
  | _, [] => []
  | p, .txt s :: rest => (posText p s).map some ++ marks (p + s.length) rest
  | p, .call name body :: rest => none :: marks (p + (name.length + body.length + 3)) rest
  | p, .callO name opt body :: rest =>
    none :: marks (p + (name.length + opt.length + body.length + 5)) rest
  | p, .beg name ws :: rest => none :: none :: marks (p + (name.length + ws.length + 8)) rest
  | p, .begN name note :: rest => none :: none :: marks (p + (name.length + note.length + 10)) rest
  | p, .en name :: rest => none :: marks (p + (name.length + 6)) rest

/-- **the detached flows**, in source order of their calls: for every call three line breaks at the
    position of the first character of the body, the body with its own positions, one line break
    at the position of the last token of the body (`PlainFootnote.flowOut`); `p` = offset of the
    first segment -/
def flows : Nat → List Seg → List (Char × Nat)
  | _, [] => []
  | p, .txt s :: rest => flows (p + s.length) rest
  | p, .call name body :: rest =>
    flowOut (p + name.length + 2) body ++ flows (p + (name.length + body.length + 3)) rest
  | p, .callO name opt body :: rest =>
    flowOut (p + name.length + opt.length + 4) body ++
      flows (p + (name.length + opt.length + body.length + 5)) rest
  | p, .beg name ws :: rest => flows (p + (name.length + ws.length + 8)) rest
  | p, .begN name note :: rest => flows (p + (name.length + note.length + 10)) rest
  | p, .en name :: rest => flows (p + (name.length + 6)) rest

/-- the reference output: the main flow with the pure Action lines deleted, then the flows -/
def refOut (segs : List Seg) : List (Char × Nat) := delLines (marks 0 segs) ++ flows 0 segs

/-! ### the side conditions -/

/-- the conditions on the initialised parser state: single-language mode, and the empty string is
    no "active character" -/
def stateOk (T : PTables) (st : PState) : Bool := PlainExtract.stateOk T st

/-- `[opt]`, followed by `X`: the brackets are scanned as one-character text tokens, `opt` is inert
    in front of `]` (it may be empty) and contains no `]` -/
def optOk (T : PTables) (st : PState) (opt X : Str) : Bool :=
  bracketAt T '[' (opt ++ ']' :: X) && !opt.contains ']' &&
  PlainFootnote.textOk T st opt (']' :: X) && bracketAt T ']' X

/-- `\name{body}`, followed by `R` -/
def callOk (T : PTables) (st : PState) (name body R : Str) : Bool :=
  PlainRef.nameOk T name ('{' :: (body ++ '}' :: R)) && flowName st name &&
  bracedTextOk T st body R && (lineC (some true) body == some none)

/-- `\name[opt]{body}`, followed by `R` -/
def callOOk (T : PTables) (st : PState) (name opt body R : Str) : Bool :=
  PlainRef.nameOk T name ('[' :: (opt ++ ']' :: '{' :: (body ++ '}' :: R))) && flowName st name &&
  optOk T st opt ('{' :: (body ++ '}' :: R)) &&
  bracedTextOk T st body R && (lineC (some true) body == some none)

/-- `\begin{name}ws`, followed by `R` -/
def begOk (T : PTables) (st : PState) (name ws R : Str) : Bool :=
  (matchSpecial T.toTables ('\\' :: (nBegin ++ '{' :: (name ++ '}' :: (ws ++ R))))).isNone &&
  !startsWith ('{' :: (name ++ '}' :: (ws ++ R))) sVerbatimArg &&
  bracedTextOk T st name (ws ++ R) && figEnvAt st name && wsOk ws R

/-- `\begin{name}[note]`, followed by `R` -/
def begNOk (T : PTables) (st : PState) (name note R : Str) : Bool :=
  (matchSpecial T.toTables ('\\' :: (nBegin ++ '{' :: (name ++ '}' :: '[' :: (note ++ ']' :: R))))).isNone &&
  !startsWith ('{' :: (name ++ '}' :: '[' :: (note ++ ']' :: R))) sVerbatimArg &&
  bracedTextOk T st name ('[' :: (note ++ ']' :: R)) && figEnvAt st name && optOk T st note R

/-- `\end{name}`, followed by `R` -/
def endOk (T : PTables) (st : PState) (name R : Str) : Bool :=
  (matchSpecial T.toTables ('\\' :: (nEnd ++ '{' :: (name ++ '}' :: R)))).isNone &&
  bracedTextOk T st name R && figEnvAt st name

/-- well-formed documents: every segment is fine in front of the rendering of the following ones
    (`textOk` of Proofs/PlainUnknown.lean for the text) -/
def segsOk (T : PTables) (st : PState) : List Seg → Bool
  | [] => true
  | .txt s :: rest => textOk T st s (render rest) && segsOk T st rest
  | .call name body :: rest => callOk T st name body (render rest) && segsOk T st rest
  | .callO name opt body :: rest => callOOk T st name opt body (render rest) && segsOk T st rest
  | .beg name ws :: rest => begOk T st name ws (render rest) && segsOk T st rest
  | .begN name note :: rest => begNOk T st name note (render rest) && segsOk T st rest
  | .en name :: rest => endOk T st name (render rest) && segsOk T st rest

/-- all side conditions on the tables, the initialised parser state and the document -/
def SegsOk (T : PTables) (st : PState) (segs : List Seg) : Prop :=
  stateOk T st = true ∧ segsOk T st segs = true

instance (T : PTables) (st : PState) (segs : List Seg) : Decidable (SegsOk T st segs) := by
  unfold SegsOk; infer_instance

/-! ### the conditions as propositions -/

structure OptFacts (T : PTables) (st : PState) (opt X : Str) : Prop where
  lb : bracketAt T '[' (opt ++ ']' :: X) = true
  nrb : ']' ∉ opt
  txt : PlainFootnote.textOk T st opt (']' :: X) = true
  rb : bracketAt T ']' X = true

theorem optFacts {T : PTables} {st : PState} {opt X : Str} (h : optOk T st opt X = true) :
    OptFacts T st opt X := by
  simp only [optOk, Bool.and_eq_true, Bool.not_eq_true', List.contains_eq_mem,
    decide_eq_false_iff_not] at h
  exact ⟨h.1.1.1, h.1.1.2, h.1.2, h.2⟩

structure CallFacts (T : PTables) (st : PState) (name body R : Str) : Prop where
  cw : CwFacts T ({ macros := [] } : PState) name ('{' :: (body ++ '}' :: R))
  fn : FlowName st name
  bt : BracedText T st body R
  lines : lineC (some true) body = some none

theorem callFacts {T : PTables} {st : PState} {name body R : Str} (h : callOk T st name body R = true) :
    CallFacts T st name body R := by
  simp only [callOk, PlainRef.nameOk, Bool.and_eq_true, beq_iff_eq] at h
  exact ⟨cwFacts h.1.1.1, FlowName_of h.1.1.2, bracedText h.1.2, h.2⟩

structure CallOFacts (T : PTables) (st : PState) (name opt body R : Str) : Prop where
  cw : CwFacts T ({ macros := [] } : PState) name ('[' :: (opt ++ ']' :: '{' :: (body ++ '}' :: R)))
  fn : FlowName st name
  op : OptFacts T st opt ('{' :: (body ++ '}' :: R))
  bt : BracedText T st body R
  lines : lineC (some true) body = some none

theorem callOFacts {T : PTables} {st : PState} {name opt body R : Str}
    (h : callOOk T st name opt body R = true) : CallOFacts T st name opt body R := by
  simp only [callOOk, PlainRef.nameOk, Bool.and_eq_true, beq_iff_eq] at h
  exact ⟨cwFacts h.1.1.1.1, FlowName_of h.1.1.1.2, optFacts h.1.1.2, bracedText h.1.2, h.2⟩

structure BegFacts (T : PTables) (st : PState) (name ws R : Str) : Prop where
  special : matchSpecial T.toTables ('\\' :: (nBegin ++ '{' :: (name ++ '}' :: (ws ++ R)))) = none
  noverb : startsWith ('{' :: (name ++ '}' :: (ws ++ R))) sVerbatimArg = false
  nm : BracedText T st name (ws ++ R)
  env : FigEnvAt st name
  ws : WsFacts ws R

theorem begFacts {T : PTables} {st : PState} {name ws R : Str} (h : begOk T st name ws R = true) :
    BegFacts T st name ws R := by
  simp only [begOk, Bool.and_eq_true, Bool.not_eq_true', Option.isNone_iff_eq_none] at h
  exact ⟨h.1.1.1.1, h.1.1.1.2, bracedText h.1.1.2, FigEnvAt_of h.1.2, wsFacts h.2⟩

structure BegNFacts (T : PTables) (st : PState) (name note R : Str) : Prop where
  special : matchSpecial T.toTables
    ('\\' :: (nBegin ++ '{' :: (name ++ '}' :: '[' :: (note ++ ']' :: R)))) = none
  noverb : startsWith ('{' :: (name ++ '}' :: '[' :: (note ++ ']' :: R))) sVerbatimArg = false
  nm : BracedText T st name ('[' :: (note ++ ']' :: R))
  env : FigEnvAt st name
  op : OptFacts T st note R

theorem begNFacts {T : PTables} {st : PState} {name note R : Str} (h : begNOk T st name note R = true) :
    BegNFacts T st name note R := by
  simp only [begNOk, Bool.and_eq_true, Bool.not_eq_true', Option.isNone_iff_eq_none] at h
  exact ⟨h.1.1.1.1, h.1.1.1.2, bracedText h.1.1.2, FigEnvAt_of h.1.2, optFacts h.2⟩

structure EndFacts (T : PTables) (st : PState) (name R : Str) : Prop where
  special : matchSpecial T.toTables ('\\' :: (nEnd ++ '{' :: (name ++ '}' :: R))) = none
  nm : BracedText T st name R
  env : FigEnvAt st name

theorem endFacts {T : PTables} {st : PState} {name R : Str} (h : endOk T st name R = true) :
    EndFacts T st name R := by
  simp only [endOk, Bool.and_eq_true, Option.isNone_iff_eq_none] at h
  exact ⟨h.1.1, bracedText h.1.2, FigEnvAt_of h.2⟩

/-- the source text, which starts at position `p`, with its marks and its flows -/
inductive OkSrc (T : PTables) (st : PState) : Nat → Str → List Mark → List (Char × Nat) → Prop
  | nil (p : Nat) : OkSrc T st p [] [] []
  | chr (p : Nat) (c : Char) (cs : Str) (ms : List Mark) (fl : List (Char × Nat)) :
      okAt T st c cs = true → OkSrc T st (p + 1) cs ms fl →
      OkSrc T st p (c :: cs) (some (c, p) :: ms) fl
  | call (p : Nat) (name body R : Str) (ms : List Mark) (fl : List (Char × Nat)) :
      callOk T st name body R = true → OkSrc T st (p + (name.length + body.length + 3)) R ms fl →
      OkSrc T st p ('\\' :: (name ++ '{' :: (body ++ '}' :: R))) (none :: ms)
        (flowOut (p + name.length + 2) body ++ fl)
  | callO (p : Nat) (name opt body R : Str) (ms : List Mark) (fl : List (Char × Nat)) :
      callOOk T st name opt body R = true →
      OkSrc T st (p + (name.length + opt.length + body.length + 5)) R ms fl →
      OkSrc T st p ('\\' :: (name ++ '[' :: (opt ++ ']' :: '{' :: (body ++ '}' :: R)))) (none :: ms)
        (flowOut (p + name.length + opt.length + 4) body ++ fl)
  | beg (p : Nat) (name ws R : Str) (ms : List Mark) (fl : List (Char × Nat)) :
      begOk T st name ws R = true → OkSrc T st (p + (name.length + ws.length + 8)) R ms fl →
      OkSrc T st p ('\\' :: (nBegin ++ '{' :: (name ++ '}' :: (ws ++ R)))) (none :: none :: ms) fl
  | begN (p : Nat) (name note R : Str) (ms : List Mark) (fl : List (Char × Nat)) :
      begNOk T st name note R = true → OkSrc T st (p + (name.length + note.length + 10)) R ms fl →
      OkSrc T st p ('\\' :: (nBegin ++ '{' :: (name ++ '}' :: '[' :: (note ++ ']' :: R))))
        (none :: none :: ms) fl
  | en (p : Nat) (name R : Str) (ms : List Mark) (fl : List (Char × Nat)) :
      endOk T st name R = true → OkSrc T st (p + (name.length + 6)) R ms fl →
      OkSrc T st p ('\\' :: (nEnd ++ '{' :: (name ++ '}' :: R))) (none :: ms) fl

theorem OkSrc_text (T : PTables) (st : PState) (R : Str) (ms : List Mark) (fl : List (Char × Nat)) :
    ∀ (s : Str) (p : Nat), OkSrc T st (p + s.length) R ms fl → textOk T st s R = true →
      OkSrc T st p (s ++ R) ((posText p s).map some ++ ms) fl
  | [], _, hR, _ => hR
  | c :: cs, p, hR, h => by
    simp only [textOk, Bool.and_eq_true] at h
    have hR' : OkSrc T st (p + 1 + cs.length) R ms fl := by
      have e : p + 1 + cs.length = p + (c :: cs).length := by simp; omega
      rw [e]; exact hR
    exact OkSrc.chr p c (cs ++ R) _ _ h.1 (OkSrc_text T st R ms fl cs (p + 1) hR' h.2)

theorem OkSrc_of_segsOk (T : PTables) (st : PState) :
    ∀ (segs : List Seg) (p : Nat), segsOk T st segs = true →
      OkSrc T st p (render segs) (marks p segs) (flows p segs)
  | [], p, _ => .nil p
  | .txt s :: rest, p, h => by
    simp only [segsOk, Bool.and_eq_true] at h
    exact OkSrc_text T st _ _ _ s p (OkSrc_of_segsOk T st rest _ h.2) h.1
  | .call name body :: rest, p, h => by
    simp only [segsOk, Bool.and_eq_true] at h
    have := OkSrc.call p name body (render rest) _ _ h.1 (OkSrc_of_segsOk T st rest _ h.2)
    simpa [render, Seg.render, marks, flows] using this
  | .callO name opt body :: rest, p, h => by
    simp only [segsOk, Bool.and_eq_true] at h
    have := OkSrc.callO p name opt body (render rest) _ _ h.1 (OkSrc_of_segsOk T st rest _ h.2)
    simpa [render, Seg.render, marks, flows] using this
  | .beg name ws :: rest, p, h => by
    simp only [segsOk, Bool.and_eq_true] at h
    have := OkSrc.beg p name ws (render rest) _ _ h.1 (OkSrc_of_segsOk T st rest _ h.2)
    simpa [render, Seg.render, marks, flows] using this
  | .begN name note :: rest, p, h => by
    simp only [segsOk, Bool.and_eq_true] at h
    have := OkSrc.begN p name note (render rest) _ _ h.1 (OkSrc_of_segsOk T st rest _ h.2)
    simpa [render, Seg.render, marks, flows] using this
  | .en name :: rest, p, h => by
    simp only [segsOk, Bool.and_eq_true] at h
    have := OkSrc.en p name (render rest) _ _ h.1 (OkSrc_of_segsOk T st rest _ h.2)
    simpa [render, Seg.render, marks, flows] using this

/-- white space in front can be dropped -/
theorem OkSrc_drop_space (T : PTables) (st : PState) (fl : List (Char × Nat)) :
    ∀ (k : Nat) (p : Nat) (s : Str) (ms : List Mark), k ≤ s.length → OkSrc T st p s ms fl →
      (∀ x ∈ s.take k, isSpace x = true) →
      ∃ ms', ms = (posText p (s.take k)).map some ++ ms' ∧ OkSrc T st (p + k) (s.drop k) ms' fl
  | 0, _, _, ms, _, h, _ => ⟨ms, rfl, h⟩
  | k + 1, _, [], _, hk, _, _ => by simp at hk
  | k + 1, p, c :: cs, _, hk, h, hsp => by
    have hc : isSpace c = true := hsp c (by simp)
    cases h with
    | chr _ _ _ ms0 _ _ h2 =>
      obtain ⟨ms', e, h3⟩ := OkSrc_drop_space T st fl k (p + 1) cs ms0 (by simpa using hk) h2
        (fun x hx => hsp x (by simp [hx]))
      refine ⟨ms', by simp [posText, e], ?_⟩
      have e : p + (k + 1) = p + 1 + k := by omega
      rw [e]; exact h3
    | call _ name body R _ _ _ _ => exact absurd hc (by decide)
    | callO _ name opt body R _ _ _ _ => exact absurd hc (by decide)
    | beg _ name ws R _ _ _ _ => exact absurd hc (by decide)
    | begN _ name note R _ _ _ _ => exact absurd hc (by decide)
    | en _ name R _ _ _ _ => exact absurd hc (by decide)

/-- the conditions depend on the state only through the language stack, the macros and the
    environments -/
theorem OkSrc.congr {T : PTables} {st st' : PState} (hl : st'.langStack = st.langStack)
    (hm : st'.macros = st.macros) (he : st'.envs = st.envs)
    {p : Nat} {s : Str} {ms : List Mark} {fl : List (Char × Nat)} (h : OkSrc T st p s ms fl) :
    OkSrc T st' p s ms fl := by
  have hb : ∀ s X, bracedTextOk T st' s X = bracedTextOk T st s X := by
    intro s X
    simp only [bracedTextOk, PlainFootnote.textOk_congr T st st' hl]
  have ho : ∀ s X, optOk T st' s X = optOk T st s X := by
    intro s X
    simp only [optOk, PlainFootnote.textOk_congr T st st' hl]
  have hp : ∀ n, figEnvAt st' n = figEnvAt st n := by
    intro n
    simp only [figEnvAt, lookupEnv, he]
  have hn : ∀ n, flowName st' n = flowName st n := by
    intro n
    simp only [flowName, lookupMacro, hm]
  induction h with
  | nil p => exact .nil p
  | chr p c cs ms fl hat _ ih =>
    refine .chr p c cs ms fl ?_ ih
    rw [← hat]
    simp only [okAt, activeChars_congr T st st' hl, shortKeys_congr T st st' hl]
  | call p name body R ms fl hd _ ih =>
    refine .call p name body R ms fl ?_ ih
    rw [← hd]
    simp only [callOk, hb, hn]
  | callO p name opt body R ms fl hd _ ih =>
    refine .callO p name opt body R ms fl ?_ ih
    rw [← hd]
    simp only [callOOk, hb, hn, ho]
  | beg p name ws R ms fl hd _ ih =>
    refine .beg p name ws R ms fl ?_ ih
    rw [← hd]
    simp only [begOk, hb, hp]
  | begN p name note R ms fl hd _ ih =>
    refine .begN p name note R ms fl ?_ ih
    rw [← hd]
    simp only [begNOk, hb, hp, ho]
  | en p name R ms fl hd _ ih =>
    refine .en p name R ms fl ?_ ih
    rw [← hd]
    simp only [endOk, hb, hp]

/-! ### the scanner -/

/-- what a text run that is the body of a call means: the tokens are copied, the blank-line removal
    leaves exactly them of `Action body Action`, and the flow `parse` builds of them is
    `flowOut` -/
theorem flow_of_run {T : PTables} {st : PState} {q : Nat} {body : Str} {bsteps : List ScanStep}
    (B : TextRun T st q body bsteps) (hne : body ≠ []) (hlc : lineC (some true) body = some none) :
    bsteps.map (·.tok) ≠ [] ∧ (∀ t ∈ bsteps.map (·.tok), CopyTok T st t) ∧
    FlowSafe (bsteps.map (·.tok)) ∧
    getTxtPos (flowToks (bsteps.map (·.tok)))
      = ((flowOut q body).map (·.1), (flowOut q body).map (·.2)) := by
  have hc : ∀ t ∈ bsteps.map (·.tok), CopyTok T st t := by
    intro t ht
    obtain ⟨x, hx, rfl⟩ := List.mem_map.mp ht
    exact (B.ok x hx).2.2
  have hbne : bsteps.map (·.tok) ≠ [] := by
    intro e
    exact hne (B.nil_iff (by simpa using e))
  obtain ⟨h, hh⟩ : ∃ h, (bsteps.map (·.tok)).head? = some h := by
    cases hx : bsteps.map (·.tok) with
    | nil => exact absurd hx hbne
    | cons a _ => exact ⟨a, rfl⟩
  obtain ⟨l, hl⟩ : ∃ l, (bsteps.map (·.tok)).getLast? = some l := by
    cases hx : (bsteps.map (·.tok)).getLast? with
    | none => rw [List.getLast?_eq_none_iff] at hx; exact absurd hx hbne
    | some a => exact ⟨a, rfl⟩
  have hhp : h.pos = q := by
    cases hx : bsteps.map (·.tok) with
    | nil => exact absurd hx hbne
    | cons a as =>
      rw [hx] at hh
      simp only [List.head?_cons, Option.some.injEq] at hh
      rw [← hh]; exact B.first a as hx
  have hlp : l.pos = q + lastTokOff body := B.last l hl
  refine ⟨hbne, hc, PlainFootnote.flowSafe_of_lines _ body (fun t ht => (hc t ht).txt_ne) B.lines hlc, ?_⟩
  rw [PlainFootnote.getTxtPos_flowToks _ h l body q hh hl B.txt, hhp, hlp]
  simp [flowOut, posText_fst, posText_snd]

/-- the tokens of an optional argument -/
theorem optToks_of_run {T : PTables} {st : PState} {q : Nat} {opt : Str} {osteps : List ScanStep}
    (B : TextRun T st q opt osteps) (hnrb : ']' ∉ opt) : OptToks T st (osteps.map (·.tok)) := by
  intro t ht
  obtain ⟨x, hx, rfl⟩ := List.mem_map.mp ht
  refine ⟨(B.ok x hx).2.2, ?_⟩
  intro e
  have hmem := mem_txt_of_getTxtPos (c := ']') ht (by rw [e]; simp)
  rw [B.txt] at hmem
  exact hnrb hmem

/-- what the scanner loop yields on a well-formed source, and what the token buffer means -/
structure ScanFacts (T : PTables) (st : PState) (rest : Str) (ms : List Mark) (fl : List (Char × Nat))
    (steps : List ScanStep) : Prop where
  ok : ∀ s ∈ steps, s.diag = none ∧ s.extra = []
  pieces : ∃ ps, steps.map (·.tok) = flat ps ∧ PiecesOk T st ps ∧ marksOf (outP ps) = ms ∧
    (∀ t ∈ outP ps, Simple t) ∧ cost ps ≤ rest.length ∧
    getTxtPos ((flowsOf ps).map flowToks).flatten = (fl.map (·.1), fl.map (·.2))
  first : ∀ s ss, steps = s :: ss → s.tok.txt = firstTokTxtM rest
  firstSp : ∀ s ss, steps = s :: ss → isSpaceTok s.tok = true → headSp rest = true

theorem ScanFacts_nil (T : PTables) (st : PState) : ScanFacts T st [] [] [] [] :=
  ⟨by simp, ⟨[], rfl, trivial, rfl, by simp [outP], by simp [cost], rfl⟩, by simp, by simp⟩

theorem drop_name (name X : Str) : ('\\' :: (name ++ X)).drop (name.length + 1) = X := by
  simp

/-- the statement of the scanner lemma for sources of at most `n` characters -/
def ScanGoal (T : PTables) (st : PState) (src : Str) (n : Nat) : Prop :=
  ∀ (fuel pos : Nat) (rest : Str) (ms : List Mark) (fl : List (Char × Nat)),
    rest.length ≤ n → rest.length ≤ fuel → OkSrc T st pos rest ms fl →
    (scanSteps T.toTables src fuel pos rest).2 = true ∧
    ScanFacts T st rest ms fl (scanSteps T.toTables src fuel pos rest).1

theorem scan_chr (T : PTables) (st : PState) (src : Str) (n : Nat) (ih : ScanGoal T st src n)
    (fuel pos : Nat) (c : Char) (cs : Str) (ms' : List Mark) (fl : List (Char × Nat))
    (hn : (c :: cs).length ≤ n + 1) (hf : (c :: cs).length ≤ fuel + 1)
    (hat : okAt T st c cs = true) (hsub0 : OkSrc T st (pos + 1) cs ms' fl) :
    (scanSteps T.toTables src (fuel + 1) pos (c :: cs)).2 = true ∧
    ScanFacts T st (c :: cs) (some (c, pos) :: ms') (fl)
      (scanSteps T.toTables src (fuel + 1) pos (c :: cs)).1 := by
  have hok0 : OkSrc T st pos (c :: cs) (some (c, pos) :: ms') fl := .chr pos c cs ms' fl hat hsub0
  have hsnd := okAt_snd hat
  obtain ⟨hp, hone⟩ := nextToken_text T src pos c cs hsnd
  generalize hs : nextToken T.toTables src pos (c :: cs) = s at hp hone
  have h1 := hp.len_pos
  have h2 := hp.len_le
  have hsub : ∃ ms1, some (c, pos) :: ms' = (posText pos ((c :: cs).take s.len)).map some ++ ms1 ∧
      OkSrc T st (pos + s.len) ((c :: cs).drop s.len) ms1 fl := by
    by_cases hsp : isSpace c = true
    · refine OkSrc_drop_space T st fl s.len pos (c :: cs) _ h2 hok0 ?_
      intro x hx
      rw [← hp.txt, hp.first] at hx
      simp only [firstTokTxt, hsp, if_true] at hx
      exact mem_takeWhile_imp _ _ _ hx
    · have := (hone (by simpa using hsp)).1
      rw [this]
      exact ⟨ms', rfl, hsub0⟩
  obtain ⟨ms1, hms1, hsub⟩ := hsub
  rw [scanSteps_step T.toTables src fuel pos c cs s hs (by omega)]
  have hl : ((c :: cs).drop s.len).length ≤ fuel := by
    simp only [List.length_drop]; simp only [List.length_cons] at hf h2 ⊢; omega
  have hl' : ((c :: cs).drop s.len).length ≤ n := by
    simp only [List.length_drop]; simp only [List.length_cons] at hn h2 ⊢; omega
  obtain ⟨i1, I⟩ := ih fuel (pos + s.len) ((c :: cs).drop s.len) ms1 fl hl' hl hsub
  obtain ⟨ps', hflat, hpok, hmarks, hsimple, hcost, hflows⟩ := I.pieces
  have hne : s.tok.txt ≠ [] := by
    rw [hp.txt]
    intro h0
    have := congrArg List.length h0
    simp only [List.length_take, List.length_nil] at this
    omega
  have hshape : Shape s.tok := by
    refine ⟨hne, ?_⟩
    intro hnl
    by_cases hsp : isSpace c = true
    · rw [hp.first]
      simp only [firstTokTxt, hsp, if_true, isBlank, List.all_eq_true]
      exact fun x hx => mem_takeWhile_imp _ _ _ hx
    · have hsp' : isSpace c = false := by simpa using hsp
      have := (hone hsp').1
      rw [hp.txt, this] at hnl
      simp only [List.take_succ_cons, List.take_zero] at hnl
      rw [hasNl_single c hsp'] at hnl; cases hnl
  refine ⟨i1, ?_, ?_, ?_, ?_⟩
  · intro x hx
    rcases List.mem_cons.mp hx with rfl | hx
    · exact ⟨hp.diag, hp.extra⟩
    · exact I.ok x hx
  · refine ⟨.tok s.tok :: ps', by simp [flat, Piece.toks, hflat], ⟨hp.tok, ?_, hpok⟩, ?_, ?_, ?_,
      by simpa [flowsOf] using hflows⟩
    · -- the short-macro branch
      rw [← hflat]
      have hact := hat
      simp only [okAt, Bool.and_eq_true, Bool.or_eq_true, Bool.not_eq_true'] at hact
      rcases hact.1 with hna | ⟨hns, hk⟩
      · left
        have : s.tok.txt = c :: (cs.take (s.len - 1)) := by
          rw [hp.txt]
          obtain ⟨k, hk⟩ : ∃ k, s.len = k + 1 := ⟨s.len - 1, by omega⟩
          rw [hk]; simp
        rw [this]
        exact not_active_cons T st c _ hna
      · right
        have hlen := (hone hns).1
        have htxt : s.tok.txt = [c] := by rw [hp.txt, hlen]; rfl
        have i4 := I.first
        rw [hlen] at i4 ⊢
        simp only [List.drop_succ_cons, List.drop_zero] at i4 ⊢
        cases hr : (scanSteps T.toTables src fuel (pos + 1) cs).1 with
        | nil => rfl
        | cons s2 ss =>
          simp only [List.map_cons]
          apply expandShortMacro_none
          rw [htxt, i4 s2 ss hr]
          rcases hk with hk | hk
          · cases cs with
            | nil => cases fuel <;> simp [scanSteps] at hr
            | cons => simp at hk
          · simpa using hk
    · simp only [outP]
      rw [marksOf_cons, tokMarks_nonaction _ hp.tok.notAction, tokChars_nofix _ hp.fix, hmarks,
        hp.txt, hp.pos, hms1]
    · intro x hx
      simp only [outP, List.mem_cons] at hx
      rcases hx with rfl | hx
      · exact simple_of_plain hp.tok hshape
      · exact hsimple x hx
    · simp only [cost, List.length_cons, List.length_drop] at hcost h2 ⊢
      omega
  · intro s' ss' he
    simp only [List.cons.injEq] at he
    rw [← he.1, hp.first]
    refine (firstTokTxtM_of_text c cs ?_).symm
    rcases hsnd with h | h
    · exact Or.inl h
    · exact Or.inr h.1
  · intro s' ss' he hsp'
    simp only [List.cons.injEq] at he
    rw [← he.1] at hsp'
    by_cases hc : isSpace c = true
    · have hk : s.tok.kind
          = if countNl ((c :: cs).takeWhile isSpace) < 2 then Kind.space else Kind.par := by
        rw [← hs]; simp [nextToken, hc, scanSpace]
      simp only [headSp, List.head?_cons, Option.any_some, hc, Bool.true_and, decide_eq_true_eq]
      by_cases hlt : countNl ((c :: cs).takeWhile isSpace) < 2
      · exact hlt
      · rw [if_neg hlt] at hk; simp [isSpaceTok, hk] at hsp'
    · have := (hone (by simpa using hc)).2
      simp [isSpaceTok, this] at hsp'

theorem scan_call (T : PTables) (st : PState) (src : Str) (n : Nat) (ih : ScanGoal T st src n)
    (fuel pos : Nat) (name body R : Str) (ms' : List Mark) (fl' : List (Char × Nat))
    (hn : ('\\' :: (name ++ '{' :: (body ++ '}' :: R))).length ≤ n + 1) (hf : ('\\' :: (name ++ '{' :: (body ++ '}' :: R))).length ≤ fuel + 1)
    (hd : callOk T st name body R = true)
    (hsub : OkSrc T st (pos + (name.length + body.length + 3)) R ms' fl') :
    (scanSteps T.toTables src (fuel + 1) pos ('\\' :: (name ++ '{' :: (body ++ '}' :: R)))).2 = true ∧
    ScanFacts T st ('\\' :: (name ++ '{' :: (body ++ '}' :: R))) (none :: ms') (flowOut (pos + name.length + 2) body ++ fl')
      (scanSteps T.toTables src (fuel + 1) pos ('\\' :: (name ++ '{' :: (body ++ '}' :: R)))).1 := by
  have V := callFacts hd
  have hnl : 1 ≤ name.length := List.length_pos_iff.mpr V.cw.ne
  simp only [List.length_cons, List.length_append] at hf hn
  have hn1 := nextToken_cw T _ src pos name _ V.cw
  obtain ⟨bst, B, hrun1⟩ := scanSteps_bracedText T st src (pos + (name.length + 1)) fuel body R
    (by omega) V.bt
  have hBl := B.len
  have hpos : pos + (name.length + 1) + (body.length + 2) = pos + (name.length + body.length + 3) := by
    omega
  rw [hpos] at hrun1
  obtain ⟨i1, I⟩ := ih (fuel - bst.length - 2) (pos + (name.length + body.length + 3)) R ms' fl'
    (by omega) (by omega) hsub
  obtain ⟨ps', hflat, hpok, hmarks, hsimple, hcost, hflows⟩ := I.pieces
  rw [scanSteps_step T.toTables src fuel pos _ _ _ hn1 (by simp), drop_name]
  simp only []
  rw [hrun1]
  obtain ⟨hbne, hbc, hsafe, hfo⟩ := flow_of_run B V.bt.ne V.lines
  refine ⟨i1, ?_, ?_, ?_, ?_⟩
  · intro x hx
    simp only [List.mem_cons, List.mem_append] at hx
    rcases hx with rfl | rfl | hx | rfl | hx
    · exact ⟨rfl, rfl⟩
    · exact ⟨rfl, rfl⟩
    · exact ⟨(B.ok x hx).1, (B.ok x hx).2.1⟩
    · exact ⟨rfl, rfl⟩
    · exact I.ok x hx
  · refine ⟨.call pos (pos + (name.length + 1)) (pos + (name.length + 1) + 1 + body.length) name
        (bst.map (·.tok)) :: ps', ?_, ?_, ?_, ?_, ?_, ?_⟩
    · simp [flat, Piece.toks, hflat]
    · exact ⟨V.fn, hbne, hbc, hsafe, hpok⟩
    · simp only [outP]
      rw [marksOf_cons, tokMarks_mkAction, hmarks]
      rfl
    · intro x hx
      simp only [outP, List.mem_cons] at hx
      rcases hx with rfl | hx
      · exact simple_mkAction pos
      · exact hsimple x hx
    · simp only [cost, List.length_cons, List.length_append, List.length_map]
      omega
    · simp only [flowsOf, List.map_cons, List.flatten_cons]
      rw [getTxtPos_append, hflows, hfo]
      have e : pos + (name.length + 1) + 1 = pos + name.length + 2 := by omega
      simp [e]
  · intro s' ss' he
    simp only [List.cons.injEq] at he
    rw [← he.1]
    exact (firstTok_cw name _ V.cw.tw).symm
  · intro s' ss' he hsp'
    simp only [List.cons.injEq] at he
    rw [← he.1] at hsp'
    exact absurd hsp' (by simp [cwTok_notSpace])

theorem scan_callO (T : PTables) (st : PState) (src : Str) (n : Nat) (ih : ScanGoal T st src n)
    (fuel pos : Nat) (name opt body R : Str) (ms' : List Mark) (fl' : List (Char × Nat))
    (hn : ('\\' :: (name ++ '[' :: (opt ++ ']' :: '{' :: (body ++ '}' :: R)))).length ≤ n + 1) (hf : ('\\' :: (name ++ '[' :: (opt ++ ']' :: '{' :: (body ++ '}' :: R)))).length ≤ fuel + 1)
    (hd : callOOk T st name opt body R = true)
    (hsub : OkSrc T st (pos + (name.length + opt.length + body.length + 5)) R ms' fl') :
    (scanSteps T.toTables src (fuel + 1) pos ('\\' :: (name ++ '[' :: (opt ++ ']' :: '{' :: (body ++ '}' :: R))))).2 = true ∧
    ScanFacts T st ('\\' :: (name ++ '[' :: (opt ++ ']' :: '{' :: (body ++ '}' :: R)))) (none :: ms') (flowOut (pos + name.length + opt.length + 4) body ++ fl')
      (scanSteps T.toTables src (fuel + 1) pos ('\\' :: (name ++ '[' :: (opt ++ ']' :: '{' :: (body ++ '}' :: R))))).1 := by
  have V := callOFacts hd
  have hnl : 1 ≤ name.length := List.length_pos_iff.mpr V.cw.ne
  simp only [List.length_cons, List.length_append] at hf hn
  have hn1 := nextToken_cw T _ src pos name _ V.cw
  obtain ⟨ost, O, hrun0⟩ := scanSteps_note T st src (pos + (name.length + 1)) fuel opt _ (by omega)
    V.op.lb V.op.txt V.op.rb
  have hOl := O.len
  obtain ⟨bst, B, hrun1⟩ := scanSteps_bracedText T st src
    (pos + (name.length + 1) + (opt.length + 2)) (fuel - ost.length - 2) body R (by omega) V.bt
  have hBl := B.len
  have hpos : pos + (name.length + 1) + (opt.length + 2) + (body.length + 2)
      = pos + (name.length + opt.length + body.length + 5) := by omega
  rw [hpos] at hrun1
  obtain ⟨i1, I⟩ := ih (fuel - ost.length - 2 - bst.length - 2)
    (pos + (name.length + opt.length + body.length + 5)) R ms' fl' (by omega) (by omega) hsub
  obtain ⟨ps', hflat, hpok, hmarks, hsimple, hcost, hflows⟩ := I.pieces
  rw [scanSteps_step T.toTables src fuel pos _ _ _ hn1 (by simp), drop_name]
  simp only []
  rw [hrun0, hrun1]
  obtain ⟨hbne, hbc, hsafe, hfo⟩ := flow_of_run B V.bt.ne V.lines
  have hopt := optToks_of_run O V.op.nrb
  refine ⟨i1, ?_, ?_, ?_, ?_⟩
  · intro x hx
    simp only [List.mem_cons, List.mem_append] at hx
    rcases hx with rfl | rfl | hx | rfl | rfl | hx | rfl | hx
    · exact ⟨rfl, rfl⟩
    · exact ⟨rfl, rfl⟩
    · exact ⟨(O.ok x hx).1, (O.ok x hx).2.1⟩
    · exact ⟨rfl, rfl⟩
    · exact ⟨rfl, rfl⟩
    · exact ⟨(B.ok x hx).1, (B.ok x hx).2.1⟩
    · exact ⟨rfl, rfl⟩
    · exact I.ok x hx
  · refine ⟨.callO pos (pos + (name.length + 1)) (pos + (name.length + 1) + 1 + opt.length)
        (pos + (name.length + 1) + (opt.length + 2))
        (pos + (name.length + 1) + (opt.length + 2) + 1 + body.length) name
        (ost.map (·.tok)) (bst.map (·.tok)) :: ps', ?_, ?_, ?_, ?_, ?_, ?_⟩
    · simp [flat, Piece.toks, hflat]
    · exact ⟨V.fn, hopt, hbne, hbc, hsafe, hpok⟩
    · simp only [outP]
      rw [marksOf_cons, tokMarks_mkAction, hmarks]
      rfl
    · intro x hx
      simp only [outP, List.mem_cons] at hx
      rcases hx with rfl | hx
      · exact simple_mkAction pos
      · exact hsimple x hx
    · simp only [cost, List.length_cons, List.length_append, List.length_map]
      omega
    · simp only [flowsOf, List.map_cons, List.flatten_cons]
      rw [getTxtPos_append, hflows, hfo]
      have e : pos + (name.length + 1) + (opt.length + 2) + 1 = pos + name.length + opt.length + 4 := by
        omega
      simp [e]
  · intro s' ss' he
    simp only [List.cons.injEq] at he
    rw [← he.1]
    exact (firstTok_cw name _ V.cw.tw).symm
  · intro s' ss' he hsp'
    simp only [List.cons.injEq] at he
    rw [← he.1] at hsp'
    exact absurd hsp' (by simp [cwTok_notSpace])

theorem scan_beg (T : PTables) (st : PState) (src : Str) (n : Nat) (ih : ScanGoal T st src n)
    (fuel pos : Nat) (name ws R : Str) (ms' : List Mark) (fl : List (Char × Nat))
    (hn : ('\\' :: (nBegin ++ '{' :: (name ++ '}' :: (ws ++ R)))).length ≤ n + 1) (hf : ('\\' :: (nBegin ++ '{' :: (name ++ '}' :: (ws ++ R)))).length ≤ fuel + 1)
    (hd : begOk T st name ws R = true)
    (hsub : OkSrc T st (pos + (name.length + ws.length + 8)) R ms' fl) :
    (scanSteps T.toTables src (fuel + 1) pos ('\\' :: (nBegin ++ '{' :: (name ++ '}' :: (ws ++ R))))).2 = true ∧
    ScanFacts T st ('\\' :: (nBegin ++ '{' :: (name ++ '}' :: (ws ++ R)))) (none :: none :: ms') (fl)
      (scanSteps T.toTables src (fuel + 1) pos ('\\' :: (nBegin ++ '{' :: (name ++ '}' :: (ws ++ R))))).1 := by
  have V := begFacts hd
  have hbl : nBegin.length = 5 := rfl
  simp only [List.length_cons, List.length_append, hbl] at hf hn
  have hn1 := nextToken_begin T src pos _ V.special V.noverb
  obtain ⟨nst, N, hrun1⟩ := scanSteps_bracedText T st src (pos + 6) fuel name _ (by omega) V.nm
  have hNl := N.len
  have hwl := wsSteps_len (pos + 6 + (name.length + 2)) ws
  have hrun3 := scanSteps_ws T src (pos + 6 + (name.length + 2))
    (fuel - nst.length - 2) ws R V.ws (by omega)
  have hpos : pos + 6 + (name.length + 2) + ws.length = pos + (name.length + ws.length + 8) := by
    omega
  rw [hpos] at hrun3
  obtain ⟨i1, I⟩ := ih (fuel - nst.length - 2 - (wsSteps (pos + 6 + (name.length + 2)) ws).length)
    (pos + (name.length + ws.length + 8)) R ms' fl (by omega) (by omega) hsub
  obtain ⟨ps', hflat, hpok, hmarks, hsimple, hcost, hflows⟩ := I.pieces
  have hd1 : ('\\' :: (nBegin ++ '{' :: (name ++ '}' :: (ws ++ R)))).drop 6
      = '{' :: (name ++ '}' :: (ws ++ R)) := rfl
  rw [scanSteps_step T.toTables src fuel pos _ _ _ hn1 (by simp), hd1]
  simp only []
  rw [hrun1, hrun3]
  obtain ⟨hN, eN⟩ := nameToks_of_run N V.nm.ne
  have hsp : SpToks ((wsSteps (pos + 6 + (name.length + 2)) ws).map (·.tok)) := by
    intro t ht
    obtain ⟨x, hx, rfl⟩ := List.mem_map.mp ht
    exact (wsSteps_ok _ _ x hx).2.2
  have hhead : HeadOk (flat ps') := by
    rw [← hflat]; exact headOk_steps _ R V.ws.head I.first I.firstSp
  refine ⟨i1, ?_, ?_, ?_, ?_⟩
  · intro x hx
    simp only [List.mem_cons, List.mem_append] at hx
    rcases hx with rfl | rfl | hx | rfl | hx | hx
    · exact ⟨rfl, rfl⟩
    · exact ⟨rfl, rfl⟩
    · exact ⟨(N.ok x hx).1, (N.ok x hx).2.1⟩
    · exact ⟨rfl, rfl⟩
    · exact ⟨(wsSteps_ok _ _ x hx).1, (wsSteps_ok _ _ x hx).2.1⟩
    · exact I.ok x hx
  · refine ⟨.beg pos (pos + 6) (pos + 6 + 1 + name.length) (nst.map (·.tok))
        ((wsSteps (pos + 6 + (name.length + 2)) ws).map (·.tok)) :: ps',
        ?_, ?_, ?_, ?_, ?_, by simpa [flowsOf] using hflows⟩
    · simp [flat, Piece.toks, hflat]
    · exact ⟨hN, by rw [eN]; exact V.env, hsp, hhead, hpok⟩
    · simp only [outP]
      rw [marksOf_cons, tokMarks_mkAction, marksOf_cons, tokMarks_mkAction, hmarks]
      rfl
    · intro x hx
      simp only [outP, List.mem_cons] at hx
      rcases hx with rfl | rfl | hx
      · exact simple_mkAction pos
      · exact simple_mkAction pos
      · exact hsimple x hx
    · simp only [cost, List.length_cons, List.length_append, List.length_map]
      omega
  · intro s' ss' he
    simp only [List.cons.injEq] at he
    rw [← he.1]
    exact (firstTok_cw nBegin _ (takeWhile_append_stop _ _ _ (by decide) rfl)).symm
  · intro s' ss' he hsp'
    simp only [List.cons.injEq] at he
    rw [← he.1] at hsp'
    exact absurd hsp' (by simp [isSpaceTok, begTok])

theorem scan_begN (T : PTables) (st : PState) (src : Str) (n : Nat) (ih : ScanGoal T st src n)
    (fuel pos : Nat) (name note R : Str) (ms' : List Mark) (fl : List (Char × Nat))
    (hn : ('\\' :: (nBegin ++ '{' :: (name ++ '}' :: '[' :: (note ++ ']' :: R)))).length ≤ n + 1) (hf : ('\\' :: (nBegin ++ '{' :: (name ++ '}' :: '[' :: (note ++ ']' :: R)))).length ≤ fuel + 1)
    (hd : begNOk T st name note R = true)
    (hsub : OkSrc T st (pos + (name.length + note.length + 10)) R ms' fl) :
    (scanSteps T.toTables src (fuel + 1) pos ('\\' :: (nBegin ++ '{' :: (name ++ '}' :: '[' :: (note ++ ']' :: R))))).2 = true ∧
    ScanFacts T st ('\\' :: (nBegin ++ '{' :: (name ++ '}' :: '[' :: (note ++ ']' :: R)))) (none :: none :: ms') (fl)
      (scanSteps T.toTables src (fuel + 1) pos ('\\' :: (nBegin ++ '{' :: (name ++ '}' :: '[' :: (note ++ ']' :: R))))).1 := by
  have V := begNFacts hd
  have hbl : nBegin.length = 5 := rfl
  simp only [List.length_cons, List.length_append, hbl] at hf hn
  have hn1 := nextToken_begin T src pos _ V.special V.noverb
  obtain ⟨nst, N, hrun1⟩ := scanSteps_bracedText T st src (pos + 6) fuel name _ (by omega) V.nm
  have hNl := N.len
  obtain ⟨ost, B, hrun2⟩ := scanSteps_note T st src (pos + 6 + (name.length + 2))
    (fuel - nst.length - 2) note R (by omega) V.op.lb V.op.txt V.op.rb
  have hBl := B.len
  have hpos : pos + 6 + (name.length + 2) + (note.length + 2)
      = pos + (name.length + note.length + 10) := by omega
  rw [hpos] at hrun2
  obtain ⟨i1, I⟩ := ih (fuel - nst.length - 2 - ost.length - 2)
    (pos + (name.length + note.length + 10)) R ms' fl (by omega) (by omega) hsub
  obtain ⟨ps', hflat, hpok, hmarks, hsimple, hcost, hflows⟩ := I.pieces
  have hd1 : ('\\' :: (nBegin ++ '{' :: (name ++ '}' :: '[' :: (note ++ ']' :: R)))).drop 6
      = '{' :: (name ++ '}' :: '[' :: (note ++ ']' :: R)) := rfl
  rw [scanSteps_step T.toTables src fuel pos _ _ _ hn1 (by simp), hd1]
  simp only []
  rw [hrun1, hrun2]
  obtain ⟨hN, eN⟩ := nameToks_of_run N V.nm.ne
  have hnote := optToks_of_run B V.op.nrb
  refine ⟨i1, ?_, ?_, ?_, ?_⟩
  · intro x hx
    simp only [List.mem_cons, List.mem_append] at hx
    rcases hx with rfl | rfl | hx | rfl | rfl | hx | rfl | hx
    · exact ⟨rfl, rfl⟩
    · exact ⟨rfl, rfl⟩
    · exact ⟨(N.ok x hx).1, (N.ok x hx).2.1⟩
    · exact ⟨rfl, rfl⟩
    · exact ⟨rfl, rfl⟩
    · exact ⟨(B.ok x hx).1, (B.ok x hx).2.1⟩
    · exact ⟨rfl, rfl⟩
    · exact I.ok x hx
  · refine ⟨.begN pos (pos + 6) (pos + 6 + 1 + name.length) (pos + 6 + (name.length + 2))
        (pos + 6 + (name.length + 2) + 1 + note.length) (nst.map (·.tok)) (ost.map (·.tok)) :: ps',
        ?_, ?_, ?_, ?_, ?_, by simpa [flowsOf] using hflows⟩
    · simp [flat, Piece.toks, hflat]
    · exact ⟨hN, by rw [eN]; exact V.env, hnote, hpok⟩
    · simp only [outP]
      rw [marksOf_cons, tokMarks_mkAction, marksOf_cons, tokMarks_mkAction, hmarks]
      rfl
    · intro x hx
      simp only [outP, List.mem_cons] at hx
      rcases hx with rfl | rfl | hx
      · exact simple_mkAction pos
      · exact simple_mkAction pos
      · exact hsimple x hx
    · simp only [cost, List.length_cons, List.length_append, List.length_map]
      omega
  · intro s' ss' he
    simp only [List.cons.injEq] at he
    rw [← he.1]
    exact (firstTok_cw nBegin _ (takeWhile_append_stop _ _ _ (by decide) rfl)).symm
  · intro s' ss' he hsp'
    simp only [List.cons.injEq] at he
    rw [← he.1] at hsp'
    exact absurd hsp' (by simp [isSpaceTok, begTok])

theorem scan_en (T : PTables) (st : PState) (src : Str) (n : Nat) (ih : ScanGoal T st src n)
    (fuel pos : Nat) (name R : Str) (ms' : List Mark) (fl : List (Char × Nat))
    (hn : ('\\' :: (nEnd ++ '{' :: (name ++ '}' :: R))).length ≤ n + 1) (hf : ('\\' :: (nEnd ++ '{' :: (name ++ '}' :: R))).length ≤ fuel + 1)
    (hd : endOk T st name R = true)
    (hsub : OkSrc T st (pos + (name.length + 6)) R ms' fl) :
    (scanSteps T.toTables src (fuel + 1) pos ('\\' :: (nEnd ++ '{' :: (name ++ '}' :: R)))).2 = true ∧
    ScanFacts T st ('\\' :: (nEnd ++ '{' :: (name ++ '}' :: R))) (none :: ms') (fl)
      (scanSteps T.toTables src (fuel + 1) pos ('\\' :: (nEnd ++ '{' :: (name ++ '}' :: R)))).1 := by
  have V := endFacts hd
  have hel : nEnd.length = 3 := rfl
  simp only [List.length_cons, List.length_append, hel] at hf hn
  have hn1 := nextToken_end T src pos _ V.special
  obtain ⟨nst, N, hrun1⟩ := scanSteps_bracedText T st src (pos + 4) fuel name _ (by omega) V.nm
  have hNl := N.len
  have hpos : pos + 4 + (name.length + 2) = pos + (name.length + 6) := by omega
  rw [hpos] at hrun1
  obtain ⟨i1, I⟩ := ih (fuel - nst.length - 2) (pos + (name.length + 6)) R ms' fl (by omega)
    (by omega) hsub
  obtain ⟨ps', hflat, hpok, hmarks, hsimple, hcost, hflows⟩ := I.pieces
  have hd1 : ('\\' :: (nEnd ++ '{' :: (name ++ '}' :: R))).drop 4 = '{' :: (name ++ '}' :: R) := rfl
  rw [scanSteps_step T.toTables src fuel pos _ _ _ hn1 (by simp), hd1]
  simp only []
  rw [hrun1]
  obtain ⟨hN, eN⟩ := nameToks_of_run N V.nm.ne
  refine ⟨i1, ?_, ?_, ?_, ?_⟩
  · intro x hx
    simp only [List.mem_cons, List.mem_append] at hx
    rcases hx with rfl | rfl | hx | rfl | hx
    · exact ⟨rfl, rfl⟩
    · exact ⟨rfl, rfl⟩
    · exact ⟨(N.ok x hx).1, (N.ok x hx).2.1⟩
    · exact ⟨rfl, rfl⟩
    · exact I.ok x hx
  · refine ⟨.en pos (pos + 4) (pos + 4 + 1 + name.length) (nst.map (·.tok)) :: ps',
        ?_, ?_, ?_, ?_, ?_, by simpa [flowsOf] using hflows⟩
    · simp [flat, Piece.toks, hflat]
    · exact ⟨hN, by rw [eN]; exact V.env, hpok⟩
    · simp only [outP]
      rw [marksOf_cons, tokMarks_mkAction, hmarks]
      rfl
    · intro x hx
      simp only [outP, List.mem_cons] at hx
      rcases hx with rfl | hx
      · exact simple_mkAction pos
      · exact hsimple x hx
    · simp only [cost, List.length_cons, List.length_append, List.length_map]
      omega
  · intro s' ss' he
    simp only [List.cons.injEq] at he
    rw [← he.1]
    exact (firstTok_cw nEnd _ (takeWhile_append_stop _ _ _ (by decide) rfl)).symm
  · intro s' ss' he hsp'
    simp only [List.cons.injEq] at he
    rw [← he.1] at hsp'
    exact absurd hsp' (by simp [isSpaceTok, endTok])

/-- the scanner loop on a well-formed source -/
theorem scanSteps_flows (T : PTables) (st : PState) (src : Str) : ∀ n, ScanGoal T st src n := by
  intro n
  induction n with
  | zero =>
    intro fuel pos rest ms fl hn _ hok
    cases rest with
    | nil => cases hok; exact ⟨by simp [scanSteps], by simpa [scanSteps] using ScanFacts_nil T st⟩
    | cons c cs => simp at hn
  | succ n ih =>
    intro fuel pos rest ms fl hn hf hok
    cases rest with
    | nil => cases hok; exact ⟨by simp [scanSteps], by simpa [scanSteps] using ScanFacts_nil T st⟩
    | cons c cs =>
      obtain ⟨fuel, rfl⟩ : ∃ f, fuel = f + 1 := ⟨fuel - 1, by simp at hf; omega⟩
      cases hok with
      | chr _ _ _ ms' _ hat hsub0 => exact scan_chr T st src n ih fuel pos c cs ms' fl hn hf hat hsub0
      | call _ name body R ms' fl' hd hsub =>
        exact scan_call T st src n ih fuel pos name body R ms' fl' hn hf hd hsub
      | callO _ name opt body R ms' fl' hd hsub =>
        exact scan_callO T st src n ih fuel pos name opt body R ms' fl' hn hf hd hsub
      | beg _ name ws R ms' _ hd hsub => exact scan_beg T st src n ih fuel pos name ws R ms' fl hn hf hd hsub
      | begN _ name note R ms' _ hd hsub =>
        exact scan_begN T st src n ih fuel pos name note R ms' fl hn hf hd hsub
      | en _ name R ms' _ hd hsub => exact scan_en T st src n ih fuel pos name R ms' fl hn hf hd hsub

/-- `scan` on a well-formed source: no diagnostics; the token buffer consists of plain tokens, calls
    and environment commands; its output tokens spell the marks, its flows the flows of the source -/
theorem scan_flows (T : PTables) (st : PState) (src : Str) (ms : List Mark) (fl : List (Char × Nat))
    (h : OkSrc T st 0 src ms fl) :
    (scan T.toTables src).diags = [] ∧
    ∃ ps, (scan T.toTables src).toks = flat ps ∧ PiecesOk T st ps ∧ marksOf (outP ps) = ms ∧
      (∀ t ∈ outP ps, Simple t) ∧ cost ps ≤ src.length ∧
      getTxtPos ((flowsOf ps).map flowToks).flatten = (fl.map (·.1), fl.map (·.2)) := by
  obtain ⟨_, F⟩ := scanSteps_flows T st src src.length src.length 0 src ms fl (Nat.le_refl _)
    (Nat.le_refl _) h
  have he := flatten_tok_extra (scanSteps T.toTables src src.length 0 src).1 (fun s hs => (F.ok s hs).2)
  have hd := flatten_diag_nil (scanSteps T.toTables src src.length 0 src).1 (fun s hs => (F.ok s hs).1)
  obtain ⟨ps, h1, h2, h3, h4, h5, h6⟩ := F.pieces
  simp only [scan]
  rw [he, hd]
  exact ⟨rfl, ps, h1, h2, h3, h4, h5, h6⟩

/-! ### `parserWork`, `parse`, `tex2txt` -/

/-- **`parserWork` on a well-formed source** (root level: `nest = 0` before the call).  The
    characters of the main tokens, with their positions, are the marks of the document with the pure
    Action lines deleted; the bodies are appended to `extracted`, in order; nothing else in the state
    changes. -/
theorem parserWork_flows (T : PTables) (st : PState) (src : Str) (fuel : Nat) (ms : List Mark)
    (fl : List (Char × Nat)) (hf : src.length + 4 ≤ fuel) (hs : PlainExtract.StateFacts T st)
    (h : OkSrc T st 0 src ms fl) (hn : st.nest = 0) :
    ∃ r fs, parserWork T fuel src st = .ok (r, { st with extracted := st.extracted ++ fs }) ∧
      charsOf r = delLines ms ∧
      getTxtPos (fs.map flowToks).flatten = (fl.map (·.1), fl.map (·.2)) := by
  obtain ⟨f, rfl⟩ : ∃ f, fuel = f + 1 := ⟨fuel - 1, by omega⟩
  obtain ⟨hd, ps, hflat, hpok, hmarks, hsimple, hcost, hflows⟩ := scan_flows T st src ms fl h
  let st' : PState := { st with latex := src, nest := st.nest + 1 }
  have hpok' : PiecesOk T st' ps := PiecesOk.congr (st := st) (st' := st') rfl rfl rfl hpok
  have hseq := seq_flows T ps f [] st' (by omega) hpok' (hs.congr (st' := st') rfl rfl)
  rw [List.nil_append] at hseq
  obtain ⟨r, hr, hchars⟩ := removeLines_simple _ hsimple
  rw [hr] at hseq
  simp only [] at hseq
  rw [hmarks] at hchars
  refine ⟨r, flowsOf ps, ?_, hchars, hflows⟩
  rw [parserWork.eq_2]
  refine (M.bind_ok _ _ _ _ _ (rfl : M.get st = _)).trans ?_
  refine (M.bind_ok _ _ _ _ _ (rfl : M.modify _ _ = _)).trans ?_
  refine (M.bind_ok _ _ _ _ _ (rfl : M.modify _ _ = _)).trans ?_
  refine (M.bind_ok _ _ _ _ _ (rfl : M.get _ = _)).trans ?_
  simp only [hd, List.append_nil]
  rw [skipPass_nocomment _ _ _ (fun t ht' => hpok.notComment t (by rw [← hflat]; exact ht'))]
  simp only []
  refine (M.bind_ok _ _ _ _ _ (rfl : (pure _ : M (List Tok)) _ = _)).trans ?_
  rw [hflat]
  refine (M.bind_ok _ _ _ _ _ hseq).trans ?_
  refine (M.bind_ok _ _ _ _ _ (rfl : M.modify _ _ = _)).trans ?_
  show Outcome.ok _ = _
  simp [PlainFootnote.addFlows, hn, st']

/-- **`parse` on a well-formed source**: behind the main tokens, every flow is appended between a
    paragraph separator (three line breaks, pinned to the position of its first token) and a final
    line break (pinned to the position of its last token) -/
theorem parse_flows (T : PTables) (st : PState) (src : Str) (fuel : Nat) (ms : List Mark)
    (fl : List (Char × Nat)) (hf : src.length + 4 ≤ fuel) (hs : PlainExtract.StateFacts T st)
    (h : OkSrc T st 0 src ms fl) :
    ∃ r stF, parse T fuel src [] [] st = .ok (r, stF) ∧
      getTxtPos r = ((delLines ms ++ fl).map (·.1), (delLines ms ++ fl).map (·.2)) ∧
      stF.unknowns = [] ∧ stF.diags = st.diags := by
  have h' : OkSrc T { st with extracted := [], unknowns := [], foreign := false, nest := 0 } 0 src ms fl :=
    OkSrc.congr (st := st)
      (st' := { st with extracted := [], unknowns := [], foreign := false, nest := 0 }) rfl rfl rfl h
  obtain ⟨r, fs, hw, hc, hfl⟩ := parserWork_flows T
    { st with extracted := [], unknowns := [], foreign := false, nest := 0 } src fuel ms fl hf
    (hs.congr (st' := { st with extracted := [], unknowns := [], foreign := false, nest := 0 }) rfl rfl)
    h' rfl
  refine ⟨r ++ (fs.map flowToks).flatten,
    ({ st with extracted := [] ++ fs, unknowns := [], foreign := false, nest := 0 } : PState),
    ?_, ?_, rfl, rfl⟩
  · unfold parse
    simp only [List.isEmpty_nil, Bool.not_true, Bool.false_eq_true, if_false, if_true]
    refine (M.bind_ok _ _ _ _ _ (rfl : M.modify _ _ = _)).trans ?_
    refine (M.bind_ok _ _ _ _ _ (rfl : (pure _ : M (List Tok)) _ = _)).trans ?_
    refine (M.bind_ok _ _ _ _ _ (rfl : M.modify _ _ = _)).trans ?_
    refine (M.bind_ok _ _ _ _ _ hw).trans ?_
    refine (M.bind_ok _ _ _ _ _ (rfl : M.get _ = _)).trans ?_
    show Outcome.ok _ = _
    simp only [List.nil_append]
    rfl
  · rw [getTxtPos_append, getTxtPos_charsOf, hc, hfl]
    simp

/-- the result of `tex2txt` on a well-formed source (no `--defs`, `--extr`, `--repl`, `--unkn`;
    single-language mode) -/
theorem tex2txt_flows_src (T : PTables) (o : Options) (fs : FS) (thresh : Nat) (src : Str) (fuel : Nat)
    (st1 : PState) (ms : List Mark) (fl : List (Char × Nat))
    (hdefs : o.defs = []) (hextr : o.extr = []) (hrepl : o.hasRepl = false) (hunkn : o.unkn = false)
    (hinit : initParser T fuel o (initialState T o false fs) = .ok ((), st1))
    (hs : PlainExtract.StateFacts T st1) (h : OkSrc T st1 0 src ms fl)
    (hf : src.length + 4 ≤ fuel) :
    ∃ r, tex2txt T fuel src o false thresh fs = .ok r ∧
      r.txt = (delLines ms ++ fl).map (·.1) ∧ r.pos = (delLines ms ++ fl).map (·.2 + 1) ∧
      r.unknowns = [] ∧ r.diags = st1.diags ∧ r.parts = [] := by
  obtain ⟨r, stF, hp, hc, hu, hdg⟩ := parse_flows T st1 src fuel ms fl hf hs h
  have hrun : (initParser T fuel o >>= fun _ => parse T fuel src o.defs
        (if o.extr.isEmpty then [] else (splitOn ',' o.extr []).map (fun s => '\\' :: s)))
        (initialState T o false fs)
      = .ok (r, stF) := by
    refine (M.bind_ok _ _ _ _ _ hinit).trans ?_
    rw [hdefs, hextr]
    exact hp
  unfold tex2txt
  simp only []
  rw [hrun]
  simp only [hrepl, hunkn, Bool.not_false, if_true, Bool.false_eq_true, if_false, hc, List.map_map,
    hu, hdg]
  exact ⟨_, rfl, rfl, rfl, rfl, rfl, rfl⟩

/-- **C03 end to end, all detached flows.**  The document consists of inert text, calls
    `\name{body}` / `\name[opt]{body}` of macros declared like `\footnote` (`\footnote`,
    `\footnotetext`, `\caption` in the real tables) and float environments `\begin{name}` /
    `\begin{name}[placement]` … `\end{name}` declared like `figure` (`SegsOk`: all side conditions);
    `st1` is the state after `Parser.__init__`; no `--defs`, `--extr`, `--repl`, `--unkn`;
    single-language mode.  With one unit of fuel per source character and four more, `tex2txt`
    succeeds and the output text with its (1-based) positions is
    `refOut segs = delLines (marks 0 segs) ++ flows 0 segs`: the main text with every call cut out
    (one text-less mark stays; then every line is deleted, with its line break, that is blank and
    holds a mark), followed by the flows in source order of their calls — each three line breaks, the
    body at its own positions, one line break; nothing of an optional argument or a placement
    appears; there are no unknowns and no diagnostic is added. -/
theorem tex2txt_flows (T : PTables) (o : Options) (fs : FS) (thresh : Nat) (segs : List Seg)
    (fuel : Nat) (st1 : PState)
    (hdefs : o.defs = []) (hextr : o.extr = []) (hrepl : o.hasRepl = false) (hunkn : o.unkn = false)
    (hinit : initParser T fuel o (initialState T o false fs) = .ok ((), st1))
    (hok : SegsOk T st1 segs) (hf : (render segs).length + 4 ≤ fuel) :
    ∃ r, tex2txt T fuel (render segs) o false thresh fs = .ok r ∧
      r.txt = (refOut segs).map (·.1) ∧
      r.pos = (refOut segs).map (·.2 + 1) ∧
      r.unknowns = [] ∧ r.diags = st1.diags ∧ r.parts = [] := by
  obtain ⟨hst, hsegs⟩ := hok
  have hsrc := OkSrc_of_segsOk T st1 segs 0 hsegs
  exact tex2txt_flows_src T o fs thresh (render segs) fuel st1 _ _ hdefs hextr hrepl hunkn
    hinit (PlainExtract.stateFacts hst) hsrc hf

/-
  Recorded `#eval`s (real tables: `Generated.theTables`, `Generated.stDefault`, default options).

  * `Text\footnote[2]{first note} more \footnotetext{second} end.⏎\caption[short]{A long caption}`
    ↦ `"Text more  end.⏎⏎⏎⏎first note⏎⏎⏎⏎second⏎⏎⏎⏎A long caption⏎"` = `refOut` (Properties/PlainFlowsStmt.lean,
    `C03_detached_flows_doc1_eval`): the line of `\caption` has vanished, `2` and `short` do not appear.
  * `A⏎\begin{figure}⏎\caption{Cap text}⏎\end{figure}⏎B⏎` ↦ `"A⏎B⏎⏎⏎⏎Cap text⏎"` = `refOut`: all three
    lines of the float are pure Action lines.
  * `A\footnote [2] {x y} B⏎` ↦ `"A B⏎⏎⏎⏎x y⏎"`: white space in front of `[` and `{` is skipped (NOT in the
    document class: `callOOk` wants `[` and `{` adjacent).
  * `A\footnote[a]b]{x y} B⏎` ↦ `"A]x y B⏎⏎⏎⏎b⏎"`: the optional argument ends at the FIRST `]`, the
    mandatory argument is then the single token `b` — the flow is `b`, and `]{x y}` stays in the main
    text.  Rejected by `optOk` (`]` inside `opt`).
  * `\begin{figure} [ht] x\end{figure}⏎` ↦ `" x⏎"`: a `[` behind white space behind `\begin{figure}` is
    read as the placement (rejected by `wsOk`: what follows the white space must not start with `[`).
  * `\begin{figure}⏎⏎x\end{figure}⏎` ↦ `"⏎x⏎"`: a paragraph break behind `\begin{figure}` is not
    skipped (accepted: `ws = []`, the text segment starts with the blank line).
  * `segsOk`: `[.call footnote " x"]` accepted; `[.call footnote "x⏎"]` rejected although the output
    equals `refOut` (`lineC`: sufficient only); `[.call thanks "x"]` rejected (`\thanks` is not declared:
    it would be an unknown macro, its argument stays in the main text).
-/

end PlainFlows
end Yalafi
