/-
  Proofs/PlainItem.lean — C03 / C05 / C07 for lists, end to end on the model: "in
  `\begin{enumerate} \item … \end{enumerate}` every `\item` without label gets the default label of the
  environment — `1.`, `2.`, … for enumerate, the bullet of `item_default_label` for itemize — preceded
  and followed by a blank; the item text is kept with its own source positions; the generated label
  maps to the position of the `\item`; the `\begin` / `\end` lines vanish (a paragraph break is put in
  their place for environments with `add_pars`)".

  Documents: sequences of inert text (as in Proofs/Plain.lean / Proofs/PlainUnknown.lean) and the
  commands `\begin{name}`, `\item` + white space, `\end{name}` for declared list environments — in the
  general form in ANY order and nesting; the one-list document `listDoc` in the clean layout for the
  explicit output.

  Model facts used (checked against Model/Expander.lean)
    * `\begin{name}` is scanned as Begin token, `{`, one text token per character of the name, `}`;
      `getEnvironmentName` reads the name with `argBuffer` and expands it with `getTextExpanded`
      (a nested `expandSequence`, which copies the plain name tokens);
    * `beginEnvironment` pushes `{style, level = number of open environments of that name, count = 0}`
      on `itemStack`, emits `mkFix .par pos "\n\n"` (`add_pars`) or an Action token, and the Action
      token of the (empty) argument expansion; the tokens are pushed back and copied by the loop;
    * `expandItem` collects the optional argument (`collectArgs` for `O`: `skip_space` eats the white
      space behind `\item`; no `[`, so the empty default is stored), the expansion is one Action
      token, so the label branch fires: Action, blank, label (`itemLabel` of the top generator),
      blank — all fixed at the position of `\item`; the counter of the generator advances;
    * `endEnvironment` pops the generator (never the last one) and emits the `add_pars` token;
    * `remove_pure_action_lines` deletes every line that is blank and holds an Action token.

  Expander level (token buffers; independent of the scanner)
    `listEnvOk`                 the declaration of a list environment (decidable)
    `getEnvironmentName_braced` (1) the name, the buffer behind `}`, unchanged state
    `beginEnvironment_list`     (2) push on `itemStack`, output `[envOut env pos, Action]`
    `expandItem_nolabel`        (3) `[Action, ' ', label, ' ']` at the position of `\item`, white space
                                behind `\item` skipped, counter incremented
    `endEnvironment_list`       (4) pop, output `[envOut env pos]`
    `seq_beg_step`, `seq_item_step`, `seq_end_step`, `Piece`, `PiecesOk`, `outP`, `finalStk`, `cost`,
    `seq_list`                  (5) the loop `expandSequence` on a buffer of plain tokens and list
                                commands, fuel `cost + 3`
  Source level
    `Seg`, `render`, `segsOk`, `SegsOk`   documents and side conditions (computable)
    `OkSrc`, `scanSteps_list`, `scan_list`, `Link`, `link_sem`   scanner and meaning of the buffer
    `segMarks`, `segStk`        the reference: marks (characters with positions / Action marks) and
                                the label generators behind the document
    `parserWork_list`, `parse_list`, `tex2txt_list_src`   the lifts
    `tex2txt_lists`, `parse_lists`   END TO END, general form: output = `delLines (segMarks …)`
                                (`delLines` of Proofs/PlainMacro.lean: the exact character-level
                                model of the blank-line removal), final `itemStack` = `segStk …`
  One list, clean layout
    `listDoc pre name w0 its post`   `pre \begin{name} w0 (\item ws body)* \end{name} post`
    `lineBody`, `itemsOut`, `listOut`, `listOutPlain`, `itemsTxt`   the explicit output
    `delLines_listMarks`        the blank-line removal on the marks of `listDoc`, computed
    `tex2txt_list`              END TO END for one list (any style, with or without `add_pars`)
    `parse_list_doc`            … and the final parser state is the initial one (`itemStack` included)
    `tex2txt_enumerate`, `tex2txt_itemize`   the two environments of the real tables
    `labOk_enumLabel`, `tablesOk`, `segsOkSimple`, `segsOk_of_simple`   context-free conditions
    `tex2txt_enumerate_inert`   `enumerate` with per-character hypotheses only

  Side conditions (reasons)
    options / initialisation    as in `tex2txt_plain_text`: no --defs, --extr, --repl, --unkn,
        single-language mode, `st1` = state after `Parser.__init__`
    `noEmptyActive T st1`       the empty string is no "active character" (else the Action tokens the
        commands leave would go to `expand_short_macro`)
    blank not active            `(activeChars T st1).contains " " = false`: the blanks around the label
        are copied by the loop (they would go to `expand_short_macro` otherwise)
    text                        `textOk` of Proofs/PlainUnknown.lean (inert in the full right context)
    `begOk` / `endOk`           no special sequence matches at the backslash; `{` `}` are scanned as
        braces; the name is a non-empty string of `inertChar`s (never active, no structural
        character, no start of a special sequence) and `\begin{name}` does not open `{verbatim}`
        (the scanner treats that itself); `listEnvAt`: `name` is declared with `listEnvOk` — item
        labels, no arguments, empty replacement, no extraction, no handlers, no equation
        environment, not removed (as `enumerate` / `itemize` in the real tables)
    `itemOk`                    no special sequence at the backslash; the white space behind `\item`
        has at most one line break (two make a paragraph token, which `skip_space` does not pass);
        no letter directly behind `\item`; what follows the white space is the end of the source or a
        visible character other than `[` (no label; `%` is excluded by `textOk`)
    `labelAt`                   the label exists (`item_default_label` not empty for bullets: Python
        `IndexError` otherwise) and is `labOk`: none of `$ \( $$ \[ \\ { }` (the loop would dispatch
        on it), no active character, no line break.  Always true for numbered labels
        (`labOk_enumLabel`).
    clean layout (`tex2txt_list`)   `pre` empty or ending with a line break; `w0` = line break; every
        item text starts with a visible character and ends with a line break (`lineBody`); `post`
        follows a line break.  Needed for the EXPLICIT output only: e.g. an item whose first line is
        blank and whose label is empty (real tables: `item_default_label = ['']`) is a pure Action
        line and is deleted; indentation in front of `\end{name}` is deleted with that line.  The
        general form `tex2txt_lists` covers all of this (examples at the end).
    `st1.itemStack = [gen0]`    the singleton `Parser.__init__` installs (`initialState`)
    fuel                        `src.length + 4` (one unit per source character; `parserWork`, the last
        iteration of the loop, two for the nested calls that read a name).  Generous: the example
        needs 60, the theorem asks for 87.
-/
import YalafiVerif.Proofs.Plain
import YalafiVerif.Proofs.PlainUnknown
import YalafiVerif.Proofs.PlainMacro
namespace Yalafi
namespace PlainItem

open M
open PlainMacro (lbr rbr NoBrace argBuffer_brace plainTok_noBrace Shape bodyTxt Simple Mark marksOf
  charsOf delLines tokMarks tokChars)

/-! ### the tokens and the declaration of a list environment -/

def begTok (p : Nat) : Tok := { kind := .xbegin, pos := p, txt := sBegin }
def endTok (p : Nat) : Tok := { kind := .xend, pos := p, txt := sEnd }
def itemTok (p : Nat) : Tok := { kind := .item, pos := p, txt := sItem }
/-- the blank `expand_item` puts in front of and behind a label -/
def spTok (p : Nat) : Tok := mkFix .space p [' ']
/-- the label token -/
def labTok (p : Nat) (lab : Str) : Tok := mkFix .text p lab

/-- the declaration of a list environment the development relies on (as `enumerate` / `itemize`
    in the real tables): it generates item labels, takes no arguments, has no replacement text,
    no extraction text, no handlers, is no equation environment and is not removed -/
def listEnvOk (env : MacroDef) : Bool :=
  env.items.isSome && env.args.isEmpty && env.repl.isEmpty && env.extract.isEmpty &&
  env.handler == .none && env.endFunc == .none && !env.isEqu && !env.remove

structure ListEnvFacts (env : MacroDef) : Prop where
  items : env.items.isSome = true
  args : env.args = []
  repl : env.repl = []
  extract : env.extract = []
  handler : env.handler = .none
  endFunc : env.endFunc = .none
  isEqu : env.isEqu = false
  remove : env.remove = false

theorem listEnvFacts {env : MacroDef} (h : listEnvOk env = true) : ListEnvFacts env := by
  simp only [listEnvOk, Bool.and_eq_true, beq_iff_eq, List.isEmpty_iff, Bool.not_eq_true'] at h
  obtain ⟨⟨⟨⟨⟨⟨⟨h1, h2⟩, h3⟩, h4⟩, h5⟩, h6⟩, h7⟩, h8⟩ := h
  exact ⟨h1, h2, h3, h4, h5, h6, h7, h8⟩

/-- what `begin_environment` / `end_environment` emit for the `\begin` / `\end` token itself -/
def envOut (env : MacroDef) (p : Nat) : Tok :=
  if env.addPars then mkFix .par p [nl, nl] else mkAction p

/-! ### `getEnvironmentName` -/

/-- the tokens of an environment name: plain, never active, not empty -/
def NameToks (T : PTables) (st : PState) (nt : List Tok) : Prop :=
  nt ≠ [] ∧ ∀ t ∈ nt, PlainTok t ∧ (activeChars T st).contains t.txt = false ∧ t.txt ≠ []

theorem plainSeq_of_all (T : PTables) (st : PState) : ∀ (ts : List Tok),
    (∀ t ∈ ts, PlainTok t ∧ (activeChars T st).contains t.txt = false) → PlainSeq T st ts
  | [], _ => trivial
  | t :: ts, h =>
    ⟨(h t (List.mem_cons_self ..)).1, Or.inl (h t (List.mem_cons_self ..)).2,
      plainSeq_of_all T st ts (fun x hx => h x (List.mem_cons_of_mem _ hx))⟩

theorem getTextDirect_plain : ∀ (ts : List Tok), (∀ t ∈ ts, PlainTok t) → getTextDirect ts = bodyTxt ts := by
  intro ts h
  unfold getTextDirect bodyTxt
  rw [List.filter_eq_self.mpr]
  intro t ht
  have := (h t ht).notComment
  simpa using this

/-- (1) the name of an environment is read from its tokens -/
theorem getTextExpanded_name (T : PTables) (fuel : Nat) (nt : List Tok) (st : PState)
    (h : NameToks T st nt) (hf : nt.length + 1 ≤ fuel) :
    getTextExpanded T (fuel + 1) nt st = .ok (bodyTxt nt, st) := by
  rw [getTextExpanded.eq_2]
  have hs := seq_plain_id T st none nt fuel hf
    (plainSeq_of_all T st nt (fun t ht => ⟨(h.2 t ht).1, (h.2 t ht).2.1⟩)) (fun t ht => (h.2 t ht).2.2)
  refine (M.bind_ok _ _ _ _ _ hs).trans ?_
  show Outcome.ok _ = _
  rw [getTextDirect_plain nt (fun t ht => (h.2 t ht).1)]

/-- (1) **`getEnvironmentName` on `{name}`**: the name, the buffer behind the closing brace, the
    state unchanged -/
theorem getEnvironmentName_braced (T : PTables) (fuel : Nat) (p q : Nat) (nt : List Tok) (rest : Buf)
    (tok : Tok) (st : PState) (h : NameToks T st nt) (hf : nt.length + 1 ≤ fuel) :
    getEnvironmentName T (fuel + 2) (lbr p :: (nt ++ rbr q :: rest)) tok st
      = .ok ((bodyTxt nt, rest), st) := by
  rw [getEnvironmentName.eq_2]
  refine (M.bind_ok _ _ _ _ _ (argBuffer_brace T.toTables p q nt rest tok.pos st
    (fun t ht => plainTok_noBrace (h.2 t ht).1) h.1)).trans ?_
  refine (M.bind_ok _ _ _ _ _ (getTextExpanded_name T fuel nt st h hf)).trans ?_
  rfl

/-! ### `beginEnvironment`, `endEnvironment`, `expandItem` -/

theorem expandArguments_noargs (T : PTables) (fuel : Nat) (buf : Buf) (mac : MacroDef) (start : Nat)
    (st : PState) (ha : mac.args = []) (hr : mac.repl = []) (he : mac.extract = [])
    (hh : mac.handler = .none) :
    expandArguments T (fuel + 1) buf mac start st = .ok (([mkAction start], buf), st) := by
  rw [expandArguments.eq_2, ha]
  simp only [collectArgs]
  refine (M.bind_ok _ _ _ _ _ (rfl : (pure _ : M (Args × Buf)) st = _)).trans ?_
  simp only [he, hh, hr, List.isEmpty_nil, Bool.not_true, Bool.false_eq_true, if_false,
    show (Handler.none != Handler.none) = false by decide, generateReplacements, initCurPos,
    genReplLoop]
  rfl

/-- the state after `\begin{name}` of a list environment with label style `style` -/
def begSt (st : PState) (name : Str) (style : ItemStyle) : PState :=
  { st with itemStack :=
      { style := style, level := (st.itemStack.filter (·.env == name)).length, count := 0, env := name }
        :: st.itemStack }

/-- the state after `\end{name}` of a list environment -/
def endSt (st : PState) : PState :=
  if st.itemStack.length > 1 then { st with itemStack := st.itemStack.tail } else st

/-- (2) **`beginEnvironment` for a list environment**: a label generator is pushed on `itemStack`
    (level = number of open environments of the same name, counter 0); the output is the paragraph
    break or Action token of `add_pars` and the Action token of the (empty) argument expansion -/
theorem beginEnvironment_list (T : PTables) (fuel : Nat) (p q : Nat) (nt : List Tok) (rest : Buf)
    (tok : Tok) (st : PState) (env : MacroDef) (style : ItemStyle)
    (h : NameToks T st nt) (hf : nt.length + 1 ≤ fuel)
    (hl : lookupEnv st (bodyTxt nt) = some env) (hok : listEnvOk env = true)
    (hs : env.items = some style) :
    beginEnvironment T (fuel + 3) (lbr p :: (nt ++ rbr q :: rest)) tok false st
      = .ok (([envOut env tok.pos, mkAction tok.pos], rest), begSt st (bodyTxt nt) style) := by
  have F := listEnvFacts hok
  rw [beginEnvironment.eq_2]
  refine (M.bind_ok _ _ _ _ _ (getEnvironmentName_braced T fuel p q nt rest tok st h hf)).trans ?_
  refine (M.bind_ok _ _ _ _ _ (rfl : M.get st = _)).trans ?_
  simp only [hl, hs]
  refine (M.bind_ok _ _ _ _ _ (rfl : M.modify _ st = _)).trans ?_
  refine (M.bind_ok _ _ _ _ _ (expandArguments_noargs T (fuel + 1) rest env tok.pos _ F.args F.repl
    F.extract F.handler)).trans ?_
  simp only [F.isEqu, F.remove, Bool.false_eq_true, if_false]
  show Outcome.ok _ = _
  unfold envOut begSt
  split <;> rfl

/-- (4) **`endEnvironment` for a list environment**: the label generator is popped (the bottom
    generator stays); the output is the paragraph break or Action token of `add_pars` -/
theorem endEnvironment_list (T : PTables) (fuel : Nat) (p q : Nat) (nt : List Tok) (rest : Buf)
    (tok : Tok) (st : PState) (env : MacroDef)
    (h : NameToks T st nt) (hf : nt.length + 1 ≤ fuel)
    (hl : lookupEnv st (bodyTxt nt) = some env) (hok : listEnvOk env = true) :
    endEnvironment T (fuel + 3) (lbr p :: (nt ++ rbr q :: rest)) tok none st
      = .ok ((([envOut env tok.pos], false), rest), endSt st) := by
  have F := listEnvFacts hok
  rw [endEnvironment.eq_2]
  refine (M.bind_ok _ _ _ _ _ (getEnvironmentName_braced T fuel p q nt rest tok st h hf)).trans ?_
  refine (M.bind_ok _ _ _ _ _ (rfl : M.get st = _)).trans ?_
  simp only [hl, F.items, F.endFunc, Bool.true_and, beq_self_eq_true, if_true]
  by_cases hlen : st.itemStack.length > 1
  · simp only [hlen, decide_true, if_true]
    refine (M.bind_ok _ _ _ _ _ (rfl : M.modify _ st = _)).trans ?_
    show Outcome.ok _ = _
    unfold envOut endSt
    rw [if_pos hlen]
    split <;> rfl
  · simp only [hlen, decide_false, Bool.false_eq_true, if_false]
    show Outcome.ok _ = _
    unfold envOut endSt
    rw [if_neg hlen]
    split <;> rfl

/-- the macro `expand_item` hands to `expand_arguments`: `\item` with one optional argument -/
def itemMac : MacroDef :=
  { name := sItem, args := ['O'], repl := [{ kind := .arg 1, pos := 0, txt := "#1".toList }] }

theorem skipSpace_sp : ∀ (sp rest : Buf), (∀ t ∈ sp, isSpaceTok t = true) →
    (∀ t, rest.head? = some t → isSpaceTok t = false) → skipSpace (sp ++ rest) = rest
  | [], rest, _, hr => by
    cases rest with
    | nil => rfl
    | cons t ts => exact PlainMacro.skipSpace_cons_of_not t ts (hr t rfl)
  | s :: sp, rest, hs, hr => by
    have h1 : isSpaceTok s = true := hs s (List.mem_cons_self ..)
    have := skipSpace_sp sp rest (fun x hx => hs x (List.mem_cons_of_mem _ hx)) hr
    simp only [skipSpace] at this ⊢
    simp [h1, this]

theorem skippedLangs_sp : ∀ (sp rest : Buf), (∀ t ∈ sp, isSpaceTok t = true ∧ isLangK t = false) →
    (∀ t, rest.head? = some t → isSpaceTok t = false) → skippedLangs (sp ++ rest) = []
  | [], rest, _, hr => by
    cases rest with
    | nil => rfl
    | cons t ts => exact PlainMacro.skippedLangs_cons_of_not t ts (hr t rfl)
  | s :: sp, rest, hs, hr => by
    obtain ⟨h1, h2⟩ := hs s (List.mem_cons_self ..)
    have := skippedLangs_sp sp rest (fun x hx => hs x (List.mem_cons_of_mem _ hx)) hr
    simp only [skippedLangs] at this ⊢
    simp [h1, h2, this]

/-- `collectArgs` for `\item` without `[label]`: the white space behind `\item` is skipped, the
    (empty) default is stored -/
theorem collectArgs_item (T : PTables) (sp rest : Buf) (start : Nat) (st : PState)
    (hsp : ∀ t ∈ sp, isSpaceTok t = true ∧ isLangK t = false)
    (hns : ∀ t, rest.head? = some t → isSpaceTok t = false)
    (hbr : ∀ t, rest.head? = some t → txtIs t "[" = false) :
    collectArgs T itemMac ['O'] 0 (sp ++ rest) start {} st
      = .ok (({ args := [[]], extr := [[]], langs := [] }, rest), st) := by
  have h1 := skipSpace_sp sp rest (fun t ht => (hsp t ht).1) hns
  have h2 := skippedLangs_sp sp rest hsp hns
  rw [collectArgs]
  simp only [h1, h2, show ('O' == '*') = false by decide, beq_self_eq_true, if_true,
    Bool.false_eq_true, if_false, List.append_nil]
  rw [collectArgs]
  cases hh : rest.head? with
  | none => rfl
  | some t =>
    have hnv : txtIsNV t "[" = false := by
      have := hbr t hh
      simp only [txtIs] at this
      simp only [txtIsNV, this, Bool.and_false]
    simp only [hnv, Bool.false_eq_true, if_false]
    rfl

theorem expandArguments_item (T : PTables) (fuel : Nat) (sp rest : Buf) (start : Nat) (st : PState)
    (hsp : ∀ t ∈ sp, isSpaceTok t = true ∧ isLangK t = false)
    (hns : ∀ t, rest.head? = some t → isSpaceTok t = false)
    (hbr : ∀ t, rest.head? = some t → txtIs t "[" = false) :
    expandArguments T (fuel + 1) (sp ++ rest) itemMac start st = .ok (([mkAction start], rest), st) := by
  rw [expandArguments.eq_2]
  refine (M.bind_ok _ _ _ _ _ (collectArgs_item T sp rest start st hsp hns hbr)).trans ?_
  rfl

/-- the state after an `\item` without label -/
def itemSt (st : PState) : PState :=
  match st.itemStack with
  | g :: gs => { st with itemStack := { g with count := g.count + 1 } :: gs }
  | [] => st

/-- (3) **`expandItem` for an item without `[label]`**: the white space behind `\item` is skipped;
    the output is an Action token, a blank, the next label of the innermost generator and a blank,
    all fixed at the position of `\item`; the counter of the generator is incremented -/
theorem expandItem_nolabel (T : PTables) (fuel : Nat) (sp rest : Buf) (tok : Tok) (out : List Tok)
    (st : PState) (g : ItemGen) (gs : List ItemGen) (lab : Str)
    (hsp : ∀ t ∈ sp, isSpaceTok t = true ∧ isLangK t = false)
    (hns : ∀ t, rest.head? = some t → isSpaceTok t = false)
    (hbr : ∀ t, rest.head? = some t → txtIs t "[" = false)
    (hst : st.itemStack = g :: gs) (hlab : itemLabel T.itemDefaultLabel g = some lab) :
    expandItem T (fuel + 2) (sp ++ rest) tok out st
      = .ok (([mkAction tok.pos, spTok tok.pos, labTok tok.pos lab, spTok tok.pos], rest), itemSt st) := by
  rw [expandItem.eq_2]
  refine (M.bind_ok _ _ _ _ _ (expandArguments_item T fuel sp rest tok.pos st hsp hns hbr)).trans ?_
  have hall : ([mkAction tok.pos].all fun t => t.kind == Kind.action || isLangK t) = true := rfl
  simp only [hall, if_true]
  refine (M.bind_ok _ _ _ _ _ (rfl : M.get st = _)).trans ?_
  simp only [hst, hlab]
  refine (M.bind_ok _ _ _ _ _ (rfl : M.modify _ st = _)).trans ?_
  show Outcome.ok _ = _
  simp only [itemSt, hst]
  rfl

/-! ### the steps of `expandSequence` -/

theorem not_active_long (T : PTables) (st : PState) (s : Str) (h : 2 ≤ s.length) :
    (activeChars T st).contains s = false := by
  cases hc : (activeChars T st).contains s with
  | false => rfl
  | true =>
    have := activeChars_length T st _ (List.contains_iff_mem.mp hc)
    omega

/-- the token `begin_environment` / `end_environment` emit is copied by the loop -/
theorem seq_envOut_step (T : PTables) (fuel : Nat) (env : MacroDef) (p : Nat) (rest : Buf)
    (envStop : Option Str) (out : List Tok) (st : PState) (ha : noEmptyActive T st = true) :
    expandSequence T (fuel + 1) (envOut env p :: rest) envStop out st
      = expandSequence T fuel rest envStop (out ++ [envOut env p]) st := by
  unfold envOut
  split
  · refine seq_plain_step T fuel _ rest envStop out st ?_ (Or.inl (not_active_long T st _ (by simp [mkFix])))
    exact ⟨Or.inr (Or.inr rfl), rfl, rfl, rfl, rfl, rfl, rfl, rfl⟩
  · exact seq_action_step T fuel p rest envStop out st ha

/-- a label that `expand_sequence` copies and the blank-line removal leaves alone: none of the
    texts the loop dispatches on, no active character, no line break -/
def labOk (T : PTables) (st : PState) (lab : Str) : Bool :=
  lab != "$".toList && lab != "\\(".toList && lab != "$$".toList && lab != "\\[".toList &&
  lab != "\\\\".toList && lab != "{".toList && lab != "}".toList &&
  !(activeChars T st).contains lab && !hasNl lab

theorem labOk_facts {T : PTables} {st : PState} {lab : Str} (h : labOk T st lab = true) (p : Nat) :
    PlainTok (labTok p lab) ∧ (activeChars T st).contains lab = false ∧ hasNl lab = false := by
  simp only [labOk, Bool.and_eq_true, bne_iff_ne, ne_eq, Bool.not_eq_true'] at h
  obtain ⟨⟨⟨⟨⟨⟨⟨⟨h1, h2⟩, h3⟩, h4⟩, h5⟩, h6⟩, h7⟩, h8⟩, h9⟩ := h
  refine ⟨⟨Or.inl rfl, ?_, ?_, ?_, ?_, ?_, ?_, ?_⟩, h8, h9⟩ <;>
    simp only [txtIs, labTok, mkFix, beq_eq_false_iff_ne, ne_eq] <;> assumption

theorem spTok_plain (p : Nat) : PlainTok (spTok p) :=
  ⟨Or.inr (Or.inl rfl), rfl, rfl, rfl, rfl, rfl, rfl, rfl⟩

theorem noEmptyActive_of_lang {T : PTables} {st st' : PState} (hl : st'.langStack = st.langStack)
    (ha : noEmptyActive T st = true) : noEmptyActive T st' = true :=
  (noEmptyActive_congr T st st' hl).trans ha

/-- **`\\begin{name}` in the loop**: three iterations (the `\\begin` token, then the two tokens it
    leaves); the generator is pushed -/
theorem seq_beg_step (T : PTables) (fuel : Nat) (p q1 q2 : Nat) (nt : List Tok) (rest : Buf)
    (envStop : Option Str) (out : List Tok) (st : PState) (env : MacroDef) (style : ItemStyle)
    (h : NameToks T st nt) (hf : nt.length + 2 ≤ fuel)
    (hl : lookupEnv st (bodyTxt nt) = some env) (hok : listEnvOk env = true)
    (hs : env.items = some style) (ha : noEmptyActive T st = true) :
    expandSequence T (fuel + 3) (begTok p :: lbr q1 :: (nt ++ rbr q2 :: rest)) envStop out st
      = expandSequence T fuel rest envStop (out ++ [envOut env p, mkAction p])
          (begSt st (bodyTxt nt) style) := by
  obtain ⟨f, rfl⟩ : ∃ f, fuel = f + 1 := ⟨fuel - 1, by omega⟩
  rw [expandSequence.eq_3]
  show M.bind' M.get _ st = _
  simp only [M.bind', M.get]
  have hk : (begTok p).kind = .xbegin := rfl
  simp only [hk, beq_self_eq_true, if_true]
  refine (M.bind_ok _ _ _ _ _ (beginEnvironment_list T f q1 q2 nt rest (begTok p) st env style h
    (by omega) hl hok hs)).trans ?_
  have ha' : noEmptyActive T (begSt st (bodyTxt nt) style) = true :=
    noEmptyActive_of_lang (st := st) rfl ha
  show expandSequence T (f + 2 + 1) (envOut env p :: mkAction p :: rest) envStop out _ = _
  rw [seq_envOut_step T (f + 2) env p _ envStop out _ ha',
    seq_action_step T (f + 1) p rest envStop _ _ ha']
  simp

/-- **`\\end{name}` in the loop**: two iterations; the generator is popped -/
theorem seq_end_step (T : PTables) (fuel : Nat) (p q1 q2 : Nat) (nt : List Tok) (rest : Buf)
    (out : List Tok) (st : PState) (env : MacroDef)
    (h : NameToks T st nt) (hf : nt.length + 3 ≤ fuel)
    (hl : lookupEnv st (bodyTxt nt) = some env) (hok : listEnvOk env = true)
    (ha : noEmptyActive T st = true) :
    expandSequence T (fuel + 2) (endTok p :: lbr q1 :: (nt ++ rbr q2 :: rest)) none out st
      = expandSequence T fuel rest none (out ++ [envOut env p]) (endSt st) := by
  obtain ⟨f, rfl⟩ : ∃ f, fuel = f + 2 := ⟨fuel - 2, by omega⟩
  rw [expandSequence.eq_3]
  show M.bind' M.get _ st = _
  simp only [M.bind', M.get]
  have hk : (endTok p).kind = .xend := rfl
  simp only [hk, beq_self_eq_true, if_true, reduceCtorEq, beq_iff_eq, if_false]
  refine (M.bind_ok _ _ _ _ _ (endEnvironment_list T f q1 q2 nt rest (endTok p) st env h
    (by omega) hl hok)).trans ?_
  have ha' : noEmptyActive T (endSt st) = true := by
    refine noEmptyActive_of_lang (st := st) ?_ ha
    unfold endSt; split <;> rfl
  simp only [Bool.false_eq_true, if_false]
  show expandSequence T (f + 2 + 1) (envOut env p :: rest) none out _ = _
  exact seq_envOut_step T (f + 2) env p rest none out _ ha'

/-- **`\\item` in the loop**: five iterations (the `\\item` token, then the four tokens it leaves) -/
theorem seq_item_step (T : PTables) (fuel : Nat) (p : Nat) (sp rest : Buf) (envStop : Option Str)
    (out : List Tok) (st : PState) (g : ItemGen) (gs : List ItemGen) (lab : Str)
    (hsp : ∀ t ∈ sp, isSpaceTok t = true ∧ isLangK t = false)
    (hns : ∀ t, rest.head? = some t → isSpaceTok t = false)
    (hbr : ∀ t, rest.head? = some t → txtIs t "[" = false)
    (hst : st.itemStack = g :: gs) (hlab : itemLabel T.itemDefaultLabel g = some lab)
    (hlok : labOk T st lab = true) (ha : noEmptyActive T st = true)
    (hb : (activeChars T st).contains [' '] = false) :
    expandSequence T (fuel + 5) (itemTok p :: (sp ++ rest)) envStop out st
      = expandSequence T fuel rest envStop (out ++ [mkAction p, spTok p, labTok p lab, spTok p])
          (itemSt st) := by
  rw [expandSequence.eq_3]
  show M.bind' M.get _ st = _
  simp only [M.bind', M.get]
  have hk : (itemTok p).kind = .item := rfl
  simp only [hk, beq_self_eq_true, if_true, reduceCtorEq, beq_iff_eq, if_false]
  refine (M.bind_ok _ _ _ _ _ (expandItem_nolabel T (fuel + 2) sp rest (itemTok p) out st g gs lab
    hsp hns hbr hst hlab)).trans ?_
  have hlang : (itemSt st).langStack = st.langStack := by
    unfold itemSt; split <;> rfl
  have ha' : noEmptyActive T (itemSt st) = true := noEmptyActive_of_lang hlang ha
  have hb' : (activeChars T (itemSt st)).contains [' '] = false := by
    rw [activeChars_congr T st _ hlang]; exact hb
  obtain ⟨l1, l2, _⟩ := labOk_facts hlok p
  have l2' : (activeChars T (itemSt st)).contains (labTok p lab).txt = false := by
    rw [activeChars_congr T st _ hlang]; exact l2
  show expandSequence T (fuel + 3 + 1)
    (mkAction p :: spTok p :: labTok p lab :: spTok p :: rest) envStop out _ = _
  rw [seq_action_step T (fuel + 3) p _ envStop out _ ha',
    seq_plain_step T (fuel + 2) (spTok p) _ envStop _ _ (spTok_plain p) (Or.inl hb'),
    seq_plain_step T (fuel + 1) (labTok p lab) _ envStop _ _ l1 (Or.inl l2'),
    seq_plain_step T fuel (spTok p) _ envStop _ _ (spTok_plain p) (Or.inl hb')]
  simp

/-! ### the token buffers -/

/-- the pieces of a token buffer: a token that is copied, `\\begin { name }`, `\\item` with the
    white-space tokens behind it, `\\end { name }` -/
inductive Piece where
  | tok (t : Tok)
  | beg (p q1 q2 : Nat) (nt : List Tok)
  | item (p : Nat) (sp : List Tok)
  | en (p q1 q2 : Nat) (nt : List Tok)

def Piece.toks : Piece → List Tok
  | .tok t => [t]
  | .beg p q1 q2 nt => begTok p :: lbr q1 :: (nt ++ [rbr q2])
  | .item p sp => itemTok p :: sp
  | .en p q1 q2 nt => endTok p :: lbr q1 :: (nt ++ [rbr q2])

/-- the token buffer -/
def flat : List Piece → List Tok
  | [] => []
  | p :: ps => p.toks ++ flat ps

/-! The label generators: `itemStack` as a list, top first.  The environment table is the one of
    the initialised parser `st1` (it does not change). -/

/-- the declaration of `name` in `st1` -/
def envOf (st1 : PState) (name : Str) : MacroDef := (lookupEnv st1 name).getD default
/-- the label style of the environment `name` -/
def styleOf (st1 : PState) (name : Str) : ItemStyle := (envOf st1 name).items.getD .dflt

/-- `name` is declared as a list environment (`listEnvOk`) in `st1` -/
def listEnvAt (st1 : PState) (name : Str) : Bool :=
  match lookupEnv st1 name with
  | some env => listEnvOk env
  | none => false

/-- `\\begin{name}`: push a generator; the level is the number of open environments of that name -/
def begStk (st1 : PState) (stk : List ItemGen) (name : Str) : List ItemGen :=
  { style := styleOf st1 name, level := (stk.filter (·.env == name)).length, count := 0, env := name } :: stk
/-- `\\item`: the counter of the innermost generator advances -/
def itemStk : List ItemGen → List ItemGen
  | g :: gs => { g with count := g.count + 1 } :: gs
  | [] => []
/-- `\\end{name}`: pop, but never the last generator -/
def endStk (stk : List ItemGen) : List ItemGen := if stk.length > 1 then stk.tail else stk
/-- the label the next `\\item` gets -/
def labOf (T : PTables) (stk : List ItemGen) : Str :=
  match stk with
  | g :: _ => (itemLabel T.itemDefaultLabel g).getD []
  | [] => []
/-- the next label exists (no `IndexError`) and is fine (`labOk`) -/
def labelAt (T : PTables) (st1 : PState) (stk : List ItemGen) : Bool :=
  match stk with
  | g :: _ =>
    match itemLabel T.itemDefaultLabel g with
    | some lab => labOk T st1 lab
    | none => false
  | [] => false

/-- the head of the buffer behind `\\item` and its white space: no further white space, no `[` -/
def HeadOk (rest : Buf) : Prop :=
  (∀ t, rest.head? = some t → isSpaceTok t = false) ∧ (∀ t, rest.head? = some t → txtIs t "[" = false)

def PiecesOk (T : PTables) (st1 : PState) : List ItemGen → List Piece → Prop
  | _, [] => True
  | stk, .tok t :: rest => PlainTok t ∧ PassTok T st1 t (flat rest) ∧ PiecesOk T st1 stk rest
  | stk, .beg _ _ _ nt :: rest =>
    NameToks T st1 nt ∧ listEnvAt st1 (bodyTxt nt) = true ∧
      PiecesOk T st1 (begStk st1 stk (bodyTxt nt)) rest
  | stk, .item _ sp :: rest =>
    (∀ t ∈ sp, t.kind = .space) ∧ HeadOk (flat rest) ∧
      labelAt T st1 stk = true ∧ PiecesOk T st1 (itemStk stk) rest
  | stk, .en _ _ _ nt :: rest =>
    NameToks T st1 nt ∧ listEnvAt st1 (bodyTxt nt) = true ∧ PiecesOk T st1 (endStk stk) rest

/-- what `expandSequence` emits for the pieces before the blank-line removal -/
def outP (T : PTables) (st1 : PState) : List ItemGen → List Piece → List Tok
  | _, [] => []
  | stk, .tok t :: rest => t :: outP T st1 stk rest
  | stk, .beg p _ _ nt :: rest =>
    envOut (envOf st1 (bodyTxt nt)) p :: mkAction p :: outP T st1 (begStk st1 stk (bodyTxt nt)) rest
  | stk, .item p _ :: rest =>
    mkAction p :: spTok p :: labTok p (labOf T stk) :: spTok p :: outP T st1 (itemStk stk) rest
  | stk, .en p _ _ nt :: rest => envOut (envOf st1 (bodyTxt nt)) p :: outP T st1 (endStk stk) rest

/-- the generators after the pieces -/
def finalStk (st1 : PState) : List ItemGen → List Piece → List ItemGen
  | stk, [] => stk
  | stk, .tok _ :: rest => finalStk st1 stk rest
  | stk, .beg _ _ _ nt :: rest => finalStk st1 (begStk st1 stk (bodyTxt nt)) rest
  | stk, .item _ _ :: rest => finalStk st1 (itemStk stk) rest
  | stk, .en _ _ _ _ :: rest => finalStk st1 (endStk stk) rest

/-- iterations of `expandSequence` (plus the nested calls that read an environment name) -/
def cost : List Piece → Nat
  | [] => 0
  | .tok _ :: rest => 1 + cost rest
  | .beg _ _ _ nt :: rest => 3 + nt.length + cost rest
  | .item _ _ :: rest => 5 + cost rest
  | .en _ _ _ nt :: rest => 2 + nt.length + cost rest

/-- the parser state while the document is expanded, relative to the initialised state `st1` -/
structure StOk (st1 st : PState) (stk : List ItemGen) : Prop where
  lang : st.langStack = st1.langStack
  envs : st.envs = st1.envs
  stack : st.itemStack = stk

theorem NameToks.congr {T : PTables} {st st' : PState} (hl : st'.langStack = st.langStack)
    {nt : List Tok} (h : NameToks T st nt) : NameToks T st' nt :=
  ⟨h.1, fun t ht => ⟨(h.2 t ht).1, by rw [activeChars_congr T st st' hl]; exact (h.2 t ht).2.1,
    (h.2 t ht).2.2⟩⟩

theorem listEnvAt_facts {st1 : PState} {name : Str} (h : listEnvAt st1 name = true) :
    lookupEnv st1 name = some (envOf st1 name) ∧ listEnvOk (envOf st1 name) = true ∧
    (envOf st1 name).items = some (styleOf st1 name) := by
  unfold listEnvAt at h
  unfold styleOf envOf
  cases hl : lookupEnv st1 name with
  | none => rw [hl] at h; cases h
  | some env =>
    rw [hl] at h
    simp only [Option.getD_some]
    refine ⟨trivial, h, ?_⟩
    have := (listEnvFacts h).items
    cases hi : env.items with
    | none => rw [hi] at this; cases this
    | some s => rfl

/-- (5) **the loop on a buffer of plain tokens, `\\begin{…}`, `\\item`, `\\end{…}` of list
    environments.**  The output is the blank-line removal applied to `outP`, the generators are
    `finalStk`, nothing else in the state changes.  Fuel: `cost` plus three. -/
theorem seq_list (T : PTables) (st1 : PState) (ha : noEmptyActive T st1 = true)
    (hb : (activeChars T st1).contains [' '] = false) :
    ∀ (ps : List Piece) (fuel : Nat) (out : List Tok) (st : PState) (stk : List ItemGen),
      cost ps + 3 ≤ fuel → PiecesOk T st1 stk ps → StOk st1 st stk →
      expandSequence T fuel (flat ps) none out st
        = match removeLines (out ++ outP T st1 stk ps) with
          | some r => .ok ((r, []), { st with itemStack := finalStk st1 stk ps })
          | none => .outOfFuel := by
  intro ps
  induction ps with
  | nil =>
    intro fuel out st stk hf _ hst
    obtain ⟨f, rfl⟩ : ∃ f, fuel = f + 1 := ⟨fuel - 1, by omega⟩
    simp only [flat, outP, finalStk, List.append_nil]
    rw [expandSequence.eq_2, ← hst.stack]
    cases removeLines out <;> rfl
  | cons pc ps ih =>
    intro fuel out st stk hf hok hst
    have ha' : noEmptyActive T st = true := noEmptyActive_of_lang hst.lang ha
    cases pc with
    | tok t =>
      simp only [cost] at hf
      obtain ⟨f, rfl⟩ : ∃ f, fuel = f + 1 := ⟨fuel - 1, by omega⟩
      simp only [flat, Piece.toks, List.singleton_append]
      rw [seq_plain_step T f t (flat ps) none out st hok.1 (PlainMacro.PassTok_congr hst.lang hok.2.1),
        ih f (out ++ [t]) st stk (by omega) hok.2.2 hst]
      simp only [outP, finalStk, List.append_assoc, List.singleton_append]
    | beg p q1 q2 nt =>
      obtain ⟨hn, hle, hrest⟩ := hok
      obtain ⟨e1, e2, e3⟩ := listEnvAt_facts hle
      simp only [cost] at hf
      obtain ⟨f, rfl⟩ : ∃ f, fuel = f + 3 := ⟨fuel - 3, by omega⟩
      have hflat : flat (Piece.beg p q1 q2 nt :: ps) = begTok p :: lbr q1 :: (nt ++ rbr q2 :: flat ps) := by
        simp [flat, Piece.toks]
      have hl : lookupEnv st (bodyTxt nt) = some (envOf st1 (bodyTxt nt)) := by
        rw [← e1]; simp only [lookupEnv, hst.envs]
      have hst' : StOk st1 (begSt st (bodyTxt nt) (styleOf st1 (bodyTxt nt))) (begStk st1 stk (bodyTxt nt)) :=
        ⟨hst.lang, hst.envs, by simp only [begSt, begStk, hst.stack]⟩
      rw [hflat, seq_beg_step T f p q1 q2 nt (flat ps) none out st _ _ (hn.congr hst.lang) (by omega) hl e2 e3 ha',
        ih f _ _ _ (by omega) hrest hst']
      simp only [outP, finalStk, List.append_assoc, List.cons_append, List.nil_append, begSt]
    | item p sp =>
      obtain ⟨hsp0, hhd, hlab, hrest⟩ := hok
      have hsp : ∀ t ∈ sp, isSpaceTok t = true ∧ isLangK t = false := fun t ht => by
        simp [isSpaceTok, isLangK, hsp0 t ht]
      simp only [cost] at hf
      obtain ⟨f, rfl⟩ : ∃ f, fuel = f + 5 := ⟨fuel - 5, by omega⟩
      have hflat : flat (Piece.item p sp :: ps) = itemTok p :: (sp ++ flat ps) := by
        simp [flat, Piece.toks]
      cases stk with
      | nil => simp [labelAt] at hlab
      | cons g gs =>
        cases hil : itemLabel T.itemDefaultLabel g with
        | none => simp [labelAt, hil] at hlab
        | some lab =>
          have hlok : labOk T st1 lab = true := by simpa [labelAt, hil] using hlab
          have hlok' : labOk T st lab = true := by
            rw [← hlok]; simp only [labOk, activeChars_congr T st1 st hst.lang]
          have hb' : (activeChars T st).contains [' '] = false := by
            rw [activeChars_congr T st1 st hst.lang]; exact hb
          have hst' : StOk st1 (itemSt st) (itemStk (g :: gs)) :=
            ⟨by rw [← hst.lang]; unfold itemSt; split <;> rfl,
             by rw [← hst.envs]; unfold itemSt; split <;> rfl,
             by simp only [itemSt, hst.stack, itemStk]⟩
          rw [hflat, seq_item_step T f p sp (flat ps) none out st g gs lab hsp hhd.1 hhd.2 hst.stack hil
              hlok' ha' hb',
            ih f _ _ _ (by omega) hrest hst']
          simp only [outP, finalStk, labOf, hil, Option.getD_some, List.append_assoc, List.cons_append,
            List.nil_append, itemSt, hst.stack]
    | en p q1 q2 nt =>
      obtain ⟨hn, hle, hrest⟩ := hok
      obtain ⟨e1, e2, _⟩ := listEnvAt_facts hle
      simp only [cost] at hf
      obtain ⟨f, rfl⟩ : ∃ f, fuel = f + 2 := ⟨fuel - 2, by omega⟩
      have hflat : flat (Piece.en p q1 q2 nt :: ps) = endTok p :: lbr q1 :: (nt ++ rbr q2 :: flat ps) := by
        simp [flat, Piece.toks]
      have hl : lookupEnv st (bodyTxt nt) = some (envOf st1 (bodyTxt nt)) := by
        rw [← e1]; simp only [lookupEnv, hst.envs]
      have hst' : StOk st1 (endSt st) (endStk stk) := by
        unfold endSt endStk
        rw [hst.stack]
        split
        · exact ⟨hst.lang, hst.envs, rfl⟩
        · exact hst
      rw [hflat, seq_end_step T f p q1 q2 nt (flat ps) out st _ (hn.congr hst.lang) (by omega) hl e2 ha',
        ih f _ _ _ (by omega) hrest hst']
      simp only [outP, finalStk, List.append_assoc, List.cons_append, List.nil_append]
      cases removeLines (out ++ envOut (envOf st1 (bodyTxt nt)) p :: outP T st1 (endStk stk) ps) with
      | none => rfl
      | some r =>
        simp only [endSt, endStk, hst.stack]
        split <;> rfl

/-! ### the scanner at `\\begin`, `\\end`, `\\item` -/

def nBegin : Str := ['b', 'e', 'g', 'i', 'n']
def nEnd : Str := ['e', 'n', 'd']
def nItem : Str := ['i', 't', 'e', 'm']

theorem sBegin_eq : sBegin = '\\' :: nBegin := by decide
theorem sEnd_eq : sEnd = '\\' :: nEnd := by decide
theorem sItem_eq : sItem = '\\' :: nItem := by decide

/-- `\\begin` in front of `{` that does not open `{verbatim}` is the Begin token -/
theorem nextToken_begin (T : PTables) (src : Str) (pos : Nat) (X : Str)
    (h1 : matchSpecial T.toTables ('\\' :: (nBegin ++ '{' :: X)) = none)
    (h2 : startsWith ('{' :: X) sVerbatimArg = false) :
    nextToken T.toTables src pos ('\\' :: (nBegin ++ '{' :: X)) = { tok := begTok pos, len := 6 } := by
  have htw : (nBegin ++ '{' :: X).takeWhile macroChar = nBegin :=
    takeWhile_append_stop _ _ _ (by decide) rfl
  have hlen : macroLen ('\\' :: (nBegin ++ '{' :: X)) = 6 := by
    simp only [macroLen, List.tail_cons, htw]; rfl
  have htake : ('\\' :: (nBegin ++ '{' :: X)).take 6 = sBegin := by
    rw [sBegin_eq]; rfl
  have hdrop : ('\\' :: (nBegin ++ '{' :: X)).drop 6 = '{' :: X := rfl
  unfold nextToken
  simp only [show isSpace '\\' = false by decide, Bool.false_eq_true, if_false,
    show ('\\' == '%') = false by decide, show ('\\' == '#') = false by decide, h1,
    beq_self_eq_true, if_true, scanMacro, hlen, htake, scanVerbatim, hdrop,
    show ('{' :: X).takeWhile isSpace = [] by simp [show isSpace '{' = false by decide],
    List.length_nil, Nat.add_zero, h2, countNl, begTok]
  simp

/-- `\\end` in front of `{` is the End token -/
theorem nextToken_end (T : PTables) (src : Str) (pos : Nat) (X : Str)
    (h1 : matchSpecial T.toTables ('\\' :: (nEnd ++ '{' :: X)) = none) :
    nextToken T.toTables src pos ('\\' :: (nEnd ++ '{' :: X)) = { tok := endTok pos, len := 4 } := by
  have htw : (nEnd ++ '{' :: X).takeWhile macroChar = nEnd :=
    takeWhile_append_stop _ _ _ (by decide) rfl
  have hlen : macroLen ('\\' :: (nEnd ++ '{' :: X)) = 4 := by
    simp only [macroLen, List.tail_cons, htw]; rfl
  have htake : ('\\' :: (nEnd ++ '{' :: X)).take 4 = sEnd := by
    rw [sEnd_eq]; rfl
  unfold nextToken
  simp only [show isSpace '\\' = false by decide, Bool.false_eq_true, if_false,
    show ('\\' == '%') = false by decide, show ('\\' == '#') = false by decide, h1,
    beq_self_eq_true, if_true, scanMacro, hlen, htake, endTok,
    show (sEnd == sBegin) = false by decide]

/-- `\\item` in front of a character that does not continue the name is the Item token -/
theorem nextToken_item (T : PTables) (src : Str) (pos : Nat) (X : Str)
    (h1 : matchSpecial T.toTables ('\\' :: (nItem ++ X)) = none)
    (h2 : X.head?.all (fun d => !macroChar d) = true) :
    nextToken T.toTables src pos ('\\' :: (nItem ++ X)) = { tok := itemTok pos, len := 5 } := by
  have htw : (nItem ++ X).takeWhile macroChar = nItem :=
    takeWhile_append_stop _ _ _ (by decide) h2
  have hlen : macroLen ('\\' :: (nItem ++ X)) = 5 := by
    simp only [macroLen, List.tail_cons, htw]; rfl
  have htake : ('\\' :: (nItem ++ X)).take 5 = sItem := by
    rw [sItem_eq]; rfl
  unfold nextToken
  simp only [show isSpace '\\' = false by decide, Bool.false_eq_true, if_false,
    show ('\\' == '%') = false by decide, show ('\\' == '#') = false by decide, h1,
    beq_self_eq_true, if_true, scanMacro, hlen, htake, itemTok,
    show (sItem == sBegin) = false by decide, show (sItem == sEnd) = false by decide]

/-- the white-space token behind `\\item` (none if nothing is there) -/
def wsToks (q : Nat) (ws : Str) : List Tok :=
  if ws.isEmpty then [] else [{ kind := .space, pos := q, txt := ws }]

/-- a run of white space with at most one line break, in front of a visible character, is one
    space token -/
theorem nextToken_ws (T : PTables) (src : Str) (pos : Nat) (c : Char) (ws X : Str)
    (hc : isSpace c = true) (hws : ws.all isSpace = true) (hnl : countNl (c :: ws) < 2)
    (hX : X.head?.all (fun d => !isSpace d) = true) :
    nextToken T.toTables src pos (c :: (ws ++ X))
      = { tok := { kind := .space, pos := pos, txt := c :: ws }, len := ws.length + 1 } := by
  have htw : (c :: (ws ++ X)).takeWhile isSpace = c :: ws := by
    rw [show c :: (ws ++ X) = (c :: ws) ++ X from rfl]
    exact takeWhile_append_stop _ _ _ (by simp [hc, hws]) hX
  unfold nextToken
  simp only [hc, if_true, scanSpace, htw, hnl, List.length_cons]

/-! ### the documents -/

/-- a segment of the source: a run of text, `\\begin{name}`, `\\item` with the white space behind
    it, `\\end{name}` -/
inductive Seg where
  | txt (s : Str)
  | beg (name : Str)
  | item (ws : Str)
  | en (name : Str)
deriving Repr, DecidableEq

def Seg.render : Seg → Str
  | .txt s => s
  | .beg name => '\\' :: (nBegin ++ '{' :: (name ++ ['}']))
  | .item ws => '\\' :: (nItem ++ ws)
  | .en name => '\\' :: (nEnd ++ '{' :: (name ++ ['}']))

/-- the source text -/
def render : List Seg → Str
  | [] => []
  | s :: rest => s.render ++ render rest

open PlainMacro (braceAt)

/-- `\\begin{name}`, followed by `R`: no special sequence matches at the backslash; it does not
    open `\\begin{verbatim}`; both braces are scanned as such; the name is a non-empty string of
    inert characters; `name` is declared as a list environment -/
def begOk (T : PTables) (st : PState) (name R : Str) : Bool :=
  (matchSpecial T.toTables ('\\' :: (nBegin ++ '{' :: (name ++ '}' :: R)))).isNone &&
  !startsWith ('{' :: (name ++ '}' :: R)) sVerbatimArg &&
  braceAt T '{' (name ++ '}' :: R) &&
  !name.isEmpty && name.all (inertChar T st) &&
  braceAt T '}' R && listEnvAt st name

/-- `\\end{name}`, followed by `R` -/
def endOk (T : PTables) (st : PState) (name R : Str) : Bool :=
  (matchSpecial T.toTables ('\\' :: (nEnd ++ '{' :: (name ++ '}' :: R)))).isNone &&
  braceAt T '{' (name ++ '}' :: R) &&
  !name.isEmpty && name.all (inertChar T st) &&
  braceAt T '}' R && listEnvAt st name

/-- `\\item` and the white space `ws` behind it, followed by `R`: no special sequence matches at the
    backslash; `ws` is white space with at most one line break (two would be a paragraph break,
    which `skip_space` does not pass); the character behind `\\item` does not continue the macro
    name; `R` is empty or starts with a visible character that is not `[` (no label) -/
def itemOk (T : PTables) (ws R : Str) : Bool :=
  (matchSpecial T.toTables ('\\' :: (nItem ++ (ws ++ R)))).isNone &&
  ws.all isSpace && decide (countNl ws < 2) &&
  (ws ++ R).head?.all (fun d => !macroChar d) &&
  R.head?.all (fun d => !isSpace d && d != '[')

/-- well-formed documents: every segment is fine in front of the rendering of the following ones
    (`textOk` of Proofs/PlainUnknown.lean for the text), and every `\\item` finds a label -/
def segsOk (T : PTables) (st : PState) : List ItemGen → List Seg → Bool
  | _, [] => true
  | stk, .txt s :: rest => textOk T st s (render rest) && segsOk T st stk rest
  | stk, .beg name :: rest => begOk T st name (render rest) && segsOk T st (begStk st stk name) rest
  | stk, .item ws :: rest =>
    itemOk T ws (render rest) && labelAt T st stk && segsOk T st (itemStk stk) rest
  | stk, .en name :: rest => endOk T st name (render rest) && segsOk T st (endStk stk) rest

/-- the source as a list of text characters and list commands, with their positions -/
inductive Item where
  | chr (c : Char) (p : Nat)
  | beg (p : Nat) (name : Str)
  | item (p : Nat) (ws : Str)
  | en (p : Nat) (name : Str)

def chrItems : Nat → Str → List Item
  | _, [] => []
  | p, c :: cs => .chr c p :: chrItems (p + 1) cs

def itemsOf : Nat → List Seg → List Item
  | _, [] => []
  | p, .txt s :: rest => chrItems p s ++ itemsOf (p + s.length) rest
  | p, .beg name :: rest => .beg p name :: itemsOf (p + (name.length + 8)) rest
  | p, .item ws :: rest => .item p ws :: itemsOf (p + (ws.length + 5)) rest
  | p, .en name :: rest => .en p name :: itemsOf (p + (name.length + 6)) rest

/-- the same on the source text (which starts at position `p`) -/
inductive OkSrc (T : PTables) (st : PState) : List ItemGen → Nat → Str → List Item → Prop
  | nil (stk : List ItemGen) (p : Nat) : OkSrc T st stk p [] []
  | chr (stk : List ItemGen) (p : Nat) (c : Char) (cs : Str) (items : List Item) :
      okAt T st c cs = true → OkSrc T st stk (p + 1) cs items →
      OkSrc T st stk p (c :: cs) (.chr c p :: items)
  | beg (stk : List ItemGen) (p : Nat) (name R : Str) (items : List Item) :
      begOk T st name R = true → OkSrc T st (begStk st stk name) (p + (name.length + 8)) R items →
      OkSrc T st stk p ('\\' :: (nBegin ++ '{' :: (name ++ '}' :: R))) (.beg p name :: items)
  | item (stk : List ItemGen) (p : Nat) (ws R : Str) (items : List Item) :
      itemOk T ws R = true → labelAt T st stk = true →
      OkSrc T st (itemStk stk) (p + (ws.length + 5)) R items →
      OkSrc T st stk p ('\\' :: (nItem ++ (ws ++ R))) (.item p ws :: items)
  | en (stk : List ItemGen) (p : Nat) (name R : Str) (items : List Item) :
      endOk T st name R = true → OkSrc T st (endStk stk) (p + (name.length + 6)) R items →
      OkSrc T st stk p ('\\' :: (nEnd ++ '{' :: (name ++ '}' :: R))) (.en p name :: items)

theorem OkSrc_text (T : PTables) (st : PState) (stk : List ItemGen) (R : Str) (items : List Item) :
    ∀ (s : Str) (p : Nat), OkSrc T st stk (p + s.length) R items → textOk T st s R = true →
      OkSrc T st stk p (s ++ R) (chrItems p s ++ items)
  | [], _, hR, _ => hR
  | c :: cs, p, hR, h => by
    simp only [textOk, Bool.and_eq_true] at h
    have hR' : OkSrc T st stk (p + 1 + cs.length) R items := by
      have e : p + 1 + cs.length = p + (c :: cs).length := by simp; omega
      rw [e]; exact hR
    exact OkSrc.chr stk p c (cs ++ R) _ h.1 (OkSrc_text T st stk R items cs (p + 1) hR' h.2)

theorem OkSrc_of_segsOk (T : PTables) (st : PState) :
    ∀ (segs : List Seg) (stk : List ItemGen) (p : Nat), segsOk T st stk segs = true →
      OkSrc T st stk p (render segs) (itemsOf p segs)
  | [], stk, p, _ => .nil stk p
  | .txt s :: rest, stk, p, h => by
    simp only [segsOk, Bool.and_eq_true] at h
    exact OkSrc_text T st stk _ _ s p (OkSrc_of_segsOk T st rest stk _ h.2) h.1
  | .beg name :: rest, stk, p, h => by
    simp only [segsOk, Bool.and_eq_true] at h
    have := OkSrc.beg stk p name (render rest) _ h.1 (OkSrc_of_segsOk T st rest _ _ h.2)
    simpa [render, Seg.render, itemsOf] using this
  | .item ws :: rest, stk, p, h => by
    simp only [segsOk, Bool.and_eq_true] at h
    have := OkSrc.item stk p ws (render rest) _ h.1.1 h.1.2 (OkSrc_of_segsOk T st rest _ _ h.2)
    simpa [render, Seg.render, itemsOf] using this
  | .en name :: rest, stk, p, h => by
    simp only [segsOk, Bool.and_eq_true] at h
    have := OkSrc.en stk p name (render rest) _ h.1 (OkSrc_of_segsOk T st rest _ _ h.2)
    simpa [render, Seg.render, itemsOf] using this

/-- white space in front can be dropped -/
theorem OkSrc_drop_space (T : PTables) (st : PState) (stk : List ItemGen) :
    ∀ (k : Nat) (p : Nat) (s : Str) (items : List Item), k ≤ s.length → OkSrc T st stk p s items →
      (∀ x ∈ s.take k, isSpace x = true) →
      ∃ items', items = chrItems p (s.take k) ++ items' ∧ OkSrc T st stk (p + k) (s.drop k) items'
  | 0, _, _, items, _, h, _ => ⟨items, rfl, h⟩
  | k + 1, _, [], _, hk, _, _ => by simp at hk
  | k + 1, p, c :: cs, _, hk, h, hsp => by
    have hc : isSpace c = true := hsp c (by simp)
    cases h with
    | chr _ _ _ _ items0 _ h2 =>
      obtain ⟨items', e, h3⟩ := OkSrc_drop_space T st stk k (p + 1) cs items0 (by simpa using hk) h2
        (fun x hx => hsp x (by simp [hx]))
      refine ⟨items', by simp [chrItems, e], ?_⟩
      have e : p + (k + 1) = p + 1 + k := by omega
      rw [e]; exact h3
    | beg _ _ name R _ _ _ => exact absurd hc (by decide)
    | item _ _ ws R _ _ _ _ => exact absurd hc (by decide)
    | en _ _ name R _ _ _ => exact absurd hc (by decide)

/-- the conditions depend on the state only through the language stack and the environment table -/
theorem OkSrc.congr {T : PTables} {st st' : PState} (hl : st'.langStack = st.langStack)
    (he : st'.envs = st.envs) {stk : List ItemGen} {p : Nat} {s : Str} {items : List Item}
    (h : OkSrc T st stk p s items) : OkSrc T st' stk p s items := by
  have hinert : inertChar T st' = inertChar T st := by
    funext c; simp only [inertChar, activeChars_congr T st st' hl]
  have hlk : ∀ n, lookupEnv st' n = lookupEnv st n := fun n => by simp only [lookupEnv, he]
  have hle : ∀ n, listEnvAt st' n = listEnvAt st n := fun n => by simp only [listEnvAt, hlk]
  have hbs : ∀ stk n, begStk st' stk n = begStk st stk n := fun stk n => by
    simp only [begStk, styleOf, envOf, hlk]
  have hla : ∀ stk, labelAt T st' stk = labelAt T st stk := fun stk => by
    simp only [labelAt, labOk, activeChars_congr T st st' hl]
  induction h with
  | nil stk p => exact .nil stk p
  | chr stk p c cs items hat _ ih =>
    refine .chr stk p c cs items ?_ ih
    rw [← hat]
    simp only [okAt, activeChars_congr T st st' hl, shortKeys_congr T st st' hl]
  | beg stk p name R items hd _ ih =>
    refine .beg stk p name R items ?_ (by rw [hbs]; exact ih)
    rw [← hd]
    simp only [begOk, hle, hinert]
  | item stk p ws R items hu hlab _ ih =>
    exact .item stk p ws R items hu (by rw [hla]; exact hlab) ih
  | en stk p name R items hd _ ih =>
    refine .en stk p name R items ?_ ih
    rw [← hd]
    simp only [endOk, hle, hinert]

/-! ### the scanner loop -/

open PlainMacro (scanSteps_step nextToken_brace scanSteps_body BodyRun)

/-- the token buffer (pieces) of a source (items) -/
inductive Link : List Piece → List Item → Prop
  | nil : Link [] []
  | tok (t : Tok) (ps : List Piece) (items : List Item) :
      t.fix = false → Shape t → Link ps items → Link (.tok t :: ps) (chrItems t.pos t.txt ++ items)
  | beg (p q1 q2 : Nat) (name : Str) (nt : List Tok) (ps : List Piece) (items : List Item) :
      bodyTxt nt = name → nt.length ≤ name.length → Link ps items →
      Link (.beg p q1 q2 nt :: ps) (.beg p name :: items)
  | item (p : Nat) (ws : Str) (ps : List Piece) (items : List Item) :
      Link ps items → Link (.item p (wsToks (p + 5) ws) :: ps) (.item p ws :: items)
  | en (p q1 q2 : Nat) (name : Str) (nt : List Tok) (ps : List Piece) (items : List Item) :
      bodyTxt nt = name → nt.length ≤ name.length → Link ps items →
      Link (.en p q1 q2 nt :: ps) (.en p name :: items)

/-- what the scanner loop yields on a well-formed source -/
structure ScanFacts (T : PTables) (st : PState) (stk : List ItemGen) (rest : Str) (items : List Item)
    (steps : List ScanStep) : Prop where
  ok : ∀ s ∈ steps, s.diag = none ∧ s.extra = []
  pieces : ∃ ps, steps.map (·.tok) = flat ps ∧ PiecesOk T st stk ps ∧ Link ps items
  first : ∀ s ss, steps = s :: ss → s.tok.txt = firstTokTxtM rest
  firstNS : rest.head?.all (fun d => !isSpace d) = true → ∀ s ss, steps = s :: ss → isSpaceTok s.tok = false
  len : steps.length ≤ rest.length

theorem ScanFacts_nil (T : PTables) (st : PState) (stk : List ItemGen) : ScanFacts T st stk [] [] [] :=
  ⟨by simp, ⟨[], rfl, trivial, .nil⟩, by simp, by simp, by simp⟩

structure BegFacts (T : PTables) (st : PState) (name R : Str) : Prop where
  special : matchSpecial T.toTables ('\\' :: (nBegin ++ '{' :: (name ++ '}' :: R))) = none
  noverb : startsWith ('{' :: (name ++ '}' :: R)) sVerbatimArg = false
  b1 : braceAt T '{' (name ++ '}' :: R) = true
  ne : name ≠ []
  inert : ∀ c ∈ name, inertChar T st c = true
  b2 : braceAt T '}' R = true
  env : listEnvAt st name = true

theorem begFacts {T : PTables} {st : PState} {name R : Str} (h : begOk T st name R = true) :
    BegFacts T st name R := by
  simp only [begOk, Bool.and_eq_true, Bool.not_eq_true', Option.isNone_iff_eq_none,
    List.all_eq_true] at h
  obtain ⟨⟨⟨⟨⟨⟨h1, h2⟩, h3⟩, h4⟩, h5⟩, h6⟩, h7⟩ := h
  exact ⟨h1, h2, h3, by simpa using h4, h5, h6, h7⟩

structure EndFacts (T : PTables) (st : PState) (name R : Str) : Prop where
  special : matchSpecial T.toTables ('\\' :: (nEnd ++ '{' :: (name ++ '}' :: R))) = none
  b1 : braceAt T '{' (name ++ '}' :: R) = true
  ne : name ≠ []
  inert : ∀ c ∈ name, inertChar T st c = true
  b2 : braceAt T '}' R = true
  env : listEnvAt st name = true

theorem endFacts {T : PTables} {st : PState} {name R : Str} (h : endOk T st name R = true) :
    EndFacts T st name R := by
  simp only [endOk, Bool.and_eq_true, Bool.not_eq_true', Option.isNone_iff_eq_none,
    List.all_eq_true] at h
  obtain ⟨⟨⟨⟨⟨h1, h3⟩, h4⟩, h5⟩, h6⟩, h7⟩ := h
  exact ⟨h1, h3, by simpa using h4, h5, h6, h7⟩

structure ItemFacts (T : PTables) (ws R : Str) : Prop where
  special : matchSpecial T.toTables ('\\' :: (nItem ++ (ws ++ R))) = none
  blank : ws.all isSpace = true
  nls : countNl ws < 2
  adj : (ws ++ R).head?.all (fun d => !macroChar d) = true
  head : R.head?.all (fun d => !isSpace d && d != '[') = true

theorem itemFacts {T : PTables} {ws R : Str} (h : itemOk T ws R = true) : ItemFacts T ws R := by
  simp only [itemOk, Bool.and_eq_true, Option.isNone_iff_eq_none, decide_eq_true_eq] at h
  obtain ⟨⟨⟨⟨h1, h2⟩, h3⟩, h4⟩, h5⟩ := h
  exact ⟨h1, h2, h3, h4, h5⟩

theorem ItemFacts.headNS {T : PTables} {ws R : Str} (h : ItemFacts T ws R) :
    R.head?.all (fun d => !isSpace d) = true := by
  have := h.head
  cases hh : R.head? with
  | none => rfl
  | some d => rw [hh] at this; simp only [Option.all_some, Bool.and_eq_true] at this ⊢; exact this.1

/-- the head of the token buffer of a source that starts with a visible character other than `[` -/
theorem headOk_of_first (toks : List Tok) (R : Str)
    (hR : R.head?.all (fun d => !isSpace d && d != '[') = true)
    (hfirst : ∀ t ts, toks = t :: ts → t.txt = firstTokTxtM R)
    (hns : ∀ t ts, toks = t :: ts → isSpaceTok t = false) : HeadOk toks := by
  cases toks with
  | nil => exact ⟨fun t h => by simp at h, fun t h => by simp at h⟩
  | cons t ts =>
    refine ⟨fun t' h => ?_, fun t' h => ?_⟩
    · simp only [List.head?_cons, Option.some.injEq] at h
      subst h; exact hns t ts rfl
    · simp only [List.head?_cons, Option.some.injEq] at h
      subst h
      have ht := hfirst t ts rfl
      unfold txtIs
      rw [ht]
      cases R with
      | nil => rfl
      | cons d ds =>
        simp only [List.head?_cons, Option.all_some, Bool.and_eq_true, Bool.not_eq_true',
          bne_iff_ne, ne_eq] at hR
        simp only [firstTokTxtM, hR.1, Bool.false_eq_true, if_false]
        by_cases hd : d = '\\'
        · subst hd; simp
        · have : (d == '\\') = false := by simpa using hd
          simp only [this, Bool.false_eq_true, if_false]
          simpa using hR.2

theorem nameToks_of_bodyRun {T : PTables} {st : PState} {name : Str} {steps : List ScanStep}
    (B : BodyRun T st name steps) (hne : name ≠ []) : NameToks T st (steps.map (·.tok)) := by
  refine ⟨by simpa using B.ne hne, ?_⟩
  intro t ht
  obtain ⟨x, hx, rfl⟩ := List.mem_map.mp ht
  exact ⟨(B.ok x hx).2.2.1, (B.ok x hx).2.2.2.1, (B.ok x hx).2.2.2.2.1⟩

theorem wsToks_space (q : Nat) (ws : Str) : ∀ t ∈ wsToks q ws, t.kind = .space := by
  intro t ht
  unfold wsToks at ht
  split at ht
  · simp at ht
  · simp only [List.mem_singleton] at ht
    subst ht; rfl

/-- the scanner loop on a well-formed source -/
theorem scanSteps_list (T : PTables) (st : PState) (src : Str) :
    ∀ (n fuel pos : Nat) (rest : Str) (stk : List ItemGen) (items : List Item),
    rest.length ≤ n → rest.length ≤ fuel → OkSrc T st stk pos rest items →
    (scanSteps T.toTables src fuel pos rest).2 = true ∧
    ScanFacts T st stk rest items (scanSteps T.toTables src fuel pos rest).1 := by
  intro n
  induction n with
  | zero =>
    intro fuel pos rest stk items hn _ hok
    cases rest with
    | nil => cases hok; exact ⟨by simp [scanSteps], by simpa [scanSteps] using ScanFacts_nil T st stk⟩
    | cons c cs => simp at hn
  | succ n ih =>
    intro fuel pos rest stk items hn hf hok
    cases rest with
    | nil => cases hok; exact ⟨by simp [scanSteps], by simpa [scanSteps] using ScanFacts_nil T st stk⟩
    | cons c cs =>
      obtain ⟨fuel, rfl⟩ : ∃ f, fuel = f + 1 := ⟨fuel - 1, by simp at hf; omega⟩
      have hok0 := hok
      cases hok with
      | chr _ _ _ _ items' hat hsub0 =>
        have hsnd := okAt_snd hat
        obtain ⟨hp, hone⟩ := nextToken_text T src pos c cs hsnd
        generalize hs : nextToken T.toTables src pos (c :: cs) = s at hp hone
        have h1 := hp.len_pos
        have h2 := hp.len_le
        have hsub : ∃ items1, Item.chr c pos :: items' = chrItems pos ((c :: cs).take s.len) ++ items1 ∧
            OkSrc T st stk (pos + s.len) ((c :: cs).drop s.len) items1 := by
          by_cases hsp : isSpace c = true
          · refine OkSrc_drop_space T st stk s.len pos (c :: cs) _ h2 hok0 ?_
            intro x hx
            rw [← hp.txt, hp.first] at hx
            simp only [firstTokTxt, hsp, if_true] at hx
            exact mem_takeWhile_imp _ _ _ hx
          · have := (hone (by simpa using hsp)).1
            rw [this]
            exact ⟨items', rfl, hsub0⟩
        obtain ⟨items1, hitems1, hsub⟩ := hsub
        rw [scanSteps_step T.toTables src fuel pos c cs s hs (by omega)]
        have hl : ((c :: cs).drop s.len).length ≤ fuel := by
          simp only [List.length_drop]; simp only [List.length_cons] at hf h2 ⊢; omega
        have hl' : ((c :: cs).drop s.len).length ≤ n := by
          simp only [List.length_drop]; simp only [List.length_cons] at hn h2 ⊢; omega
        obtain ⟨i1, I⟩ := ih fuel (pos + s.len) ((c :: cs).drop s.len) stk items1 hl' hl hsub
        obtain ⟨ps', hflat, hpok, hlink⟩ := I.pieces
        have hne : s.tok.txt ≠ [] := by
          rw [hp.txt]
          intro h0
          have := congrArg List.length h0
          simp only [List.length_take, List.length_nil] at this
          omega
        refine ⟨i1, ?_, ?_, ?_, ?_, ?_⟩
        · intro x hx
          rcases List.mem_cons.mp hx with rfl | hx
          · exact ⟨hp.diag, hp.extra⟩
          · exact I.ok x hx
        · refine ⟨.tok s.tok :: ps', by simp [flat, Piece.toks, hflat], ⟨hp.tok, ?_, hpok⟩, ?_⟩
          · -- the short-macro branch
            rw [← hflat]
            have hact := hat
            simp only [okAt, Bool.and_eq_true, Bool.or_eq_true, Bool.not_eq_true'] at hact
            rcases hact.1 with hna | ⟨hns, hk⟩
            · left
              have : s.tok.txt = c :: (cs.take (s.len - 1)) := by
                rw [hp.txt]
                obtain ⟨k, hk⟩ : ∃ k, s.len = k + 1 := ⟨s.len - 1, by omega⟩
                rw [hk]; simp
              rw [this]
              exact not_active_cons T st c _ hna
            · right
              have hlen := (hone hns).1
              have htxt : s.tok.txt = [c] := by rw [hp.txt, hlen]; rfl
              have i4 := I.first
              rw [hlen] at i4 ⊢
              simp only [List.drop_succ_cons, List.drop_zero] at i4 ⊢
              cases hr : (scanSteps T.toTables src fuel (pos + 1) cs).1 with
              | nil => rfl
              | cons s2 ss =>
                simp only [List.map_cons]
                apply expandShortMacro_none
                rw [htxt, i4 s2 ss hr]
                rcases hk with hk | hk
                · cases cs with
                  | nil => cases fuel <;> simp [scanSteps] at hr
                  | cons => simp at hk
                · simpa using hk
          · rw [hitems1, ← hp.txt, ← hp.pos]
            refine .tok s.tok ps' items1 hp.fix ⟨hne, ?_⟩ hlink
            intro hnl
            by_cases hsp : isSpace c = true
            · rw [hp.first]
              simp only [firstTokTxt, hsp, if_true, isBlank, List.all_eq_true]
              exact fun x hx => mem_takeWhile_imp _ _ _ hx
            · have hsp' : isSpace c = false := by simpa using hsp
              have := (hone hsp').1
              rw [hp.txt, this] at hnl
              simp only [List.take_succ_cons, List.take_zero] at hnl
              rw [PlainMacro.hasNl_single c hsp'] at hnl; cases hnl
        · intro s' ss' he
          simp only [List.cons.injEq] at he
          rw [← he.1, hp.first]
          refine (firstTokTxtM_of_text c cs ?_).symm
          rcases hsnd with h | h
          · exact Or.inl h
          · exact Or.inr h.1
        · intro hh s' ss' he
          simp only [List.cons.injEq] at he
          rw [← he.1]
          have hsp' : isSpace c = false := by simpa using hh
          simp [isSpaceTok, (hone hsp').2]
        · have := I.len
          simp only [List.length_cons, List.length_drop] at this h2 ⊢
          omega
      | beg _ _ name R items' hd hsub =>
        have D := begFacts hd
        have hname := List.length_pos_iff.mpr D.ne
        simp only [List.length_cons, List.length_append, nBegin] at hf hn
        obtain ⟨g, hg⟩ : ∃ g, fuel = g + 1 := ⟨fuel - 1, by omega⟩
        have hn1 := nextToken_begin T src pos _ D.special D.noverb
        have hn2 := nextToken_brace T src (pos + 6) '{' _ (Or.inl rfl) D.b1
        have hn3 := nextToken_brace T src (pos + 6 + 1 + name.length) '}' R (Or.inr rfl) D.b2
        obtain ⟨bsteps, B, hrun⟩ := scanSteps_body T st src R name.length name (pos + 6 + 1) g
          (Nat.le_refl _) (by omega) D.inert
        have hBl := B.len
        obtain ⟨g', hg'⟩ : ∃ g', g - bsteps.length = g' + 1 := ⟨g - bsteps.length - 1, by omega⟩
        have hpos : pos + 6 + 1 + name.length + 1 = pos + (name.length + 8) := by omega
        obtain ⟨i1, I⟩ := ih g' (pos + (name.length + 8)) R _ items' (by omega) (by omega) hsub
        obtain ⟨ps', hflat, hpok, hlink⟩ := I.pieces
        have hsteps : scanSteps T.toTables src (fuel + 1) pos ('\\' :: (nBegin ++ '{' :: (name ++ '}' :: R)))
            = ({ tok := begTok pos, len := 6 } ::
               { tok := { kind := .special, pos := pos + 6, txt := ['{'] }, len := 1 } ::
               (bsteps ++
                 { tok := { kind := .special, pos := pos + 6 + 1 + name.length, txt := ['}'] }, len := 1 } ::
                 (scanSteps T.toTables src g' (pos + (name.length + 8)) R).1),
               (scanSteps T.toTables src g' (pos + (name.length + 8)) R).2) := by
          rw [scanSteps_step T.toTables src fuel pos _ _ _ hn1 (by simp),
            show ('\\' :: (nBegin ++ '{' :: (name ++ '}' :: R))).drop 6 = '{' :: (name ++ '}' :: R) from rfl]
          simp only []
          rw [hg, scanSteps_step T.toTables src g (pos + 6) _ _ _ hn2 (by simp)]
          simp only [List.drop_succ_cons, List.drop_zero]
          rw [hrun, hg', scanSteps_step T.toTables src g' _ _ _ _ hn3 (by simp)]
          simp only [List.drop_succ_cons, List.drop_zero, hpos]
        rw [hsteps]
        refine ⟨i1, ?_, ?_, ?_, ?_, ?_⟩
        · intro x hx
          simp only [List.mem_cons, List.mem_append] at hx
          rcases hx with rfl | rfl | hx | rfl | hx
          · exact ⟨rfl, rfl⟩
          · exact ⟨rfl, rfl⟩
          · exact ⟨(B.ok x hx).1, (B.ok x hx).2.1⟩
          · exact ⟨rfl, rfl⟩
          · exact I.ok x hx
        · have hbt : bodyTxt (bsteps.map (·.tok)) = name := B.txt
          refine ⟨.beg pos (pos + 6) (pos + 6 + 1 + name.length) (bsteps.map (·.tok)) :: ps',
            ?_, ⟨nameToks_of_bodyRun B D.ne, ?_, ?_⟩, ?_⟩
          · simp [flat, Piece.toks, hflat, lbr, rbr]
          · rw [hbt]; exact D.env
          · rw [hbt]; exact hpok
          · exact .beg _ _ _ name _ ps' items' hbt (by simpa using hBl) hlink
        · intro s' ss' he
          simp only [List.cons.injEq] at he
          rw [← he.1]
          have htw : (nBegin ++ '{' :: (name ++ '}' :: R)).takeWhile macroChar = nBegin :=
            takeWhile_append_stop _ _ _ (by decide) rfl
          simp [firstTokTxtM, begTok, sBegin_eq, show isSpace '\\' = false by decide, htw]
        · intro _ s' ss' he
          simp only [List.cons.injEq] at he
          rw [← he.1]; rfl
        · have := I.len
          simp only [List.length_cons, List.length_append, nBegin] at this ⊢
          omega
      | item _ _ ws R items' hd hlab hsub =>
        have D := itemFacts hd
        simp only [List.length_cons, List.length_append, nItem] at hf hn
        have hn1 := nextToken_item T src pos _ D.special D.adj
        have hd1 : ('\\' :: (nItem ++ (ws ++ R))).drop 5 = ws ++ R := rfl
        have hfirst : (itemTok pos).txt = firstTokTxtM ('\\' :: (nItem ++ (ws ++ R))) := by
          have htw : (nItem ++ (ws ++ R)).takeWhile macroChar = nItem :=
            takeWhile_append_stop _ _ _ (by decide) D.adj
          simp [firstTokTxtM, itemTok, sItem_eq, show isSpace '\\' = false by decide, htw]
        cases ws with
        | nil =>
          simp only [List.nil_append, List.length_nil, Nat.zero_add] at hsub hn1 hd1 hf hn hfirst ⊢
          obtain ⟨i1, I⟩ := ih fuel (pos + 5) R _ items' (by omega) (by omega) hsub
          obtain ⟨ps', hflat, hpok, hlink⟩ := I.pieces
          rw [scanSteps_step T.toTables src fuel pos _ _ _ hn1 (by simp), hd1]
          refine ⟨i1, ?_, ?_, ?_, ?_, ?_⟩
          · intro x hx
            rcases List.mem_cons.mp hx with rfl | hx
            · exact ⟨rfl, rfl⟩
            · exact I.ok x hx
          · refine ⟨.item pos (wsToks (pos + 5) []) :: ps', by simp [flat, Piece.toks, wsToks, hflat],
              ⟨wsToks_space _ _, ?_, hlab, hpok⟩, .item pos [] ps' items' hlink⟩
            rw [← hflat]
            refine headOk_of_first _ R D.head ?_ ?_
            · intro t ts he
              cases hr : (scanSteps T.toTables src fuel (pos + 5) R).1 with
              | nil => rw [hr] at he; simp at he
              | cons s2 ss2 =>
                rw [hr] at he
                simp only [List.map_cons, List.cons.injEq] at he
                rw [← he.1]; exact I.first s2 ss2 hr
            · intro t ts he
              cases hr : (scanSteps T.toTables src fuel (pos + 5) R).1 with
              | nil => rw [hr] at he; simp at he
              | cons s2 ss2 =>
                rw [hr] at he
                simp only [List.map_cons, List.cons.injEq] at he
                rw [← he.1]; exact I.firstNS D.headNS s2 ss2 hr
          · intro s' ss' he
            simp only [List.cons.injEq] at he
            rw [← he.1]; exact hfirst
          · intro _ s' ss' he
            simp only [List.cons.injEq] at he
            rw [← he.1]; rfl
          · have := I.len
            simp only [List.length_cons, List.length_append, nItem] at this ⊢
            omega
        | cons w ws' =>
          have hbl := D.blank
          simp only [List.all_cons, Bool.and_eq_true] at hbl
          simp only [List.cons_append, List.length_cons] at hsub hn1 hd1 hf hn hfirst ⊢
          obtain ⟨g, hg⟩ : ∃ g, fuel = g + 1 := ⟨fuel - 1, by omega⟩
          have hn2 := nextToken_ws T src (pos + 5) w ws' R hbl.1 hbl.2 D.nls D.headNS
          have hd2 : (w :: (ws' ++ R)).drop (ws'.length + 1) = R := by simp
          have hpos : pos + 5 + (ws'.length + 1) = pos + (ws'.length + 1 + 5) := by omega
          obtain ⟨i1, I⟩ := ih g (pos + (ws'.length + 1 + 5)) R _ items' (by omega) (by omega) hsub
          obtain ⟨ps', hflat, hpok, hlink⟩ := I.pieces
          rw [scanSteps_step T.toTables src fuel pos _ _ _ hn1 (by simp), hd1]
          simp only []
          rw [hg, scanSteps_step T.toTables src g (pos + 5) _ _ _ hn2 (by simp), hd2]
          simp only [hpos]
          refine ⟨i1, ?_, ?_, ?_, ?_, ?_⟩
          · intro x hx
            simp only [List.mem_cons] at hx
            rcases hx with rfl | rfl | hx
            · exact ⟨rfl, rfl⟩
            · exact ⟨rfl, rfl⟩
            · exact I.ok x hx
          · refine ⟨.item pos (wsToks (pos + 5) (w :: ws')) :: ps',
              by simp [flat, Piece.toks, wsToks, hflat],
              ⟨wsToks_space _ _, ?_, hlab, hpok⟩, .item pos (w :: ws') ps' items' hlink⟩
            rw [← hflat]
            refine headOk_of_first _ R D.head ?_ ?_
            · intro t ts he
              cases hr : (scanSteps T.toTables src g (pos + (ws'.length + 1 + 5)) R).1 with
              | nil => rw [hr] at he; simp at he
              | cons s2 ss2 =>
                rw [hr] at he
                simp only [List.map_cons, List.cons.injEq] at he
                rw [← he.1]; exact I.first s2 ss2 hr
            · intro t ts he
              cases hr : (scanSteps T.toTables src g (pos + (ws'.length + 1 + 5)) R).1 with
              | nil => rw [hr] at he; simp at he
              | cons s2 ss2 =>
                rw [hr] at he
                simp only [List.map_cons, List.cons.injEq] at he
                rw [← he.1]; exact I.firstNS D.headNS s2 ss2 hr
          · intro s' ss' he
            simp only [List.cons.injEq] at he
            rw [← he.1]; exact hfirst
          · intro _ s' ss' he
            simp only [List.cons.injEq] at he
            rw [← he.1]; rfl
          · have := I.len
            simp only [List.length_cons, List.length_append, nItem] at this ⊢
            omega
      | en _ _ name R items' hd hsub =>
        have D := endFacts hd
        have hname := List.length_pos_iff.mpr D.ne
        simp only [List.length_cons, List.length_append, nEnd] at hf hn
        obtain ⟨g, hg⟩ : ∃ g, fuel = g + 1 := ⟨fuel - 1, by omega⟩
        have hn1 := nextToken_end T src pos _ D.special
        have hn2 := nextToken_brace T src (pos + 4) '{' _ (Or.inl rfl) D.b1
        have hn3 := nextToken_brace T src (pos + 4 + 1 + name.length) '}' R (Or.inr rfl) D.b2
        obtain ⟨bsteps, B, hrun⟩ := scanSteps_body T st src R name.length name (pos + 4 + 1) g
          (Nat.le_refl _) (by omega) D.inert
        have hBl := B.len
        obtain ⟨g', hg'⟩ : ∃ g', g - bsteps.length = g' + 1 := ⟨g - bsteps.length - 1, by omega⟩
        have hpos : pos + 4 + 1 + name.length + 1 = pos + (name.length + 6) := by omega
        obtain ⟨i1, I⟩ := ih g' (pos + (name.length + 6)) R _ items' (by omega) (by omega) hsub
        obtain ⟨ps', hflat, hpok, hlink⟩ := I.pieces
        have hsteps : scanSteps T.toTables src (fuel + 1) pos ('\\' :: (nEnd ++ '{' :: (name ++ '}' :: R)))
            = ({ tok := endTok pos, len := 4 } ::
               { tok := { kind := .special, pos := pos + 4, txt := ['{'] }, len := 1 } ::
               (bsteps ++
                 { tok := { kind := .special, pos := pos + 4 + 1 + name.length, txt := ['}'] }, len := 1 } ::
                 (scanSteps T.toTables src g' (pos + (name.length + 6)) R).1),
               (scanSteps T.toTables src g' (pos + (name.length + 6)) R).2) := by
          rw [scanSteps_step T.toTables src fuel pos _ _ _ hn1 (by simp),
            show ('\\' :: (nEnd ++ '{' :: (name ++ '}' :: R))).drop 4 = '{' :: (name ++ '}' :: R) from rfl]
          simp only []
          rw [hg, scanSteps_step T.toTables src g (pos + 4) _ _ _ hn2 (by simp)]
          simp only [List.drop_succ_cons, List.drop_zero]
          rw [hrun, hg', scanSteps_step T.toTables src g' _ _ _ _ hn3 (by simp)]
          simp only [List.drop_succ_cons, List.drop_zero, hpos]
        rw [hsteps]
        refine ⟨i1, ?_, ?_, ?_, ?_, ?_⟩
        · intro x hx
          simp only [List.mem_cons, List.mem_append] at hx
          rcases hx with rfl | rfl | hx | rfl | hx
          · exact ⟨rfl, rfl⟩
          · exact ⟨rfl, rfl⟩
          · exact ⟨(B.ok x hx).1, (B.ok x hx).2.1⟩
          · exact ⟨rfl, rfl⟩
          · exact I.ok x hx
        · have hbt : bodyTxt (bsteps.map (·.tok)) = name := B.txt
          refine ⟨.en pos (pos + 4) (pos + 4 + 1 + name.length) (bsteps.map (·.tok)) :: ps',
            ?_, ⟨nameToks_of_bodyRun B D.ne, ?_, hpok⟩, ?_⟩
          · simp [flat, Piece.toks, hflat, lbr, rbr]
          · rw [hbt]; exact D.env
          · exact .en _ _ _ name _ ps' items' hbt (by simpa using hBl) hlink
        · intro s' ss' he
          simp only [List.cons.injEq] at he
          rw [← he.1]
          have htw : (nEnd ++ '{' :: (name ++ '}' :: R)).takeWhile macroChar = nEnd :=
            takeWhile_append_stop _ _ _ (by decide) rfl
          simp [firstTokTxtM, endTok, sEnd_eq, show isSpace '\\' = false by decide, htw]
        · intro _ s' ss' he
          simp only [List.cons.injEq] at he
          rw [← he.1]; rfl
        · have := I.len
          simp only [List.length_cons, List.length_append, nEnd] at this ⊢
          omega

/-! ### the reference output -/

open PlainMacro (tokMarks_nonaction tokMarks_mkAction marksOf_cons marksOf_append simple_mkAction
  simple_of_plain tokChars_nofix removeLines_simple getTxtPos_charsOf restamp tokChars_restamp)

/-- the marks of the token `begin_environment` / `end_environment` emit: a paragraph break (two
    line breaks at the position of the command) or an Action mark -/
def envMarks (env : MacroDef) (p : Nat) : List Mark :=
  if env.addPars then [some (nl, p), some (nl, p)] else [none]

/-- the reference on the level of marks (`stk`: the label generators, top first):
    * a text character with its position;
    * `\\begin{name}` at `p`: the marks of `add_pars` and one Action mark; a generator is pushed;
    * `\\item` at `p`: an Action mark, a blank, the characters of the next label, a blank — all at
      position `p`; the white space behind `\\item` leaves nothing; the counter advances;
    * `\\end{name}` at `p`: the marks of `add_pars`; the generator is popped -/
def refMarks (T : PTables) (st1 : PState) : List ItemGen → List Item → List Mark
  | _, [] => []
  | stk, .chr c p :: rest => some (c, p) :: refMarks T st1 stk rest
  | stk, .beg p name :: rest =>
    envMarks (envOf st1 name) p ++ none :: refMarks T st1 (begStk st1 stk name) rest
  | stk, .item p _ :: rest =>
    none :: some (' ', p) :: ((labOf T stk).map (fun c => some (c, p))
      ++ some (' ', p) :: refMarks T st1 (itemStk stk) rest)
  | stk, .en p name :: rest => envMarks (envOf st1 name) p ++ refMarks T st1 (endStk stk) rest

/-- the generators behind the items -/
def refStk (st1 : PState) : List ItemGen → List Item → List ItemGen
  | stk, [] => stk
  | stk, .chr _ _ :: rest => refStk st1 stk rest
  | stk, .beg _ name :: rest => refStk st1 (begStk st1 stk name) rest
  | stk, .item _ _ :: rest => refStk st1 (itemStk stk) rest
  | stk, .en _ _ :: rest => refStk st1 (endStk stk) rest

/-- source length of the items -/
def itemsLen : List Item → Nat
  | [] => 0
  | .chr _ _ :: rest => 1 + itemsLen rest
  | .beg _ name :: rest => name.length + 8 + itemsLen rest
  | .item _ ws :: rest => ws.length + 5 + itemsLen rest
  | .en _ name :: rest => name.length + 6 + itemsLen rest

theorem refMarks_chrItems (T : PTables) (st1 : PState) (stk : List ItemGen) (items : List Item) :
    ∀ (s : Str) (p : Nat),
    refMarks T st1 stk (chrItems p s ++ items) = (posText p s).map some ++ refMarks T st1 stk items
  | [], _ => rfl
  | c :: cs, p => by
    simp only [chrItems, List.cons_append, refMarks, posText, List.map_cons,
      refMarks_chrItems T st1 stk items cs (p + 1)]

theorem refStk_chrItems (st1 : PState) (stk : List ItemGen) (items : List Item) :
    ∀ (s : Str) (p : Nat), refStk st1 stk (chrItems p s ++ items) = refStk st1 stk items
  | [], _ => rfl
  | c :: cs, p => by
    simp only [chrItems, List.cons_append, refStk, refStk_chrItems st1 stk items cs (p + 1)]

theorem itemsLen_chrItems (items : List Item) : ∀ (s : Str) (p : Nat),
    itemsLen (chrItems p s ++ items) = s.length + itemsLen items
  | [], _ => by simp [chrItems]
  | c :: cs, p => by
    simp only [chrItems, List.cons_append, itemsLen, itemsLen_chrItems items cs (p + 1), List.length_cons]
    omega

theorem tokMarks_envOut (env : MacroDef) (p : Nat) : tokMarks (envOut env p) = envMarks env p := by
  unfold envOut envMarks
  split <;> rfl

theorem simple_envOut (env : MacroDef) (p : Nat) : Simple (envOut env p) := by
  unfold envOut
  split
  · exact ⟨fun h => by simp [isAction, mkFix] at h, rfl, fun _ => rfl⟩
  · exact simple_mkAction p

theorem simple_spTok (p : Nat) : Simple (spTok p) :=
  ⟨fun h => by simp [isAction, spTok, mkFix] at h, rfl, fun _ => rfl⟩

theorem tokMarks_labTok (p : Nat) (lab : Str) :
    tokMarks (labTok p lab) = lab.map (fun c => some (c, p)) := by
  have e : labTok p lab = restamp p { kind := .text, pos := 0, txt := lab } := rfl
  rw [tokMarks_nonaction _ (by rfl), e, tokChars_restamp]
  simp

theorem simple_labTok (p : Nat) (lab : Str) (h : hasNl lab = false) : Simple (labTok p lab) :=
  ⟨fun ha => by simp [isAction, labTok, mkFix] at ha, rfl,
   fun hn => by simp only [labTok, mkFix] at hn; rw [h] at hn; cases hn⟩

theorem labelAt_hasNl {T : PTables} {st1 : PState} {stk : List ItemGen} (h : labelAt T st1 stk = true) :
    hasNl (labOf T stk) = false := by
  cases stk with
  | nil => simp [labelAt] at h
  | cons g gs =>
    cases hil : itemLabel T.itemDefaultLabel g with
    | none => simp [labelAt, hil] at h
    | some lab =>
      have hlok : labOk T st1 lab = true := by simpa [labelAt, hil] using h
      simp only [labOf, hil, Option.getD_some]
      exact (labOk_facts hlok 0).2.2

/-- what the pieces of a source mean -/
structure Sem (T : PTables) (st1 : PState) (stk : List ItemGen) (ps : List Piece) (items : List Item) :
    Prop where
  marks : marksOf (outP T st1 stk ps) = refMarks T st1 stk items
  simple : ∀ t ∈ outP T st1 stk ps, Simple t
  cost : cost ps ≤ itemsLen items
  stk : finalStk st1 stk ps = refStk st1 stk items

theorem link_sem (T : PTables) (st1 : PState) {ps : List Piece} {items : List Item} (hl : Link ps items) :
    ∀ (stk : List ItemGen), PiecesOk T st1 stk ps → Sem T st1 stk ps items := by
  induction hl with
  | nil => intro stk _; exact ⟨rfl, by simp [outP], by simp [cost], rfl⟩
  | tok t ps items hfix hshape _ ih =>
    intro stk hok
    obtain ⟨hp, _, hrest⟩ := hok
    have I := ih stk hrest
    refine ⟨?_, ?_, ?_, ?_⟩
    · simp only [outP]
      rw [marksOf_cons, tokMarks_nonaction _ hp.notAction, tokChars_nofix t hfix, refMarks_chrItems, I.marks]
    · intro x hx
      simp only [outP, List.mem_cons] at hx
      rcases hx with rfl | hx
      · exact simple_of_plain hp hshape
      · exact I.simple x hx
    · have := I.cost
      have h1 := List.length_pos_iff.mpr hshape.1
      simp only [cost, itemsLen_chrItems]
      omega
    · simp only [finalStk, refStk_chrItems]
      exact I.stk
  | beg p q1 q2 name nt ps items hb hlen _ ih =>
    intro stk hok
    obtain ⟨_, _, hrest⟩ := hok
    rw [hb] at hrest
    have I := ih _ hrest
    refine ⟨?_, ?_, ?_, ?_⟩
    · simp only [outP, refMarks, hb]
      rw [marksOf_cons, marksOf_cons, tokMarks_envOut, tokMarks_mkAction, I.marks]; rfl
    · intro x hx
      simp only [outP, hb, List.mem_cons] at hx
      rcases hx with rfl | rfl | hx
      · exact simple_envOut _ _
      · exact simple_mkAction p
      · exact I.simple x hx
    · have := I.cost
      simp only [cost, itemsLen]
      omega
    · simp only [finalStk, refStk, hb]
      exact I.stk
  | item p ws ps items _ ih =>
    intro stk hok
    obtain ⟨_, _, hlab, hrest⟩ := hok
    have I := ih _ hrest
    refine ⟨?_, ?_, ?_, ?_⟩
    · simp only [outP, refMarks]
      rw [marksOf_cons, marksOf_cons, marksOf_cons, marksOf_cons, tokMarks_mkAction, tokMarks_labTok,
        I.marks]
      rfl
    · intro x hx
      simp only [outP, List.mem_cons] at hx
      rcases hx with rfl | rfl | rfl | rfl | hx
      · exact simple_mkAction p
      · exact simple_spTok p
      · exact simple_labTok p _ (labelAt_hasNl hlab)
      · exact simple_spTok p
      · exact I.simple x hx
    · have := I.cost
      simp only [cost, itemsLen]
      omega
    · simp only [finalStk, refStk]
      exact I.stk
  | en p q1 q2 name nt ps items hb hlen _ ih =>
    intro stk hok
    obtain ⟨_, _, hrest⟩ := hok
    have I := ih _ hrest
    refine ⟨?_, ?_, ?_, ?_⟩
    · simp only [outP, refMarks, hb]
      rw [marksOf_cons, tokMarks_envOut, I.marks]
    · intro x hx
      simp only [outP, hb, List.mem_cons] at hx
      rcases hx with rfl | hx
      · exact simple_envOut _ _
      · exact I.simple x hx
    · have := I.cost
      simp only [cost, itemsLen]
      omega
    · simp only [finalStk, refStk]
      exact I.stk

theorem OkSrc_len {T : PTables} {st : PState} {stk : List ItemGen} {p : Nat} {s : Str}
    {items : List Item} (h : OkSrc T st stk p s items) : itemsLen items = s.length := by
  induction h with
  | nil stk p => rfl
  | chr stk p c cs items _ _ ih => simp only [itemsLen, ih, List.length_cons]; omega
  | beg stk p name R items _ _ ih =>
    simp only [itemsLen, ih, List.length_cons, List.length_append, nBegin, List.length_nil]; omega
  | item stk p ws R items _ _ _ ih =>
    simp only [itemsLen, ih, List.length_cons, List.length_append, nItem, List.length_nil]; omega
  | en stk p name R items _ _ ih =>
    simp only [itemsLen, ih, List.length_cons, List.length_append, nEnd, List.length_nil]; omega

/-! ### `scan`, `parserWork`, `parse`, `tex2txt` -/

/-- `scan` on a well-formed source: no diagnostics; the token buffer consists of plain tokens and
    list commands that correspond to the items -/
theorem scan_list (T : PTables) (st : PState) (stk : List ItemGen) (src : Str) (items : List Item)
    (h : OkSrc T st stk 0 src items) :
    (scan T.toTables src).diags = [] ∧
    ∃ ps, (scan T.toTables src).toks = flat ps ∧ PiecesOk T st stk ps ∧ Link ps items := by
  obtain ⟨_, F⟩ := scanSteps_list T st src src.length src.length 0 src stk items (Nat.le_refl _)
    (Nat.le_refl _) h
  have he := flatten_tok_extra (scanSteps T.toTables src src.length 0 src).1 (fun s hs => (F.ok s hs).2)
  have hd := flatten_diag_nil (scanSteps T.toTables src src.length 0 src).1 (fun s hs => (F.ok s hs).1)
  obtain ⟨ps, h1, h2, h3⟩ := F.pieces
  simp only [scan]
  rw [he, hd]
  exact ⟨rfl, ps, h1, h2, h3⟩

theorem NameToks.notComment {T : PTables} {st : PState} {nt : List Tok} (h : NameToks T st nt) :
    ∀ t ∈ nt, t.kind ≠ .comment := fun t ht => (h.2 t ht).1.notComment

theorem PiecesOk.notComment {T : PTables} {st : PState} : ∀ {ps : List Piece} {stk : List ItemGen},
    PiecesOk T st stk ps → ∀ t ∈ flat ps, t.kind ≠ .comment
  | [], _, _, _, h => by simp [flat] at h
  | .tok t :: rest, _, hok, x, hx => by
    simp only [flat, Piece.toks, List.singleton_append, List.mem_cons] at hx
    rcases hx with rfl | hx
    · exact hok.1.notComment
    · exact PiecesOk.notComment hok.2.2 x hx
  | .beg p q1 q2 nt :: rest, _, hok, x, hx => by
    obtain ⟨hn, _, hrest⟩ := hok
    simp only [flat, Piece.toks, List.cons_append, List.append_assoc, List.mem_cons,
      List.mem_append, List.nil_append] at hx
    rcases hx with rfl | rfl | hx | rfl | hx
    · simp [begTok]
    · simp [lbr]
    · exact hn.notComment x hx
    · simp [rbr]
    · exact PiecesOk.notComment hrest x hx
  | .item p sp :: rest, _, hok, x, hx => by
    obtain ⟨hsp, _, _, hrest⟩ := hok
    simp only [flat, Piece.toks, List.cons_append, List.mem_cons, List.mem_append] at hx
    rcases hx with rfl | hx | hx
    · simp [itemTok]
    · simp [hsp x hx]
    · exact PiecesOk.notComment hrest x hx
  | .en p q1 q2 nt :: rest, _, hok, x, hx => by
    obtain ⟨hn, _, hrest⟩ := hok
    simp only [flat, Piece.toks, List.cons_append, List.append_assoc, List.mem_cons,
      List.mem_append, List.nil_append] at hx
    rcases hx with rfl | rfl | hx | rfl | hx
    · simp [endTok]
    · simp [lbr]
    · exact hn.notComment x hx
    · simp [rbr]
    · exact PiecesOk.notComment hrest x hx

theorem refMarks_congr (T : PTables) {st st' : PState} (he : st'.envs = st.envs) :
    ∀ (items : List Item) (stk : List ItemGen), refMarks T st' stk items = refMarks T st stk items := by
  have hlk : ∀ n, envOf st' n = envOf st n := fun n => by simp only [envOf, lookupEnv, he]
  have hbs : ∀ stk n, begStk st' stk n = begStk st stk n := fun stk n => by
    simp only [begStk, styleOf, hlk]
  intro items
  induction items with
  | nil => intro _; rfl
  | cons it rest ih =>
    intro stk
    cases it <;> simp only [refMarks, ih, hlk, hbs]

theorem refStk_congr {st st' : PState} (he : st'.envs = st.envs) :
    ∀ (items : List Item) (stk : List ItemGen), refStk st' stk items = refStk st stk items := by
  have hlk : ∀ n, envOf st' n = envOf st n := fun n => by simp only [envOf, lookupEnv, he]
  have hbs : ∀ stk n, begStk st' stk n = begStk st stk n := fun stk n => by
    simp only [begStk, styleOf, hlk]
  intro items
  induction items with
  | nil => intro _; rfl
  | cons it rest ih =>
    intro stk
    cases it <;> simp only [refStk, ih, hbs]

/-- **`parserWork` on a well-formed source.**  The characters of the result tokens, with their
    positions, are the reference output: the marks of the document with the pure Action lines
    deleted.  The state changes in `itemStack` only. -/
theorem parserWork_list (T : PTables) (st : PState) (src : Str) (fuel : Nat) (items : List Item)
    (hf : src.length + 4 ≤ fuel) (ha : noEmptyActive T st = true)
    (hb : (activeChars T st).contains [' '] = false) (h : OkSrc T st st.itemStack 0 src items) :
    ∃ r, parserWork T fuel src st = .ok (r, { st with itemStack := refStk st st.itemStack items }) ∧
      charsOf r = delLines (refMarks T st st.itemStack items) := by
  obtain ⟨f, rfl⟩ : ∃ f, fuel = f + 1 := ⟨fuel - 1, by omega⟩
  obtain ⟨hd, ps, hflat, hpok, hlink⟩ := scan_list T st st.itemStack src items h
  have hstok : StOk st { st with latex := src, nest := st.nest + 1 } st.itemStack := ⟨rfl, rfl, rfl⟩
  have S := link_sem T st hlink st.itemStack hpok
  have hlen := OkSrc_len h
  have hs := seq_list T st ha hb ps f [] { st with latex := src, nest := st.nest + 1 } st.itemStack
    (by have := S.cost; omega) hpok hstok
  rw [List.nil_append] at hs
  obtain ⟨r, hr, hchars⟩ := removeLines_simple _ S.simple
  rw [hr] at hs
  simp only [] at hs
  rw [S.marks] at hchars
  refine ⟨r, ?_, hchars⟩
  rw [parserWork.eq_2]
  refine (M.bind_ok _ _ _ _ _ (rfl : M.get st = _)).trans ?_
  refine (M.bind_ok _ _ _ _ _ (rfl : M.modify _ _ = _)).trans ?_
  refine (M.bind_ok _ _ _ _ _ (rfl : M.modify _ _ = _)).trans ?_
  refine (M.bind_ok _ _ _ _ _ (rfl : M.get _ = _)).trans ?_
  simp only [hd, List.append_nil]
  rw [skipPass_nocomment _ _ _ (fun t ht' => hpok.notComment t (by rw [← hflat]; exact ht'))]
  simp only []
  refine (M.bind_ok _ _ _ _ _ (rfl : (pure _ : M (List Tok)) _ = _)).trans ?_
  rw [hflat]
  refine (M.bind_ok _ _ _ _ _ hs).trans ?_
  refine (M.bind_ok _ _ _ _ _ (rfl : M.modify _ _ = _)).trans ?_
  show Outcome.ok _ = _
  rw [S.stk]
  simp only [Nat.add_sub_cancel]

theorem parse_list (T : PTables) (st : PState) (src : Str) (fuel : Nat) (items : List Item)
    (hf : src.length + 4 ≤ fuel) (ha : noEmptyActive T st = true)
    (hb : (activeChars T st).contains [' '] = false) (h : OkSrc T st st.itemStack 0 src items) :
    ∃ r, parse T fuel src [] [] st
        = .ok (r, { st with extracted := [], unknowns := [], foreign := false, nest := 0,
                            itemStack := refStk st st.itemStack items }) ∧
      charsOf r = delLines (refMarks T st st.itemStack items) := by
  have h' : OkSrc T { st with extracted := [], unknowns := [], foreign := false, nest := 0 }
      st.itemStack 0 src items :=
    OkSrc.congr (st := st)
      (st' := { st with extracted := [], unknowns := [], foreign := false, nest := 0 }) rfl rfl h
  obtain ⟨r, hw, hc⟩ := parserWork_list T
    { st with extracted := [], unknowns := [], foreign := false, nest := 0 } src fuel items hf
    ((noEmptyActive_congr T st _ rfl).trans ha)
    ((congrArg (fun l => List.contains l [' ']) (activeChars_congr T st _ rfl)).trans hb) h'
  have e1 := refMarks_congr T (st := st)
    (st' := { st with extracted := [], unknowns := [], foreign := false, nest := 0 }) rfl items st.itemStack
  have e2 := refStk_congr (st := st)
    (st' := { st with extracted := [], unknowns := [], foreign := false, nest := 0 }) rfl items st.itemStack
  rw [e1] at hc
  rw [e2] at hw
  refine ⟨r, ?_, hc⟩
  unfold parse
  simp only [List.isEmpty_nil, Bool.not_true, Bool.false_eq_true, if_false, if_true]
  refine (M.bind_ok _ _ _ _ _ (rfl : M.modify _ _ = _)).trans ?_
  refine (M.bind_ok _ _ _ _ _ (rfl : (pure _ : M (List Tok)) _ = _)).trans ?_
  refine (M.bind_ok _ _ _ _ _ (rfl : M.modify _ _ = _)).trans ?_
  refine (M.bind_ok _ _ _ _ _ hw).trans ?_
  refine (M.bind_ok _ _ _ _ _ (rfl : M.get _ = _)).trans ?_
  show Outcome.ok _ = _
  simp

/-- the result record of `tex2txt` on a well-formed source (no `--defs`, `--extr`, `--repl`,
    `--unkn`; single-language mode) -/
theorem tex2txt_list_src (T : PTables) (o : Options) (fs : FS) (thresh : Nat) (src : Str) (fuel : Nat)
    (st1 : PState) (items : List Item)
    (hdefs : o.defs = []) (hextr : o.extr = []) (hrepl : o.hasRepl = false) (hunkn : o.unkn = false)
    (hinit : initParser T fuel o (initialState T o false fs) = .ok ((), st1))
    (ha : noEmptyActive T st1 = true) (hb : (activeChars T st1).contains [' '] = false)
    (h : OkSrc T st1 st1.itemStack 0 src items) (hf : src.length + 4 ≤ fuel) :
    ∃ toks, tex2txt T fuel src o false thresh fs
        = .ok { toks := toks, txt := (delLines (refMarks T st1 st1.itemStack items)).map (·.1),
                pos := (delLines (refMarks T st1 st1.itemStack items)).map (·.2 + 1), parts := [],
                unknowns := [], diags := st1.diags, foreign := false } := by
  obtain ⟨r, hp, hc⟩ := parse_list T st1 src fuel items hf ha hb h
  refine ⟨r, ?_⟩
  have hrun : (initParser T fuel o >>= fun _ => parse T fuel src o.defs
        (if o.extr.isEmpty then [] else (splitOn ',' o.extr []).map (fun s => '\\' :: s)))
        (initialState T o false fs)
      = .ok (r, { st1 with extracted := [], unknowns := [], foreign := false, nest := 0,
                           itemStack := refStk st1 st1.itemStack items }) := by
    refine (M.bind_ok _ _ _ _ _ hinit).trans ?_
    rw [hdefs, hextr]
    exact hp
  unfold tex2txt
  simp only []
  rw [hrun]
  simp only [hrepl, hunkn, Bool.not_false, if_true, Bool.false_eq_true, if_false,
    getTxtPos_charsOf, hc, List.map_map]
  rfl

/-! ### the reference on the level of segments -/

/-- the marks of a document that starts at position `p`, `stk` being the label generators:
    * a text character with its own position;
    * `\\begin{name}` at `q`: the marks of `add_pars` (two line breaks at `q`, or an Action mark) and
      one Action mark; a generator is pushed;
    * `\\item` at `q`: an Action mark, a blank, the next label, a blank, every character at `q`; the
      white space behind `\\item` leaves nothing; the counter advances;
    * `\\end{name}` at `q`: the marks of `add_pars`; the generator is popped -/
def segMarks (T : PTables) (st1 : PState) : List ItemGen → Nat → List Seg → List Mark
  | _, _, [] => []
  | stk, p, .txt s :: rest => (posText p s).map some ++ segMarks T st1 stk (p + s.length) rest
  | stk, p, .beg name :: rest =>
    envMarks (envOf st1 name) p ++ none :: segMarks T st1 (begStk st1 stk name) (p + (name.length + 8)) rest
  | stk, p, .item ws :: rest =>
    none :: some (' ', p) :: ((labOf T stk).map (fun c => some (c, p))
      ++ some (' ', p) :: segMarks T st1 (itemStk stk) (p + (ws.length + 5)) rest)
  | stk, p, .en name :: rest =>
    envMarks (envOf st1 name) p ++ segMarks T st1 (endStk stk) (p + (name.length + 6)) rest

/-- the generators behind the document -/
def segStk (st1 : PState) : List ItemGen → List Seg → List ItemGen
  | stk, [] => stk
  | stk, .txt _ :: rest => segStk st1 stk rest
  | stk, .beg name :: rest => segStk st1 (begStk st1 stk name) rest
  | stk, .item _ :: rest => segStk st1 (itemStk stk) rest
  | stk, .en _ :: rest => segStk st1 (endStk stk) rest

theorem refMarks_itemsOf (T : PTables) (st1 : PState) : ∀ (segs : List Seg) (stk : List ItemGen) (p : Nat),
    refMarks T st1 stk (itemsOf p segs) = segMarks T st1 stk p segs
  | [], _, _ => rfl
  | .txt s :: rest, stk, p => by
    simp only [itemsOf, segMarks, refMarks_chrItems, refMarks_itemsOf T st1 rest]
  | .beg name :: rest, stk, p => by
    simp only [itemsOf, segMarks, refMarks, refMarks_itemsOf T st1 rest]
  | .item ws :: rest, stk, p => by
    simp only [itemsOf, segMarks, refMarks, refMarks_itemsOf T st1 rest]
  | .en name :: rest, stk, p => by
    simp only [itemsOf, segMarks, refMarks, refMarks_itemsOf T st1 rest]

theorem refStk_itemsOf (st1 : PState) : ∀ (segs : List Seg) (stk : List ItemGen) (p : Nat),
    refStk st1 stk (itemsOf p segs) = segStk st1 stk segs
  | [], _, _ => rfl
  | .txt s :: rest, stk, p => by
    simp only [itemsOf, segStk, refStk_chrItems, refStk_itemsOf st1 rest]
  | .beg name :: rest, stk, p => by
    simp only [itemsOf, segStk, refStk, refStk_itemsOf st1 rest]
  | .item ws :: rest, stk, p => by
    simp only [itemsOf, segStk, refStk, refStk_itemsOf st1 rest]
  | .en name :: rest, stk, p => by
    simp only [itemsOf, segStk, refStk, refStk_itemsOf st1 rest]

/-- all side conditions on the tables, the initialised parser state and the document -/
def SegsOk (T : PTables) (st : PState) (segs : List Seg) : Prop :=
  noEmptyActive T st = true ∧ (activeChars T st).contains [' '] = false ∧
  segsOk T st st.itemStack segs = true

instance (T : PTables) (st : PState) (segs : List Seg) : Decidable (SegsOk T st segs) := by
  unfold SegsOk; infer_instance

/-- **lists, end to end (general form).**  The document consists of inert text and the commands
    `\\begin{name}`, `\\item` (no label), `\\end{name}` of declared list environments, in any order and
    nesting (`SegsOk`: all side conditions); `st1` is the state after `Parser.__init__`; no `--defs`,
    `--extr`, `--repl`, `--unkn`; single-language mode.  With one unit of fuel per source character
    and four more, `tex2txt` succeeds; text and (1-based) positions are
    `delLines (segMarks T st1 st1.itemStack 0 segs)`; no unknowns, no new diagnostics. -/
theorem tex2txt_lists (T : PTables) (o : Options) (fs : FS) (thresh : Nat) (segs : List Seg)
    (fuel : Nat) (st1 : PState)
    (hdefs : o.defs = []) (hextr : o.extr = []) (hrepl : o.hasRepl = false) (hunkn : o.unkn = false)
    (hinit : initParser T fuel o (initialState T o false fs) = .ok ((), st1))
    (hok : SegsOk T st1 segs) (hf : (render segs).length + 4 ≤ fuel) :
    ∃ r, tex2txt T fuel (render segs) o false thresh fs = .ok r ∧
      r.txt = (delLines (segMarks T st1 st1.itemStack 0 segs)).map (·.1) ∧
      r.pos = (delLines (segMarks T st1 st1.itemStack 0 segs)).map (·.2 + 1) ∧
      r.unknowns = [] ∧ r.diags = st1.diags ∧ r.parts = [] := by
  obtain ⟨ha, hb, hsegs⟩ := hok
  have hsrc := OkSrc_of_segsOk T st1 segs st1.itemStack 0 hsegs
  obtain ⟨toks, ht⟩ := tex2txt_list_src T o fs thresh (render segs) fuel st1 _ hdefs hextr hrepl hunkn
    hinit ha hb hsrc hf
  rw [refMarks_itemsOf] at ht
  exact ⟨_, ht, rfl, rfl, rfl, rfl, rfl⟩

/-- the same for `parse`, with the final parser state: only `itemStack` may differ from the state
    `parse` starts the document with -/
theorem parse_lists (T : PTables) (segs : List Seg) (fuel : Nat) (st1 : PState)
    (hok : SegsOk T st1 segs) (hf : (render segs).length + 4 ≤ fuel) :
    ∃ r, parse T fuel (render segs) [] [] st1
        = .ok (r, { st1 with extracted := [], unknowns := [], foreign := false, nest := 0,
                             itemStack := segStk st1 st1.itemStack segs }) ∧
      charsOf r = delLines (segMarks T st1 st1.itemStack 0 segs) := by
  obtain ⟨ha, hb, hsegs⟩ := hok
  have hsrc := OkSrc_of_segsOk T st1 segs st1.itemStack 0 hsegs
  obtain ⟨r, hp, hc⟩ := parse_list T st1 (render segs) fuel _ hf ha hb hsrc
  rw [refMarks_itemsOf] at hc
  rw [refStk_itemsOf] at hp
  exact ⟨r, hp, hc⟩

/-! ### what `delLines` does on the lines of a list -/

open PlainMacro (linesKept delLines_kept delLines_append_nl delLines_pure_line BlankRun
  filterMap_map_some)

/-- lines without Action mark are kept -/
theorem linesKept_chars : ∀ (cs : List (Char × Nat)) (b : Bool), linesKept b false (cs.map some) = true
  | [], b => by simp [linesKept]
  | cp :: cs, b => by
    simp only [List.map_cons, linesKept]
    split
    · simp [linesKept_chars cs true]
    · exact linesKept_chars cs _

/-- a line with a visible character is kept, and so are the lines without mark behind it -/
theorem linesKept_visible : ∀ (cs : List (Char × Nat)) (a : Bool), linesKept false a (cs.map some) = true
  | [], a => by simp [linesKept]
  | cp :: cs, a => by
    simp only [List.map_cons, linesKept]
    split
    · simp [linesKept_chars cs true]
    · simpa using linesKept_visible cs a

theorem linesKept_nonl : ∀ (W : List (Char × Nat)) (b a : Bool) (Z : List Mark),
    (∀ cp ∈ W, (cp.1 == nl) = false) →
    linesKept b a (W.map some ++ Z) = linesKept (b && W.all (fun cp => isSpace cp.1)) a Z
  | [], b, a, Z, _ => by simp
  | cp :: W, b, a, Z, h => by
    have h1 : (cp.1 == nl) = false := h cp (List.mem_cons_self ..)
    simp only [List.map_cons, List.cons_append, linesKept, h1, Bool.false_eq_true, if_false]
    rw [linesKept_nonl W _ a Z (fun x hx => h x (List.mem_cons_of_mem _ hx))]
    simp [Bool.and_assoc]

/-- text without marks is not touched -/
theorem delLines_chars (cs : List (Char × Nat)) : delLines (cs.map some) = cs := by
  rw [delLines_kept _ (linesKept_chars cs true), filterMap_map_some]

/-- text without marks up to a line break: kept, and the rest is treated on its own -/
theorem delLines_text_nl (cs : List (Char × Nat)) (nlp : Char × Nat) (hn : (nlp.1 == nl) = true)
    (B : List Mark) : delLines (cs.map some ++ some nlp :: B) = cs ++ nlp :: delLines B := by
  rw [delLines_append_nl _ B nlp hn]
  have : cs.map some ++ [some nlp] = (cs ++ [nlp]).map some := by simp
  rw [this, delLines_chars]
  simp

/-- a line that consists of Action marks only disappears with its line break -/
theorem delLines_marks_nl (L : List Mark) (hL : ∀ m ∈ L, m = none) (hne : L ≠ [])
    (nlp : Char × Nat) (hn : (nlp.1 == nl) = true) (B : List Mark) :
    delLines (L ++ some nlp :: B) = delLines B := by
  rw [delLines_append_nl L B nlp hn, delLines_pure_line L (fun m hm => Or.inl (hL m hm)) ?_ nlp hn,
    List.nil_append]
  cases L with
  | nil => exact absurd rfl hne
  | cons m L => rw [hL m (List.mem_cons_self ..)]; rfl

/-- the line of an item: an Action mark, label characters without line break, a visible
    character, more text up to the line break — everything is kept -/
theorem delLines_item (W : List (Char × Nat)) (hW : ∀ cp ∈ W, (cp.1 == nl) = false)
    (c : Char × Nat) (hc : isSpace c.1 = false) (cs : List (Char × Nat)) (nlp : Char × Nat)
    (hn : (nlp.1 == nl) = true) (B : List Mark) :
    delLines (none :: (W.map some ++ some c :: (cs.map some ++ some nlp :: B)))
      = W ++ c :: (cs ++ nlp :: delLines B) := by
  have hcn : (c.1 == nl) = false := by
    cases h : c.1 == nl with
    | false => rfl
    | true =>
      have : c.1 = nl := by simpa using h
      rw [this] at hc; exact absurd hc (by decide)
  have e : none :: (W.map some ++ some c :: (cs.map some ++ some nlp :: B))
      = (none :: (W.map some ++ some c :: cs.map some)) ++ some nlp :: B := by simp
  rw [e, delLines_append_nl _ B nlp hn]
  have hk : linesKept true false ((none :: (W.map some ++ some c :: cs.map some)) ++ [some nlp]) = true := by
    have e2 : (none :: (W.map some ++ some c :: cs.map some)) ++ [some nlp]
        = none :: (W.map some ++ some c :: (cs ++ [nlp]).map some) := by simp
    rw [e2]
    simp only [linesKept]
    rw [linesKept_nonl W _ _ _ hW]
    simp only [linesKept, hcn, Bool.false_eq_true, if_false, hc, Bool.and_false]
    exact linesKept_visible _ _
  rw [delLines_kept _ hk]
  simp

/-! ### one list -/

/-- the bottom generator `Parser.__init__` installs -/
def gen0 : ItemGen := { style := .dflt, level := 0, count := 0, env := [] }

/-- the generator of a list on the first level that has numbered `k` items -/
def gen (style : ItemStyle) (name : Str) (k : Nat) : ItemGen :=
  { style := style, level := 0, count := k, env := name }

/-- the label of the item with index `k` (from 0) of a first-level list of style `style`:
    `k+1` followed by a full stop for `enumerate`, the first entry of `item_default_label` otherwise -/
def listLabel (T : PTables) (style : ItemStyle) (k : Nat) : Str :=
  (itemLabel T.itemDefaultLabel { style := style, level := 0, count := k, env := [] }).getD []

theorem listLabel_enumerate (T : PTables) (k : Nat) :
    listLabel T .enumerate k = natToStr (k + 1) ++ ['.'] := rfl

theorem listLabel_itemize (T : PTables) (k : Nat) :
    listLabel T .itemize k = (T.itemDefaultLabel[0]?).getD [] := by
  simp [listLabel, itemLabel]

/-- one list: text, `\\begin{name}`, text `w0` (the rest of that line), the items — each `\\item`,
    white space `ws`, text `body` — , `\\end{name}`, text -/
def listDoc (pre name w0 : Str) (its : List (Str × Str)) (post : Str) : List Seg :=
  .txt pre :: .beg name :: .txt w0 ::
    (its.flatMap (fun it => [Seg.item it.1, Seg.txt it.2]) ++ [.en name, .txt post])

/-- source length of the items -/
def itsLen : List (Str × Str) → Nat
  | [] => 0
  | it :: rest => it.1.length + 5 + it.2.length + itsLen rest

/-- the marks of the items: `k` = index of the first one, `q` = its position -/
def itemMarks (lab : Nat → Str) : Nat → Nat → List (Str × Str) → List Mark
  | _, _, [] => []
  | k, q, it :: rest =>
    none :: some (' ', q) :: ((lab k).map (fun c => some (c, q)) ++ some (' ', q) ::
      ((posText (q + (it.1.length + 5)) it.2).map some
        ++ itemMarks lab (k + 1) (q + (it.1.length + 5) + it.2.length) rest))

theorem labOf_gen (T : PTables) (style : ItemStyle) (name : Str) (k : Nat) (gs : List ItemGen) :
    labOf T (gen style name k :: gs) = listLabel T style k := rfl

theorem segMarks_items (T : PTables) (st1 : PState) (style : ItemStyle) (name : Str) (gs : List ItemGen)
    (tail : List Seg) : ∀ (its : List (Str × Str)) (k q : Nat),
    segMarks T st1 (gen style name k :: gs) q (its.flatMap (fun it => [Seg.item it.1, Seg.txt it.2]) ++ tail)
      = itemMarks (listLabel T style) k q its
        ++ segMarks T st1 (gen style name (k + its.length) :: gs) (q + itsLen its) tail
  | [], k, q => by simp [itemMarks, itsLen]
  | it :: rest, k, q => by
    have ih := segMarks_items T st1 style name gs tail rest (k + 1) (q + (it.1.length + 5) + it.2.length)
    have e1 : itemStk (gen style name k :: gs) = gen style name (k + 1) :: gs := rfl
    have e2 : k + 1 + rest.length = k + (rest.length + 1) := by omega
    have e3 : q + (it.1.length + 5) + it.2.length + itsLen rest
        = q + (it.1.length + 5 + it.2.length + itsLen rest) := by omega
    simp only [List.flatMap_cons, List.cons_append, List.nil_append, segMarks, labOf_gen, e1, ih,
      itemMarks, itsLen, List.length_cons, e2, e3, List.append_assoc]

theorem segStk_items (st1 : PState) (style : ItemStyle) (name : Str) (gs : List ItemGen)
    (tail : List Seg) : ∀ (its : List (Str × Str)) (k : Nat),
    segStk st1 (gen style name k :: gs) (its.flatMap (fun it => [Seg.item it.1, Seg.txt it.2]) ++ tail)
      = segStk st1 (gen style name (k + its.length) :: gs) tail
  | [], k => by simp
  | it :: rest, k => by
    have ih := segStk_items st1 style name gs tail rest (k + 1)
    have e1 : itemStk (gen style name k :: gs) = gen style name (k + 1) :: gs := rfl
    have e2 : k + 1 + rest.length = k + (rest.length + 1) := by omega
    simp only [List.flatMap_cons, List.cons_append, List.nil_append, segStk, e1, ih, List.length_cons, e2]

/-- the marks of a one-list document -/
def listMarks (T : PTables) (env : MacroDef) (style : ItemStyle) (pre name w0 : Str)
    (its : List (Str × Str)) (post : Str) : List Mark :=
  (posText 0 pre).map some ++ (envMarks env pre.length ++ none ::
    ((posText (pre.length + (name.length + 8)) w0).map some
      ++ (itemMarks (listLabel T style) 0 (pre.length + (name.length + 8) + w0.length) its
      ++ (envMarks env (pre.length + (name.length + 8) + w0.length + itsLen its)
      ++ (posText (pre.length + (name.length + 8) + w0.length + itsLen its + (name.length + 6)) post).map some))))

theorem begStk_gen0 (st1 : PState) (name : Str) (hne : name ≠ []) :
    begStk st1 [gen0] name = [gen (styleOf st1 name) name 0, gen0] := by
  have : (gen0.env == name) = false := by
    simp only [gen0, beq_eq_false_iff_ne, ne_eq]
    exact fun e => hne e.symm
  simp [begStk, gen, this]

theorem segMarks_listDoc (T : PTables) (st1 : PState) (pre name w0 : Str) (its : List (Str × Str))
    (post : Str) (hne : name ≠ []) :
    segMarks T st1 [gen0] 0 (listDoc pre name w0 its post)
      = listMarks T (envOf st1 name) (styleOf st1 name) pre name w0 its post := by
  simp only [listDoc, segMarks, begStk_gen0 st1 name hne, segMarks_items, Nat.zero_add, listMarks,
    List.append_nil]

theorem segStk_listDoc (st1 : PState) (pre name w0 : Str) (its : List (Str × Str)) (post : Str)
    (hne : name ≠ []) : segStk st1 [gen0] (listDoc pre name w0 its post) = [gen0] := by
  simp only [listDoc, segStk, begStk_gen0 st1 name hne, segStk_items]
  rfl

/-! ### the clean layout: `\begin{name}` and `\end{name}` on lines of their own, every `\item` at the
    start of a line -/

/-- the text of an item in the clean layout: it starts with a visible character and ends with a
    line break -/
def lineBody (b : Str) : Bool := b.head?.any (fun c => !isSpace c) && b.getLast? == some nl

theorem lineBody_split {b : Str} (h : lineBody b = true) :
    ∃ c cs, b = c :: (cs ++ [nl]) ∧ isSpace c = false := by
  simp only [lineBody, Bool.and_eq_true, beq_iff_eq] at h
  obtain ⟨h1, h2⟩ := h
  rcases List.eq_nil_or_concat b with rfl | ⟨L, x, rfl⟩
  · simp at h2
  · have hx : x = nl := by simpa using h2
    subst hx
    cases L with
    | nil => simp at h1; exact absurd h1 (by decide)
    | cons c cs =>
      refine ⟨c, cs, by simp, ?_⟩
      simpa using h1

/-- the output characters of the items: a blank, the label, a blank (all at the position of
    `\item`), then the text of the item with its own positions; the white space behind `\item`
    has disappeared -/
def itemsOut (lab : Nat → Str) : Nat → Nat → List (Str × Str) → List (Char × Nat)
  | _, _, [] => []
  | k, q, it :: rest =>
    (' ', q) :: ((lab k).map (fun c => (c, q)) ++ (' ', q) ::
      (posText (q + (it.1.length + 5)) it.2
        ++ itemsOut lab (k + 1) (q + (it.1.length + 5) + it.2.length) rest))

theorem hasNl_false_mem {s : Str} (h : hasNl s = false) : ∀ c ∈ s, (c == nl) = false := by
  intro c hc
  cases hcn : c == nl with
  | false => rfl
  | true =>
    have : c = nl := by simpa using hcn
    subst this
    have : hasNl s = true := by simpa [hasNl] using hc
    rw [h] at this; cases this

theorem delLines_itemMarks (lab : Nat → Str) (B : List Mark) :
    ∀ (its : List (Str × Str)) (k q : Nat), (∀ it ∈ its, lineBody it.2 = true) →
      (∀ j, j < its.length → hasNl (lab (k + j)) = false) →
      delLines (itemMarks lab k q its ++ B) = itemsOut lab k q its ++ delLines B
  | [], _, _, _, _ => by simp [itemMarks, itemsOut]
  | it :: rest, k, q, hb, hl => by
    obtain ⟨c, cs, hbody, hc⟩ := lineBody_split (hb it (List.mem_cons_self ..))
    have ih := delLines_itemMarks lab B rest (k + 1) (q + (it.1.length + 5) + it.2.length)
      (fun x hx => hb x (List.mem_cons_of_mem _ hx))
      (fun j hj => by
        have := hl (j + 1) (by simp; omega)
        rwa [show k + (j + 1) = k + 1 + j by omega] at this)
    have hl0 : hasNl (lab k) = false := by simpa using hl 0 (by simp)
    have hW : ∀ cp ∈ ((' ', q) :: ((lab k).map (fun c => (c, q)) ++ [(' ', q)])), (cp.1 == nl) = false := by
      intro cp hcp
      simp only [List.mem_cons, List.mem_append, List.mem_map, List.not_mem_nil, or_false] at hcp
      rcases hcp with rfl | ⟨x, hx, rfl⟩ | rfl
      · rfl
      · exact hasNl_false_mem hl0 x hx
      · rfl
    have e : itemMarks lab k q (it :: rest) ++ B
        = none :: ((((' ', q) :: ((lab k).map (fun c => (c, q)) ++ [(' ', q)])).map some)
            ++ some (c, q + (it.1.length + 5)) ::
              ((posText (q + (it.1.length + 5) + 1) cs).map some
                ++ some (nl, q + (it.1.length + 5) + 1 + cs.length) ::
                  (itemMarks lab (k + 1) (q + (it.1.length + 5) + it.2.length) rest ++ B))) := by
      simp only [itemMarks, hbody, posText, posText_append, List.map_cons, List.map_append,
        List.cons_append, List.append_assoc, List.map_map, List.nil_append, List.map_nil]
      rfl
    rw [e, delLines_item _ hW (c, q + (it.1.length + 5)) hc _ _ rfl, ih]
    simp only [itemsOut, hbody, posText, posText_append, List.cons_append, List.append_assoc,
      List.nil_append]

/-- what `add_pars` leaves of the line of `\begin{name}` / `\end{name}` -/
def parOut (env : MacroDef) (p : Nat) : List (Char × Nat) :=
  if env.addPars then [(nl, p), (nl, p)] else []

/-- the line `\begin{name}` (with the Action mark of the argument expansion) disappears; what stays
    is the paragraph break of `add_pars`, if any -/
theorem delLines_beg (env : MacroDef) (p : Nat) (nlp : Char × Nat) (hn : (nlp.1 == nl) = true)
    (B : List Mark) :
    delLines (envMarks env p ++ none :: some nlp :: B) = parOut env p ++ delLines B := by
  unfold envMarks parOut
  split
  · have h1 := delLines_text_nl [] (nl, p) rfl (some (nl, p) :: none :: some nlp :: B)
    have h2 := delLines_text_nl [] (nl, p) rfl (none :: some nlp :: B)
    have h3 := delLines_marks_nl [none] (by simp) (by simp) nlp hn B
    simp only [List.map_nil, List.nil_append, List.cons_append] at h1 h2 h3 ⊢
    rw [h1, h2, h3]
  · have h3 := delLines_marks_nl [none, none] (by simp) (by simp) nlp hn B
    simpa using h3

/-- the line `\end{name}`: it disappears, or (with `add_pars`) becomes a paragraph break in front
    of its line break -/
theorem delLines_end (env : MacroDef) (p : Nat) (nlp : Char × Nat) (hn : (nlp.1 == nl) = true)
    (cs : List (Char × Nat)) :
    delLines (envMarks env p ++ some nlp :: cs.map some)
      = (if env.addPars then [(nl, p), (nl, p), nlp] else []) ++ cs := by
  unfold envMarks
  split
  · have h1 := delLines_text_nl [] (nl, p) rfl (some (nl, p) :: some nlp :: cs.map some)
    have h2 := delLines_text_nl [] (nl, p) rfl (some nlp :: cs.map some)
    have h3 := delLines_text_nl [] nlp hn (cs.map some)
    simp only [List.map_nil, List.nil_append, List.cons_append] at h1 h2 h3 ⊢
    rw [h1, h2, h3, delLines_chars]
  · have h3 := delLines_marks_nl [none] (by simp) (by simp) nlp hn (cs.map some)
    simp only [List.cons_append, List.nil_append] at h3 ⊢
    rw [h3, delLines_chars]

/-- text in front of the list that is empty or ends with a line break is kept -/
theorem delLines_pre (pre : Str) (hpre : pre = [] ∨ pre.getLast? = some nl) (p : Nat) (B : List Mark) :
    delLines ((posText p pre).map some ++ B) = posText p pre ++ delLines B := by
  rcases hpre with rfl | h
  · simp [posText]
  · rcases List.eq_nil_or_concat pre with rfl | ⟨L, x, rfl⟩
    · simp at h
    · have hx : x = nl := by simpa using h
      subst hx
      rw [List.concat_eq_append, posText_append]
      simp only [posText, List.map_append, List.map_cons, List.map_nil, List.append_assoc,
        List.cons_append, List.nil_append]
      rw [delLines_text_nl _ _ rfl]

/-- the output of a one-list document in the clean layout -/
def listOut (T : PTables) (env : MacroDef) (style : ItemStyle) (pre name : Str)
    (its : List (Str × Str)) (post : Str) : List (Char × Nat) :=
  posText 0 pre ++ (parOut env pre.length
    ++ (itemsOut (listLabel T style) 0 (pre.length + (name.length + 8) + 1) its
    ++ ((if env.addPars then
          [(nl, pre.length + (name.length + 8) + 1 + itsLen its),
           (nl, pre.length + (name.length + 8) + 1 + itsLen its),
           (nl, pre.length + (name.length + 8) + 1 + itsLen its + (name.length + 6))]
         else [])
    ++ posText (pre.length + (name.length + 8) + 1 + itsLen its + (name.length + 6) + 1) post)))

theorem delLines_listMarks (T : PTables) (env : MacroDef) (style : ItemStyle) (pre name : Str)
    (its : List (Str × Str)) (post : Str)
    (hpre : pre = [] ∨ pre.getLast? = some nl) (hb : ∀ it ∈ its, lineBody it.2 = true)
    (hl : ∀ j, j < its.length → hasNl (listLabel T style j) = false) :
    delLines (listMarks T env style pre name [nl] its (nl :: post))
      = listOut T env style pre name its post := by
  unfold listMarks listOut
  rw [delLines_pre pre hpre]
  simp only [posText, List.map_cons, List.map_nil, List.cons_append, List.nil_append,
    List.length_cons, List.length_nil, Nat.zero_add]
  rw [delLines_beg env _ _ rfl,
    delLines_itemMarks _ _ its 0 _ hb (fun j hj => by simpa using hl j hj),
    delLines_end env _ _ rfl]

/-! ### the end-to-end statements for one list -/

theorem segsOk_items (T : PTables) (st : PState) (style : ItemStyle) (name : Str) (gs : List ItemGen)
    (tail : List Seg) : ∀ (its : List (Str × Str)) (k : Nat),
    segsOk T st (gen style name k :: gs) (its.flatMap (fun it => [Seg.item it.1, Seg.txt it.2]) ++ tail) = true →
    ∀ j, j < its.length → labelAt T st (gen style name (k + j) :: gs) = true
  | [], _, _, j, hj => by simp at hj
  | it :: rest, k, h, j, hj => by
    simp only [List.flatMap_cons, List.cons_append, List.nil_append, segsOk, Bool.and_eq_true] at h
    cases j with
    | zero => exact h.1.2
    | succ j =>
      have e1 : itemStk (gen style name k :: gs) = gen style name (k + 1) :: gs := rfl
      rw [e1] at h
      have := segsOk_items T st style name gs tail rest (k + 1) h.2.2 j (by simpa using hj)
      rwa [show k + 1 + j = k + (j + 1) by omega] at this

/-- what `SegsOk` says about a one-list document: the name is not empty, it is declared as a list
    environment, and the labels of the items contain no line break -/
theorem segsOk_listDoc_facts {T : PTables} {st1 : PState} {pre name w0 : Str} {its : List (Str × Str)}
    {post : Str} (hstack : st1.itemStack = [gen0])
    (hok : SegsOk T st1 (listDoc pre name w0 its post)) :
    name ≠ [] ∧ listEnvAt st1 name = true ∧
    ∀ j, j < its.length → hasNl (listLabel T (styleOf st1 name) j) = false := by
  obtain ⟨_, _, h⟩ := hok
  rw [hstack] at h
  simp only [listDoc, segsOk, Bool.and_eq_true] at h
  obtain ⟨_, hbeg, _, hrest⟩ := h
  have D := begFacts hbeg
  refine ⟨D.ne, D.env, ?_⟩
  intro j hj
  rw [begStk_gen0 st1 name D.ne] at hrest
  have := segsOk_items T st1 _ name [gen0] _ its 0 hrest j hj
  have h2 := labelAt_hasNl this
  rwa [labOf_gen, Nat.zero_add] at h2

theorem envOf_eq {st1 : PState} {name : Str} {env : MacroDef} (h : lookupEnv st1 name = some env) :
    envOf st1 name = env := by simp [envOf, h]

theorem styleOf_eq {st1 : PState} {name : Str} {env : MacroDef} {style : ItemStyle}
    (h : lookupEnv st1 name = some env) (hs : env.items = some style) : styleOf st1 name = style := by
  simp [styleOf, envOf_eq h, hs]

/-- **one list, end to end (C03 / C05 / C07 for lists).**

    The document is `pre`, `\begin{name}` + line break, the items `\item` + white space `ws` + text
    `body`, `\end{name}` + line break, `post` — `listDoc pre name "\n" its ("\n" ++ post)` — in the
    clean layout: `pre` is empty or ends with a line break, the text of every item starts with a
    visible character and ends with a line break (`lineBody`), so that `\begin{name}`, every `\item`
    and `\end{name}` stand at the start of a line.  `name` is declared in the initialised parser
    `st1` as the list environment `env` with label style `style`; `st1.itemStack` is the singleton
    `Parser.__init__` installs; `SegsOk` collects the scanner-level side conditions (see the header).
    Options / initialisation as in `tex2txt_plain_text`; one unit of fuel per source character
    and four more.

    Then `tex2txt` succeeds; text and (1-based) positions are `listOut`:
    * `pre` and `post` and the texts of the items are kept, every character at its own position;
    * the k-th `\item` (with the white space behind it) is replaced by blank + label k + blank, every
      character of which maps to the position of the backslash of that `\item`;
    * the lines `\begin{name}` and `\end{name}` vanish (for an environment with `add_pars`: a
      paragraph break — two line breaks at the position of the backslash — takes the place of
      `\begin{name}` + line break, and stands in front of the line break behind `\end{name}`);
    * no unknowns, no new diagnostics. -/
theorem tex2txt_list (T : PTables) (o : Options) (fs : FS) (thresh : Nat) (fuel : Nat) (st1 : PState)
    (env : MacroDef) (style : ItemStyle) (pre name : Str) (its : List (Str × Str)) (post : Str)
    (hdefs : o.defs = []) (hextr : o.extr = []) (hrepl : o.hasRepl = false) (hunkn : o.unkn = false)
    (hinit : initParser T fuel o (initialState T o false fs) = .ok ((), st1))
    (henv : lookupEnv st1 name = some env) (hstyle : env.items = some style)
    (hstack : st1.itemStack = [gen0])
    (hok : SegsOk T st1 (listDoc pre name [nl] its (nl :: post)))
    (hpre : pre = [] ∨ pre.getLast? = some nl) (hb : ∀ it ∈ its, lineBody it.2 = true)
    (hf : (render (listDoc pre name [nl] its (nl :: post))).length + 4 ≤ fuel) :
    ∃ r, tex2txt T fuel (render (listDoc pre name [nl] its (nl :: post))) o false thresh fs = .ok r ∧
      r.txt = (listOut T env style pre name its post).map (·.1) ∧
      r.pos = (listOut T env style pre name its post).map (·.2 + 1) ∧
      r.unknowns = [] ∧ r.diags = st1.diags ∧ r.parts = [] := by
  obtain ⟨hne, _, hl⟩ := segsOk_listDoc_facts hstack hok
  obtain ⟨r, h1, h2, h3, h4, h5, h6⟩ := tex2txt_lists T o fs thresh _ fuel st1 hdefs hextr hrepl hunkn
    hinit hok hf
  rw [styleOf_eq henv hstyle] at hl
  rw [hstack, segMarks_listDoc T st1 pre name [nl] its (nl :: post) hne, envOf_eq henv,
    styleOf_eq henv hstyle, delLines_listMarks T env style pre name its post hpre hb hl] at h2 h3
  exact ⟨r, h1, h2, h3, h4, h5, h6⟩

/-- **… and the parser state.**  Under the same hypotheses `parse` returns tokens whose characters
    and (0-based) positions are `listOut`, and the final state is the one `parse` starts the
    document with: in particular `itemStack` is the initial singleton again. -/
theorem parse_list_doc (T : PTables) (fuel : Nat) (st1 : PState)
    (env : MacroDef) (style : ItemStyle) (pre name : Str) (its : List (Str × Str)) (post : Str)
    (henv : lookupEnv st1 name = some env) (hstyle : env.items = some style)
    (hstack : st1.itemStack = [gen0])
    (hok : SegsOk T st1 (listDoc pre name [nl] its (nl :: post)))
    (hpre : pre = [] ∨ pre.getLast? = some nl) (hb : ∀ it ∈ its, lineBody it.2 = true)
    (hf : (render (listDoc pre name [nl] its (nl :: post))).length + 4 ≤ fuel) :
    ∃ r, parse T fuel (render (listDoc pre name [nl] its (nl :: post))) [] [] st1
        = .ok (r, { st1 with extracted := [], unknowns := [], foreign := false, nest := 0 }) ∧
      charsOf r = listOut T env style pre name its post := by
  obtain ⟨hne, _, hl⟩ := segsOk_listDoc_facts hstack hok
  obtain ⟨r, h1, h2⟩ := parse_lists T _ fuel st1 hok hf
  rw [styleOf_eq henv hstyle] at hl
  rw [hstack, segMarks_listDoc T st1 pre name [nl] its (nl :: post) hne, envOf_eq henv,
    styleOf_eq henv hstyle, delLines_listMarks T env style pre name its post hpre hb hl] at h2
  rw [hstack, segStk_listDoc st1 pre name [nl] its (nl :: post) hne, ← hstack] at h1
  exact ⟨r, h1, h2⟩

/-! ### environments without `add_pars` (`enumerate`, `itemize` of the real tables) -/

/-- the output of a one-list document in the clean layout for an environment without `add_pars`:
    the lines `\begin{name}` and `\end{name}` leave nothing -/
def listOutPlain (lab : Nat → Str) (pre name : Str) (its : List (Str × Str)) (post : Str) :
    List (Char × Nat) :=
  posText 0 pre ++ (itemsOut lab 0 (pre.length + (name.length + 8) + 1) its
    ++ posText (pre.length + (name.length + 8) + 1 + itsLen its + (name.length + 6) + 1) post)

theorem listOut_noPars (T : PTables) (env : MacroDef) (style : ItemStyle) (pre name : Str)
    (its : List (Str × Str)) (post : Str) (h : env.addPars = false) :
    listOut T env style pre name its post = listOutPlain (listLabel T style) pre name its post := by
  simp [listOut, listOutPlain, parOut, h]

/-- the text of the items in the output -/
def itemsTxt (lab : Nat → Str) : Nat → List (Str × Str) → Str
  | _, [] => []
  | k, it :: rest => ' ' :: (lab k ++ ' ' :: (it.2 ++ itemsTxt lab (k + 1) rest))

theorem itemsOut_fst (lab : Nat → Str) : ∀ (its : List (Str × Str)) (k q : Nat),
    (itemsOut lab k q its).map (·.1) = itemsTxt lab k its
  | [], _, _ => rfl
  | it :: rest, k, q => by
    simp only [itemsOut, itemsTxt, List.map_cons, List.map_append, List.map_map, posText_fst,
      itemsOut_fst lab rest]
    congr 2
    simp [Function.comp_def]

/-- the output text: `pre`, then for every item a blank, its label, a blank and its text, then `post` -/
theorem listOutPlain_txt (lab : Nat → Str) (pre name : Str) (its : List (Str × Str)) (post : Str) :
    (listOutPlain lab pre name its post).map (·.1) = pre ++ (itemsTxt lab 0 its ++ post) := by
  simp only [listOutPlain, List.map_append, posText_fst, itemsOut_fst]

/-- **`enumerate` (an environment with numbered items, no `add_pars`), end to end.**  The k-th
    `\item` (k = 1, 2, …) is replaced by ` k. ` at the position of its backslash. -/
theorem tex2txt_enumerate (T : PTables) (o : Options) (fs : FS) (thresh : Nat) (fuel : Nat) (st1 : PState)
    (env : MacroDef) (pre name : Str) (its : List (Str × Str)) (post : Str)
    (hdefs : o.defs = []) (hextr : o.extr = []) (hrepl : o.hasRepl = false) (hunkn : o.unkn = false)
    (hinit : initParser T fuel o (initialState T o false fs) = .ok ((), st1))
    (henv : lookupEnv st1 name = some env) (hstyle : env.items = some .enumerate)
    (hpars : env.addPars = false) (hstack : st1.itemStack = [gen0])
    (hok : SegsOk T st1 (listDoc pre name [nl] its (nl :: post)))
    (hpre : pre = [] ∨ pre.getLast? = some nl) (hb : ∀ it ∈ its, lineBody it.2 = true)
    (hf : (render (listDoc pre name [nl] its (nl :: post))).length + 4 ≤ fuel) :
    ∃ r, tex2txt T fuel (render (listDoc pre name [nl] its (nl :: post))) o false thresh fs = .ok r ∧
      r.txt = (listOutPlain (fun k => natToStr (k + 1) ++ ['.']) pre name its post).map (·.1) ∧
      r.pos = (listOutPlain (fun k => natToStr (k + 1) ++ ['.']) pre name its post).map (·.2 + 1) ∧
      r.unknowns = [] ∧ r.diags = st1.diags ∧ r.parts = [] := by
  obtain ⟨r, h1, h2, h3, h4, h5, h6⟩ := tex2txt_list T o fs thresh fuel st1 env .enumerate pre name its
    post hdefs hextr hrepl hunkn hinit henv hstyle hstack hok hpre hb hf
  rw [listOut_noPars T env _ pre name its post hpars] at h2 h3
  exact ⟨r, h1, h2, h3, h4, h5, h6⟩

/-- **`itemize` (an environment with the default bullet, no `add_pars`), end to end.**  Every
    `\item` is replaced by blank + first entry of `item_default_label` + blank at the position of
    its backslash. -/
theorem tex2txt_itemize (T : PTables) (o : Options) (fs : FS) (thresh : Nat) (fuel : Nat) (st1 : PState)
    (env : MacroDef) (pre name : Str) (its : List (Str × Str)) (post : Str)
    (hdefs : o.defs = []) (hextr : o.extr = []) (hrepl : o.hasRepl = false) (hunkn : o.unkn = false)
    (hinit : initParser T fuel o (initialState T o false fs) = .ok ((), st1))
    (henv : lookupEnv st1 name = some env) (hstyle : env.items = some .itemize)
    (hpars : env.addPars = false) (hstack : st1.itemStack = [gen0])
    (hok : SegsOk T st1 (listDoc pre name [nl] its (nl :: post)))
    (hpre : pre = [] ∨ pre.getLast? = some nl) (hb : ∀ it ∈ its, lineBody it.2 = true)
    (hf : (render (listDoc pre name [nl] its (nl :: post))).length + 4 ≤ fuel) :
    ∃ r, tex2txt T fuel (render (listDoc pre name [nl] its (nl :: post))) o false thresh fs = .ok r ∧
      r.txt = (listOutPlain (fun _ => (T.itemDefaultLabel[0]?).getD []) pre name its post).map (·.1) ∧
      r.pos = (listOutPlain (fun _ => (T.itemDefaultLabel[0]?).getD []) pre name its post).map (·.2 + 1) ∧
      r.unknowns = [] ∧ r.diags = st1.diags ∧ r.parts = [] := by
  obtain ⟨r, h1, h2, h3, h4, h5, h6⟩ := tex2txt_list T o fs thresh fuel st1 env .itemize pre name its
    post hdefs hextr hrepl hunkn hinit henv hstyle hstack hok hpre hb hf
  rw [listOut_noPars T env _ pre name its post hpars,
    show listLabel T .itemize = fun _ => (T.itemDefaultLabel[0]?).getD [] from
      funext (listLabel_itemize T)] at h2 h3
  exact ⟨r, h1, h2, h3, h4, h5, h6⟩

/-! ### simpler sufficient conditions

  `segsOk` is context dependent; the following conditions on the tables, the characters and the
  names imply it. -/

/-- a label of at least two characters that ends with a full stop and has no line break is fine -/
theorem labOk_of_dot (T : PTables) (st : PState) (lab : Str) (h1 : lab.getLast? = some '.')
    (h2 : 2 ≤ lab.length) (h3 : hasNl lab = false) : labOk T st lab = true := by
  simp only [labOk, Bool.and_eq_true, bne_iff_ne, ne_eq, Bool.not_eq_true']
  refine ⟨⟨⟨⟨⟨⟨⟨⟨?_, ?_⟩, ?_⟩, ?_⟩, ?_⟩, ?_⟩, ?_⟩, not_active_long T st lab h2⟩, h3⟩ <;>
    (intro e; rw [e] at h1; exact absurd h1 (by decide))

theorem natToStr_ne_nil (n : Nat) : natToStr (n + 1) ≠ [] := by
  obtain ⟨d, tl, e, _⟩ := toDigits_head (n + 1) (by omega)
  rw [natToStr_eq, e]; simp

theorem hasNl_natToStr (n : Nat) : hasNl (natToStr n) = false := by
  cases h : hasNl (natToStr n) with
  | false => rfl
  | true =>
    have hm : nl ∈ Nat.toDigits 10 n := by simpa [hasNl, natToStr_eq] using h
    have := Nat.isDigit_of_mem_toDigits (b := 10) (by omega) (by omega) hm
    revert this; decide

theorem hasNl_append (a b : Str) : hasNl (a ++ b) = (hasNl a || hasNl b) := by
  simp [hasNl]

/-- **the labels of `enumerate` are always fine**, on every level, for all tables -/
theorem labOk_enumLabel (T : PTables) (st : PState) (level count : Nat) :
    labOk T st (enumLabel level count) = true := by
  unfold enumLabel
  split
  · have hne := natToStr_ne_nil count
    refine labOk_of_dot T st _ (by simp) ?_ ?_
    · have := List.length_pos_iff.mpr hne
      simp only [List.length_append, List.length_cons, List.length_nil]; omega
    · rw [hasNl_append, hasNl_natToStr]; rfl
  · refine labOk_of_dot T st _ rfl (by simp) ?_
    have h26 : count % 26 < 26 := Nat.mod_lt _ (by omega)
    have : ∀ i, i < 26 → hasNl [Char.ofNat ('a'.toNat + i), '.'] = false := by decide
    exact this _ h26

theorem labelAt_enumerate (T : PTables) (st : PState) (g : ItemGen) (gs : List ItemGen)
    (h : g.style = .enumerate) : labelAt T st (g :: gs) = true := by
  simp only [labelAt, itemLabel, h]
  exact labOk_enumLabel T st _ _

open PlainMacro (braceKey braceAt_of_key)

/-- the conditions on the tables: no special sequence is a backslash followed by a letter
    (`specialsNoCW` of Proofs/PlainUnknown.lean), `{` and `}` are scanned as such -/
def tablesOk (T : PTables) : Bool :=
  specialsNoCW T.toTables && braceKey T.toTables '{' && braceKey T.toTables '}'

/-- an environment name: not empty, inert characters, not `verbatim`, declared as a list environment -/
def nameOkS (T : PTables) (st : PState) (name : Str) : Bool :=
  !name.isEmpty && name.all (inertChar T st) && name != "verbatim".toList && listEnvAt st name

/-- text of inert characters; good environment names; behind `\item`: white space with at most one
    line break, then nothing or a visible character other than `[` (and no letter directly behind
    `\item`); every `\item` finds a good label -/
def segsOkSimple (T : PTables) (st : PState) : List ItemGen → List Seg → Bool
  | _, [] => true
  | stk, .txt s :: rest => s.all (inertChar T st) && segsOkSimple T st stk rest
  | stk, .beg name :: rest => nameOkS T st name && segsOkSimple T st (begStk st stk name) rest
  | stk, .item ws :: rest =>
    ws.all isSpace && decide (countNl ws < 2) &&
    (ws ++ render rest).head?.all (fun d => !macroChar d) &&
    (render rest).head?.all (fun d => !isSpace d && d != '[') &&
    labelAt T st stk && segsOkSimple T st (itemStk stk) rest
  | stk, .en name :: rest => nameOkS T st name && segsOkSimple T st (endStk stk) rest

/-- a name without `}` in front of `}` spells `verbatim}` only if it is `verbatim` -/
theorem startsWith_close : ∀ (a p R : Str), '}' ∉ a → '}' ∉ p →
    startsWith (a ++ '}' :: R) (p ++ ['}']) = true → a = p
  | [], [], _, _, _, _ => rfl
  | [], d :: ps, R, _, hp, h => by
    simp only [List.nil_append, List.cons_append, startsWith, Bool.and_eq_true, beq_iff_eq] at h
    exact absurd (h.1 ▸ List.mem_cons_self ..) hp
  | c :: as, [], R, ha, _, h => by
    simp only [List.nil_append, List.cons_append, startsWith, Bool.and_eq_true, beq_iff_eq] at h
    exact absurd (h.1 ▸ List.mem_cons_self ..) ha
  | c :: as, d :: ps, R, ha, hp, h => by
    simp only [List.cons_append, startsWith, Bool.and_eq_true, beq_iff_eq] at h
    rw [h.1, startsWith_close as ps R (fun m => ha (List.mem_cons_of_mem _ m))
      (fun m => hp (List.mem_cons_of_mem _ m)) h.2]

theorem inert_no_brace {T : PTables} {st : PState} {name : Str}
    (h : ∀ c ∈ name, inertChar T st c = true) : '}' ∉ name := by
  intro hm
  have := h _ hm
  simp [inertChar, structuralChar, show isSpace '}' = false by decide] at this

theorem noverb_of_name {T : PTables} {st : PState} {name : Str}
    (h : ∀ c ∈ name, inertChar T st c = true) (hv : name ≠ "verbatim".toList) (R : Str) :
    startsWith ('{' :: (name ++ '}' :: R)) sVerbatimArg = false := by
  cases hs : startsWith ('{' :: (name ++ '}' :: R)) sVerbatimArg with
  | false => rfl
  | true =>
    have e : sVerbatimArg = '{' :: ("verbatim".toList ++ ['}']) := by decide
    rw [e] at hs
    simp only [startsWith, beq_self_eq_true, Bool.true_and] at hs
    exact absurd (startsWith_close name _ R (inert_no_brace h) (by decide) hs) hv

theorem segsOk_of_simple (T : PTables) (st : PState) (ht : tablesOk T = true) :
    ∀ (segs : List Seg) (stk : List ItemGen), segsOkSimple T st stk segs = true →
      segsOk T st stk segs = true := by
  simp only [tablesOk, Bool.and_eq_true] at ht
  obtain ⟨⟨hs, hl⟩, hr⟩ := ht
  intro segs
  induction segs with
  | nil => intro _ _; rfl
  | cons sg rest ih =>
    intro stk h
    cases sg with
    | txt s =>
      simp only [segsOkSimple, Bool.and_eq_true] at h
      simp only [segsOk, Bool.and_eq_true]
      exact ⟨textOk_of_inertChar T st _ s h.1, ih stk h.2⟩
    | beg name =>
      simp only [segsOkSimple, nameOkS, Bool.and_eq_true, bne_iff_ne, ne_eq] at h
      obtain ⟨⟨⟨⟨hne, hin⟩, hv⟩, hle⟩, hrest⟩ := h
      simp only [segsOk, Bool.and_eq_true]
      refine ⟨?_, ih _ hrest⟩
      have hm : (matchSpecial T.toTables
          ('\\' :: (nBegin ++ '{' :: (name ++ '}' :: render rest)))).isNone = true := by
        rw [show '\\' :: (nBegin ++ '{' :: (name ++ '}' :: render rest))
          = '\\' :: 'b' :: (['e', 'g', 'i', 'n'] ++ '{' :: (name ++ '}' :: render rest)) from rfl,
          matchSpecial_cw_none T.toTables hs 'b' _ (by decide)]; rfl
      have hnv := noverb_of_name (List.all_eq_true.mp hin) hv (render rest)
      simp only [begOk, Bool.and_eq_true, Bool.not_eq_true']
      exact ⟨⟨⟨⟨⟨⟨hm, hnv⟩, braceAt_of_key T '{' hl _⟩, by simpa using hne⟩, hin⟩,
        braceAt_of_key T '}' hr _⟩, hle⟩
    | item ws =>
      simp only [segsOkSimple, Bool.and_eq_true] at h
      obtain ⟨⟨⟨⟨⟨h1, h2⟩, h3⟩, h4⟩, h5⟩, hrest⟩ := h
      simp only [segsOk, Bool.and_eq_true]
      refine ⟨⟨?_, h5⟩, ih _ hrest⟩
      have hm : (matchSpecial T.toTables ('\\' :: (nItem ++ (ws ++ render rest)))).isNone = true := by
        rw [show '\\' :: (nItem ++ (ws ++ render rest))
          = '\\' :: 'i' :: (['t', 'e', 'm'] ++ (ws ++ render rest)) from rfl,
          matchSpecial_cw_none T.toTables hs 'i' _ (by decide)]; rfl
      simp only [itemOk, Bool.and_eq_true]
      exact ⟨⟨⟨⟨hm, h1⟩, h2⟩, h3⟩, h4⟩
    | en name =>
      simp only [segsOkSimple, nameOkS, Bool.and_eq_true, bne_iff_ne, ne_eq] at h
      obtain ⟨⟨⟨⟨hne, hin⟩, _⟩, hle⟩, hrest⟩ := h
      simp only [segsOk, Bool.and_eq_true]
      refine ⟨?_, ih _ hrest⟩
      have hm : (matchSpecial T.toTables
          ('\\' :: (nEnd ++ '{' :: (name ++ '}' :: render rest)))).isNone = true := by
        rw [show '\\' :: (nEnd ++ '{' :: (name ++ '}' :: render rest))
          = '\\' :: 'e' :: (['n', 'd'] ++ '{' :: (name ++ '}' :: render rest)) from rfl,
          matchSpecial_cw_none T.toTables hs 'e' _ (by decide)]; rfl
      simp only [endOk, Bool.and_eq_true]
      exact ⟨⟨⟨⟨⟨hm, braceAt_of_key T '{' hl _⟩, hne⟩, hin⟩, braceAt_of_key T '}' hr _⟩, hle⟩

/-- an item `\item` + `ws` + `body` of the clean layout, per-character conditions: `ws` is white
    space with at most one line break; no letter directly behind `\item`; the text consists of
    inert characters, starts with a visible character other than `[` and ends with a line break -/
def itemOkS (T : PTables) (st : PState) (it : Str × Str) : Bool :=
  it.1.all isSpace && decide (countNl it.1 < 2) && (it.1 ++ it.2).head?.all (fun d => !macroChar d) &&
  it.2.all (inertChar T st) && lineBody it.2 && it.2.head? != some '['

theorem head?_append_ne {α} (a b : List α) (h : a ≠ []) : (a ++ b).head? = a.head? := by
  cases a with
  | nil => exact absurd rfl h
  | cons x xs => rfl

theorem segsOkSimple_items (T : PTables) (st : PState) (name : Str) (gs : List ItemGen)
    (tail : List Seg) : ∀ (its : List (Str × Str)) (k : Nat),
    (∀ it ∈ its, itemOkS T st it = true) →
    segsOkSimple T st (gen .enumerate name (k + its.length) :: gs) tail = true →
    segsOkSimple T st (gen .enumerate name k :: gs)
      (its.flatMap (fun it => [Seg.item it.1, Seg.txt it.2]) ++ tail) = true
  | [], k, _, ht => by simpa using ht
  | it :: rest, k, h, ht => by
    have hit := h it (List.mem_cons_self ..)
    simp only [itemOkS, Bool.and_eq_true, bne_iff_ne, ne_eq] at hit
    obtain ⟨⟨⟨⟨⟨h1, h2⟩, h3⟩, h4⟩, h5⟩, h6⟩ := hit
    obtain ⟨c, cs, hbody, hc⟩ := lineBody_split h5
    have hne : it.2 ≠ [] := by rw [hbody]; simp
    have e1 : itemStk (gen .enumerate name k :: gs) = gen .enumerate name (k + 1) :: gs := rfl
    have ih := segsOkSimple_items T st name gs tail rest (k + 1)
      (fun x hx => h x (List.mem_cons_of_mem _ hx))
      (by rwa [show k + 1 + rest.length = k + (rest.length + 1) by omega])
    simp only [List.flatMap_cons, List.cons_append, List.nil_append, segsOkSimple, render, Seg.render,
      Bool.and_eq_true, e1]
    refine ⟨⟨⟨⟨⟨h1, h2⟩, ?_⟩, ?_⟩, labelAt_enumerate T st _ _ rfl⟩, h4, ih⟩
    · rw [← List.append_assoc, head?_append_ne _ _ (by simp [hne])]; exact h3
    · rw [head?_append_ne _ _ hne, hbody]
      simp only [List.head?_cons, Option.all_some, Bool.and_eq_true, Bool.not_eq_true', bne_iff_ne, ne_eq]
      refine ⟨hc, ?_⟩
      intro e
      apply h6
      rw [hbody, e]; rfl

/-- **`enumerate`, end to end, with per-character hypotheses** (no context-dependent condition):
    the tables scan braces as braces and have no special sequence "backslash + letter"
    (`tablesOk`); the empty string, the blank and the line break are no active characters of the
    language (no short macro has such a key); `name`
    is a non-empty string of inert characters other than `verbatim`, declared in `st1` as a list
    environment `env` with numbered items and without `add_pars`; `pre`, `post` and the item
    texts consist of inert characters (`inertChar` of Proofs/Plain.lean); clean layout (`pre` empty
    or ending with a line break, `itemOkS` for the items). -/
theorem tex2txt_enumerate_inert (T : PTables) (o : Options) (fs : FS) (thresh : Nat) (fuel : Nat)
    (st1 : PState) (env : MacroDef) (pre name : Str) (its : List (Str × Str)) (post : Str)
    (hdefs : o.defs = []) (hextr : o.extr = []) (hrepl : o.hasRepl = false) (hunkn : o.unkn = false)
    (hinit : initParser T fuel o (initialState T o false fs) = .ok ((), st1))
    (ht : tablesOk T = true) (ha : noEmptyActive T st1 = true)
    (hbk : (activeChars T st1).contains [' '] = false) (hnla : (activeChars T st1).contains [nl] = false)
    (henv : lookupEnv st1 name = some env) (hdecl : listEnvOk env = true)
    (hstyle : env.items = some .enumerate) (hpars : env.addPars = false)
    (hstack : st1.itemStack = [gen0])
    (hname : name ≠ [] ∧ name.all (inertChar T st1) = true ∧ name ≠ "verbatim".toList)
    (hpre : pre.all (inertChar T st1) = true) (hpre2 : pre = [] ∨ pre.getLast? = some nl)
    (hits : ∀ it ∈ its, itemOkS T st1 it = true) (hpost : post.all (inertChar T st1) = true)
    (hf : (render (listDoc pre name [nl] its (nl :: post))).length + 4 ≤ fuel) :
    ∃ r, tex2txt T fuel (render (listDoc pre name [nl] its (nl :: post))) o false thresh fs = .ok r ∧
      r.txt = pre ++ (itemsTxt (fun k => natToStr (k + 1) ++ ['.']) 0 its ++ post) ∧
      r.pos = (listOutPlain (fun k => natToStr (k + 1) ++ ['.']) pre name its post).map (·.2 + 1) ∧
      r.unknowns = [] ∧ r.diags = st1.diags ∧ r.parts = [] := by
  have hle : listEnvAt st1 name = true := by simp [listEnvAt, henv, hdecl]
  have hnm : nameOkS T st1 name = true := by
    simp only [nameOkS, Bool.and_eq_true, bne_iff_ne, ne_eq]
    exact ⟨⟨⟨by simpa using hname.1, hname.2.1⟩, hname.2.2⟩, hle⟩
  have hnl : inertChar T st1 nl = true := by
    simp only [inertChar, Bool.and_eq_true, Bool.not_eq_true']
    exact ⟨hnla, by simp [show isSpace nl = true by decide]⟩
  have hsimple : segsOkSimple T st1 [gen0] (listDoc pre name [nl] its (nl :: post)) = true := by
    have hstk : begStk st1 [gen0] name = [gen .enumerate name 0, gen0] := by
      rw [begStk_gen0 st1 name hname.1, styleOf_eq henv hstyle]
    have htail : segsOkSimple T st1 (gen .enumerate name (0 + its.length) :: [gen0])
        [Seg.en name, Seg.txt (nl :: post)] = true := by
      simp only [segsOkSimple, hnm, List.all_cons, hnl, hpost, Bool.and_self]
    have hitems := segsOkSimple_items T st1 name [gen0] _ its 0 hits htail
    simp only [listDoc, segsOkSimple, hpre, hnm, hstk, List.all_cons, List.all_nil, hnl,
      Bool.and_self, Bool.true_and]
    exact hitems
  have hok : SegsOk T st1 (listDoc pre name [nl] its (nl :: post)) :=
    ⟨ha, hbk, by rw [hstack]; exact segsOk_of_simple T st1 ht _ _ hsimple⟩
  have hb : ∀ it ∈ its, lineBody it.2 = true := by
    intro it hit
    have := hits it hit
    simp only [itemOkS, Bool.and_eq_true] at this
    exact this.1.2
  obtain ⟨r, h1, h2, h3, h4, h5, h6⟩ := tex2txt_enumerate T o fs thresh fuel st1 env pre name its post
    hdefs hextr hrepl hunkn hinit henv hstyle hpars hstack hok hpre2 hb hf
  rw [listOutPlain_txt] at h2
  exact ⟨r, h1, h2, h3, h4, h5, h6⟩

/-! ### the hypotheses can be met -/

namespace ItemExample
open PlainExample

def envEnum : MacroDef :=
  { name := "enumerate".toList, args := [], repl := [], addPars := false, remove := false,
    items := some .enumerate, isEqu := false }
def envItemize : MacroDef :=
  { name := "itemize".toList, args := [], repl := [], addPars := false, remove := false,
    items := some .itemize, isEqu := false }
/-- a list environment *with* `add_pars` (none of the real tables is; `description`-like) -/
def envPars : MacroDef :=
  { name := "mylist".toList, args := [], repl := [], addPars := true, items := some .enumerate }

/-- the tiny tables of Proofs/Plain.lean with the declarations of `enumerate` and `itemize` of the
    real tables, and a visible default bullet (`item_default_label` is `['']` in the real tables) -/
def tinyL : PTables :=
  { tinyT with environmentDefs := [envEnum, envItemize, envPars], itemDefaultLabel := ["-".toList] }

/-- the state after `Parser.__init__`: the environments are declared -/
def stL : PState := { initialState tinyL oEn false [] with envs := [envEnum, envItemize, envPars] }

theorem initParser_tinyL : initParser tinyL 100 oEn (initialState tinyL oEn false []) = .ok ((), stL) := by
  with_unfolding_all rfl

def items2 : List (Str × Str) := [(" ".toList, "first point\n".toList), (" ".toList, "second point\n".toList)]

/-- `"Intro\n\\begin{enumerate}\n\\item first point\n\\item second point\n\\end{enumerate}\nOutro\n"` -/
def docEnum : List Seg := listDoc "Intro\n".toList "enumerate".toList [nl] items2 (nl :: "Outro\n".toList)

example : render docEnum
    = "Intro\n\\begin{enumerate}\n\\item first point\n\\item second point\n\\end{enumerate}\nOutro\n".toList := by
  decide

theorem docEnum_ok : SegsOk tinyL stL docEnum := by decide

example : ∃ r, tex2txt tinyL 100 (render docEnum) oEn false 0 [] = .ok r ∧
    r.txt = "Intro\n 1. first point\n 2. second point\nOutro\n".toList ∧
    r.pos = [1, 2, 3, 4, 5, 6, 25, 25, 25, 25] ++ (List.range 12).map (· + 31)
          ++ [43, 43, 43, 43] ++ (List.range 13).map (· + 49) ++ (List.range 6).map (· + 78) ∧
    r.unknowns = [] ∧ r.diags = [] := by
  obtain ⟨r, h1, h2, h3, h4, h5, _⟩ := tex2txt_enumerate tinyL oEn [] 0 100 stL envEnum "Intro\n".toList
    "enumerate".toList items2 "Outro\n".toList rfl rfl rfl rfl initParser_tinyL rfl rfl rfl rfl
    docEnum_ok (by decide) (by decide) (by decide)
  refine ⟨r, h1, ?_, ?_, h4, h5⟩
  · rw [h2]; decide
  · rw [h3]; decide

/-- the parser state: `itemStack` is the initial singleton again -/
example : ∃ r, parse tinyL 100 (render docEnum) [] [] stL
    = .ok (r, { stL with extracted := [], unknowns := [], foreign := false, nest := 0 }) :=
  (parse_list_doc tinyL 100 stL envEnum .enumerate "Intro\n".toList "enumerate".toList items2
    "Outro\n".toList rfl rfl rfl docEnum_ok (by decide) (by decide) (by decide)).imp fun _ h => h.1

/-- `itemize`: the bullet of `item_default_label` -/
def docItemize : List Seg := listDoc [] "itemize".toList [nl] items2 (nl :: "Outro".toList)

example : ∃ r, tex2txt tinyL 100 (render docItemize) oEn false 0 [] = .ok r ∧
    r.txt = " - first point\n - second point\nOutro".toList ∧ r.unknowns = [] ∧ r.diags = [] := by
  obtain ⟨r, h1, h2, _, h4, h5, _⟩ := tex2txt_itemize tinyL oEn [] 0 100 stL envItemize []
    "itemize".toList items2 "Outro".toList rfl rfl rfl rfl initParser_tinyL rfl rfl rfl rfl
    (by decide) (by decide) (by decide) (by decide)
  refine ⟨r, h1, ?_, h4, h5⟩
  rw [h2]; decide

/-- an environment with `add_pars`: paragraph breaks in place of the `\begin` / `\end` lines -/
def docPars : List Seg := listDoc "A\n".toList "mylist".toList [nl] [(" ".toList, "x\n".toList)] (nl :: "B".toList)

example : ∃ r, tex2txt tinyL 100 (render docPars) oEn false 0 [] = .ok r ∧
    r.txt = "A\n\n\n 1. x\n\n\n\nB".toList ∧ r.pos = [1, 2, 3, 3, 18, 18, 18, 18, 24, 25, 26, 26, 38, 39] := by
  obtain ⟨r, h1, h2, h3, _, _, _⟩ := tex2txt_list tinyL oEn [] 0 100 stL envPars .enumerate "A\n".toList
    "mylist".toList [(" ".toList, "x\n".toList)] "B".toList rfl rfl rfl rfl initParser_tinyL rfl rfl rfl
    (by decide) (by decide) (by decide) (by decide)
  refine ⟨r, h1, ?_, ?_⟩
  · rw [h2]; decide
  · rw [h3]; decide

/-- the general form covers nesting, several lists, items outside a list (bullet of the bottom
    generator) and white space with a line break behind `\item` -/
def docNested : List Seg :=
  [.beg "enumerate".toList, .txt "\n".toList, .item " ".toList, .txt "a\n".toList,
   .beg "enumerate".toList, .txt "\n".toList, .item "\n  ".toList, .txt "b\n".toList,
   .en "enumerate".toList, .txt "\n".toList, .item " ".toList, .txt "c\n".toList,
   .en "enumerate".toList, .txt "\n".toList, .item [], .txt "(d)".toList]

example : ∃ r, tex2txt tinyL 200 (render docNested) oEn false 0 [] = .ok r ∧
    r.txt = " 1. a\n a. b\n 2. c\n - (d)".toList ∧ r.unknowns = [] := by
  obtain ⟨r, h1, h2, _, h4, _, _⟩ := tex2txt_lists tinyL oEn [] 0 docNested 200 stL rfl rfl rfl rfl
    (by with_unfolding_all rfl) (by decide) (by decide)
  refine ⟨r, h1, ?_, h4⟩
  rw [h2]; decide

/-- the side conditions reject what they should: a label `[..]`, a paragraph break behind `\item`,
    `\begin{verbatim}`, an undeclared environment, an `\item` that meets no generator label -/
example : segsOk tinyL stL [gen0] [.item " ".toList, .txt "[x] a".toList] = false := by decide
example : segsOk tinyL stL [gen0] [.item "\n\n".toList, .txt "a".toList] = false := by decide
example : segsOk tinyL stL [gen0] [.beg "verbatim".toList, .txt "a".toList] = false := by decide
example : segsOk tinyL stL [gen0] [.beg "center".toList, .txt "a".toList] = false := by decide
example : segsOk { tinyL with itemDefaultLabel := [] } stL [gen0] [.item " ".toList, .txt "a".toList] = false := by
  decide

/-- the per-character form applies as well -/
example : ∃ r, tex2txt tinyL 100 (render docEnum) oEn false 0 [] = .ok r ∧
    r.txt = "Intro\n 1. first point\n 2. second point\nOutro\n".toList := by
  obtain ⟨r, h1, h2, _⟩ := tex2txt_enumerate_inert tinyL oEn [] 0 100 stL envEnum "Intro\n".toList
    "enumerate".toList items2 "Outro\n".toList rfl rfl rfl rfl initParser_tinyL (by decide) (by decide)
    (by decide) (by decide) rfl (by decide) rfl rfl rfl (by decide) (by decide) (by decide) (by decide)
    (by decide) (by decide)
  exact ⟨r, h1, by rw [h2]; decide⟩

/-
  Recorded `#eval`s.

  * tiny tables: `tex2txt tinyL 100 (render docEnum) oEn false 0 []` gives the text
    `"Intro\n 1. first point\n 2. second point\nOutro\n"`, positions
    `[1..6, 25 ×4, 31..42, 43 ×4, 49..61, 78..83]`, no unknowns, no diagnostics.
    `parserWork tinyL f (render docEnum) stL` succeeds from `f = 60` on (the theorem asks for 87).
  * real tables (`import YalafiVerif.Generated.Init`, `T := Generated.theTables`, default options,
    `st1 := Generated.stDefault`, `Generated.initParser_default`): `tablesOk T`, `noEmptyActive T st1`
    are `true`, blank and line break are not active, `stDefault.itemStack = [gen0]`,
    `lookupEnv st1 "enumerate"` and `"itemize"` satisfy `listEnvOk` and have `addPars = false`;
    `T.itemDefaultLabel = [""]` (the bullet is EMPTY).  `SegsOk T st1` holds for `docEnum`,
    `docItemize`, `docNested`, `segsOkSimple T st1 [gen0] docEnum = true`, and
    `tex2txt T 2000 (render docEnum) {} false 0 []` gives the text and positions above
    (= `listOutPlain (fun k => natToStr (k+1) ++ ".") …`);
    `docItemize` gives `"  first point\n  second point\nOutro"` (two blanks per item: the empty
    bullet), positions `[17, 17, 23..34, 35, 35, 41..53, 68..72]` = `listOutPlain (fun _ => "") …`;
    `docNested` gives `" 1. a\n a. b\n 2. c\n  (d)"` = `delLines (segMarks …)`.
  * why the clean layout is needed for the explicit form (real tables):
    `"\begin{itemize}\n\item \n\end{itemize}\nx"` gives `"x"` (the line of the empty item is a pure
    Action line); `"a\n  \begin{itemize}\n  \item x\n  \end{itemize}\nb"` gives `"a\n    x\nb"`
    (the indented `\begin` / `\end` lines vanish with their indentation).  Both are instances of
    the general form `tex2txt_lists`.
-/

end ItemExample

end PlainItem
end Yalafi
