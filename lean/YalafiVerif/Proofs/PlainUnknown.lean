/-
  Proofs/PlainUnknown.lean — C19 "the unknowns list names exactly the undeclared macros that are
  used, each once, in order of first use", end to end on the model, for documents that consist of
  inert text (as in Proofs/Plain.lean) and undeclared control words `\name`.

  `Seg`, `render`, `controlWords`  : the documents
  `segsOk T st segs`               : well-formedness (computable; all side conditions)
  `OkSrc T st src names`           : the same on the source text (what the proofs use)
  `scanSteps_unk`, `scan_unk`      : the scanner yields plain tokens and one macro token per control word
  `seq_unk`                        : `expandSequence` on such a buffer
  `parserWork_unk`, `parse_unk`    : the lifts
  `tex2txt_unknowns_complete`      : the end-to-end statement
-/
import YalafiVerif.Proofs.Plain
namespace Yalafi

open M

/-! ### the documents -/

/-- a segment of the source: a run of text, or a control word `\name` -/
inductive Seg where
  | txt (s : Str)
  | cw (name : Str)
deriving Repr, DecidableEq

def Seg.render : Seg → Str
  | .txt s => s
  | .cw name => '\\' :: name

/-- the source text -/
def render : List Seg → Str
  | [] => []
  | s :: rest => s.render ++ render rest

/-- the control words of the document, with backslash, in order of occurrence -/
def controlWords : List Seg → List Str
  | [] => []
  | .txt _ :: rest => controlWords rest
  | .cw name :: rest => ('\\' :: name) :: controlWords rest

/-! ### the side conditions -/

/-- the text of the first scanner token of a well-formed source: a run of white space,
    a control word, or one character -/
def firstTokTxtM : Str → Str
  | [] => []
  | d :: ds =>
    if isSpace d then (d :: ds).takeWhile isSpace
    else if d == '\\' then d :: ds.takeWhile macroChar
    else [d]

/-- the text character `c`, followed by `cs` (the *whole* rest of the source), is inert;
    this is `inertAt` of Proofs/Plain.lean, except that the token behind `c` may be a control word:
    * `c` is not an active character of the current language settings, or it is no white space
      and does not form a short macro with the token behind it (or nothing is behind it), and
    * it is white space, or an ordinary character at which no special sequence matches -/
def okAt (T : PTables) (st : PState) (c : Char) (cs : Str) : Bool :=
  (!(activeChars T st).contains [c] ||
    (!isSpace c && (cs.isEmpty || !(shortKeys T st).contains (c :: firstTokTxtM cs)))) &&
  (isSpace c || (!structuralChar c && (matchSpecial T.toTables (c :: cs)).isNone))

/-- the text `s`, followed by `R`, is inert -/
def textOk (T : PTables) (st : PState) : Str → Str → Bool
  | [], _ => true
  | c :: cs, R => okAt T st c (cs ++ R) && textOk T st cs R

def sDef : Str := "\\def".toList

/-- the control word `\name`, followed by `R` (the whole rest of the source), is one macro token of
    the scanner and an undeclared macro for the expander:
    * the name is a non-empty string of macro characters (ASCII letters and `@`:
      `Parameters.macro_character`) and the text behind it does not continue it
      (`\fooBar` is one control word);
    * no special sequence of the tables matches at the backslash (`next_token` tests this first);
    * it is none of `\begin \end \item \verb`, for which `scan_macro` builds other tokens,
      no accent macro, and not `\def`, which `expand_sequence` handles itself;
    * it is not declared (`st` is the state after `Parser.__init__`). -/
def cwOk (T : PTables) (st : PState) (name R : Str) : Bool :=
  !name.isEmpty && name.all macroChar && R.head?.all (fun d => !macroChar d) &&
  (matchSpecial T.toTables ('\\' :: (name ++ R))).isNone &&
  ('\\' :: name) != sBegin && ('\\' :: name) != sEnd && ('\\' :: name) != sItem &&
  ('\\' :: name) != sVerb && !T.toTables.isAccent ('\\' :: name) && ('\\' :: name) != sDef &&
  (lookupMacro st ('\\' :: name)).isNone

/-- well-formed documents: every segment is fine in front of the rendering of the following ones -/
def segsOk (T : PTables) (st : PState) : List Seg → Bool
  | [] => true
  | .txt s :: rest => textOk T st s (render rest) && segsOk T st rest
  | .cw name :: rest => cwOk T st name (render rest) && segsOk T st rest

/-- the empty string is no "active character" (no short macro has an empty key); otherwise
    `expand_sequence` would send the (empty) Action token left by an unknown macro to
    `expand_short_macro` -/
def noEmptyActive (T : PTables) (st : PState) : Bool := !(activeChars T st).contains []

/-- `SegsOk` as a proposition -/
def SegsOk (T : PTables) (st : PState) (segs : List Seg) : Prop :=
  noEmptyActive T st = true ∧ segsOk T st segs = true

instance (T : PTables) (st : PState) (segs : List Seg) : Decidable (SegsOk T st segs) := by
  unfold SegsOk; infer_instance

/-- the characters of a text that starts at source position `p`, each with its position -/
def posText (p : Nat) : Str → List (Char × Nat)
  | [] => []
  | c :: cs => (c, p) :: posText (p + 1) cs

/-- the characters of the text segments of a document that starts at position `p`, each with
    its source position -/
def textSegs (p : Nat) : List Seg → List (Char × Nat)
  | [] => []
  | .txt s :: rest => posText p s ++ textSegs (p + s.length) rest
  | .cw name :: rest => textSegs (p + (name.length + 1)) rest

/-- the text segments, concatenated -/
def textOf : List Seg → Str
  | [] => []
  | .txt s :: rest => s ++ textOf rest
  | .cw _ :: rest => textOf rest

theorem posText_fst : ∀ (p : Nat) (s : Str), (posText p s).map (·.1) = s
  | _, [] => rfl
  | p, c :: cs => by simp [posText, posText_fst (p + 1) cs]

theorem posText_snd : ∀ (p : Nat) (s : Str), (posText p s).map (·.2) = List.range' p s.length
  | _, [] => rfl
  | p, c :: cs => by simp [posText, posText_snd (p + 1) cs, List.range'_succ]

theorem posText_append : ∀ (p : Nat) (a b : Str), posText p (a ++ b) = posText p a ++ posText (p + a.length) b
  | _, [], _ => rfl
  | p, c :: cs, b => by
    simp only [List.cons_append, posText, posText_append (p + 1) cs b, List.length_cons]
    rw [show p + 1 + cs.length = p + (cs.length + 1) by omega]

theorem textSegs_fst : ∀ (p : Nat) (segs : List Seg), (textSegs p segs).map (·.1) = textOf segs
  | _, [] => rfl
  | p, .txt s :: rest => by simp [textSegs, textOf, posText_fst, textSegs_fst _ rest]
  | p, .cw _ :: rest => by simp [textSegs, textOf, textSegs_fst _ rest]

/-- the same on the source text (which starts at position `p`), with the list of control words
    and the characters of the text with their positions -/
inductive OkSrc (T : PTables) (st : PState) : Nat → Str → List Str → List (Char × Nat) → Prop
  | nil (p : Nat) : OkSrc T st p [] [] []
  | chr (p : Nat) (c : Char) (cs : Str) (names : List Str) (vs : List (Char × Nat)) :
      okAt T st c cs = true → OkSrc T st (p + 1) cs names vs →
      OkSrc T st p (c :: cs) names ((c, p) :: vs)
  | cw (p : Nat) (name R : Str) (names : List Str) (vs : List (Char × Nat)) :
      cwOk T st name R = true → OkSrc T st (p + (name.length + 1)) R names vs →
      OkSrc T st p ('\\' :: (name ++ R)) (('\\' :: name) :: names) vs

theorem OkSrc_text (T : PTables) (st : PState) (R : Str) (names : List Str) (vs : List (Char × Nat)) :
    ∀ (s : Str) (p : Nat), OkSrc T st (p + s.length) R names vs → textOk T st s R = true →
      OkSrc T st p (s ++ R) names (posText p s ++ vs)
  | [], _, hR, _ => hR
  | c :: cs, p, hR, h => by
    simp only [textOk, Bool.and_eq_true] at h
    have hR' : OkSrc T st (p + 1 + cs.length) R names vs := by
      have e : p + 1 + cs.length = p + (c :: cs).length := by simp; omega
      rw [e]; exact hR
    exact OkSrc.chr p c (cs ++ R) names _ h.1 (OkSrc_text T st R names vs cs (p + 1) hR' h.2)

theorem OkSrc_of_segsOk (T : PTables) (st : PState) :
    ∀ (segs : List Seg) (p : Nat), segsOk T st segs = true →
      OkSrc T st p (render segs) (controlWords segs) (textSegs p segs)
  | [], p, _ => .nil p
  | .txt s :: rest, p, h => by
    simp only [segsOk, Bool.and_eq_true] at h
    exact OkSrc_text T st _ _ _ s p (OkSrc_of_segsOk T st rest _ h.2) h.1
  | .cw name :: rest, p, h => by
    simp only [segsOk, Bool.and_eq_true] at h
    exact .cw p name (render rest) _ _ h.1 (OkSrc_of_segsOk T st rest _ h.2)

/-- the conditions depend on the state only through the language stack and the macro table -/
theorem OkSrc.congr {T : PTables} {st st' : PState} (hl : st'.langStack = st.langStack)
    (hm : st'.macros = st.macros) {p : Nat} {s : Str} {names : List Str} {vs : List (Char × Nat)}
    (h : OkSrc T st p s names vs) : OkSrc T st' p s names vs := by
  induction h with
  | nil p => exact .nil p
  | chr p c cs names vs hat _ ih =>
    refine .chr p c cs names vs ?_ ih
    rw [← hat]
    simp only [okAt, activeChars_congr T st st' hl, shortKeys_congr T st st' hl]
  | cw p name R names vs hcw _ ih =>
    refine .cw p name R names vs ?_ ih
    rw [← hcw]
    simp only [cwOk, lookupMacro, hm]

/-- white space in front can be dropped -/
theorem OkSrc_drop_space (T : PTables) (st : PState) (names : List Str) :
    ∀ (k : Nat) (p : Nat) (s : Str) (vs : List (Char × Nat)), k ≤ s.length → OkSrc T st p s names vs →
      (∀ x ∈ s.take k, isSpace x = true) →
      ∃ vs', vs = posText p (s.take k) ++ vs' ∧ OkSrc T st (p + k) (s.drop k) names vs'
  | 0, _, _, vs, _, h, _ => ⟨vs, rfl, h⟩
  | k + 1, _, [], _, hk, _, _ => by simp at hk
  | k + 1, p, c :: cs, _, hk, h, hsp => by
    have hc : isSpace c = true := hsp c (by simp)
    cases h with
    | chr _ _ _ _ vs0 _ h2 =>
      obtain ⟨vs', e, h3⟩ := OkSrc_drop_space T st names k (p + 1) cs vs0 (by simpa using hk) h2
        (fun x hx => hsp x (by simp [hx]))
      refine ⟨vs', by simp [posText, e], ?_⟩
      have e : p + (k + 1) = p + 1 + k := by omega
      rw [e]; exact h3
    | cw _ name R names' _ _ _ => exact absurd hc (by decide)

/-! ### one scanner step -/

theorem okAt_snd {T : PTables} {st : PState} {c : Char} {cs : Str} (h : okAt T st c cs = true) :
    isSpace c = true ∨ (structuralChar c = false ∧ matchSpecial T.toTables (c :: cs) = none) := by
  simp only [okAt, Bool.and_eq_true, Bool.or_eq_true] at h
  rcases h.2 with h | ⟨h1, h2⟩
  · exact Or.inl h
  · refine Or.inr ⟨by simpa using h1, ?_⟩
    cases hx : matchSpecial T.toTables (c :: cs) with
    | none => rfl
    | some _ => rw [hx] at h2; simp at h2

/-- `nextToken_plain` of Proofs/Plain.lean needs only the second half of `inertAt` -/
theorem nextToken_text (T : PTables) (src : Str) (pos : Nat) (c : Char) (cs : Str)
    (hc : isSpace c = true ∨ (structuralChar c = false ∧ matchSpecial T.toTables (c :: cs) = none)) :
    PlainStep pos (c :: cs) (nextToken T.toTables src pos (c :: cs)) ∧
    (isSpace c = false → (nextToken T.toTables src pos (c :: cs)).len = 1 ∧
      (nextToken T.toTables src pos (c :: cs)).tok.kind = .text) := by
  unfold nextToken
  by_cases hsp : isSpace c = true
  · simp only [hsp, if_true]
    have hne : (c :: cs).takeWhile isSpace = c :: cs.takeWhile isSpace := by
      simp [hsp]
    refine ⟨⟨rfl, rfl, ?_, ?_, ?_, rfl, rfl, ?_, ?_⟩, fun h0 => by simp at h0⟩
    · simp [scanSpace, hne]
    · exact ScannerAux.length_takeWhile_le' _ _
    · refine plainTok_of_head _ c (cs.takeWhile isSpace) ?_ ?_ (structuralChar_of_isSpace c hsp)
      · simp only [scanSpace]; exact hne
      · simp only [scanSpace]; split
        · exact Or.inr (Or.inl rfl)
        · exact Or.inr (Or.inr rfl)
    · simp only [scanSpace]
      exact (ScannerAux.take_length_takeWhile _ _).symm
    · simp only [scanSpace, firstTokTxt, hsp, if_true]
  · rcases hc with hc | ⟨hst, hm'⟩
    · exact absurd hc hsp
    · have hst' := hst
      simp only [structuralChar, Bool.or_eq_false_iff, beq_eq_false_iff_ne] at hst'
      obtain ⟨⟨⟨⟨⟨h1, h2⟩, h3⟩, _⟩, _⟩, _⟩ := hst'
      simp only [hsp, Bool.false_eq_true, if_false, beq_iff_eq, h1, h2, h3, hm']
      refine ⟨⟨rfl, rfl, Nat.le_refl _, by simp, ?_, rfl, rfl, by simp, ?_⟩, by simp⟩
      · exact plainTok_of_head _ c [] rfl (Or.inl rfl) hst
      · simp only [firstTokTxt, hsp, Bool.false_eq_true, if_false]

theorem takeWhile_append_stop {α} (p : α → Bool) (a b : List α) (ha : a.all p = true)
    (hb : b.head?.all (fun d => !p d) = true) : (a ++ b).takeWhile p = a := by
  induction a with
  | nil =>
    cases b with
    | nil => rfl
    | cons d ds =>
      have : p d = false := by simpa using hb
      simp [this]
  | cons x xs ih =>
    simp only [List.all_cons, Bool.and_eq_true] at ha
    simp [ha.1, ih ha.2]

/-- what `cwOk` says, as propositions -/
structure CwFacts (T : PTables) (st : PState) (name R : Str) : Prop where
  ne : name ≠ []
  tw : (name ++ R).takeWhile macroChar = name
  special : matchSpecial T.toTables ('\\' :: (name ++ R)) = none
  nBegin : ('\\' :: name) ≠ sBegin
  nEnd : ('\\' :: name) ≠ sEnd
  nItem : ('\\' :: name) ≠ sItem
  nVerb : ('\\' :: name) ≠ sVerb
  nAccent : T.toTables.isAccent ('\\' :: name) = false
  nDef : ('\\' :: name) ≠ sDef
  undecl : lookupMacro st ('\\' :: name) = none

theorem cwFacts {T : PTables} {st : PState} {name R : Str} (h : cwOk T st name R = true) :
    CwFacts T st name R := by
  simp only [cwOk, Bool.and_eq_true, bne_iff_ne, ne_eq, Bool.not_eq_true', Option.isNone_iff_eq_none] at h
  obtain ⟨⟨⟨⟨⟨⟨⟨⟨⟨⟨h1, h2⟩, h3⟩, h4⟩, h5⟩, h6⟩, h7⟩, h8⟩, h9⟩, h10⟩, h11⟩ := h
  exact ⟨by simpa using h1, takeWhile_append_stop _ _ _ h2 h3, h4, h5, h6, h7, h8, h9, h10, h11⟩

/-- the macro token of a control word -/
def cwTok (pos : Nat) (name : Str) : Tok := { kind := .xmacro, pos := pos, txt := '\\' :: name }

/-- the scanner turns a well-formed control word into one macro token -/
theorem nextToken_cw (T : PTables) (st : PState) (src : Str) (pos : Nat) (name R : Str)
    (h : CwFacts T st name R) :
    nextToken T.toTables src pos ('\\' :: (name ++ R))
      = { tok := cwTok pos name, len := name.length + 1 } := by
  obtain ⟨k, hk⟩ : ∃ k, name.length = k + 1 :=
    ⟨name.length - 1, by have := List.length_pos_iff.mpr h.ne; omega⟩
  have hlen : macroLen ('\\' :: (name ++ R)) = name.length + 1 := by
    simp only [macroLen, List.tail_cons, h.tw, hk]
    simp; omega
  have htake : ('\\' :: (name ++ R)).take (name.length + 1) = '\\' :: name := by
    simp
  have e1 : (('\\' :: name) == sBegin) = false := beq_eq_false_iff_ne.mpr h.nBegin
  have e2 : (('\\' :: name) == sEnd) = false := beq_eq_false_iff_ne.mpr h.nEnd
  have e3 : (('\\' :: name) == sItem) = false := beq_eq_false_iff_ne.mpr h.nItem
  have e4 : (('\\' :: name) == sVerb) = false := beq_eq_false_iff_ne.mpr h.nVerb
  unfold nextToken
  simp only [show isSpace '\\' = false by decide, Bool.false_eq_true, if_false,
    show ('\\' == '%') = false by decide, show ('\\' == '#') = false by decide, h.special,
    beq_self_eq_true, if_true, scanMacro, hlen, htake, e1, e2, e3, e4, h.nAccent, cwTok]

/-! ### the token buffers -/

/-- the token of an undeclared macro that `expandSequence` hands to `expandMacro` -/
structure CwTokOk (st : PState) (t : Tok) : Prop where
  kind : t.kind = .xmacro
  nDef : txtIs t "\\def" = false
  undecl : lookupMacro st t.txt = none

/-- a buffer of plain tokens (copied by `expandSequence`) and tokens of undeclared macros -/
def UnkSeq (T : PTables) (st : PState) : List Tok → Prop
  | [] => True
  | t :: rest => ((PlainTok t ∧ PassTok T st t rest) ∨ CwTokOk st t) ∧ UnkSeq T st rest

def isMacroTok (t : Tok) : Bool := t.kind == .xmacro

/-- the texts of the macro tokens -/
def macroNames (toks : List Tok) : List Str := (toks.filter isMacroTok).map (·.txt)

/-- the other tokens -/
def textToks (toks : List Tok) : List Tok := toks.filter (fun t => !isMacroTok t)

/-- iterations of `expandSequence`: two for a macro token (the second one for the Action token
    that replaces it), one for every other token -/
def cost : List Tok → Nat
  | [] => 0
  | t :: ts => (if isMacroTok t then 2 else 1) + cost ts

theorem PlainTok.notMacro {t : Tok} (h : PlainTok t) : isMacroTok t = false := by
  unfold isMacroTok
  rcases h.kind with hk | hk | hk <;> simp [hk]

theorem cwTokOk_cwTok {T : PTables} {st : PState} {name R : Str} (h : CwFacts T st name R) (pos : Nat) :
    CwTokOk st (cwTok pos name) :=
  ⟨rfl, by simpa [txtIs, cwTok, sDef] using h.nDef, h.undecl⟩

theorem mem_takeWhile_imp {α} (p : α → Bool) : ∀ (l : List α) (x : α), x ∈ l.takeWhile p → p x = true
  | [], _, h => by simp at h
  | a :: l, x, h => by
    rw [List.takeWhile_cons] at h
    split at h
    · rcases List.mem_cons.mp h with rfl | h
      · assumption
      · exact mem_takeWhile_imp p l x h
    · simp at h

theorem firstTokTxtM_of_text (c : Char) (cs : Str) (h : isSpace c = true ∨ structuralChar c = false) :
    firstTokTxtM (c :: cs) = firstTokTxt (c :: cs) := by
  unfold firstTokTxtM firstTokTxt
  by_cases hsp : isSpace c = true
  · simp [hsp]
  · rcases h with h | h
    · exact absurd h hsp
    · have : c ≠ '\\' := by
        intro e; subst e; exact absurd h (by decide)
      simp [hsp, this]

/-- the scanner loop on a well-formed source: complete, no diagnostics, the buffer is one
    that `seq_unk` below handles, its macro tokens are the control words, it costs at most one
    iteration per character, and the other tokens spell the text, with the source positions -/
theorem scanSteps_unk (T : PTables) (st : PState) (src : Str) :
    ∀ (fuel pos : Nat) (rest : Str) (names : List Str) (vs : List (Char × Nat)),
    rest.length ≤ fuel → OkSrc T st pos rest names vs →
    (scanSteps T.toTables src fuel pos rest).2 = true ∧
    (∀ s ∈ (scanSteps T.toTables src fuel pos rest).1,
        s.diag = none ∧ s.extra = [] ∧ (isSpaceTok s.tok = true → isBlank s.tok.txt = true)) ∧
    UnkSeq T st ((scanSteps T.toTables src fuel pos rest).1.map (·.tok)) ∧
    (∀ s ss, (scanSteps T.toTables src fuel pos rest).1 = s :: ss → s.tok.txt = firstTokTxtM rest) ∧
    macroNames ((scanSteps T.toTables src fuel pos rest).1.map (·.tok)) = names ∧
    cost ((scanSteps T.toTables src fuel pos rest).1.map (·.tok)) ≤ rest.length ∧
    getTxtPos (textToks ((scanSteps T.toTables src fuel pos rest).1.map (·.tok)))
      = (vs.map (·.1), vs.map (·.2)) := by
  intro fuel
  induction fuel with
  | zero =>
    intro pos rest names vs hf hok
    cases rest with
    | nil => cases hok; simp [scanSteps, UnkSeq, macroNames, cost, textToks, getTxtPos]
    | cons c cs => simp at hf
  | succ fuel ih =>
    intro pos rest names vs hf hok
    cases rest with
    | nil => cases hok; simp [scanSteps, UnkSeq, macroNames, cost, textToks, getTxtPos]
    | cons c cs =>
      have hok0 := hok
      cases hok with
      | chr _ _ _ _ vs' hat hsub0 =>
        have hsnd := okAt_snd hat
        obtain ⟨hp, hone⟩ := nextToken_text T src pos c cs hsnd
        generalize hs : nextToken T.toTables src pos (c :: cs) = s at hp hone
        have h1 := hp.len_pos
        have h2 := hp.len_le
        -- the rest of the source
        have hsub : ∃ vs1, (c, pos) :: vs' = posText pos ((c :: cs).take s.len) ++ vs1 ∧
            OkSrc T st (pos + s.len) ((c :: cs).drop s.len) names vs1 := by
          by_cases hsp : isSpace c = true
          · refine OkSrc_drop_space T st names s.len pos (c :: cs) _ h2 hok0 ?_
            intro x hx
            rw [← hp.txt, hp.first] at hx
            simp only [firstTokTxt, hsp, if_true] at hx
            exact mem_takeWhile_imp _ _ _ hx
          · have := (hone (by simpa using hsp)).1
            rw [this]
            exact ⟨vs', rfl, hsub0⟩
        obtain ⟨vs1, hvs1, hsub⟩ := hsub
        simp only [scanSteps, hs]
        rw [if_neg (by simp; omega)]
        have hl : ((c :: cs).drop s.len).length ≤ fuel := by
          simp only [List.length_drop]; simp only [List.length_cons] at hf h2 ⊢; omega
        obtain ⟨i1, i2, i3, i4, i5, i6, i7⟩ := ih (pos + s.len) ((c :: cs).drop s.len) names vs1 hl hsub
        have hnm : isMacroTok s.tok = false := hp.tok.notMacro
        refine ⟨i1, ?_, ?_, ?_, ?_, ?_, ?_⟩
        · intro x hx
          rcases List.mem_cons.mp hx with rfl | hx
          · refine ⟨hp.diag, hp.extra, ?_⟩
            intro hsk
            by_cases hsp : isSpace c = true
            · rw [hp.first]
              simp only [firstTokTxt, hsp, if_true, isBlank, List.all_eq_true]
              exact fun x hx => mem_takeWhile_imp _ _ _ hx
            · have := (hone (by simpa using hsp)).2
              simp [isSpaceTok, this] at hsk
          · exact i2 x hx
        · simp only [List.map_cons]
          refine ⟨Or.inl ⟨hp.tok, ?_⟩, i3⟩
          -- the short-macro branch
          have hact := hat
          simp only [okAt, Bool.and_eq_true, Bool.or_eq_true, Bool.not_eq_true'] at hact
          rcases hact.1 with hna | ⟨hns, hk⟩
          · left
            have : s.tok.txt = c :: (cs.take (s.len - 1)) := by
              rw [hp.txt]
              obtain ⟨k, hk⟩ : ∃ k, s.len = k + 1 := ⟨s.len - 1, by omega⟩
              rw [hk]; simp
            rw [this]
            exact not_active_cons T st c _ hna
          · right
            have hlen := (hone hns).1
            have htxt : s.tok.txt = [c] := by rw [hp.txt, hlen]; rfl
            rw [hlen] at i4 ⊢
            simp only [List.drop_succ_cons, List.drop_zero] at i4 ⊢
            cases hr : (scanSteps T.toTables src fuel (pos + 1) cs).1 with
            | nil => rfl
            | cons s2 ss =>
              simp only [List.map_cons]
              apply expandShortMacro_none
              rw [htxt, i4 s2 ss hr]
              rcases hk with hk | hk
              · cases cs with
                | nil => cases fuel <;> simp [scanSteps] at hr
                | cons => simp at hk
              · simpa using hk
        · intro s' ss' he
          simp only [List.cons.injEq] at he
          rw [← he.1, hp.first]
          refine (firstTokTxtM_of_text c cs ?_).symm
          rcases hsnd with h | h
          · exact Or.inl h
          · exact Or.inr h.1
        · simp only [List.map_cons, macroNames, List.filter_cons, hnm, Bool.false_eq_true, if_false]
          exact i5
        · simp only [List.map_cons, cost, hnm, Bool.false_eq_true, if_false]
          simp only [List.length_drop, List.length_cons] at i6 h2 ⊢
          omega
        · rw [hvs1]
          simp only [List.map_cons, textToks, List.filter_cons, hnm, Bool.not_false, if_true]
          simp only [textToks] at i7
          rw [getTxtPos_cons_plain _ _ hp.fix, i7, hp.pos, hp.txt]
          simp only [List.map_append, posText_fst, posText_snd]
      | cw _ name R names' _ hcw hsub =>
        have facts := cwFacts hcw
        have hdrop : ('\\' :: (name ++ R)).drop (name.length + 1) = R := by simp
        have hl : R.length ≤ fuel := by
          simp only [List.length_cons, List.length_append] at hf; omega
        simp only [scanSteps, nextToken_cw T st src pos name R facts]
        rw [if_neg (by simp)]
        simp only [hdrop]
        obtain ⟨i1, i2, i3, i4, i5, i6, i7⟩ := ih (pos + (name.length + 1)) R names' vs hl hsub
        have hm : isMacroTok (cwTok pos name) = true := rfl
        refine ⟨i1, ?_, ?_, ?_, ?_, ?_, ?_⟩
        · intro x hx
          rcases List.mem_cons.mp hx with rfl | hx
          · exact ⟨rfl, rfl, fun h => by simp [isSpaceTok, cwTok] at h⟩
          · exact i2 x hx
        · simp only [List.map_cons]
          exact ⟨Or.inr (cwTokOk_cwTok facts pos), i3⟩
        · intro s' ss' he
          simp only [List.cons.injEq] at he
          rw [← he.1]
          simp [firstTokTxtM, cwTok, facts.tw, show isSpace '\\' = false by decide]
        · simp only [List.map_cons, macroNames, List.filter_cons, hm, if_true]
          simp only [macroNames] at i5
          rw [i5]; rfl
        · have := List.length_pos_iff.mpr facts.ne
          simp only [List.map_cons, cost, hm, if_true, List.length_cons, List.length_append]
          omega
        · simp only [List.map_cons, textToks, List.filter_cons, hm, Bool.not_true, Bool.false_eq_true,
            if_false]
          exact i7

/-- `scan` on a well-formed source -/
theorem scan_unk (T : PTables) (st : PState) (src : Str) (names : List Str) (vs : List (Char × Nat))
    (h : OkSrc T st 0 src names vs) :
    (scan T.toTables src).diags = [] ∧
    UnkSeq T st (scan T.toTables src).toks ∧
    macroNames (scan T.toTables src).toks = names ∧
    cost (scan T.toTables src).toks ≤ src.length ∧
    getTxtPos (textToks (scan T.toTables src).toks) = (vs.map (·.1), vs.map (·.2)) ∧
    (∀ t ∈ (scan T.toTables src).toks, isSpaceTok t = true → isBlank t.txt = true) := by
  obtain ⟨_, b, c, _, d, e, f⟩ := scanSteps_unk T st src src.length 0 src names vs (Nat.le_refl _) h
  have he := flatten_tok_extra (scanSteps T.toTables src src.length 0 src).1 (fun s hs => (b s hs).2.1)
  have hd := flatten_diag_nil (scanSteps T.toTables src src.length 0 src).1 (fun s hs => (b s hs).1)
  simp only [scan]
  rw [he, hd]
  refine ⟨rfl, c, d, e, f, ?_⟩
  intro t ht
  obtain ⟨s, hs, rfl⟩ := List.mem_map.mp ht
  exact (b s hs).2.2

/-! ### `expandSequence` -/

/-- `addUnknown` on the list -/
def addU (u : List Str) (n : Str) : List Str := if u.contains n then u else u ++ [n]

/-- what `expandSequence` makes of the buffer before the blank-line removal: a macro token becomes
    an Action token and the space / comment / void tokens behind it are dropped, up to the next
    Action or Language token (`skip_space(stop_lang=True, stop_action=True)`;
    `skip` = directly behind a macro token) -/
def cwErase : Bool → List Tok → List Tok
  | _, [] => []
  | skip, t :: rest =>
    if isMacroTok t then mkAction t.pos :: cwErase true rest
    else if skip && (isSpaceTok t && !isLangK t && !(t.kind == .action)) then cwErase true rest
    else t :: cwErase false rest

theorem cwErase_true : ∀ toks : List Tok, cwErase true toks = cwErase false (skipSpaceStopLangAct toks)
  | [] => rfl
  | t :: rest => by
    by_cases hm : isMacroTok t = true
    · have hk : t.kind = .xmacro := by simpa [isMacroTok] using hm
      have hs : isSpaceTok t = false := by simp [isSpaceTok, hk]
      simp [cwErase, hm, skipSpaceStopLangAct, hs]
    · by_cases hd : (isSpaceTok t && !isLangK t && !(t.kind == .action)) = true
      · have ih := cwErase_true rest
        simp only [skipSpaceStopLangAct] at ih
        simp only [cwErase, hm, hd, skipSpaceStopLangAct, List.dropWhile_cons, Bool.and_self, if_true,
          Bool.false_eq_true, if_false]
        exact ih
      · simp only [cwErase, hm, hd, skipSpaceStopLangAct, List.dropWhile_cons, Bool.and_false,
          Bool.false_eq_true, if_false]

theorem UnkSeq.tail {T : PTables} {st : PState} {t : Tok} {rest : List Tok} (h : UnkSeq T st (t :: rest)) :
    UnkSeq T st rest := h.2

theorem UnkSeq.dropWhile {T : PTables} {st : PState} (p : Tok → Bool) :
    ∀ {toks : List Tok}, UnkSeq T st toks → UnkSeq T st (toks.dropWhile p)
  | [], h => h
  | t :: rest, h => by
    rw [List.dropWhile_cons]
    split
    · exact UnkSeq.dropWhile p h.2
    · exact h

theorem UnkSeq.congr {T : PTables} {st st' : PState} (hl : st'.langStack = st.langStack)
    (hm : st'.macros = st.macros) : ∀ {toks : List Tok}, UnkSeq T st toks → UnkSeq T st' toks
  | [], _ => trivial
  | t :: rest, hs => by
    refine ⟨?_, UnkSeq.congr hl hm hs.2⟩
    rcases hs.1 with ⟨h1, h2⟩ | h
    · left
      refine ⟨h1, ?_⟩
      unfold PassTok
      rw [activeChars_congr T st st' hl, expandShortMacro_congr T st st' hl]
      exact h2
    · right
      exact ⟨h.kind, h.nDef, by have := h.undecl; simpa [lookupMacro, hm] using this⟩

theorem cost_dropWhile (p : Tok → Bool) : ∀ toks : List Tok, cost (toks.dropWhile p) ≤ cost toks
  | [] => Nat.le_refl _
  | t :: rest => by
    rw [List.dropWhile_cons]
    split
    · have := cost_dropWhile p rest
      simp only [cost]; omega
    · exact Nat.le_refl _

theorem length_le_cost : ∀ toks : List Tok, toks.length ≤ cost toks
  | [] => Nat.le_refl _
  | t :: rest => by
    have := length_le_cost rest
    simp only [cost, List.length_cons]; split <;> omega

theorem macroNames_skip : ∀ toks : List Tok, macroNames (skipSpaceStopLangAct toks) = macroNames toks
  | [] => rfl
  | t :: rest => by
    simp only [skipSpaceStopLangAct, List.dropWhile_cons]
    split
    · rename_i h
      have hs : isSpaceTok t = true := by
        simp only [Bool.and_eq_true] at h; exact h.1.1
      have hm : isMacroTok t = false := by
        cases hk : t.kind <;> simp_all [isSpaceTok, isMacroTok]
      have := macroNames_skip rest
      simp only [skipSpaceStopLangAct] at this
      rw [this]
      simp [macroNames, hm]
    · rfl

/-- the Action token that replaces an unknown macro is copied -/
theorem seq_action_step (T : PTables) (fuel : Nat) (p : Nat) (rest : Buf) (envStop : Option Str)
    (out : List Tok) (st : PState) (ha : noEmptyActive T st = true) :
    expandSequence T (fuel + 1) (mkAction p :: rest) envStop out st
      = expandSequence T fuel rest envStop (out ++ [mkAction p]) st := by
  rw [expandSequence.eq_3]
  show M.bind' M.get _ st = _
  simp only [M.bind', M.get]
  have hc : (activeChars T st).contains (mkAction p).txt = false := by
    simpa [noEmptyActive, mkAction] using ha
  have n1 : txtIs (mkAction p) "$" = false := by simp [txtIs, mkAction]
  have n2 : txtIs (mkAction p) "\\(" = false := by simp [txtIs, mkAction]
  have n3 : txtIs (mkAction p) "$$" = false := by simp [txtIs, mkAction]
  have n4 : txtIs (mkAction p) "\\[" = false := by simp [txtIs, mkAction]
  have n5 : txtIs (mkAction p) "\\\\" = false := by simp [txtIs, mkAction]
  have n6 : txtIs (mkAction p) "{" = false := by simp [txtIs, mkAction]
  have n7 : txtIs (mkAction p) "}" = false := by simp [txtIs, mkAction]
  have hk : (mkAction p).kind = .action := rfl
  simp only [hk, n1, n2, n3, n4, n5, n6, n7, hc, Bool.or_self, Bool.false_eq_true, if_false,
    reduceCtorEq, beq_iff_eq]

theorem expandMacro_unknown (T : PTables) (fuel : Nat) (rest : Buf) (tok : Tok) (st : PState)
    (h : lookupMacro st tok.txt = none) :
    expandMacro T (fuel + 1) rest tok false st
      = .ok (([mkAction tok.pos], skipSpaceStopLangAct rest),
             { st with unknowns := addU st.unknowns tok.txt }) := by
  rw [expandMacro.eq_2]
  show M.bind' M.get _ st = _
  simp only [M.bind', M.get, h]
  show M.bind' (addUnknown tok.txt false) _ st = _
  simp only [M.bind', addUnknown, M.modify, Bool.false_or, addU]
  split <;> rfl

/-- an undeclared macro: two iterations, the name is recorded, the space behind it skipped -/
theorem seq_cw_step (T : PTables) (fuel : Nat) (tok : Tok) (rest : Buf) (envStop : Option Str)
    (out : List Tok) (st : PState) (h : CwTokOk st tok) (ha : noEmptyActive T st = true) :
    expandSequence T (fuel + 2) (tok :: rest) envStop out st
      = expandSequence T fuel (skipSpaceStopLangAct rest) envStop (out ++ [mkAction tok.pos])
          { st with unknowns := addU st.unknowns tok.txt } := by
  rw [expandSequence.eq_3]
  show M.bind' M.get _ st = _
  simp only [M.bind', M.get]
  simp only [h.kind, h.nDef, Bool.false_eq_true, if_false, if_true, reduceCtorEq, beq_iff_eq,
    beq_self_eq_true]
  refine (M.bind_ok _ _ _ _ _ (expandMacro_unknown T fuel rest tok st h.undecl)).trans ?_
  simp only [List.singleton_append]
  exact seq_action_step T fuel tok.pos _ envStop out _ (by
    have : activeChars T { st with unknowns := addU st.unknowns tok.txt } = activeChars T st :=
      activeChars_congr T st _ rfl
    simpa [noEmptyActive, this] using ha)

theorem noEmptyActive_congr (T : PTables) (st st' : PState) (h : st'.langStack = st.langStack) :
    noEmptyActive T st' = noEmptyActive T st := by
  unfold noEmptyActive
  rw [activeChars_congr T st st' h]

theorem seq_unk_nil (T : PTables) (envStop : Option Str) (fuel : Nat) (out : List Tok) (st : PState)
    (hf : 1 ≤ fuel) :
    expandSequence T fuel [] envStop out st
      = match removeLines (out ++ cwErase false []) with
        | some r => .ok ((r, []), { st with unknowns := (macroNames []).foldl addU st.unknowns })
        | none => .outOfFuel := by
  obtain ⟨f, rfl⟩ : ∃ f, fuel = f + 1 := ⟨fuel - 1, by omega⟩
  rw [expandSequence.eq_2]
  simp only [cwErase, List.append_nil, macroNames, List.filter_nil, List.map_nil, List.foldl_nil]
  cases removeLines out <;> rfl

/-- the loop on a buffer of plain tokens and undeclared macros: the output is the blank-line
    removal applied to `cwErase` of the buffer, the names of the macro tokens are recorded in
    order (each once), nothing else in the state changes -/
theorem seq_unk (T : PTables) (envStop : Option Str) :
    ∀ (n : Nat) (toks : List Tok), toks.length ≤ n → ∀ (fuel : Nat) (out : List Tok) (st : PState),
      cost toks + 1 ≤ fuel → UnkSeq T st toks → noEmptyActive T st = true →
      expandSequence T fuel toks envStop out st
        = match removeLines (out ++ cwErase false toks) with
          | some r => .ok ((r, []), { st with unknowns := (macroNames toks).foldl addU st.unknowns })
          | none => .outOfFuel := by
  intro n
  induction n with
  | zero =>
    intro toks hn fuel out st hf _ _
    cases toks with
    | nil => exact seq_unk_nil T envStop fuel out st (by omega)
    | cons => simp at hn
  | succ n ih =>
    intro toks hn fuel out st hf hseq ha
    cases toks with
    | nil => exact seq_unk_nil T envStop fuel out st (by omega)
    | cons t ts =>
      rcases hseq.1 with ⟨hp, hpass⟩ | hcw
      · -- a plain token
        have hm : isMacroTok t = false := hp.notMacro
        simp only [cost, hm, Bool.false_eq_true, if_false] at hf
        obtain ⟨f, rfl⟩ : ∃ f, fuel = f + 1 := ⟨fuel - 1, by omega⟩
        rw [seq_plain_step T f t ts envStop out st hp hpass]
        rw [ih ts (by simpa using hn) f (out ++ [t]) st (by omega) hseq.2 ha]
        simp only [cwErase, hm, Bool.false_eq_true, if_false, Bool.false_and, macroNames,
          List.filter_cons, List.append_assoc, List.singleton_append]
      · -- an undeclared macro
        have hm : isMacroTok t = true := by simp [isMacroTok, hcw.kind]
        simp only [cost, hm, if_true] at hf
        obtain ⟨f, rfl⟩ : ∃ f, fuel = f + 2 := ⟨fuel - 2, by omega⟩
        rw [seq_cw_step T f t ts envStop out st hcw ha]
        have hlen : (skipSpaceStopLangAct ts).length ≤ n := by
          have : (skipSpaceStopLangAct ts).length ≤ ts.length :=
            (List.dropWhile_sublist _).length_le
          simp only [List.length_cons] at hn; omega
        have hcost : cost (skipSpaceStopLangAct ts) + 1 ≤ f := by
          have := cost_dropWhile (fun t => isSpaceTok t && !isLangK t && !(t.kind == .action)) ts
          simp only [skipSpaceStopLangAct]; omega
        have hseq' : UnkSeq T { st with unknowns := addU st.unknowns t.txt } (skipSpaceStopLangAct ts) :=
          UnkSeq.congr (st := st) (st' := { st with unknowns := addU st.unknowns t.txt }) rfl rfl
            (UnkSeq.dropWhile (fun t => isSpaceTok t && !isLangK t && !(t.kind == .action)) hseq.2)
        rw [ih (skipSpaceStopLangAct ts) hlen f (out ++ [mkAction t.pos])
          { st with unknowns := addU st.unknowns t.txt } hcost hseq'
          ((noEmptyActive_congr T st _ rfl).trans ha), macroNames_skip]
        simp only [cwErase, hm, if_true, cwErase_true, macroNames, List.filter_cons,
          List.map_cons, List.foldl_cons, List.append_assoc, List.singleton_append]

/-! ### recording names = removing duplicates -/

theorem foldl_addU (names : List Str) : ∀ u : List Str,
    names.foldl addU u = u ++ (names.filter (fun n => !u.contains n)).eraseDups := by
  induction names with
  | nil => intro u; simp
  | cons n ns ih =>
    intro u
    rw [List.foldl_cons, ih]
    by_cases hc : u.contains n = true
    · simp only [addU, hc, if_true, List.filter_cons, Bool.not_true, Bool.false_eq_true, if_false]
    · have hc' : u.contains n = false := by simpa using hc
      simp only [addU, hc', Bool.false_eq_true, if_false, List.filter_cons, Bool.not_false, if_true,
        List.eraseDups_cons, List.append_assoc, List.singleton_append, List.filter_filter]
      congr 3
      apply List.filter_congr
      intro m _
      by_cases hmn : m = n <;> simp [hmn]

/-- names recorded one after the other into the empty list: `List.eraseDups` (first occurrences) -/
theorem foldl_addU_nil (names : List Str) : names.foldl addU [] = names.eraseDups := by
  rw [foldl_addU, List.filter_eq_self.mpr (by simp)]; simp

/-! ### `parserWork`, `parse` -/

theorem UnkSeq.kinds {T : PTables} {st : PState} : ∀ {toks : List Tok}, UnkSeq T st toks →
    ∀ t ∈ toks, (isMacroTok t = false → PlainTok t) ∧ t.kind ≠ .comment
  | [], _, _, h => nomatch h
  | _ :: _, hs, x, hx => by
    rcases List.mem_cons.mp hx with rfl | hx
    · rcases hs.1 with ⟨hp, _⟩ | hc
      · exact ⟨fun _ => hp, hp.notComment⟩
      · exact ⟨fun h => by simp [isMacroTok, hc.kind] at h, by simp [hc.kind]⟩
    · exact UnkSeq.kinds hs.2 x hx

/-- **C19 on `parserWork`.**  On a well-formed source `parserWork` returns the blank-line removal of
    `cwErase` of the scanner tokens; the control words are recorded in `unknowns` in order of first
    use; nothing else in the state changes (in particular no diagnostics). -/
theorem parserWork_unk (T : PTables) (st : PState) (src : Str) (fuel : Nat) (names : List Str)
    (vs : List (Char × Nat)) (hf : src.length + 2 ≤ fuel) (ha : noEmptyActive T st = true)
    (h : OkSrc T st 0 src names vs) :
    ∃ r, removeLines (cwErase false (scan T.toTables src).toks) = some r ∧
      parserWork T fuel src st = .ok (r, { st with unknowns := names.foldl addU st.unknowns }) := by
  obtain ⟨f, rfl⟩ : ∃ f, fuel = f + 1 := ⟨fuel - 1, by omega⟩
  obtain ⟨hd, hseq, hnames, hcost, _, _⟩ := scan_unk T st src names vs h
  obtain ⟨r, hr⟩ := Option.isSome_iff_exists.mp
    (removeLines_progress (cwErase false (scan T.toTables src).toks))
  refine ⟨r, hr, ?_⟩
  rw [parserWork.eq_2]
  refine (M.bind_ok _ _ _ _ _ (rfl : M.get st = _)).trans ?_
  refine (M.bind_ok _ _ _ _ _ (rfl : M.modify _ _ = _)).trans ?_
  refine (M.bind_ok _ _ _ _ _ (rfl : M.modify _ _ = _)).trans ?_
  refine (M.bind_ok _ _ _ _ _ (rfl : M.get _ = _)).trans ?_
  simp only [hd, List.append_nil]
  rw [skipPass_nocomment _ _ _ (fun t ht' => (hseq.kinds t ht').2)]
  simp only []
  refine (M.bind_ok _ _ _ _ _ (rfl : (pure _ : M (List Tok)) _ = _)).trans ?_
  have hseq' : UnkSeq T { st with latex := src, nest := st.nest + 1 } (scan T.toTables src).toks :=
    UnkSeq.congr (st := st) (st' := { st with latex := src, nest := st.nest + 1 }) rfl rfl hseq
  have hs := seq_unk T none _ (scan T.toTables src).toks (Nat.le_refl _) f []
    { st with latex := src, nest := st.nest + 1 } (by omega) hseq'
    ((noEmptyActive_congr T st _ rfl).trans ha)
  rw [List.nil_append, hr, hnames] at hs
  refine (M.bind_ok _ _ _ _ _ hs).trans ?_
  refine (M.bind_ok _ _ _ _ _ (rfl : M.modify _ _ = _)).trans ?_
  show Outcome.ok _ = _
  simp only [Nat.add_sub_cancel]

theorem parse_unk (T : PTables) (st : PState) (src : Str) (fuel : Nat) (names : List Str)
    (vs : List (Char × Nat)) (hf : src.length + 2 ≤ fuel) (ha : noEmptyActive T st = true)
    (h : OkSrc T st 0 src names vs) :
    ∃ r, removeLines (cwErase false (scan T.toTables src).toks) = some r ∧
      parse T fuel src [] [] st
        = .ok (r, { st with extracted := [], unknowns := names.eraseDups, foreign := false, nest := 0 }) := by
  have h' : OkSrc T { st with extracted := [], unknowns := [], foreign := false, nest := 0 } 0 src names vs :=
    OkSrc.congr (st := st)
      (st' := { st with extracted := [], unknowns := [], foreign := false, nest := 0 }) rfl rfl h
  obtain ⟨r, hr, hw⟩ := parserWork_unk T
    { st with extracted := [], unknowns := [], foreign := false, nest := 0 } src fuel names vs hf
    ((noEmptyActive_congr T st _ rfl).trans ha) h'
  refine ⟨r, hr, ?_⟩
  unfold parse
  simp only [List.isEmpty_nil, Bool.not_true, Bool.false_eq_true, if_false, if_true]
  refine (M.bind_ok _ _ _ _ _ (rfl : M.modify _ _ = _)).trans ?_
  refine (M.bind_ok _ _ _ _ _ (rfl : (pure _ : M (List Tok)) _ = _)).trans ?_
  refine (M.bind_ok _ _ _ _ _ (rfl : M.modify _ _ = _)).trans ?_
  refine (M.bind_ok _ _ _ _ _ hw).trans ?_
  refine (M.bind_ok _ _ _ _ _ (rfl : M.get _ = _)).trans ?_
  show Outcome.ok _ = _
  simp [foldl_addU_nil]

/-! ### the text of the result -/

theorem mem_cwErase : ∀ (toks : List Tok) (b : Bool) (t : Tok), t ∈ cwErase b toks →
    (∃ p, t = mkAction p) ∨ (t ∈ toks ∧ isMacroTok t = false)
  | [], _, _, h => by simp [cwErase] at h
  | x :: rest, b, t, h => by
    have lift : ((∃ p, t = mkAction p) ∨ (t ∈ rest ∧ isMacroTok t = false)) →
        ((∃ p, t = mkAction p) ∨ (t ∈ x :: rest ∧ isMacroTok t = false)) := by
      rintro (h | ⟨h1, h2⟩)
      · exact Or.inl h
      · exact Or.inr ⟨List.mem_cons_of_mem _ h1, h2⟩
    unfold cwErase at h
    split at h
    · rcases List.mem_cons.mp h with rfl | h
      · exact Or.inl ⟨_, rfl⟩
      · exact lift (mem_cwErase rest true t h)
    · rename_i hm
      split at h
      · exact lift (mem_cwErase rest true t h)
      · rcases List.mem_cons.mp h with rfl | h
        · exact Or.inr ⟨List.mem_cons_self .., by simpa using hm⟩
        · exact lift (mem_cwErase rest false t h)

theorem visTok_mkAction (p : Nat) : visTok (mkAction p) = [] := rfl

/-- `cwErase` keeps the visible characters of the non-macro tokens (with their positions) and
    deletes only white space -/
theorem cwErase_rel : ∀ (toks : List Tok), (∀ t ∈ toks, isSpaceTok t = true → isBlank t.txt = true) →
    ∀ b, Vis (cwErase b toks) = Vis (textToks toks) ∧
      List.Sublist (Txt (cwErase b toks)) (Txt (textToks toks))
  | [], _, _ => by simp [cwErase, textToks]
  | t :: rest, hb, b => by
    have ih := cwErase_rel rest (fun x hx => hb x (List.mem_cons_of_mem _ hx))
    unfold cwErase
    split
    · rename_i hm
      have e : textToks (t :: rest) = textToks rest := by simp [textToks, hm]
      rw [e, Vis_cons, Txt_cons, visTok_mkAction]
      exact ⟨(ih true).1, by simpa [mkAction] using (ih true).2⟩
    · rename_i hm
      have hm' : isMacroTok t = false := by simpa using hm
      have e : textToks (t :: rest) = t :: textToks rest := by simp [textToks, hm']
      rw [e, Vis_cons, Txt_cons]
      split
      · rename_i hd
        simp only [Bool.and_eq_true] at hd
        have hbl := hb t (List.mem_cons_self ..) hd.2.1.1
        rw [visTok_blank t hbl, List.nil_append]
        exact ⟨(ih true).1, List.sublist_append_of_sublist_right (ih true).2⟩
      · rw [Vis_cons, Txt_cons, (ih false).1]
        exact ⟨rfl, List.Sublist.append_left (ih false).2 _⟩

theorem nonBlankPairs_unzip (vs : List (Char × Nat)) :
    nonBlankPairs (vs.map (·.1), vs.map (·.2)) = vs.filter (fun cp => !isSpace cp.1) := by
  unfold nonBlankPairs
  congr 1
  induction vs with
  | nil => rfl
  | cons a l ih => simp [ih]

theorem nonBlankPairs_shift (txt : Str) (pos : List Nat) :
    nonBlankPairs (txt, pos.map (· + 1)) = (nonBlankPairs (txt, pos)).map (fun cp => (cp.1, cp.2 + 1)) := by
  unfold nonBlankPairs
  induction txt generalizing pos with
  | nil => simp
  | cons c cs ih =>
    cases pos with
    | nil => simp
    | cons q qs =>
      have := ih qs
      simp only [List.map_cons, List.zip_cons_cons, List.filter_cons] at this ⊢
      split <;> simp_all

/-- what the blank-line removal leaves of `cwErase` of the scanner tokens -/
theorem text_result (T : PTables) (st : PState) (toks r : List Tok) (vs : List (Char × Nat))
    (hseq : UnkSeq T st toks) (hb : ∀ t ∈ toks, isSpaceTok t = true → isBlank t.txt = true)
    (hg : getTxtPos (textToks toks) = (vs.map (·.1), vs.map (·.2)))
    (hr : removeLines (cwErase false toks) = some r) :
    nonBlankPairs (getTxtPos r) = vs.filter (fun cp => !isSpace cp.1) ∧
    List.Sublist (getTxtPos r).1 (vs.map (·.1)) := by
  have hc : ∀ t ∈ cwErase false toks, (isAction t = true ∨ isLang t = true) → t.txt = [] := by
    intro t ht hk
    rcases mem_cwErase toks false t ht with ⟨p, rfl⟩ | ⟨h1, h2⟩
    · rfl
    · have hp := (hseq.kinds t h1).1 h2
      have := hp.notAction
      rcases hk with hk | hk
      · rw [this] at hk; cases hk
      · rcases hp.kind with k | k | k <;> simp [isLang, k] at hk
  obtain ⟨m1, m2, _⟩ := removeLines_main _ r hc hr
  obtain ⟨c1, c2⟩ := cwErase_rel toks hb false
  constructor
  · show Vis r = _
    rw [m1, c1]
    show nonBlankPairs (getTxtPos (textToks toks)) = _
    rw [hg, nonBlankPairs_unzip]
  · have : Txt (textToks toks) = vs.map (·.1) := by
      show (getTxtPos (textToks toks)).1 = _
      rw [hg]
    rw [← this]
    exact m2.trans c2

/-! ### `tex2txt` -/

/-- the result record of `tex2txt` on a well-formed source (no `--defs`, `--extr`, `--repl`;
    single-language mode; with or without `--unkn`) -/
theorem tex2txt_unk_src (T : PTables) (o : Options) (fs : FS) (thresh : Nat) (src : Str) (fuel : Nat)
    (st1 : PState) (names : List Str) (vs : List (Char × Nat))
    (hdefs : o.defs = []) (hextr : o.extr = []) (hrepl : o.hasRepl = false)
    (hinit : initParser T fuel o (initialState T o false fs) = .ok ((), st1))
    (ha : noEmptyActive T st1 = true) (h : OkSrc T st1 0 src names vs) (hf : src.length + 2 ≤ fuel) :
    ∃ r, removeLines (cwErase false (scan T.toTables src).toks) = some r ∧
      tex2txt T fuel src o false thresh fs
        = .ok { toks := r,
                txt := if o.unkn then strJoin [nl] names.eraseDups ++ [nl] else (getTxtPos r).1,
                pos := if o.unkn then List.replicate (strJoin [nl] names.eraseDups ++ [nl]).length 1
                       else (getTxtPos r).2.map (· + 1),
                parts := [], unknowns := names.eraseDups, diags := st1.diags, foreign := false } := by
  obtain ⟨r, hr, hp⟩ := parse_unk T st1 src fuel names vs hf ha h
  refine ⟨r, hr, ?_⟩
  have hrun : (initParser T fuel o >>= fun _ => parse T fuel src o.defs
        (if o.extr.isEmpty then [] else (splitOn ',' o.extr []).map (fun s => '\\' :: s)))
        (initialState T o false fs)
      = .ok (r, { st1 with extracted := [], unknowns := names.eraseDups, foreign := false, nest := 0 }) := by
    refine (M.bind_ok _ _ _ _ _ hinit).trans ?_
    rw [hdefs, hextr]
    exact hp
  unfold tex2txt
  simp only []
  rw [hrun]
  cases hu : o.unkn <;>
    simp [hrepl, List.map_replicate]

/-- **C19, completeness and exactness end to end.**  The document is a sequence of inert text
    segments and undeclared control words (`SegsOk`, all side conditions are in `segsOk` and
    `noEmptyActive`); `st1` is the state after `Parser.__init__`; no `--defs`, `--extr`, `--repl`;
    single-language mode; `--unkn` given or not.  With one unit of fuel per source character plus
    two, `tex2txt` succeeds and

    * the unknowns list is the list of control words, each once, in order of first occurrence;
    * no diagnostic is added;
    * the result tokens are the blank-line removal of `cwErase` of the scanner tokens (every macro
      token replaced by an Action token, the space token behind it dropped);
    * with `--unkn` the output text is the list, one name per line;
    * without `--unkn` the output text is the text of the text segments with some white space
      deleted: it is a subsequence of their concatenation, and its non-white-space characters with
      their (1-based) positions are exactly the non-white-space characters of the text segments
      with their source positions. -/
theorem tex2txt_unknowns_complete (T : PTables) (o : Options) (fs : FS) (thresh : Nat)
    (segs : List Seg) (fuel : Nat) (st1 : PState)
    (hdefs : o.defs = []) (hextr : o.extr = []) (hrepl : o.hasRepl = false)
    (hinit : initParser T fuel o (initialState T o false fs) = .ok ((), st1))
    (hok : SegsOk T st1 segs) (hf : (render segs).length + 2 ≤ fuel) :
    ∃ r, tex2txt T fuel (render segs) o false thresh fs = .ok r ∧
      r.unknowns = (controlWords segs).eraseDups ∧
      r.diags = st1.diags ∧
      removeLines (cwErase false (scan T.toTables (render segs)).toks) = some r.toks ∧
      (o.unkn = true → r.txt = strJoin [nl] (controlWords segs).eraseDups ++ [nl]) ∧
      (o.unkn = false →
        r.txt = (getTxtPos r.toks).1 ∧ r.pos = (getTxtPos r.toks).2.map (· + 1) ∧
        List.Sublist r.txt (textOf segs) ∧
        nonBlankPairs (r.txt, r.pos)
          = ((textSegs 0 segs).filter (fun cp => !isSpace cp.1)).map (fun cp => (cp.1, cp.2 + 1))) := by
  have hsrc := OkSrc_of_segsOk T st1 segs 0 hok.2
  obtain ⟨r, hr, ht⟩ := tex2txt_unk_src T o fs thresh (render segs) fuel st1 _ _ hdefs hextr hrepl
    hinit hok.1 hsrc hf
  obtain ⟨_, hseq, _, _, hg, hb⟩ := scan_unk T st1 (render segs) _ _ hsrc
  obtain ⟨t1, t2⟩ := text_result T st1 _ r _ hseq hb hg hr
  refine ⟨_, ht, rfl, rfl, hr, fun hu => by simp [hu], fun hu => ?_⟩
  simp only [hu, Bool.false_eq_true, if_false]
  refine ⟨trivial, trivial, ?_, ?_⟩
  · rw [← textSegs_fst 0 segs]; exact t2
  · rw [nonBlankPairs_shift, ← t1]

/-! ### simpler sufficient conditions

  `segsOk` is context dependent (like `inertText`); the following per-character / per-name
  conditions imply it.  The only context that remains is the character behind a control word. -/

/-- no special sequence of the tables is empty, a lone backslash, or a backslash followed by a
    macro character (true for the tables of the repository: `\\`, `\,`, `\;` … are followed by
    non-letters) -/
def specialsNoCW (T : Tables) : Bool :=
  T.specialSorted.all (fun t => match t with
    | [] => false
    | [c] => c != '\\'
    | c :: d :: _ => c != '\\' || !macroChar d)

theorem matchSpecial_cw_none (T : Tables) (h : specialsNoCW T = true) (n : Char) (rest : Str)
    (hn : macroChar n = true) : matchSpecial T ('\\' :: n :: rest) = none := by
  unfold matchSpecial
  rw [List.find?_eq_none]
  intro t ht
  have := (List.all_eq_true.mp h) t ht
  match t, this with
  | [c], h1 =>
    have : c ≠ '\\' := by simpa using h1
    simp [startsWith, Ne.symm this]
  | c :: d :: ds, h1 =>
    simp only [Bool.or_eq_true, bne_iff_ne, ne_eq, Bool.not_eq_true'] at h1
    rcases h1 with h1 | h1
    · simp [startsWith, Ne.symm h1]
    · have : n ≠ d := by intro e; subst e; rw [hn] at h1; cases h1
      simp [startsWith, this]

/-- the conditions on the name alone -/
def cwNameOk (T : PTables) (st : PState) (name : Str) : Bool :=
  !name.isEmpty && name.all macroChar &&
  ('\\' :: name) != sBegin && ('\\' :: name) != sEnd && ('\\' :: name) != sItem &&
  ('\\' :: name) != sVerb && !T.toTables.isAccent ('\\' :: name) && ('\\' :: name) != sDef &&
  (lookupMacro st ('\\' :: name)).isNone

/-- text segments of inert characters (`inertChar` of Proofs/Plain.lean), control words with
    good names, and no macro character directly behind a control word -/
def segsOkSimple (T : PTables) (st : PState) : List Seg → Bool
  | [] => true
  | .txt s :: rest => s.all (inertChar T st) && segsOkSimple T st rest
  | .cw name :: rest =>
    cwNameOk T st name && (render rest).head?.all (fun d => !macroChar d) && segsOkSimple T st rest

theorem okAt_of_inertChar (T : PTables) (st : PState) (c : Char) (cs : Str)
    (h : inertChar T st c = true) : okAt T st c cs = true := by
  unfold inertChar at h
  unfold okAt
  simp only [Bool.and_eq_true, Bool.or_eq_true] at h ⊢
  refine ⟨Or.inl h.1, ?_⟩
  rcases h.2 with hs | ⟨h1, h2⟩
  · exact Or.inl hs
  · exact Or.inr ⟨h1, by rw [matchSpecial_none_of_startsNoSpecial _ _ _ h2]; rfl⟩

theorem textOk_of_inertChar (T : PTables) (st : PState) (R : Str) :
    ∀ s : Str, s.all (inertChar T st) = true → textOk T st s R = true
  | [], _ => rfl
  | c :: cs, h => by
    simp only [List.all_cons, Bool.and_eq_true] at h
    simp only [textOk, Bool.and_eq_true]
    exact ⟨okAt_of_inertChar T st c _ h.1, textOk_of_inertChar T st R cs h.2⟩

theorem segsOk_of_simple (T : PTables) (st : PState) (hs : specialsNoCW T.toTables = true) :
    ∀ segs : List Seg, segsOkSimple T st segs = true → segsOk T st segs = true
  | [], _ => rfl
  | .txt s :: rest, h => by
    simp only [segsOkSimple, Bool.and_eq_true] at h
    simp only [segsOk, Bool.and_eq_true]
    exact ⟨textOk_of_inertChar T st _ s h.1, segsOk_of_simple T st hs rest h.2⟩
  | .cw name :: rest, h => by
    simp only [segsOkSimple, Bool.and_eq_true] at h
    obtain ⟨⟨hn, hadj⟩, hrest⟩ := h
    simp only [segsOk, Bool.and_eq_true]
    refine ⟨?_, segsOk_of_simple T st hs rest hrest⟩
    simp only [cwNameOk, Bool.and_eq_true] at hn
    obtain ⟨⟨⟨⟨⟨⟨⟨⟨h1, h2⟩, h3⟩, h4⟩, h5⟩, h6⟩, h7⟩, h8⟩, h9⟩ := hn
    have hm : (matchSpecial T.toTables ('\\' :: (name ++ render rest))).isNone = true := by
      cases name with
      | nil => simp at h1
      | cons n ns =>
        simp only [List.all_cons, Bool.and_eq_true] at h2
        rw [List.cons_append, matchSpecial_cw_none T.toTables hs n _ h2.1]; rfl
    simp only [cwOk, Bool.and_eq_true]
    exact ⟨⟨⟨⟨⟨⟨⟨⟨⟨⟨h1, h2⟩, hadj⟩, hm⟩, h3⟩, h4⟩, h5⟩, h6⟩, h7⟩, h8⟩, h9⟩

/-! ### the hypotheses can be met -/

namespace UnknownExample
open PlainExample

/-- `"Hello \foo world \bar\foo, end."` -/
def segs : List Seg :=
  [.txt "Hello ".toList, .cw "foo".toList, .txt " world ".toList, .cw "bar".toList,
   .cw "foo".toList, .txt ", end.".toList]

example : render segs = "Hello \\foo world \\bar\\foo, end.".toList := by decide

/-- `Parser.__init__` succeeds with 40 units of fuel (on the tiny tables it leaves the initial
    state unchanged: nothing is declared) … -/
theorem initParser_tiny40 : initParser tinyT 40 oEn (initialState tinyT oEn false []) = .ok ((), stEn) := by
  with_unfolding_all rfl

/-- … the document is well-formed (31 characters, fuel 33 would do) … -/
theorem segs_ok : SegsOk tinyT stEn segs := by decide

example : segsOkSimple tinyT stEn segs = true := by decide
example : specialsNoCW tinyT.toTables = true := by decide

/-- … so the unknowns are `\foo`, `\bar`, in this order, each once, and nothing is reported. -/
example : ∃ r, tex2txt tinyT 40 (render segs) oEn false 0 [] = .ok r ∧
    r.unknowns = ["\\foo".toList, "\\bar".toList] ∧ r.diags = [] := by
  obtain ⟨r, h1, h2, h3, _⟩ := tex2txt_unknowns_complete tinyT oEn [] 0 segs 40 stEn rfl rfl rfl
    initParser_tiny40 segs_ok (by decide)
  exact ⟨r, h1, by rw [h2]; decide, h3⟩

/-- with `--unkn` the output is the list -/
example : ∃ r, tex2txt tinyT 40 (render segs) { oEn with unkn := true } false 0 [] = .ok r ∧
    r.txt = "\\foo\n\\bar\n".toList := by
  obtain ⟨r, h1, _, _, _, h5, _⟩ := tex2txt_unknowns_complete tinyT { oEn with unkn := true } [] 0 segs 40
    stEn rfl rfl rfl initParser_tiny40 segs_ok (by decide)
  exact ⟨r, h1, by rw [h5 rfl]; decide⟩

/-- the side conditions reject what they should: a letter directly behind a control word, the
    scanner's own macros, `\def` -/
example : segsOk tinyT stEn [.cw "foo".toList, .txt "Bar".toList] = false := by decide
example : segsOk tinyT stEn [.cw "foo".toList, .txt " Bar".toList] = true := by decide
example : segsOk tinyT stEn [.cw "begin".toList] = false := by decide
example : segsOk tinyT stEn [.cw "item".toList] = false := by decide
example : segsOk tinyT stEn [.cw "def".toList] = false := by decide
example : segsOk tinyT stEn [.cw "foo@bar".toList, .cw "x".toList] = true := by decide

/-
  Recorded `#eval`s.

  * tiny tables: `tex2txt tinyT 40 (render segs) oEn false 0 []` gives text `"Hello world , end."`,
    positions `[1..6, 12..17, 26..31]`, unknowns `[\foo, \bar]`, no diagnostics.
  * the fuel bound is tight: `parserWork tinyT 3 "\a" stEn = outOfFuel`, `parserWork tinyT 4 "\a" stEn`
    is `ok` with unknowns `[\a]`; `parserWork tinyT 4 "x\a" stEn = outOfFuel`, 5 is enough.
  * real tables (`import YalafiVerif.Generated.Tables`, `T := Generated.theTables`,
    `o := { lang := "en".toList }`, `initParser T 2000 o (initialState T o false []) = .ok ((), st1)`,
    60 macros declared): `noEmptyActive T st1`, `specialsNoCW T.toTables`, `segsOkSimple T st1 segs`
    and `SegsOk T st1 segs` evaluate to `true`; `tex2txt T 2000 (render segs) o false 0 []` gives the
    same text, positions and unknowns as above; with `unkn := true` the text is `"\foo\n\bar\n"`.
    A document that uses `\LaTeX` is rejected by `segsOk` (declared).
    `"Hello \foo world \bar\foo, end.\n\baz\n\nNext "` is well-formed and yields
    `"Hello world , end.\n\nNext "` with unknowns `[\foo, \bar, \baz]`: the blank-line removal
    deletes the line that held only `\baz` — the output text is a proper subsequence of the text
    segments (`"Hello  world , end.\n\n\nNext "`), which is why `tex2txt_unknowns_complete`
    characterises the text up to white space.
-/

end UnknownExample

end Yalafi
