/-
  Proofs/HtmlTextEsc.lean — the escaping functions of the HTML report (Model/HtmlText.lean).
  * `protectTitle_eq`: `protect_title` (= `protect_html`, then `str.replace('<br>\n', '&#10;')` as a scan over the
    string) is a character-wise map (`ptStep`); `protectTitle_safe`: its image has no `"`, `<`, `>`, line break.
  * `htmlEscape_safe`: the image of `html.escape` has no `"`, `'`, `<`, `>`.
  * `unprotect`, `unprotect_protectHtml`: reading the entities back gives the text with tabs as eight blanks.
-/
import YalafiVerif.Model.HtmlText
import YalafiVerif.Proofs.Shell
namespace Yalafi
namespace HtmlText
open Html

/-! ### escaping -/

/-- `protect_title` character by character -/
def ptStep (c : Char) : Str :=
    if c == '&' then "&amp;".toList
    else if c == '"' then "&quot;".toList
    else if c == '<' then "&lt;".toList
    else if c == '>' then "&gt;".toList
    else if c == '\t' then (List.replicate 8 "&ensp;".toList).flatten
    else if c == ' ' then "&ensp;".toList
    else if c == '\n' then "&#10;".toList
    else [c]

theorem replaceBr_cons_ne (c : Char) (t : Str) (h : c ≠ '<') : replaceBr (c :: t) = c :: replaceBr t := by
  rw [replaceBr]
  intro _ h2; exact absurd h2 h

theorem replaceBr_noLt (x t : Str) (h : ∀ c ∈ x, c ≠ '<') : replaceBr (x ++ t) = x ++ replaceBr t := by
  induction x with
  | nil => rfl
  | cons c cs ih =>
    simp only [List.cons_append]
    rw [replaceBr_cons_ne _ _ (h c (by simp)), ih (fun d hd => h d (by simp [hd]))]

theorem replaceBr_br (t : Str) : replaceBr (br ++ t) = "&#10;".toList ++ replaceBr t := by
  simp [br, replaceBr]

theorem phStep_noLt (c : Char) (hc : c ≠ '\n') : ∀ d ∈ phStep c, d ≠ '<' := by
  unfold phStep
  split; · decide
  split; · decide
  split; · decide
  split; · decide
  split; · decide
  split; · decide
  split; · rename_i h; simp only [beq_iff_eq] at h; exact absurd h hc
  rename_i h1 h2 h3 h4 h5 h6 h7; simp only [beq_iff_eq] at h3
  intro d hd; simp only [List.mem_singleton] at hd; subst hd; exact h3

theorem phStep_nl : phStep '\n' = br := by decide

theorem replaceBr_phStep (c : Char) (t : Str) : replaceBr (phStep c ++ t) = ptStep c ++ replaceBr t := by
  by_cases hc : c = '\n'
  · subst hc; rw [phStep_nl, replaceBr_br]; rfl
  · rw [replaceBr_noLt _ _ (phStep_noLt c hc)]
    congr 1
    unfold phStep ptStep
    have h : (c == '\n') = false := by simp [hc]
    simp only [h, Bool.false_eq_true, ↓reduceIte]

theorem protectTitle_eq (s : Str) : protectTitle s = s.flatMap ptStep := by
  unfold protectTitle
  rw [protectHtml_eq]
  induction s with
  | nil => rfl
  | cons c cs ih => simp only [List.flatMap_cons, replaceBr_phStep, ih]


theorem ptStep_safe (c : Char) : ∀ d ∈ ptStep c, d ≠ '"' ∧ d ≠ '<' ∧ d ≠ '>' ∧ d ≠ '\n' := by
  unfold ptStep
  split; · decide
  split; · decide
  split; · decide
  split; · decide
  split; · decide
  split; · decide
  split; · decide
  rename_i h1 h2 h3 h4 h5 h6 h7; simp only [beq_iff_eq] at h2 h3 h4 h7
  intro d hd; simp only [List.mem_singleton] at hd; subst hd; exact ⟨h2, h3, h4, h7⟩

/-- **the title attribute**: a `protect_title` image contains no double quote, no `<`, no `>` and no
    line break -/
theorem protectTitle_safe (s : Str) : ∀ d ∈ protectTitle s, d ≠ '"' ∧ d ≠ '<' ∧ d ≠ '>' ∧ d ≠ '\n' := by
  rw [protectTitle_eq]
  intro d hd
  simp only [List.mem_flatMap] at hd
  obtain ⟨c, _, hc⟩ := hd
  exact ptStep_safe c d hc

theorem protectTitle_append (a b : Str) : protectTitle (a ++ b) = protectTitle a ++ protectTitle b := by
  simp only [protectTitle_eq, List.flatMap_append]

/-- `html.escape` character by character -/
def heStep (c : Char) : Str :=
    if c == '&' then "&amp;".toList
    else if c == '<' then "&lt;".toList
    else if c == '>' then "&gt;".toList
    else if c == '"' then "&quot;".toList
    else if c == '\'' then "&#x27;".toList
    else [c]

theorem htmlEscape_eq (s : Str) : htmlEscape s = s.flatMap heStep := rfl

theorem heStep_safe (c : Char) : ∀ d ∈ heStep c, d ≠ '"' ∧ d ≠ '<' ∧ d ≠ '>' ∧ d ≠ '\'' := by
  unfold heStep
  split; · decide
  split; · decide
  split; · decide
  split; · decide
  split; · decide
  rename_i h1 h2 h3 h4 h5; simp only [beq_iff_eq] at h2 h3 h4 h5
  intro d hd; simp only [List.mem_singleton] at hd; subst hd; exact ⟨h4, h2, h3, h5⟩

/-- **the href attribute**: an `html.escape` image contains no quote of either kind, no `<`, no `>` -/
theorem htmlEscape_safe (s : Str) : ∀ d ∈ htmlEscape s, d ≠ '"' ∧ d ≠ '<' ∧ d ≠ '>' ∧ d ≠ '\'' := by
  rw [htmlEscape_eq]
  intro d hd
  simp only [List.mem_flatMap] at hd
  obtain ⟨c, _, hc⟩ := hd
  exact heStep_safe c d hc

/-! ### un-escaping -/

/-- what a browser shows for a protected text: the five entities `protect_html` writes, and `<br>` + line
    break as a line break -/
def unprotect : Str → Str
  | '&' :: 'a' :: 'm' :: 'p' :: ';' :: rest => '&' :: unprotect rest
  | '&' :: 'q' :: 'u' :: 'o' :: 't' :: ';' :: rest => '"' :: unprotect rest
  | '&' :: 'l' :: 't' :: ';' :: rest => '<' :: unprotect rest
  | '&' :: 'g' :: 't' :: ';' :: rest => '>' :: unprotect rest
  | '&' :: 'e' :: 'n' :: 's' :: 'p' :: ';' :: rest => ' ' :: unprotect rest
  | '<' :: 'b' :: 'r' :: '>' :: '\n' :: rest => '\n' :: unprotect rest
  | c :: rest => c :: unprotect rest
  | [] => []

/-- a tab becomes eight blanks (this is the only thing `protect_html` does not keep) -/
def untab (s : Str) : Str := s.flatMap (fun c => if c == '\t' then List.replicate 8 ' ' else [c])

theorem unprotect_cons_ne (c : Char) (t : Str) (h1 : c ≠ '&') (h2 : c ≠ '<') : unprotect (c :: t) = c :: unprotect t := by
  rw [unprotect]
  all_goals (intros; simp_all)

theorem unprotect_phStep (c : Char) (t : Str) :
    unprotect (phStep c ++ t) = (if c == '\t' then List.replicate 8 ' ' else [c]) ++ unprotect t := by
  unfold phStep
  split; · rename_i h; simp only [beq_iff_eq] at h; subst h; simp [unprotect]
  split; · rename_i h; simp only [beq_iff_eq] at h; subst h; simp [unprotect]
  split; · rename_i h; simp only [beq_iff_eq] at h; subst h; simp [unprotect]
  split; · rename_i h; simp only [beq_iff_eq] at h; subst h; simp [unprotect]
  split; · rename_i h; simp only [beq_iff_eq] at h; subst h; simp [unprotect, List.replicate]
  split; · rename_i h; simp only [beq_iff_eq] at h; subst h; simp [unprotect]
  split; · rename_i h; simp only [beq_iff_eq] at h; subst h; simp [unprotect]
  rename_i h1 h2 h3 h4 h5 h6 h7; simp only [beq_iff_eq] at h1 h3 h5
  simp only [List.cons_append, List.nil_append]
  exact unprotect_cons_ne c t h1 h3

/-- **(c)** un-escaping a protected text gives the text back, tabs as eight blanks -/
theorem unprotect_protectHtml (s : Str) : unprotect (protectHtml s) = untab s := by
  rw [protectHtml_eq]
  induction s with
  | nil => rfl
  | cons c cs ih => simp only [List.flatMap_cons, unprotect_phStep, ih, untab]

theorem untab_id (s : Str) (h : '\t' ∉ s) : untab s = s := by
  induction s with
  | nil => rfl
  | cons c cs ih =>
    simp only [List.mem_cons, not_or] at h
    have hc : (c == '\t') = false := by
      cases hb : (c == '\t') with
      | false => rfl
      | true => exact absurd (by simpa using hb : c = '\t').symm h.1
    have := ih h.2
    unfold untab at this ⊢
    rw [List.flatMap_cons, hc, this]; rfl

end HtmlText
end Yalafi
